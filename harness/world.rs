//! A whole client (light-client, filter and sync protocol handlers over one Storage / Peers) facing
//! synthetic chains whose blocks carry transactions: real transactions roots, real block filters and
//! filter hash chains, and an honest server for every request the client can send.
use std::collections::{BTreeMap, HashMap};
use std::sync::Arc;

use ckb_chain_spec::consensus::Consensus;
use ckb_network::{bytes::Bytes as P2pBytes, CKBProtocolHandler, PeerIndex, SupportProtocols};
use ckb_types::{
    bytes::Bytes,
    core::ScriptHashType,
    packed,
    prelude::*,
    utilities::{build_filter_data, calc_filter_hash, FilterDataProvider},
};

use super::chain::{EpochPlan, SynChain};
use super::ctx::{ban_code, drive, Ctx};
use super::prng::Rng;
use super::prover;
use crate::protocols::{FilterProtocol, LightClientProtocol, Peers, SyncProtocol};
use crate::storage::Storage;
use crate::tests::utils::new_storage;

pub(crate) fn pool_script(code: u8, args: &[u8]) -> packed::Script {
    packed::Script::new_builder().code_hash([code; 32].pack()).hash_type(ScriptHashType::Data.into()).args(Bytes::from(args.to_vec()).pack()).build()
}

/// generator of block bodies over a pool of scripts: spends of live outputs, multi-script and typed cells
#[derive(Clone)]
pub(crate) struct TxGen {
    pub pool: Vec<packed::Script>,
    pub live: Vec<(packed::Byte32, u32)>,
    pub salt: u64,
    pub quiet: u64, // 1 in `quiet` blocks touches pool scripts at all (the rest pay to a script outside the pool)
}

impl TxGen {
    pub(crate) fn new(pool: Vec<packed::Script>, salt: u64, quiet: u64) -> TxGen {
        TxGen { pool, live: Vec::new(), salt, quiet }
    }

    pub(crate) fn block_txs(&mut self, rng: &mut Rng, all: &mut HashMap<packed::Byte32, packed::Transaction>) -> Vec<packed::Transaction> {
        let outside = pool_script(9, &[9]);
        let busy = rng.chance(1, self.quiet);
        let mut txs = Vec::new();
        for _ in 0..(if busy { rng.range(1, 3) } else { 1 }) {
            let mut inputs: Vec<(packed::Byte32, u32)> = Vec::new();
            if busy {
                for _ in 0..rng.range(0, 2) {
                    if !self.live.is_empty() && rng.chance(3, 4) { let k = rng.below(self.live.len() as u64) as usize; inputs.push(self.live.remove(k)); }
                }
            }
            let n_out = if busy { rng.range(1, 3) } else { 1 };
            let outputs: Vec<packed::CellOutput> = (0..n_out).map(|_| {
                let lock = if busy { self.pool[rng.below(self.pool.len() as u64) as usize].clone() } else { outside.clone() };
                let ty: Option<packed::Script> = if busy && rng.chance(1, 3) { Some(self.pool[rng.below(self.pool.len() as u64) as usize].clone()) } else { None };
                packed::CellOutput::new_builder().capacity(100u64.pack()).lock(lock).type_(ty.pack()).build()
            }).collect();
            self.salt += 1;
            let p_inputs: Vec<packed::CellInput> = inputs.iter().map(|(h, i)| packed::CellInput::new(packed::OutPoint::new(h.clone(), *i), 0)).collect();
            let datas: Vec<packed::Bytes> = outputs.iter().map(|_| Bytes::new().pack()).collect();
            let raw = packed::RawTransaction::new_builder().version((self.salt as u32).pack()).inputs(p_inputs.pack()).outputs(outputs.pack()).outputs_data(datas.pack()).build();
            let tx = packed::Transaction::new_builder().raw(raw).build();
            let h = tx.calc_tx_hash();
            if busy { for oi in 0..n_out { if rng.chance(4, 5) { self.live.push((h.clone(), oi as u32)); } } }
            all.insert(h, tx.clone());
            txs.push(tx);
        }
        txs
    }
}

struct Provider<'a>(&'a HashMap<packed::Byte32, packed::Transaction>);
impl<'a> FilterDataProvider for Provider<'a> {
    fn cell(&self, out_point: &packed::OutPoint) -> Option<packed::CellOutput> {
        self.0.get(&out_point.tx_hash()).and_then(|tx| tx.raw().outputs().get(out_point.index().unpack()))
    }
}

/// a chain with bodies plus everything a filter-serving full node derives from it
pub(crate) struct BodyChain {
    pub chain: SynChain,
    pub all: HashMap<packed::Byte32, packed::Transaction>,
    pub filters: Vec<packed::Bytes>,
    pub fhashes: Vec<packed::Byte32>,
}

impl BodyChain {
    pub(crate) fn new(rng: &mut Rng, plan: Vec<EpochPlan>, len: u64, salt: u64, gen: &mut TxGen) -> BodyChain {
        let mut all = HashMap::new();
        let chain = SynChain::new_with_bodies(plan, len, salt, 0, &mut |_| gen.block_txs(rng, &mut all));
        let mut bc = BodyChain { chain, all, filters: Vec::new(), fhashes: Vec::new() };
        bc.derive();
        bc
    }

    pub(crate) fn fork(&self, rng: &mut Rng, at: u64, extra: u64, salt: u64, pool: Vec<packed::Script>, quiet: u64) -> BodyChain {
        // the generator state of the shared prefix: every output not spent up to the fork point
        let mut gen = TxGen::new(pool, salt * 1_000_000, quiet);
        for b in self.chain.bodies.iter().take(at as usize + 1) {
            for t in b {
                for i in t.raw().inputs().into_iter() { let k = (i.previous_output().tx_hash(), Unpack::<u32>::unpack(&i.previous_output().index())); gen.live.retain(|x| x != &k); }
                let h = t.calc_tx_hash();
                for oi in 0..t.raw().outputs().len() { gen.live.push((h.clone(), oi as u32)); }
            }
        }
        let mut all = self.all.clone();
        let chain = self.chain.fork_with(at, extra, salt, None, &mut |_| gen.block_txs(rng, &mut all));
        let mut bc = BodyChain { chain, all, filters: Vec::new(), fhashes: Vec::new() };
        bc.derive();
        bc
    }

    pub(crate) fn derive_pub(&mut self) { self.derive() }

    fn derive(&mut self) {
        let mut parent = packed::Byte32::zero();
        for b in &self.chain.bodies {
            let views: Vec<_> = b.iter().map(|t| t.clone().into_view()).collect();
            let (data, missing) = build_filter_data(Provider(&self.all), &views);
            assert!(missing.is_empty(), "generated block spends an unknown cell");
            let data: packed::Bytes = data.pack();
            let h: packed::Byte32 = calc_filter_hash(&parent, &data).pack();
            self.filters.push(data);
            self.fhashes.push(h.clone());
            parent = h;
        }
    }

    pub(crate) fn tip(&self) -> u64 { self.chain.tip() }

    /// does block `number` create or spend a cell carrying `script` (in either role)?
    pub(crate) fn touches(&self, number: u64, script: &packed::Script) -> bool {
        self.chain.bodies[number as usize].iter().any(|t| {
            t.raw().outputs().into_iter().any(|o| &o.lock() == script || o.type_().to_opt().as_ref() == Some(script))
                || t.raw().inputs().into_iter().any(|i| Provider(&self.all).cell(&i.previous_output()).map(|o| &o.lock() == script || o.type_().to_opt().as_ref() == Some(script)).unwrap_or(false))
        })
    }

    /// does block `number` create a cell carrying `script` in that role, or spend one?
    pub(crate) fn touches_role(&self, number: u64, script: &packed::Script, is_lock: bool) -> bool {
        let hit = |o: &packed::CellOutput| if is_lock { &o.lock() == script } else { o.type_().to_opt().as_ref() == Some(script) };
        self.chain.bodies[number as usize].iter().any(|t| {
            t.raw().outputs().into_iter().any(|o| hit(&o))
                || t.raw().inputs().into_iter().any(|i| Provider(&self.all).cell(&i.previous_output()).map(|o| hit(&o)).unwrap_or(false))
        })
    }

    /// ground truth: live cells (block, tx index, output index, tx hash) of `script` in role lock / type,
    /// counting only blocks after `from` as creators
    pub(crate) fn live_cells(&self, script: &packed::Script, is_lock: bool, from: u64, upto: u64) -> Vec<(u64, u32, u32, packed::Byte32)> {
        let mut live: BTreeMap<(Vec<u8>, u32), (u64, u32, u32, packed::Byte32)> = BTreeMap::new();
        for n in 0..=upto.min(self.tip()) {
            for (ti, t) in self.chain.bodies[n as usize].iter().enumerate() {
                for i in t.raw().inputs().into_iter() { live.remove(&(i.previous_output().tx_hash().as_slice().to_vec(), i.previous_output().index().unpack())); }
                if n > from {
                    let h = t.calc_tx_hash();
                    for (oi, o) in t.raw().outputs().into_iter().enumerate() {
                        let hit = if is_lock { &o.lock() == script } else { o.type_().to_opt().as_ref() == Some(script) };
                        if hit { live.insert((h.as_slice().to_vec(), oi as u32), (n, ti as u32, oi as u32, h.clone())); }
                    }
                }
            }
        }
        let mut v: Vec<_> = live.into_values().collect();
        v.sort_by(|a, b| (a.0, a.1, a.2).cmp(&(b.0, b.1, b.2)));
        v
    }
}

#[derive(Debug, Clone)]
pub(crate) enum Sent {
    GetLastState,
    GetLastStateProof(packed::GetLastStateProof),
    GetBlocksProof(packed::GetBlocksProof),
    GetTransactionsProof(packed::GetTransactionsProof),
    GetBlocks(Vec<packed::Byte32>),
    GetBlockFilters(u64),
    GetBlockFilterHashes(u64),
    GetBlockFilterCheckPoints(u64),
    Other(String),
}

#[derive(Debug, Clone, Default)]
pub(crate) struct Reaction {
    pub panicked: bool,
    pub bans: Vec<(PeerIndex, u64)>,
    pub disconnects: Vec<PeerIndex>,
    pub sent: Vec<(PeerIndex, Sent)>,
}

pub(crate) struct Net {
    pub storage: Storage,
    pub peers: Arc<Peers>,
    pub lc: LightClientProtocol,
    pub fp: FilterProtocol,
    pub sp: SyncProtocol,
    pub lnc: Ctx,
    pub fnc: Ctx,
    pub snc: Ctx,
    pub consensus: Consensus,
    pub genesis: packed::Block,
    pub interval: u64,
    pub last_n: u64,
    pub max_outbound: u32,
}

fn decode(proto: ckb_network::ProtocolId, data: &P2pBytes) -> Sent {
    if proto == SupportProtocols::LightClient.protocol_id() {
        match packed::LightClientMessage::from_slice(data).map(|m| m.to_enum()) {
            Ok(packed::LightClientMessageUnion::GetLastState(_)) => Sent::GetLastState,
            Ok(packed::LightClientMessageUnion::GetLastStateProof(r)) => Sent::GetLastStateProof(r),
            Ok(packed::LightClientMessageUnion::GetBlocksProof(r)) => Sent::GetBlocksProof(r),
            Ok(packed::LightClientMessageUnion::GetTransactionsProof(r)) => Sent::GetTransactionsProof(r),
            Ok(other) => Sent::Other(other.item_name().to_string()),
            Err(_) => Sent::Other("undecodable".into()),
        }
    } else if proto == SupportProtocols::Filter.protocol_id() {
        match packed::BlockFilterMessage::from_slice(data).map(|m| m.to_enum()) {
            Ok(packed::BlockFilterMessageUnion::GetBlockFilters(r)) => Sent::GetBlockFilters(r.start_number().unpack()),
            Ok(packed::BlockFilterMessageUnion::GetBlockFilterHashes(r)) => Sent::GetBlockFilterHashes(r.start_number().unpack()),
            Ok(packed::BlockFilterMessageUnion::GetBlockFilterCheckPoints(r)) => Sent::GetBlockFilterCheckPoints(r.start_number().unpack()),
            Ok(other) => Sent::Other(other.item_name().to_string()),
            Err(_) => Sent::Other("undecodable".into()),
        }
    } else if proto == SupportProtocols::Sync.protocol_id() {
        match packed::SyncMessage::from_slice(data).map(|m| m.to_enum()) {
            Ok(packed::SyncMessageUnion::GetBlocks(r)) => Sent::GetBlocks(r.block_hashes().into_iter().collect()),
            Ok(other) => Sent::Other(other.item_name().to_string()),
            Err(_) => Sent::Other("undecodable".into()),
        }
    } else {
        Sent::Other("other-protocol".into())
    }
}

impl Net {
    pub(crate) fn new(chain: &SynChain, consensus: &Consensus, last_n: u64, max_outbound: u32, interval: u64) -> Net {
        let storage = new_storage("verif-net");
        storage.init_genesis_block(chain.genesis_block());
        Self::over(storage, chain.genesis_block(), consensus, last_n, max_outbound, interval)
    }

    /// all in-memory state built from the store, as at process start
    pub(crate) fn over(storage: Storage, genesis: packed::Block, consensus: &Consensus, last_n: u64, max_outbound: u32, interval: u64) -> Net {
        storage.init_genesis_block(genesis.clone());
        let peers = Arc::new(Peers::new(max_outbound, interval, storage.get_last_check_point()));
        let mut lc = LightClientProtocol::new(storage.clone(), peers.clone(), consensus.clone());
        lc.set_mmr_activated_epoch(0);
        lc.set_last_n_blocks(last_n);
        let fp = FilterProtocol::new(storage.clone(), peers.clone());
        let sp = SyncProtocol::new(storage.clone(), peers.clone());
        Net {
            storage, peers, lc, fp, sp,
            lnc: Ctx::new(SupportProtocols::LightClient), fnc: Ctx::new(SupportProtocols::Filter), snc: Ctx::new(SupportProtocols::Sync),
            consensus: consensus.clone(), genesis, interval, last_n, max_outbound,
        }
    }

    pub(crate) fn restart(&mut self) {
        let n = Net::over(self.storage.clone(), self.genesis.clone(), &self.consensus, self.last_n, self.max_outbound, self.interval);
        *self = n;
    }

    fn collect(&self, panicked: bool) -> Reaction {
        if panicked && std::env::var("VERIF_DEBUG").is_ok() { eprintln!("DBG handler panicked: {}", super::last_panic()); }
        let mut r = Reaction { panicked, ..Default::default() };
        for c in [&self.lnc, &self.fnc, &self.snc] {
            for (p, reason) in c.take_banned() { if std::env::var("VERIF_DEBUG").is_ok() { eprintln!("DBG ban {} {}", p, &reason[..reason.len().min(200)]); } r.bans.push((p, ban_code(&reason))); }
            r.disconnects.extend(c.take_disconnected());
            for (proto, p, data) in c.take_sent() { r.sent.push((p, decode(proto, &data))); }
        }
        r
    }

    pub(crate) fn lc_connect(&mut self, peer: PeerIndex) -> Reaction {
        let r = drive(self.lc.connected(self.lnc.context(), peer, "2"));
        self.collect(r.is_err())
    }
    pub(crate) fn lc_disconnect(&mut self, peer: PeerIndex) -> Reaction {
        let r = drive(self.lc.disconnected(self.lnc.context(), peer));
        self.collect(r.is_err())
    }
    pub(crate) fn lc_recv(&mut self, peer: PeerIndex, data: P2pBytes) -> Reaction {
        let r = drive(self.lc.received(self.lnc.context(), peer, data));
        self.collect(r.is_err())
    }
    pub(crate) fn lc_tick(&mut self, token: u64) -> Reaction {
        let r = drive(self.lc.notify(self.lnc.context(), token));
        self.collect(r.is_err())
    }
    pub(crate) fn fp_recv(&mut self, peer: PeerIndex, data: P2pBytes) -> Reaction {
        let r = drive(self.fp.received(self.fnc.context(), peer, data));
        self.collect(r.is_err())
    }
    pub(crate) fn fp_tick(&mut self, token: u64) -> Reaction {
        let r = drive(self.fp.notify(self.fnc.context(), token));
        self.collect(r.is_err())
    }
    pub(crate) fn sp_recv(&mut self, peer: PeerIndex, data: P2pBytes) -> Reaction {
        let r = drive(self.sp.received(self.snc.context(), peer, data));
        self.collect(r.is_err())
    }

    /// the real handshake: connect, SendLastState(height), honest SendLastStateProof; true if the peer ends up proven at `height`
    pub(crate) fn prove_peer(&mut self, peer: PeerIndex, chain: &SynChain, height: u64) -> bool {
        if self.peers.get_state(&peer).is_none() { self.lc_connect(peer); }
        let r = self.lc_recv(peer, prover::last_state_message(chain, height).as_bytes());
        let mut pending: Vec<(PeerIndex, Sent)> = r.sent;
        if !pending.iter().any(|(_, s)| matches!(s, Sent::GetLastStateProof(_))) {
            // a newer last state of a known peer is proven at the next refresh tick
            pending.extend(self.lc_tick(crate::protocols::light_client::constant::REFRESH_PEERS_TOKEN).sent);
        }
        for _ in 0..3 {
            let mut next = Vec::new();
            for (p, s) in pending {
                if let Sent::GetLastStateProof(req) = s {
                    if p != peer { continue; }
                    if let Some(resp) = prover::respond(chain, &req) {
                        let msg = packed::LightClientMessage::new_builder().set(resp).build();
                        next.extend(self.lc_recv(peer, msg.as_bytes()).sent);
                    }
                }
            }
            pending = next;
            if pending.is_empty() { break; }
        }
        self.peers.get_state(&peer).and_then(|s| s.get_prove_state().map(|p| p.get_last_header().header().hash() == chain.headers[height as usize].hash())).unwrap_or(false)
    }
}

// ---------------------------------------------------------------------------------------------
// the honest server

pub(crate) fn serve_block_filters(bc: &BodyChain, start: u64, batch: u64) -> packed::BlockFilters {
    let end = (start + batch).min(bc.tip() + 1);
    let nums: Vec<u64> = if start > bc.tip() { vec![] } else { (start..end).collect() };
    packed::BlockFilters::new_builder()
        .start_number(start.pack())
        .block_hashes(nums.iter().map(|n| bc.chain.headers[*n as usize].hash()).collect::<Vec<_>>().pack())
        .filters(nums.iter().map(|n| bc.filters[*n as usize].clone()).collect::<Vec<_>>().pack())
        .build()
}

pub(crate) fn filters_message(content: packed::BlockFilters) -> P2pBytes {
    packed::BlockFilterMessage::new_builder().set(content).build().as_bytes()
}

pub(crate) fn serve_blocks_proof(chain: &SynChain, req: &packed::GetBlocksProof) -> Option<packed::SendBlocksProofV1> {
    let last = chain.number_of(&req.last_hash())?;
    let mut found: Vec<u64> = Vec::new();
    let mut missing: Vec<packed::Byte32> = Vec::new();
    for h in req.block_hashes().into_iter() {
        match chain.number_of(&h) { Some(n) if n < last => found.push(n), _ => missing.push(h) }
    }
    Some(packed::SendBlocksProofV1::new_builder()
        .last_header(chain.packed_vheader(last))
        .proof(chain.proof(last, &found))
        .headers(found.iter().map(|n| chain.headers[*n as usize].data()).collect::<Vec<_>>().pack())
        .missing_block_hashes(missing.pack())
        .blocks_uncles_hash(found.iter().map(|_| packed::Byte32::zero()).collect::<Vec<_>>().pack())
        .blocks_extension(packed::BytesOptVec::new_builder().set(found.iter().map(|n| Pack::pack(&chain.extension(*n))).collect()).build())
        .build())
}

/// the V1 table under the union item id of SendBlocksProof (5): the client reads it "compatibly"
/// what a server does when the requested last hash is not on its chain: it only reports its own last state
pub(crate) fn blocks_proof_new_tip(chain: &SynChain, height: u64) -> P2pBytes {
    let m = packed::SendBlocksProof::new_builder().last_header(chain.packed_vheader(height)).build();
    let mut v = 5u32.to_le_bytes().to_vec();
    v.extend_from_slice(m.as_slice());
    P2pBytes::from(v)
}

pub(crate) fn blocks_proof_message(content: packed::SendBlocksProofV1) -> P2pBytes {
    let mut v = 5u32.to_le_bytes().to_vec();
    v.extend_from_slice(content.as_slice());
    P2pBytes::from(v)
}

pub(crate) fn send_block_message(block: packed::Block) -> P2pBytes {
    let content = packed::SendBlock::new_builder().block(block).build();
    packed::SyncMessage::new_builder().set(content).build().as_bytes()
}
