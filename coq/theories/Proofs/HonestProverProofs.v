From Coq Require Import NArith Lia List Bool Nnat.
From LC Require Import HonestProver MatchingProofs.
Import ListNotations.
Open Scope N_scope.
Open Scope bool_scope.
Arguments N.add : simpl never.
Arguments N.sub : simpl never.
Arguments N.eqb : simpl never.
Arguments N.ltb : simpl never.
Arguments N.leb : simpl never.

Lemma range_length a n : length (range a n) = n.
Proof. unfold range. rewrite map_length, seq_length. reflexivity. Qed.

Lemma range_nth a n k : (k < n)%nat -> nth_error (range a n) k = Some (a + N.of_nat k).
Proof.
  intros H. unfold range. rewrite nth_error_map, nth_error_nth' with (d := 0%nat) by (rewrite seq_length; exact H).
  rewrite seq_nth by exact H. reflexivity.
Qed.

Lemma range_succ a n : range a (S n) = a :: range (a + 1) n.
Proof.
  unfold range. cbn [seq map]. rewrite N.add_0_r. f_equal.
  rewrite <- seq_shift, map_map. apply map_ext. intros k. rewrite Nat2N.inj_succ, <- N.add_1_l, N.add_assoc. reflexivity.
Qed.

Lemma range_app a n m : range a (n + m) = range a n ++ range (a + N.of_nat n) m.
Proof.
  revert a; induction n as [|n IH]; intros a.
  - cbn [Nat.add]. unfold range at 2. cbn [seq map app]. rewrite N.add_0_r. reflexivity.
  - cbn [Nat.add]. rewrite !range_succ, IH. cbn [app]. do 2 f_equal. rewrite Nat2N.inj_succ, <- N.add_1_l, N.add_assoc. reflexivity.
Qed.

Lemma hdr_num c i : h_num (hdr c i) = i. Proof. reflexivity. Qed.

Lemma unsorted_range c a n : unsorted (map (hdr c) (range a n)) = false.
Proof.
  revert a; induction n as [|n IH]; intros a; [reflexivity|].
  rewrite range_succ. cbn [map]. destruct n as [|n].
  - reflexivity.
  - rewrite range_succ in *. cbn [map unsorted] in *. rewrite hdr_num, hdr_num.
    destruct (N.leb_spec (a + 1) a); [lia|]. cbn [orb].
    specialize (IH (a + 1)). rewrite range_succ in IH. cbn [map] in IH. exact IH.
Qed.

Lemma count_while_range_below c a n start :
  a + N.of_nat n <= start ->
  forall rest, count_while (fun h => h_num h <? start) (map (hdr c) (range a n) ++ rest)
               = N.of_nat n + count_while (fun h => h_num h <? start) rest.
Proof.
  revert a; induction n as [|n IH]; intros a H rest.
  - cbn. lia.
  - rewrite range_succ. cbn [map app count_while]. rewrite hdr_num.
    destruct (N.ltb_spec a start); [|lia]. rewrite IH by lia. lia.
Qed.

Lemma count_while_range_above c a n start :
  start <= a -> count_while (fun h => h_num h <? start) (map (hdr c) (range a n)) = 0.
Proof.
  intros H. destruct n as [|n]; [reflexivity|]. rewrite range_succ. cbn [map count_while]. rewrite hdr_num.
  destruct (N.ltb_spec a start); [lia | reflexivity].
Qed.

(* Completeness, small gap, start on the prover's chain: all blocks [start, last) are accepted *)
Lemma honest_small_gap_on_chain c last_n start last boundary ds :
  start < last -> last - start <= last_n -> last <= U64MAX ->
  honest_verdict c true last_n start last boundary ds = Ok (0, 0, last - start).
Proof.
  intros Hlt Hgap Hmax. unfold honest_verdict, plan_response, response_headers.
  cbn [orb]. rewrite (proj2 (N.leb_le _ _) Hgap). cbn [pl_reorg pl_sampled pl_last_n app].
  set (n := N.to_nat (last - start)).
  assert (Hn : (0 < n)%nat) by (unfold n; lia).
  unfold matched.
  destruct (map (hdr c) (range start n)) as [|first tl] eqn:E.
  { apply (f_equal (@length mhdr)) in E. rewrite map_length, range_length in E. cbn in E. lia. }
  rewrite <- E. rewrite unsorted_range.
  rewrite count_while_range_above by lia.
  assert (Htot : lenN (map (hdr c) (range start n)) = last - start).
  { unfold lenN. rewrite map_length, range_length. unfold n. lia. }
  rewrite Htot. cbn [N.eqb]. rewrite N.eqb_refl. cbn [bind].
  rewrite N.sub_0_r. destruct (N.ltb_spec last_n (last - start)); [lia|]. cbn [bind].
  rewrite N.eqb_refl.
  destruct (N.ltb_spec 0 (last - start)); [|lia].
  unfold nth_hdr. rewrite !nth_error_map.
  rewrite range_nth by lia. cbn [option_map N.to_nat]. cbn [bind].
  rewrite range_nth by (unfold n; lia). cbn [option_map bind]. rewrite !hdr_num.
  rewrite N.add_0_r, N.eqb_refl. cbn [negb].
  unfold add64, add_chk.
  replace (start + N.of_nat (N.to_nat (last - start - 1)) + 1) with last by lia.
  destruct (N.leb_spec last U64MAX); [|lia]. cbn [bind]. rewrite N.eqb_refl. reflexivity.
Qed.

(* ... and the full statement for the sampled regime is false of the code: the honest answer
   to a request whose samples all fall into the first block after the start is rejected *)
Definition wit_chain : chain := [10; 10; 10; 10].
Lemma honest_rejected_witness :
  honest_verdict wit_chain true 1 1 3 30 [25] = Err E_MALFORMED.
Proof. vm_compute. reflexivity. Qed.

Lemma honest_witness_plan :
  plan_response wit_chain true 1 1 3 30 [25] = mkPlan [] [] [2].
Proof. vm_compute. reflexivity. Qed.

(* non-vacuity: a sampled honest answer that is accepted *)
Lemma honest_sampled_accepted :
  honest_verdict [10; 10; 10; 10; 10; 10; 10; 10] true 2 1 7 50 [25; 38] = Ok (0, 2, 3).
Proof. vm_compute. reflexivity. Qed.
