(* What the abstract cell index of Model/IndexSpec.v contains: exactly the outputs of the chain that pay a registered
   script and that no input of the chain spends. *)
From Coq Require Import NArith Lia List Bool.
From LC Require Import Store StoreProofs IndexSpec IndexRefinement.
Import ListNotations.
Open Scope N_scope.
Open Scope bool_scope.

Definition ptx : Type := N * N * tx.   (* block number, index in the block, transaction *)

Definition step (reg : N -> sid -> bool) (E : cmap) (p : ptx) : cmap := spec_tx reg (fst (fst p)) E (snd (fst p), snd p).

Lemma fold_left_ext {A B} (f g : A -> B -> A) : (forall a b, f a b = g a b) -> forall l a, fold_left f l a = fold_left g l a.
Proof. intros H. induction l as [|x l IH]; intros a; [reflexivity|]. cbn [fold_left]. rewrite H. apply IH. Qed.

Lemma fold_left_map {A B C} (f : A -> B -> A) (g : C -> B) l : forall a, fold_left f (map g l) a = fold_left (fun a x => f a (g x)) l a.
Proof. induction l as [|x l IH]; intros a; [reflexivity|]. cbn [map fold_left]. apply IH. Qed.

Lemma spec_chain_flat reg : forall bs E, fold_left (spec_block reg) bs E = fold_left (step reg) (chain_txs bs) E.
Proof.
  induction bs as [|b bs IH]; intros E; [reflexivity|].
  cbn [fold_left chain_txs flat_map]. rewrite fold_left_app, IH. f_equal.
  unfold spec_block, block_txs. rewrite fold_left_map. apply fold_left_ext. intros a p. reflexivity.
Qed.

(* ---- the declarative reading ---- *)
Definition pays (reg : N -> sid -> bool) (stype : N) (s : sid) (o : output) : Prop :=
  (stype = 0 /\ s = o_lock o /\ reg 0 s = true) \/ (stype = 1 /\ o_type o = Some s /\ reg 1 s = true).

(* transaction p has an output, at the index named by the key, paying the registered script named by the key *)
Definition creates (reg : N -> sid -> bool) (p : ptx) (k : ckey) : Prop :=
  exists stype s oi o, k = (stype, s, fst (fst p), snd (fst p), oi) /\
                       nth_error (t_outputs (snd p)) (N.to_nat oi) = Some o /\ pays reg stype s o.

Definition spends (q : ptx) (tid : txid) (oi : N) : Prop := In (tid, oi) (t_inputs (snd q)).

Definition live (reg : N -> sid -> bool) (L : list ptx) (k : ckey) (tid : txid) : Prop :=
  exists p, In p L /\ t_id (snd p) = tid /\ creates reg p k /\ forall q, In q L -> ~ spends q tid (k_oi k).

(* an input never names its own transaction or a later one *)
Definition refs_backwards (L : list ptx) : Prop :=
  forall l1 p l2, L = l1 ++ p :: l2 -> forall inp, In inp (t_inputs (snd p)) ->
    forall q, In q (p :: l2) -> t_id (snd q) <> fst inp.

(* ---- kill ---- *)
Lemma kills_keep : forall (ins : list (txid * N)) E k tid,
  E k = Some tid -> (forall inp, In inp ins -> ~ (tid = fst inp /\ k_oi k = snd inp)) -> fold_left kill ins E k = Some tid.
Proof.
  induction ins as [|inp ins IH]; intros E k tid H Hn; [exact H|]. cbn [fold_left]. apply IH.
  - unfold kill. rewrite H. destruct ((tid =? fst inp) && (k_oi k =? snd inp)) eqn:C; [|reflexivity].
    apply andb_true_iff in C. destruct C as [A B]. apply N.eqb_eq in A, B. exfalso. apply (Hn inp); [left; reflexivity | split; assumption].
  - intros inp' Hin. apply Hn. right. exact Hin.
Qed.

Lemma kills_not_spent : forall (ins : list (txid * N)) E k tid,
  fold_left kill ins E k = Some tid -> forall inp, In inp ins -> ~ (tid = fst inp /\ k_oi k = snd inp).
Proof.
  induction ins as [|inp0 ins IH]; intros E k tid H inp Hin; [destruct Hin|]. cbn [fold_left] in H.
  destruct Hin as [->|Hin]; [|exact (IH _ _ _ H inp Hin)].
  apply kills_values in H. unfold kill in H. destruct (E k) as [t0|]; [|discriminate].
  destruct ((t0 =? fst inp) && (k_oi k =? snd inp)) eqn:C; [discriminate|]. inversion H; subst t0.
  intros [A B]. apply andb_false_iff in C. destruct C as [C|C]; apply N.eqb_neq in C; contradiction.
Qed.

(* ---- create ---- *)
Section Create.
  Variables (reg : N -> sid -> bool) (bn ti : N) (t : tx).

  Definition created_by (outs : list (N * output)) (k : ckey) : Prop :=
    exists oi o stype s, In (oi, o) outs /\ k = (stype, s, bn, ti, oi) /\ pays reg stype s o.

  Lemma create_one E p k :
    create reg bn ti t E p k = E k \/ (create reg bn ti t E p k = Some (t_id t) /\ created_by [p] k).
  Proof.
    unfold create. destruct p as [oi o]. cbn [fst snd].
    set (E1 := if reg 0 (o_lock o) then upd E (0, o_lock o, bn, ti, oi) (t_id t) else E).
    assert (H1 : E1 k = E k \/ (E1 k = Some (t_id t) /\ created_by [(oi, o)] k)).
    { unfold E1. destruct (reg 0 (o_lock o)) eqn:R; [|left; reflexivity]. unfold upd.
      destruct (ckey_eqb k (0, o_lock o, bn, ti, oi)) eqn:Ek; [|left; reflexivity].
      apply ckey_eqb_spec in Ek. right. split; [reflexivity|].
      exists oi, o, 0, (o_lock o). split; [left; reflexivity|]. split; [exact Ek|]. left. repeat split. exact R. }
    destruct (o_type o) as [s|] eqn:Ht; [|exact H1].
    destruct (reg 1 s) eqn:R; [|exact H1]. unfold upd.
    destruct (ckey_eqb k (1, s, bn, ti, oi)) eqn:Ek; [|exact H1].
    apply ckey_eqb_spec in Ek. right. split; [reflexivity|].
    exists oi, o, 1, s. split; [left; reflexivity|]. split; [exact Ek|]. right. repeat split; assumption.
  Qed.

  Lemma create_sets E p k : created_by [p] k -> create reg bn ti t E p k = Some (t_id t).
  Proof.
    intros (oi & o & stype & s & Hin & Hk & Hp). destruct Hin as [->|[]]. unfold create. cbn [fst snd].
    destruct Hp as [[-> [-> R]]|[-> [Ht R]]].
    - rewrite R. destruct (o_type o) as [s'|].
      + destruct (reg 1 s'); unfold upd; subst k.
        * destruct (ckey_eqb (0, o_lock o, bn, ti, oi) (1, s', bn, ti, oi)); [reflexivity|]. rewrite ckey_eqb_refl. reflexivity.
        * rewrite ckey_eqb_refl. reflexivity.
      + unfold upd. subst k. rewrite ckey_eqb_refl. reflexivity.
    - rewrite Ht, R. unfold upd. subst k. rewrite ckey_eqb_refl. reflexivity.
  Qed.

  Lemma create_fold_inv : forall (outs : list (N * output)) E k tid,
    fold_left (create reg bn ti t) outs E k = Some tid -> E k = Some tid \/ (tid = t_id t /\ created_by outs k).
  Proof.
    induction outs as [|p outs IH]; intros E k tid H; [left; exact H|]. cbn [fold_left] in H.
    destruct (IH _ _ _ H) as [H1|[H1 (oi & o & stype & s & Hin & Hk & Hp)]].
    - destruct (create_one E p k) as [H2|[H2 (oi & o & stype & s & Hin & Hk & Hp)]].
      + left. rewrite <- H2. exact H1.
      + right. split; [congruence|]. exists oi, o, stype, s. split; [destruct Hin as [<-|[]]; left; reflexivity|]. split; assumption.
    - right. split; [exact H1|]. exists oi, o, stype, s. split; [right; exact Hin|]. split; assumption.
  Qed.

  Lemma create_fold_same : forall (outs : list (N * output)) E k,
    E k = Some (t_id t) -> fold_left (create reg bn ti t) outs E k = Some (t_id t).
  Proof.
    induction outs as [|p outs IH]; intros E k H; [exact H|]. cbn [fold_left]. apply IH.
    destruct (create_one E p k) as [H2|[H2 _]]; [rewrite H2; exact H | exact H2].
  Qed.

  Lemma create_fold_sets : forall (outs : list (N * output)) E k,
    created_by outs k -> fold_left (create reg bn ti t) outs E k = Some (t_id t).
  Proof.
    induction outs as [|p outs IH]; intros E k (oi & o & stype & s & Hin & Hk & Hp); [destruct Hin|]. cbn [fold_left].
    destruct Hin as [->|Hin].
    - apply create_fold_same. apply create_sets. exists oi, o, stype, s. split; [left; reflexivity|]. split; assumption.
    - apply IH. exists oi, o, stype, s. split; [exact Hin|]. split; assumption.
  Qed.

  Lemma create_fold_other : forall (outs : list (N * output)) E k,
    (forall stype s oi, k <> (stype, s, bn, ti, oi)) -> fold_left (create reg bn ti t) outs E k = E k.
  Proof.
    induction outs as [|p outs IH]; intros E k H; [reflexivity|]. cbn [fold_left]. rewrite IH by exact H.
    destruct (create_one E p k) as [H2|[_ (oi & o & stype & s & _ & Hk & _)]]; [exact H2|]. exfalso. apply (H stype s oi). exact Hk.
  Qed.
End Create.

Lemma created_by_creates reg bn ti t k :
  created_by reg bn ti (indexed 0 (t_outputs t)) k <-> creates reg (bn, ti, t) k.
Proof.
  unfold created_by, creates. cbn [fst snd]. split.
  - intros (oi & o & stype & s & Hin & Hk & Hp). exists stype, s, oi, o. split; [exact Hk|]. split; [|exact Hp].
    apply indexed_in in Hin. destruct Hin as [Hn _]. rewrite N.sub_0_r in Hn. exact Hn.
  - intros (stype & s & oi & o & Hk & Hn & Hp). exists oi, o, stype, s. split; [|split; assumption].
    pose proof (indexed_nth (t_outputs t) 0 _ _ Hn) as Hi. rewrite N.add_0_l, N2Nat.id in Hi. exact Hi.
Qed.

(* ---- the characterisation ---- *)
Lemma pos_ok_app_l (L : list ptx) p : pos_ok (L ++ [p]) -> pos_ok L.
Proof. intros H b1 i1 t1 b2 i2 t2 A B. apply H; apply in_or_app; left; assumption. Qed.

Lemma refs_backwards_app_l (L : list ptx) p : refs_backwards (L ++ [p]) -> refs_backwards L.
Proof.
  intros H l1 q l2 HL inp Hin r Hr. apply (H l1 q (l2 ++ [p])); [rewrite HL, <- app_assoc; reflexivity | exact Hin |].
  destruct Hr as [Hr|Hr]; [left; exact Hr | right; apply in_or_app; left; exact Hr].
Qed.

Theorem spec_is_live_cells reg : forall (L : list ptx) k tid,
  pos_ok L -> refs_backwards L ->
  (fold_left (step reg) L empty_cmap k = Some tid <-> live reg L k tid).
Proof.
  induction L as [|p L IH] using rev_ind; intros k tid Hpos Href.
  - cbn [fold_left]. split; [discriminate | intros (p & [] & _)].
  - rewrite fold_left_app. cbn [fold_left]. set (E := fold_left (step reg) L empty_cmap) in *.
    pose proof (pos_ok_app_l L p Hpos) as HposL. pose proof (refs_backwards_app_l L p Href) as HrefL.
    destruct p as [[b i] t]. unfold step. cbn [fst snd]. unfold spec_tx. cbn [fst snd]. split.
    + intros H. apply create_fold_inv in H. destruct H as [H|[-> Hc]].
      * (* already live, not spent by this transaction *)
        pose proof (kills_not_spent _ _ _ _ H) as Hns. apply kills_values in H.
        apply (IH k tid HposL HrefL) in H. destruct H as (p & Hp & Hid & Hcr & Hun).
        exists p. split; [apply in_or_app; left; exact Hp|]. split; [exact Hid|]. split; [exact Hcr|].
        intros q Hq Hs. apply in_app_or in Hq. destruct Hq as [Hq|[<-|[]]]; [exact (Hun q Hq Hs)|].
        unfold spends in Hs. cbn [snd] in Hs. apply (Hns _ Hs). split; reflexivity.
      * (* created by this transaction *)
        exists (b, i, t). split; [apply in_or_app; right; left; reflexivity|]. split; [reflexivity|].
        split; [apply created_by_creates; exact Hc|].
        intros q Hq Hs. apply in_app_or in Hq. destruct Hq as [Hq|[<-|[]]].
        -- apply in_split in Hq. destruct Hq as [l1 [l2 HL]].
           apply (Href l1 q (l2 ++ [(b, i, t)])) with (inp := (t_id t, k_oi k)) (q := (b, i, t)).
           ++ rewrite HL, <- app_assoc. reflexivity.
           ++ exact Hs.
           ++ right. apply in_or_app. right. left. reflexivity.
           ++ reflexivity.
        -- apply (Href L (b, i, t) []) with (inp := (t_id t, k_oi k)) (q := (b, i, t)); [reflexivity | exact Hs | left; reflexivity | reflexivity].
    + intros (p & Hp & Hid & Hcr & Hun). apply in_app_or in Hp. destruct Hp as [Hp|[<-|[]]].
      * assert (HE : E k = Some tid).
        { apply (IH k tid HposL HrefL). exists p. split; [exact Hp|]. split; [exact Hid|]. split; [exact Hcr|].
          intros q Hq. apply Hun. apply in_or_app. left. exact Hq. }
        assert (Hk : fold_left kill (t_inputs t) E k = Some tid).
        { apply kills_keep; [exact HE|]. intros inp Hin [A B]. apply (Hun (b, i, t)); [apply in_or_app; right; left; reflexivity|].
          unfold spends. cbn [snd]. destruct inp as [a c]. cbn [fst snd] in A, B. subst. exact Hin. }
        destruct p as [[b' i'] t']. destruct Hcr as (stype & s & oi & o & Hkey & Hn & Hpay). cbn [fst snd] in *.
        destruct (N.eq_dec b' b) as [->|Hb]; [destruct (N.eq_dec i' i) as [->|Hi]|].
        -- assert (Heq : (b, i, t') = (b, i, t)).
           { apply Hpos; [apply in_or_app; left; exact Hp | apply in_or_app; right; left; reflexivity | right; split; reflexivity]. }
           inversion Heq; subst t'. subst tid. apply create_fold_same. exact Hk.
        -- rewrite create_fold_other; [exact Hk|]. intros st0 s0 oi0 Hx. rewrite Hkey in Hx. inversion Hx. contradiction.
        -- rewrite create_fold_other; [exact Hk|]. intros st0 s0 oi0 Hx. rewrite Hkey in Hx. inversion Hx. contradiction.
      * cbn [snd] in Hid. subst tid. apply create_fold_sets. apply created_by_creates. exact Hcr.
Qed.

(* for whole chains *)
Theorem spec_chain_is_live_cells reg bs k tid :
  pos_ok (chain_txs bs) -> refs_backwards (chain_txs bs) ->
  (spec_chain reg bs k = Some tid <-> live reg (chain_txs bs) k tid).
Proof. intros Hp Hr. unfold spec_chain. rewrite spec_chain_flat. apply spec_is_live_cells; assumption. Qed.
