#!/usr/bin/env python3
"""usage: tools/diffcase.py <property id> <op> <case id> [run module]  -- evaluates the model on one case of work/<pid>/cases_<op>.tsv
and shows where its value differs from the implementation's"""
import re, subprocess, sys, os, tempfile
pid, op, cid = sys.argv[1:4]
mod = sys.argv[4] if len(sys.argv) > 4 else None
sys.path.insert(0, '/verif/driver')
import props
if not mod:
    for o in props.PROPS[pid]["ops"]:
        if o[0] == op: mod = o[1]
path = '/verif/work/%s/cases_%s.tsv' % (pid, op)
defs, line = [], None
for l in open(path):
    if l.startswith('#DEF '):
        _, name, term = l.rstrip('\n').split(' ', 2); defs.append((name, term))
    f = l.rstrip('\n').split('\t')
    if f[0] == cid: line = f
assert line, 'case not found'
model, impl = line[2], line[3]
d = tempfile.mkdtemp()
v = os.path.join(d, 'one.v')
with open(v, 'w') as f:
    f.write('From LC Require Import %s.\n' % mod)
    for name, term in defs: f.write('Definition %s := %s.\n' % (name, term))
    f.write('Eval vm_compute in (%s).\n' % model)
out = subprocess.run(['coqc', '-noglob', '-Q', '/verif/coq/theories', 'LC', v], capture_output=True, text=True)
txt = out.stdout + out.stderr
m = re.search(r'=\s*(.*?)\s*:\s*val', txt, re.S)
if not m: print(txt[:3000]); sys.exit(1)
mv = re.sub(r'\s+', ' ', m.group(1))
def parse(s):
    # tokens: VL [ ... ] ; VN n
    toks = re.findall(r'VL|VN|\[|\]|;|\(|\)|0x[0-9a-fA-F]+|\d+', s)
    pos = 0
    def val():
        nonlocal pos
        while toks[pos] == '(': pos += 1
        t = toks[pos]; pos += 1
        if t == 'VN':
            while toks[pos] == '(': pos += 1
            n = toks[pos]; pos += 1
            r = int(n, 16) if n.startswith('0x') else int(n)
        else:
            assert t == 'VL', t
            assert toks[pos] == '['; pos += 1
            r = []
            while toks[pos] != ']':
                if toks[pos] == ';': pos += 1; continue
                r.append(val())
            pos += 1
        while pos < len(toks) and toks[pos] == ')': pos += 1
        return r
    return val()
a, b = parse(mv), parse(impl)
def diff(x, y, path):
    if isinstance(x, int) or isinstance(y, int):
        if x != y: print('at', path, ': model', x, 'impl', y); return True
        return False
    if len(x) != len(y):
        print('at', path, ': lengths model', len(x), 'impl', len(y)); print('  model:', str(x)[:600]); print('  impl :', str(y)[:600]); return True
    for i, (p, q) in enumerate(zip(x, y)):
        if diff(p, q, path + [i]): return True
    return False
if not diff(a, b, []): print('equal')
