#!/bin/sh
# usage: tools/recheck_seeds.sh [seed dir names...]   -- applies every kept seeded change to /repo in turn, runs the quick
# checks named in its meta.json (caught_by) and reports whether at least one of them raises a VIOLATION
cd /verif
names="$@"
[ -z "$names" ] && names=$(ls seeded)
for s in $names; do
  d=/verif/seeded/$s
  checks=$(python3 -c "import json,re; print(' '.join(re.findall(r'C[0-9][0-9]', json.load(open('$d/meta.json'))['caught_by'])))")
  (cd /repo && git diff --quiet) || { echo "$s: /repo is dirty"; exit 2; }
  if ! (cd /repo && git apply "$d/patch.diff" 2>/dev/null); then echo "$s: patch no longer applies"; continue; fi
  caught=""
  for p in $checks; do
    out=$(./vp check $p 2>&1)
    if echo "$out" | grep -q "^VIOLATION property=$p"; then caught="$caught $p"; fi
  done
  (cd /repo && git checkout -- . && git clean -fdq src)
  if [ -n "$caught" ]; then echo "$s: caught by$caught (expected: $checks)"; else echo "$s: MISSED (expected: $checks)"; fi
done
