(* Model of check_if_response_is_matched (send_last_state_proof.rs 686-875).
   A header is abstracted to what the function reads: its number, the total difficulty of its
   parent chain root and its own block difficulty (compact_to_difficulty of its compact target,
   an oracle value).  VerifiableHeader::total_difficulty() is the panicking U256 sum. *)
From LC Require Export U.
From Coq Require Export List Bool.
Export ListNotations.
Open Scope N_scope.
Open Scope bool_scope.

Record mhdr := mkMH { h_num : N; h_ptd : N; h_bd : N }.

Definition E_MALFORMED : N := 400.
Definition E_INVALID_REORG : N := 452.
Definition E_INVALID_SAMPLES : N := 451.

Definition S_TD_ADD : N := 268.      (* total_difficulty(): parent + block difficulty *)
Definition S_M_757 : N := 757.       (* before_boundary_count - reorg_count *)
Definition S_M_772 : N := 772.       (* last_last_n_header_number + 1 *)
Definition S_M_INDEX : N := 784.     (* headers[..] out of range *)

Definition td (h : mhdr) : res N := add256 S_TD_ADD (h_ptd h) (h_bd h).

(* windows(2).any(|hs| hs[0].number >= hs[1].number) *)
Fixpoint unsorted (hs : list mhdr) : bool :=
  match hs with
  | a :: ((b :: _) as tl) => (h_num b <=? h_num a) || unsorted tl
  | _ => false
  end.

Fixpoint count_while (p : mhdr -> bool) (hs : list mhdr) : N :=
  match hs with
  | h :: tl => if p h then 1 + count_while p tl else 0
  | [] => 0
  end.

(* take_while(|h| h.total_difficulty() < boundary).count() with the panicking sum *)
Fixpoint count_below (boundary : N) (hs : list mhdr) : res N :=
  match hs with
  | h :: tl =>
      let* t := td h in
      if t <? boundary then let* c := count_below boundary tl in Ok (1 + c) else Ok 0
  | [] => Ok 0
  end.

Definition nth_hdr (hs : list mhdr) (i : N) : res mhdr :=
  match nth_error hs (N.to_nat i) with
  | Some h => Ok h
  | None => Panic S_M_INDEX
  end.

Fixpoint take_below (bound : N) (ds : list N) : list N :=
  match ds with
  | d :: tl => if d <? bound then d :: take_below bound tl else []
  | [] => []
  end.

Fixpoint drop_le (cur : N) (ds : list N) : list N :=
  match ds with
  | d :: tl => if d <=? cur then drop_le cur tl else ds
  | [] => []
  end.

(* the inner `while let Some(diff) = difficulties.first()` loop for one sampled header *)
Definition consume (parent cur : N) (ds : list N) : bool * list N :=
  match ds with
  | d :: tl => if (parent <? d) && (d <=? cur) then (true, drop_le cur tl) else (false, ds)
  | [] => (false, [])
  end.

Fixpoint check_samples (hs : list mhdr) (ds : list N) : res (list N) :=
  match hs with
  | [] => Ok ds
  | h :: tl =>
      let* cur := td h in
      let '(valid, ds') := consume (h_ptd h) cur ds in
      if valid then check_samples tl ds' else Err E_INVALID_SAMPLES
  end.

Definition lenN {A} (l : list A) : N := N.of_nat (length l).
Definition slice {A} (l : list A) (from cnt : N) : list A :=
  firstn (N.to_nat cnt) (skipn (N.to_nat from) l).

Definition matched (last_n start_number boundary : N) (difficulties : list N)
                   (hs : list mhdr) (last_number : N) : res (N * N * N) :=
  match hs with
  | [] => Err E_MALFORMED
  | first :: _ =>
    if unsorted hs then Err E_MALFORMED else
    let total := lenN hs in
    let reorg := count_while (fun h => h_num h <? start_number) hs in
    let* _ :=
      if reorg =? 0 then Ok tt else
      if negb (reorg =? last_n) && negb (h_num first =? 1) then Err E_INVALID_REORG else
      let* lr := nth_hdr hs (reorg - 1) in
      if h_num lr =? start_number - 1 then Ok tt else Err E_INVALID_REORG in
    let* sl :=
      if last_n <? total - reorg then
        let* before := count_below boundary hs in
        let lcount := total - before in
        if last_n <? lcount then
          (* fix commit 2a85813: a reorg header at or above the boundary is an error, not an underflow *)
          if before <? reorg then Err E_INVALID_REORG else Ok (before - reorg, lcount)
        else Ok (total - reorg - last_n, last_n)
      else Ok (0, total - reorg) in
    let '(sampled, lcount) := sl in
    let* _ :=
      if sampled =? 0 then
        if 0 <? lcount then
          let* f := nth_hdr hs reorg in
          let* l := nth_hdr hs (total - 1) in
          if negb (h_num f =? start_number) then Err E_MALFORMED else
          (* fix commit 2a85813: checked_add(1) != Some(last_number) *)
          if (h_num l + 1 <=? U64MAX) && (h_num l + 1 =? last_number) then Ok tt else Err E_MALFORMED
        else Ok tt
      else
        let* fl := nth_hdr hs (reorg + sampled) in
        let* fl_td := td fl in
        let ds := take_below fl_td difficulties in
        let* rest := check_samples (slice hs reorg sampled) ds in
        match rest with
        | [] => Ok tt
        | next :: _ => if next <=? h_ptd fl then Err E_INVALID_SAMPLES else Ok tt
        end in
    Ok (reorg, sampled, lcount)
  end.
