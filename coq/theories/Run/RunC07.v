From LC Require Export Val CheckPoints CheckPointsChecked.
Open Scope N_scope.

Definition run_add_check_points (interval first : N) (cur : list hash) (last_proved start : N) (new : list hash) : val :=
  match add_check_points_chk interval (mkCps first cur) last_proved start new with
  | Ok (c, next) => VL [VN 0; vlist VN (cp_list c); vopt VN next]
  | Err code => VL [VN 1; VN code]
  | Panic _ => VL [VN 3]
  end.

Fixpoint ins_n (x : N) (l : list N) : list N :=
  match l with [] => [x] | y :: tl => if x <=? y then x :: l else y :: ins_n x tl end.
Definition sortN (l : list N) : list N := fold_right ins_n [] l.

Definition run_finalize (required : N) (peers : list (N * N * list hash)) (last_idx : N) (last_cp : hash) (chosen : list hash) : val :=
  let o := finalize (N.to_nat required) (map (fun t => mkPC (fst (fst t)) (snd (fst t)) (snd t)) peers) last_idx last_cp chosen in
  VL [vlist VN (sortN (fo_bans o)); vlist VN (fo_written o); VN (fo_new_max o); vbool (fo_legal o)].
