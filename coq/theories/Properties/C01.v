(* C01 — Trusted chain state changes only on a fully verified last-state proof.
   Model: Model/Matching.v (check_if_response_is_matched) and Model/LastStateProof.v
   (SendLastStateProofProcess::execute + commit_prove_state).  PoW validity, chain-root
   commitment (patched_is_valid) and the MMR verdict are oracle inputs of the model: the
   theorems say that the trusted view changes only if ALL of them came out positive for the
   right arguments; that the underlying primitives are sound (blake2b, Eaglesong, MMR) is the
   trusted base.  Routes 2 (copy from another peer) and 3 (child fast path) are C11/C12. *)
From Coq Require Import NArith List Bool Sorted.
From LC Require Import Matching LastStateProof MatchingProofs LastStateProofProofs.
Import ListNotations.
Open Scope N_scope.

(* the peer's prove state or the stored (total difficulty, tip, last-N, matched records) changes
   only if a request for this very last header is outstanding and every gate passed *)
Theorem C01_gate :
  forall last_n tau peer st msg_last proof_empty hs mmr rb rg e,
    execute last_n tau peer st msg_last proof_empty hs mmr rb rg = Ok e ->
    forall ps0, (match peer with PNone => None | PNoRequest p => p | PRequested p _ => p end) = ps0 ->
    trusted_changed ps0 st e ->
    exists ps rq r s l lasts st' rbk,
      peer = PRequested ps rq /\
      same_vheader (pr_last rq) msg_last = Ok true /\
      gates last_n tau ps rq msg_last hs mmr r s l false /\
      assemble last_n ps hs r s l = Ok (Some lasts) /\
      commit st (mkPS (pr_last rq) (map key_of (firstn (N.to_nat r) hs)) lasts) = Ok (true, st', rbk) /\
      e = mkEff C_OK (Some (mkPS (pr_last rq) (map key_of (firstn (N.to_nat r) hs)) lasts)) None false false st' rbk.
Proof. exact execute_gate. Qed.
Print Assumptions C01_gate.

(* a rejected response (any status other than OK / RequireRecheck) leaves the prove state, the
   outstanding request, the last state and the whole store exactly as they were *)
Theorem C01_reject_frame :
  forall last_n tau ps rq st msg_last proof_empty hs mmr rb rg e,
    execute last_n tau (PRequested ps rq) st msg_last proof_empty hs mmr rb rg = Ok e ->
    ef_code e <> C_OK -> ef_code e <> C_RECHECK ->
    e = unchanged (ef_code e) ps (Some rq) st.
Proof. exact execute_reject_frame. Qed.
Print Assumptions C01_reject_frame.

(* every possible outcome of the handler while a request is outstanding *)
Theorem C01_outcomes :
  forall last_n tau ps rq st msg_last proof_empty hs mmr rb rg e,
    execute last_n tau (PRequested ps rq) st msg_last proof_empty hs mmr rb rg = Ok e ->
    outcome last_n tau ps rq st msg_last proof_empty hs mmr e.
Proof. exact execute_outcome. Qed.
Print Assumptions C01_outcomes.

(* an accepted response ends at the parent of the proved header: no header can be left out between the last-N
   section and the tip (the gate added by the repair of the defect found by the re-proved "drop-header" mutation) *)
Theorem C01_accepted_ends_at_parent :
  forall last_n tau ps rq msg_last hs mmr r s l ft,
    gates last_n tau ps rq msg_last hs mmr r s l ft ->
    match last_hdr hs with
    | Some p => v_num p + 1 = v_num msg_last /\ v_id p = v_parent msg_last
    | None => hs = []
    end.
Proof. intros last_n tau ps rq msg_last hs mmr r s l ft G. apply ends_at_parent_spec. exact (g_ends_at_parent _ _ _ _ _ _ _ _ _ _ _ G). Qed.
Print Assumptions C01_accepted_ends_at_parent.

(* without an outstanding request nothing changes, whatever the message *)
Theorem C01_unsolicited_noop :
  forall last_n tau ps st msg_last proof_empty hs mmr rb rg,
    execute last_n tau (PNoRequest ps) st msg_last proof_empty hs mmr rb rg = Ok (unchanged C_OK ps None st).
Proof. reflexivity. Qed.
Print Assumptions C01_unsolicited_noop.

(* the sections of an accepted response have exactly the requested shape *)
Theorem C01_shape :
  forall last_n start boundary ds hs last_number r s l,
    matched last_n start boundary ds hs last_number = Ok (r, s, l) ->
    shape last_n start boundary ds hs last_number r s l.
Proof. exact matched_shape. Qed.
Print Assumptions C01_shape.

(* ... and every sampled header covers a requested difficulty; with a sorted request (C15)
   every consumed difficulty is covered by a sampled header *)
Theorem C01_samples_cover :
  forall hs ds rest,
    check_samples hs ds = Ok rest ->
    exists used, ds = used ++ rest /\
      (forall h, In h hs -> exists d, In d used /\ covers h d) /\
      (StronglySorted N.le ds -> forall d, In d used -> exists h, In h hs /\ covers h d).
Proof. exact check_samples_spec. Qed.
Print Assumptions C01_samples_cover.

(* the store moves only to the requested last header and only if it is strictly heavier *)
Theorem C01_commit_store :
  forall st new_ps st' rb,
    commit st new_ps = Ok (true, st', rb) ->
    st' = st \/
    (exists ntd, vtd (ps_last new_ps) = Ok ntd /\ st_td st < ntd /\
       st_td st' = ntd /\ st_tip st' = key_of (ps_last new_ps) /\ st_lastn st' = ps_lasts new_ps).
Proof. exact commit_store. Qed.
Print Assumptions C01_commit_store.

(* non-vacuity: an accepted two-header answer (start #5, last #7, last-N 2, no samples) *)
Example C01_example_commit :
  let h n id parent := mkVH id id n (n * 10) 10 1 (mkEpoch 0 n 100) parent (n - 1) true true in
  let rq := mkPR (h 7 107 106) 5 0 [] false false in
  exists e, execute 2 2 (PRequested None rq) (mkStore 10 (0, 100) [] []) (h 7 107 106) false
                    [h 5 105 104; h 6 106 105] 0 true true = Ok e
            /\ ef_code e = C_OK /\ st_tip (ef_store e) = (7, 107) /\ st_td (ef_store e) = 80.
Proof. eexists. split; [vm_compute; reflexivity | repeat split]. Qed.
