//! C15: proof-request building (sampling.rs, build_prove_request_content).
//! Correspondence with Model/Sampling.v.  The float computations are duplicated here
//! (independently of the repository's code) and handed to the model as oracle values.
use ckb_network::PeerIndex;
use ckb_types::{
    core::{BlockNumber, HeaderBuilder, HeaderView},
    packed,
    prelude::*,
    utilities::{compact_to_difficulty, difficulty_to_compact, merkle_mountain_range::VerifiableHeader},
    U256,
};

use super::out::{catch, coq_list, Out, Val};
use super::prng::Rng;
use crate::protocols::light_client::verif_exports::{estimate_k, estimate_samples_count, multiply, sample_blocks};
use crate::tests::{prelude::*, utils::MockChain};

const SCALE: u64 = 1_000_000_000;

/// the harness's own copy of the float formulas (the "oracle values")
fn float_oracles(last_n: u64, blocks_count: u64) -> (f64, u64, u32) {
    let k = ((last_n as f64) / (blocks_count as f64)).log(0.5);
    let m = (50.0f64 / ((1.0 - 1.0 / k).log(0.5))).ceil() as u64;
    let delta = 0.5f64.powf(k);
    let num_b = ((1.0 - delta) * (SCALE as f64)) as u32;
    (k, m, num_b)
}

/// an independent formulation of the FlyClient bound (natural logarithms)
fn m_reference(last_n: u64, blocks_count: u64) -> f64 {
    let k = ((last_n as f64) / (blocks_count as f64)).ln() / (0.5f64).ln();
    50.0 * (0.5f64).ln() / (1.0 - 1.0 / k).ln()
}

fn mul_model(u: &U256, num: u64) -> U256 {
    // exact: u * num / 10^9 fits in 512 bits; emulate with two-limb arithmetic through U256 parts
    use numext_fixed_uint::{prelude::UintConvert as _, U512};
    let (u512, _): (U512, bool) = u.convert_into();
    let r = (u512 * U512::from(num)) / U512::from(SCALE);
    let (r256, _): (U256, bool) = r.convert_into();
    if r256.is_zero() { U256::one() } else { r256 }
}

/// find a numerator whose random_sample equals d
fn preimage(start: &U256, range: &U256, boundary: &U256, d: &U256) -> Option<u64> {
    let sample = |num: u64| -> U256 {
        let s = start + mul_model(range, num);
        if &s >= boundary { boundary - 1u32 } else { s }
    };
    if d < start { return None; }
    let off = d - start;
    // candidates around off * 10^9 / range
    use numext_fixed_uint::{prelude::UintConvert as _, U512};
    let (off512, _): (U512, bool) = off.convert_into();
    let (range512, _): (U512, bool) = range.convert_into();
    if range.is_zero() { return if &sample(0) == d { Some(0) } else { None }; }
    let q = (off512 * U512::from(SCALE)) / range512;
    let (q256, _): (U256, bool) = q.convert_into();
    let q = if q256 > U256::from(u32::MAX as u64) { u32::MAX as u64 } else { q256.0[0] };
    for delta in 0..6u64 {
        for cand in [q.saturating_add(delta), q.saturating_sub(delta)] {
            if cand <= u32::MAX as u64 && &sample(cand) == d { return Some(cand); }
        }
    }
    for cand in [0u64, 1, SCALE - 1, SCALE, u32::MAX as u64] {
        if &sample(cand) == d { return Some(cand); }
    }
    None
}

fn fake_header(number: u64, td: &U256, salt: u64) -> VerifiableHeader {
    // total_difficulty() = parent_chain_root.total_difficulty + difficulty(compact target)
    let compact = difficulty_to_compact(U256::one());
    let bd = compact_to_difficulty(compact);
    let parent_td = if td >= &bd { td - &bd } else { U256::zero() };
    let header = packed::RawHeader::new_builder()
        .number(number.pack())
        .compact_target(compact.pack())
        .timestamp(salt.pack())
        .build();
    let header = packed::Header::new_builder().raw(header).build().into_view();
    let root = packed::HeaderDigest::new_builder().total_difficulty(parent_td.pack()).build();
    VerifiableHeader::new(header, Default::default(), None, root)
}

/// at most `max` evenly spaced elements (always including first and last)
fn subsample<T: Clone>(xs: &[T], max: usize) -> Vec<T> {
    if xs.len() <= max { return xs.to_vec(); }
    let mut v = Vec::with_capacity(max);
    for i in 0..max { v.push(xs[i * (xs.len() - 1) / (max - 1)].clone()); }
    v
}

fn hash_n(h: &packed::Byte32) -> String {
    // a 32-byte hash as a number (little-endian), for the model
    let mut b = [0u8; 32];
    b.copy_from_slice(h.as_slice());
    format!("{:#x}", U256::from_le_bytes(&b))
}

pub(crate) fn run(seed: u64, n: u64, out: &mut Out) {
    let mut rng = Rng::new(seed);

    // ---- multiply ----
    for i in 0..n {
        let ub = *rng.pick(&[0u32, 8, 40, 64, 128, 200, 256]);
        let u = rng.u256_bits(ub);
        let ratio: f64 = match rng.below(6) {
            0 => 0.0,
            1 => 0.999_999_999_9,
            2 => (rng.below(SCALE) as f64) / (SCALE as f64),
            3 => 1.0 / ((rng.range(1, 1_000_000)) as f64),
            4 => 1.0 - 1.0 / ((rng.range(1, 1_000_000)) as f64),
            _ => (rng.next() as f64) / (u64::MAX as f64),
        };
        let num = (ratio * (SCALE as f64)) as u32;
        let r = catch(|| multiply(&u, ratio));
        let v = match &r { Some(x) => Val::n(format!("{:#x}", x)), None => Val::n("115792089237316195423570985008687907853269984665640564039457584007913129639936") };
        let oracle = match &r {
            Some(x) if !x.is_zero() && (ratio >= 1.0 || x <= &u || u.is_zero() || x == &U256::one()) => Ok(()),
            Some(_) => Err("[C15-multiply] product zero or above the multiplicand".to_string()),
            None => Err("[C15-multiply] panicked".to_string()),
        };
        out.case(&format!("mul-{}", i), &["multiply"], &format!("(run_multiply {:#x} {})", u, num), &v, oracle,
            &format!("multiply({:#x}, {})", u, ratio));
    }

    // ---- estimate_samples_count ----
    let mut gaps: Vec<(u64, u64)> = Vec::new();
    for last_n in [1u64, 2, 3, 5, 10, 50, 100] {
        for d in [0u64, 1, 2, 3, 10] {
            gaps.push((last_n, last_n.saturating_sub(d).max(1)));
            gaps.push((last_n, last_n + d));
        }
        gaps.push((last_n, last_n * 2));
        gaps.push((last_n, last_n * 1000 + 7));
    }
    for _ in 0..n {
        let last_n = *rng.pick(&[1u64, 2, 3, 5, 10, 100, 1000]);
        let bc = match rng.below(4) { 0 => rng.range(1, last_n * 3), 1 => rng.range(1, 100_000), 2 => rng.bits(40).max(1), _ => rng.bits(63).max(1) };
        gaps.push((last_n, bc));
    }
    for (i, (last_n, bc)) in gaps.iter().enumerate() {
        let (k, m, _) = float_oracles(*last_n, *bc);
        let r = catch(|| estimate_samples_count(*bc, *last_n, estimate_k(*last_n, *bc, 0.5), 50));
        let v = match r { Some(c) => Val::n(c), None => Val::n(u64::MAX) };
        // oracle: the FlyClient bound after discounting last-N
        let oracle = match r {
            None => Err("[C15-count] estimate_samples_count panicked".to_string()),
            Some(c) => {
                if bc <= last_n {
                    if c == 0 { Ok(()) } else { Err("[C15-count] samples requested although at most last-N blocks are missing".into()) }
                } else {
                    let mref = m_reference(*last_n, *bc);
                    // k <= 1: a single sample already catches the adversary (p = 1/k >= 1), the formula is undefined
                    let need = if mref.is_finite() && k > 1.0 { (mref.ceil() as u64).min(*bc) } else { 0 };
                    // tolerance of one draw for f64 rounding
                    if c >= 1 && c + last_n + 1 >= need { Ok(()) } else {
                        Err(format!("[C15-count] {} draws + last-N {} below the FlyClient bound {} (k={})", c, last_n, need, k))
                    }
                }
            }
        };
        out.case(&format!("count-{}", i), &["count"], &format!("(run_estimate {} {} {})", bc, last_n, m), &v, oracle,
            &format!("estimate_samples_count(blocks_count={}, last_n={}, k=estimate_k(..), 50)", bc, last_n));
    }

    // ---- sample_blocks ----
    for i in 0..n {
        let last_n = *rng.pick(&[1u64, 2, 3, 5, 10, 100]);
        let gap = match rng.below(5) { 0 => last_n + 1, 1 => last_n + rng.range(1, 5), 2 => rng.range(last_n + 1, last_n * 20 + 2), 3 => rng.range(last_n + 1, 100_000), _ => rng.bits(40).max(last_n + 1) };
        let start_number = if rng.chance(1, 10) { u64::MAX - gap - rng.below(1000) } else { rng.bits(32) };
        let last_number = start_number + gap;
        let bits = *rng.pick(&[1u32, 12, 64, 128, 255]);
        let start_d = rng.u256_bits(bits);
        // total range: at least one per block unless the tiny stratum
        let pb = *rng.pick(&[1u32, 1, 20, 70, 190]);
        let per_block = rng.u256_bits(pb).saturating_add(&U256::one());
        let range = match per_block.checked_mul(&U256::from(gap)) { Some(r) => r, None => U256::max_value() >> 2 };
        let last_d = start_d.saturating_add(&range);
        let range = &last_d - &start_d;
        let (_, m, num_b) = float_oracles(last_n, gap);
        let expected_count = estimate_samples_count(gap, last_n, estimate_k(last_n, gap, 0.5), 50);
        // several attempts: the set can be smaller than the number of draws only by collision
        let mut best: Option<(U256, Vec<U256>)> = None;
        let mut panicked = false;
        for _ in 0..4 {
            match catch(|| sample_blocks(start_number, &start_d, last_number, &last_d, last_n)) {
                None => { panicked = true; break; }
                Some((b, ds)) => {
                    let better = best.as_ref().map(|x| ds.len() > x.1.len()).unwrap_or(true);
                    if better { best = Some((b, ds)); }
                    if best.as_ref().unwrap().1.len() as u64 >= expected_count { break; }
                }
            }
        }
        let (v, nums, oracle) = if panicked || best.is_none() {
            (Val::l(vec![Val::n(3)]), vec![], Err("[C15-sample] sample_blocks panicked".to_string()))
        } else {
            let (b, ds) = best.unwrap();
            let mut all_nums = Vec::new();
            let mut missing = 0;
            for d in &ds {
                match preimage(&start_d, &range, &b, d) { Some(x) => all_nums.push(format!("{}", x)), None => { missing += 1; all_nums.push("0".into()) } }
            }
            let idx: Vec<usize> = subsample(&(0..ds.len()).collect::<Vec<_>>(), 24);
            let nums: Vec<String> = idx.iter().map(|i| all_nums[*i].clone()).collect();
            let ds_model: Vec<U256> = idx.iter().map(|i| ds[*i].clone()).collect();
            // property oracle (independent of the model)
            let mut problems = Vec::new();
            if !(start_d <= b && b <= last_d) { problems.push("boundary outside [start, last]".to_string()); }
            if ds.windows(2).any(|w| w[0] >= w[1]) { problems.push("difficulties not strictly increasing".into()); }
            let degenerate = &start_d + 1u32 >= b;
            for d in &ds {
                let inside = if degenerate { d >= &start_d && d < &b.clone().max(&start_d + 1u32) } else { d > &start_d && d < &b };
                if !inside { problems.push(format!("difficulty {:#x} outside (start, boundary)", d)); break; }
            }
            if ds.is_empty() { problems.push("no samples although more than last-N blocks are missing".into()); }
            if missing > 0 { problems.push(format!("{} difficulties are not start + multiply(range, x) for any x", missing)); }
            // with a large range collisions are (almost) impossible: the set has one element per draw
            let n_obs = if (range.leading_zeros() as u32) < 200 && (ds.len() as u64) < expected_count && (ds.len() as u64) + 2 >= expected_count { expected_count } else { ds.len() as u64 };
            let count_obs = if (ds.len() as u64) <= expected_count { expected_count.max(n_obs) } else { ds.len() as u64 + 1_000_000 };
            let oracle = if problems.is_empty() { Ok(()) } else { Err(format!("[C15-sample] {}", problems.join("; "))) };
            (Val::l(vec![Val::n(0), Val::n(count_obs), Val::n(format!("{:#x}", b)), Val::l(ds_model.iter().map(|d| Val::n(format!("{:#x}", d))).collect())]), nums, oracle)
        };
        out.case(&format!("sample-{}", i), &["sample_blocks"],
            &format!("(run_sample_blocks {} {:#x} {} {:#x} {} {} {} {})", start_number, start_d, last_number, last_d, last_n, m, num_b, coq_list(&nums)),
            &v, oracle,
            &format!("sample_blocks({}, {:#x}, {}, {:#x}, {})", start_number, start_d, last_number, last_d, last_n));
    }

    // ---- build_prove_request_content through the protocol object ----
    let chain = MockChain::new_with_dummy_pow("verif-c15");
    let peers = chain.create_peers();
    let mut protocol = chain.create_light_client_protocol(peers.clone());
    let storage = chain.client_storage().to_owned();
    let peer: PeerIndex = PeerIndex::new(1);
    for i in 0..n {
        let last_n = *rng.pick(&[1u64, 2, 3, 5, 10, 100]);
        protocol.set_last_n_blocks(last_n);
        let with_prove_state = rng.chance(1, 2);
        // every fourth case: the request rebuilt from the genesis block after a long fork (build_prove_request_content_from_genesis)
        let from_genesis = rng.chance(1, 4);
        let start_number = if from_genesis { 0 } else { rng.range(0, 5000) };
        let gap = match rng.below(6) { 0 => 0, 1 => 1, 2 => last_n, 3 => last_n + 1, 4 => rng.range(1, last_n * 2 + 1), _ => rng.range(1, 50_000) };
        let last_number = if rng.chance(1, 12) { start_number.saturating_sub(rng.range(0, 3)) } else { start_number + gap };
        let start_td = if from_genesis { U256::zero() } else { rng.u256_bits(100).saturating_add(&U256::from(2u64)) };
        let lb = *rng.pick(&[4u32, 30, 100]);
        let last_td = match rng.below(8) { 0 => start_td.clone(), 1 if !from_genesis => &start_td - 1u32, _ => &start_td + rng.u256_bits(lb).saturating_add(&U256::from(gap.max(1))) };
        let start_vh = fake_header(start_number, &start_td, 1000 + i);
        let last_vh = fake_header(last_number, &last_td, 2000 + i);
        // stored last-N headers: a window ending at start_number - 1 .. with arbitrary hashes
        let stored_len = if from_genesis { 0 } else { rng.range(0, last_n.min(12)) };
        let mut stored: Vec<HeaderView> = Vec::new();
        let first = start_number.saturating_sub(stored_len);
        for num in first..start_number {
            stored.push(fake_header(num, &U256::from(num + 1), 3000 + i).header().to_owned());
        }
        // reset peer and storage
        peers.remove_peer(peer);
        peers.add_peer(peer);
        let (start_hash, st_num, st_td) = if with_prove_state {
            peers.mock_prove_state(peer, start_vh.clone()).unwrap();
            storage.update_last_state(&U256::from(1u64), &fake_header(0, &U256::one(), 1).header().data(), &stored);
            (start_vh.header().hash(), start_number, start_vh.total_difficulty())
        } else {
            peers.request_last_state(peer).unwrap();
            peers.update_last_state(peer, crate::protocols::LastState::new(last_vh.clone())).unwrap();
            storage.update_last_state(&start_vh.total_difficulty(), &start_vh.header().data(), &stored);
            (start_vh.header().hash(), start_number, start_vh.total_difficulty())
        };
        let peer_state = peers.get_state(&peer).unwrap();
        let last_td_real = last_vh.total_difficulty();
        let (start_hash, st_num, st_td) = if from_genesis { (storage.get_genesis_block().calc_header_hash(), 0u64, U256::zero()) } else { (start_hash, st_num, st_td) };
        let r = if from_genesis { catch(|| protocol.build_prove_request_content_from_genesis(&last_vh)) } else { catch(|| protocol.build_prove_request_content(&peer_state, &last_vh)) };
        let stored_coq: Vec<String> = stored.iter().map(|h| format!("({}, {})", h.number(), hash_n(&h.hash()))).collect();
        let blocks_count = last_number.saturating_sub(st_num).max(1);
        let (_, m, num_b) = float_oracles(last_n, blocks_count);
        let (v, nums, oracle) = match r {
            None => (Val::l(vec![Val::n(3)]), vec![], Err("[C15-request] build_prove_request_content panicked".to_string())),
            Some(None) => {
                let ok = st_td > last_td_real || st_num >= last_number;
                (Val::l(vec![Val::n(0), Val::l(vec![])]), vec![],
                 if ok { Ok(()) } else { Err("[C15-request] no request built although the last state is ahead".to_string()) })
            }
            Some(Some(content)) => {
                let rq_start: u64 = content.start_number().unpack();
                let boundary: U256 = content.difficulty_boundary().unpack();
                let ds: Vec<U256> = content.difficulties().into_iter().map(|d| d.unpack()).collect();
                let range = &last_td_real - &st_td;
                let mut all_nums = Vec::new();
                let mut missing = 0;
                for d in &ds { match preimage(&st_td, &range, &boundary, d) { Some(x) => all_nums.push(format!("{}", x)), None => { missing += 1; all_nums.push("0".into()) } } }
                let idx: Vec<usize> = subsample(&(0..ds.len()).collect::<Vec<_>>(), 24);
                let nums: Vec<String> = idx.iter().map(|i| all_nums[*i].clone()).collect();
                let ds_model: Vec<U256> = idx.iter().map(|i| ds[*i].clone()).collect();
                let mut problems = Vec::new();
                if !(rq_start < last_number) { problems.push("start not below last".to_string()); }
                if st_td > last_td_real { problems.push("start difficulty above last".into()); }
                if !(st_td <= boundary && boundary <= last_td_real) { problems.push("boundary not between start and last total difficulty".into()); }
                if ds.windows(2).any(|w| w[0] >= w[1]) { problems.push("difficulties not strictly increasing".into()); }
                if last_number - st_num <= last_n {
                    if !ds.is_empty() { problems.push("samples although at most last-N blocks are missing".into()); }
                    if !(rq_start <= st_num && last_number <= rq_start + last_n) { problems.push("rebased start outside the last-N window".into()); }
                } else {
                    if ds.is_empty() { problems.push("no samples although more than last-N blocks are missing".into()); }
                    if rq_start != st_num || content.start_hash() != start_hash { problems.push("start is not the proven/stored tip".into()); }
                    let degenerate = &st_td + 1u32 >= boundary;
                    for d in &ds { if !(if degenerate { d >= &st_td && d <= &boundary } else { d > &st_td && d < &boundary }) { problems.push("difficulty outside (start, boundary)".into()); break; } }
                }
                let lnb: u64 = content.last_n_blocks().unpack();
                if lnb != last_n || content.last_hash() != last_vh.header().hash() { problems.push("last_hash / last_n_blocks wrong".into()); }
                if missing > 0 { problems.push("difficulty without preimage".into()); }
                // zero-difficulty blocks (fewer difficulty units than blocks) cannot pass a real PoW check:
                // outside the property's domain, correspondence only
                let degenerate_chain = range < U256::from(last_number - st_num);
                let oracle = if problems.is_empty() || degenerate_chain { Ok(()) } else { Err(format!("[C15-request] {}", problems.join("; "))) };
                (Val::l(vec![Val::n(0), Val::l(vec![Val::l(vec![Val::n(hash_n(&content.start_hash())), Val::n(rq_start), Val::n(format!("{:#x}", boundary)), Val::l(ds_model.iter().map(|d| Val::n(format!("{:#x}", d))).collect())])])]), nums, oracle)
            }
        };
        out.case(&format!("request-{}", i), &["request", if from_genesis { "from-genesis" } else if with_prove_state { "from-prove-state" } else { "from-storage" }],
            &format!("(run_build_request {} {} {:#x} {} {} {:#x} {} {} {} {})", last_n, last_number, last_td_real, hash_n(&start_hash), st_num, st_td, coq_list(&stored_coq), m, num_b, coq_list(&nums)),
            &v, oracle,
            &format!("build_prove_request_content(last_n={}, start=#{} td {:#x} ({}), last=#{} td {:#x}, stored last-N {} headers from #{})",
                last_n, st_num, st_td, if from_genesis { "genesis: build_prove_request_content_from_genesis" } else if with_prove_state { "prove state" } else { "storage" }, last_number, last_td_real, stored.len(), first));
    }
}
