(* Model of BlockFiltersProcess::execute (filter/components/block_filters_process.rs 36-283),
   FilterProtocol::check_filters_data (block_filter.rs 40-78) and the bookkeeping it triggers:
   Storage::add_matched_blocks / update_block_number / update_min_filtered_block_number,
   Peers::update_min_filtered_block_number (cached hashes reset), could_request_more_block_filters.

   Hashes, filters and scripts are interned numbers.  [calc_filter_hash] is a finite table
   (parent hash, filter) -> hash supplied with every case: the harness computes it with the library for
   the pairs of the generated chains; a pair outside the table hashes to 0, which no expected hash
   equals (collision freedom of the real hash is the assumption).  Which scripts a filter matches
   ([GCSFilterReader::match_any], golomb-coded-set crate) is an oracle table as well. *)
From LC Require Export U.
From Coq Require Export List Bool.
Export ListNotations.
Open Scope N_scope.
Open Scope bool_scope.

Definition hash := N.
Definition lenN {A} (l : list A) : N := N.of_nat (length l).
Definition E_MALFORMED : N := 400.
Definition E_FILTER_DATA : N := 483.
Definition S_CACHED_CP : N := 611.     (* expect("all check points before finalized should be existed") *)
Definition S_CACHED_INDEX : N := 612.  (* cached_block_filter_hashes[start_index] *)

Record bf_msg := mkMsg { m_start : N; m_filters : list N; m_hashes : list hash }.

Record fworld := mkFW {
  fw_scripts : list (N * N);                          (* (script, recorded block number) *)
  fw_peer : option (option hash);                     (* unknown peer | no prove state | proven tip hash *)
  fw_min : N;                                         (* MIN_FILTERED_NUMBER *)
  fw_db_pending : bool;                               (* storage.get_earliest_matched_blocks().is_some() *)
  fw_mem_empty : bool;                                (* Peers.matched_blocks is empty *)
  fw_interval : N;
  fw_fin_index : N; fw_fin_hash : hash;               (* storage.get_last_check_point() *)
  fw_cached_index : N; fw_cached : list hash; fw_cached_cp : option hash;
  fw_latest : list hash;                              (* peers.get_latest_block_filter_hashes(fin_index) *)
  fw_htable : list (hash * N * hash);                 (* calc_filter_hash *)
  fw_contains : list (N * list N)                     (* filter -> scripts it matches *)
}.

Record fout := mkFO {
  fo_ban : N;                                         (* 0 = not banned *)
  fo_min : N;
  fo_bump : option N;                                 (* update_block_number argument *)
  fo_record : option (N * N * list (hash * bool));    (* add_matched_blocks (start, count, [(hash, proved)]) *)
  fo_load : bool;                                     (* the in-memory map is loaded from the earliest record, requests go out *)
  fo_next : option N                                  (* GetBlockFilters start number *)
}.

Definition nothing (w : fworld) : fout := mkFO 0 (fw_min w) None None false None.
Definition banned (w : fworld) (code : N) : fout := mkFO code (fw_min w) None None false None.

Fixpoint hlookup (t : list (hash * N * hash)) (p : hash) (f : N) : hash :=
  match t with
  | [] => 0
  | (p', f', h) :: tl => if (p' =? p) && (f' =? f) then h else hlookup tl p f
  end.

Fixpoint contains_of (t : list (N * list N)) (f : N) : list N :=
  match t with [] => [] | (f', l) :: tl => if f' =? f then l else contains_of tl f end.

(* the hash chain check: Some parent' if the first [limit] filters chain to the expected hashes *)
Fixpoint chain_check (t : list (hash * N * hash)) (parent : hash) (filters : list N) (expected : list hash) : option hash :=
  match filters, expected with
  | f :: ftl, e :: etl =>
      let cur := hlookup t parent f in
      if cur =? e then chain_check t cur ftl etl else None
  | _, _ => Some parent
  end.

(* script hashes asked for: every registered script whose number is below start + limit *)
Definition active_scripts (w : fworld) (bound : N) : list N :=
  map fst (filter (fun s => snd s <? bound) (fw_scripts w)).

Definition filter_matches (w : fworld) (active : list N) (f : N) : bool :=
  existsb (fun s => existsb (N.eqb s) active) (contains_of (fw_contains w) f).

Fixpoint matched_hashes (w : fworld) (active : list N) (limit : nat) (filters : list N) (hashes : list hash) : list hash :=
  match limit, filters, hashes with
  | S k, f :: ftl, h :: htl =>
      if filter_matches w active f then h :: matched_hashes w active k ftl htl else matched_hashes w active k ftl htl
  | _, _, _ => []
  end.

(* parent hash and expected hashes for a batch starting at [start]; None = ignored *)
Definition expected_hashes (w : fworld) (start : N) : res (option (hash * list hash)) :=
  let fin_number := fw_interval w * fw_fin_index w in
  if start <=? fin_number then
    let cached_number := fw_interval w * fw_cached_index w in
    let next_number := fw_interval w * (fw_cached_index w + 1) in
    if (start <=? cached_number) || (next_number <? start) then Ok None
    else match fw_cached w with
         | [] => Ok None
         | _ =>
           if start =? cached_number + 1 then
             match fw_cached_cp w with
             | Some cp => Ok (Some (cp, fw_cached w))
             | None => Panic S_CACHED_CP
             end
           else
             let idx := N.to_nat (start - cached_number - 2) in
             match nth_error (fw_cached w) idx with
             | Some p => Ok (Some (p, skipn (S idx) (fw_cached w)))
             | None => Ok None     (* fix commit 8501c6d: beyond what is cached = ignored (was an index panic) *)
             end
         end
  else
    if start =? fin_number + 1 then Ok (Some (fw_fin_hash w, fw_latest w))
    else
      let idx := N.to_nat (start - fin_number - 2) in
      match nth_error (fw_latest w) idx with
      | Some p => Ok (Some (p, skipn (S idx) (fw_latest w)))
      | None => Ok None
      end.

Definition could_request_more (w : fworld) (cached_index : N) (cached_len : N) (min_filtered : N) : bool :=
  let should := min_filtered / fw_interval w in      (* (min_filtered + 1 - 1) / interval *)
  if fw_fin_index w <=? should then
    min_filtered + 1 <=? fw_interval w * fw_fin_index w + lenN (fw_latest w)
  else (should =? cached_index) && (cached_len =? fw_interval w).

Definition execute (w : fworld) (m : bf_msg) : res fout :=
  match fw_scripts w with
  | [] => Ok (nothing w)
  | _ =>
    match fw_peer w with
    | None | Some None => Ok (nothing w)
    | Some (Some tip) =>
      if negb (fw_min w + 1 =? m_start m) then
        Ok (mkFO 0 (fw_min w) (if fw_db_pending w then None else Some (fw_min w)) None false None)
      else if negb (lenN (m_filters m) =? lenN (m_hashes m)) then Ok (banned w E_MALFORMED)
      else if lenN (m_filters m) =? 0 then Ok (nothing w)
      else
        let* e := expected_hashes w (m_start m) in
        match e with
        | None => Ok (nothing w)
        | Some (parent, expected) =>
          let limit := Nat.min (length (m_filters m)) (length expected) in
          match chain_check (fw_htable w) parent (firstn limit (m_filters m)) expected with
          | None => Ok (banned w E_FILTER_DATA)
          | Some _ =>
            let limitN := N.of_nat limit in
            let active := active_scripts w (m_start m + limitN) in
            let matched := matched_hashes w active limit (m_filters m) (m_hashes m) in
            let filtered := m_start m - 1 + limitN in
            let record := match matched with
                          | [] => None
                          | _ => Some (m_start m, limitN, map (fun h => (h, h =? tip)) matched)
                          end in
            (* repair: script numbers follow only when nothing is pending, neither in memory nor in the store *)
            let bump := match matched with [] => if fw_mem_empty w && negb (fw_db_pending w) then Some filtered else None | _ => None end in
            let load := match matched with [] => false | _ => fw_mem_empty w end in
            (* Peers::update_min_filtered_block_number: a different cached index drops the cached hashes *)
            let should := filtered / fw_interval w in
            let cached_len := if should =? fw_cached_index w then lenN (fw_cached w) else 0 in
            let next := if could_request_more w should cached_len filtered then Some (filtered + 1) else None in
            Ok (mkFO 0 filtered bump record load next)
          end
        end
    end
  end.
