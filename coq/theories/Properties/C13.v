(* C13 — Cell and transaction queries are exact views of the index.
   Model: Model/Query.v, byte level: keys are the bytes Key::into_vec builds, the store is the list of
   entries in RocksDB (bytewise) order, "matching" = the stored key starts with the search prefix.

   Proved for both orders, for cells and for (ungrouped) transactions alike (the theorems are generic in the
   entry type and the filter): following last_cursor yields exactly the stored entries whose key starts with
   the search prefix and which pass the filters, once each, in iteration order.  The grouped page-boundary rule
   and the cursor = Some [] corner are decided by the correspondence check only (C13 is claimed partial there). *)
From Coq Require Import NArith List Bool Sorted.
From LC Require Import Query QueryProofs QueryOrderProofs.
From LC Require Import QueryGroupProofs.
Import ListNotations.
Open Scope N_scope.

(* following last_cursor page by page with any limit >= 1 yields every matching entry that passes the
   filters exactly once, in key order, and terminates (the fuel |db|+1 suffices) *)
Theorem C13_pages_exact_cells :
  forall tag raw al other f limit (db : list centry),
    sorted_db ce_key db -> (1 <= limit)%nat ->
    pages ce_key (cell_pass other f) tag raw al limit db (S (length db)) None
    = filter (cell_pass other f) (scan ce_key tag raw al true None db).
Proof. intros. apply pages_exact; assumption. Qed.
Print Assumptions C13_pages_exact_cells.

Theorem C13_pages_exact_txs :
  forall tag raw al fs block limit (db : list tentry),
    sorted_db te_key db -> (1 <= limit)%nat ->
    pages te_key (tx_pass fs block) tag raw al limit db (S (length db)) None
    = filter (tx_pass fs block) (scan te_key tag raw al true None db).
Proof. intros. apply pages_exact; assumption. Qed.
Print Assumptions C13_pages_exact_txs.

(* the generic page is what get_cells / get_transactions compute *)
Theorem C13_page_is_get_cells :
  forall tag raw al other f limit cursor (db : list centry),
    get_page ce_key (cell_pass other f) tag raw al limit db cursor = get_cells tag raw al other f true limit cursor db.
Proof. reflexivity. Qed.
Print Assumptions C13_page_is_get_cells.

Theorem C13_page_is_get_txs :
  forall tag raw al fs block limit cursor (db : list tentry),
    get_page te_key (tx_pass fs block) tag raw al limit db cursor = get_txs tag raw al fs block true limit cursor db.
Proof. reflexivity. Qed.
Print Assumptions C13_page_is_get_txs.

(* each filter removes exactly the entries outside it: a returned cell passes all five filters
   (bounds as implemented) and belongs to the scan *)
Theorem C13_filters_exact :
  forall tag raw al other f asc limit cursor db page lk e,
    get_cells tag raw al other f asc limit cursor db = (page, lk) ->
    In e page -> cell_pass other f e = true /\ In e (scan ce_key tag raw al asc cursor db).
Proof. exact get_cells_sound. Qed.
Print Assumptions C13_filters_exact.

(* get_cells_capacity is the capacity sum of exactly the cells get_cells returns for the same key *)
Theorem C13_capacity_is_sum :
  forall tag raw al other f db,
    get_cells_capacity tag raw al other f db =
    fold_right N.add 0 (map ce_cap (fst (get_cells tag raw al other f true
         (length (scan ce_key tag raw al true None db)) None db))).
Proof. exact capacity_is_sum. Qed.
Print Assumptions C13_capacity_is_sum.

(* ---- both orders ---- *)

(* one RPC call in the generic form is get_cells / get_transactions in the given order *)
Theorem C13_page_is_get_cells_any_order :
  forall tag raw al other f limit cursor asc (db : list centry),
    get_page_o ce_key (cell_pass other f) tag raw al limit db asc cursor = get_cells tag raw al other f asc limit cursor db.
Proof. reflexivity. Qed.
Print Assumptions C13_page_is_get_cells_any_order.

Theorem C13_page_is_get_txs_any_order :
  forall tag raw al fs block limit cursor asc (db : list tentry),
    get_page_o te_key (tx_pass fs block) tag raw al limit db asc cursor = get_txs tag raw al fs block asc limit cursor db.
Proof. reflexivity. Qed.
Print Assumptions C13_page_is_get_txs_any_order.

(* ascending or descending, any limit >= 1: the concatenated pages are exactly the stored entries whose key starts
   with the search prefix and which pass the filters - none missing, none twice, none foreign - in key order
   (ascending) or reverse key order (descending).  For descending order the iterator starts at
   prefix ++ 0xff * (65535 - args_len); the hypothesis says no stored key with the prefix lies above that start key
   (keys are strings of bytes no longer than it: script args shorter than 65519 bytes). *)
Theorem C13_pages_are_the_matching_cells :
  forall tag raw al other f limit asc (db : list centry),
    sorted_db ce_key db -> (1 <= limit)%nat ->
    (asc = false -> forall e, In e db -> starts_with (ce_key e) (tag :: raw) = true ->
        bytes_ok (ce_key e) /\ (length (ce_key e) <= length (tag :: raw) + (MAX_PREFIX - al))%nat) ->
    pages_o ce_key (cell_pass other f) tag raw al limit db asc (S (length db)) None
    = filter (cell_pass other f) (iter asc (filter (fun e => starts_with (ce_key e) (tag :: raw)) db)).
Proof. intros. apply pages_are_the_matching_entries; assumption. Qed.
Print Assumptions C13_pages_are_the_matching_cells.

Theorem C13_pages_are_the_matching_txs :
  forall tag raw al fs block limit asc (db : list tentry),
    sorted_db te_key db -> (1 <= limit)%nat ->
    (asc = false -> forall e, In e db -> starts_with (te_key e) (tag :: raw) = true ->
        bytes_ok (te_key e) /\ (length (te_key e) <= length (tag :: raw) + (MAX_PREFIX - al))%nat) ->
    pages_o te_key (tx_pass fs block) tag raw al limit db asc (S (length db)) None
    = filter (tx_pass fs block) (iter asc (filter (fun e => starts_with (te_key e) (tag :: raw)) db)).
Proof. intros. apply pages_are_the_matching_entries; assumption. Qed.
Print Assumptions C13_pages_are_the_matching_txs.

(* grouped mode (group_by_transaction) of one get_transactions call: the loop consumes a prefix [taken] of the scanned
   entries; the groups, flattened, are exactly the entries of that prefix which pass the filters, in scan order (so:
   the grouped answer is the ungrouped one, grouped); every group is a non-empty run of entries of ONE transaction and
   neighbouring groups belong to different transactions; there are at most [limit] groups; the loop stops before the
   end of the scan only with [limit] groups and in front of an entry of another transaction (a transaction's run is
   never cut by the page boundary); the cursor returned is the key of the last entry consumed (passing or not), so the
   next call resumes exactly behind [taken]. *)
Theorem C13_grouped_is_the_ungrouped_grouped :
  forall tag raw al fs block asc limit cursor (db : list tentry) gs lk,
    get_txs_grouped tag raw al fs block asc limit cursor db = (gs, lk) ->
    exists taken rest,
      scan te_key tag raw al asc cursor db = taken ++ rest /\
      flat gs = filter (tx_pass fs block) taken /\
      wf_groups gs /\ (length gs <= limit)%nat /\
      (rest = [] \/ (length gs = limit /\ exists e r, rest = e :: r /\ last_tx_of gs <> Some (te_tx e))) /\
      lk = match rev taken with e :: _ => te_key e | [] => [] end.
Proof.
  intros tag raw al fs block asc limit cursor db gs lk H. unfold get_txs_grouped in H.
  destruct (group_loop_spec fs block limit _ _ _ _ _ H) as (taken & rest & A & B & C & D & E & F).
  exists taken, rest. split; [exact A|]. split; [exact B|]. split; [apply C; constructor|]. split; [apply D; apply le_0_n|]. split; [exact E | exact F].
Qed.
Print Assumptions C13_grouped_is_the_ungrouped_grouped.

(* non-vacuity: five entries of transactions 7 7 8 8 7, limit 2: the page holds the runs of 7 and 8 and stops in front of the second run of 7 *)
Example C13_example_grouped :
  let e k t := mkTE [96; 5; 0;0;0;0;0;0;0;1; 0;0;0;k; 0;0;0;0; 1] t in
  fst (get_txs_grouped 96 [5] 0 None None true 2 None [e 1 7; e 2 7; e 3 8; e 4 8; e 5 7])
  = [(7, [e 1 7; e 2 7]); (8, [e 3 8; e 4 8])].
Proof. vm_compute. reflexivity. Qed.

(* non-vacuity, descending: a store with a foreign entry on either side, limit 2, two pages in reverse key order *)
Example C13_example_pages_desc :
  let e k := mkCE [32; 7; k] k [] None 0 10 in
  let x := mkCE [32; 6; 9] 9 [] None 0 10 in
  let y := mkCE [32; 8; 0] 0 [] None 0 10 in
  pages_o ce_key (cell_pass true (mkCF None None None None None)) 32 [7] 0 2 [x; e 1; e 2; e 5; y] false 6 None = [e 5; e 2; e 1].
Proof. vm_compute. reflexivity. Qed.

(* non-vacuity: a sorted three-entry store, limit 1, three pages *)
Example C13_example_pages :
  let e k := mkCE [32; 7; k] k [] None 0 10 in
  pages ce_key (cell_pass true (mkCF None None None None None)) 32 [7] 0 1 [e 1; e 2; e 5] 4 None = [e 1; e 2; e 5].
Proof. vm_compute. reflexivity. Qed.
