//! op fh: the BlockFilterHashes handler (filter protocol), message by message against Model/HashesUpdate.v,
//! the other filter-protocol messages with boundary values (C10), and a fork-switch history with two honest peers
//! whose filter hashes must follow the new branch (C04 / C05).
#![allow(clippy::all)]

use ckb_network::{bytes::Bytes as P2pBytes, PeerIndex};
use ckb_types::{packed, prelude::*};

use super::c06::Interner;
use super::chain::flat_plan;
use super::client::dummy_consensus;
use super::out::{coq_list, Out, Val};
use super::prng::Rng;
use super::world::*;

/// src/protocols/filter/block_filter.rs: GET_BLOCK_FILTER_HASHES_TOKEN (private to that module)
const GET_BLOCK_FILTER_HASHES_TOKEN: u64 = 1;

fn hashes_message(start: u64, parent: &packed::Byte32, hashes: &[packed::Byte32]) -> P2pBytes {
    let content = packed::BlockFilterHashes::new_builder().start_number(start.pack()).parent_block_filter_hash(parent.clone()).block_filter_hashes(hashes.to_vec().pack()).build();
    packed::BlockFilterMessage::new_builder().set(content).build().as_bytes()
}

fn junk_hash(rng: &mut Rng) -> packed::Byte32 { let mut b = [0u8; 32]; for x in b.iter_mut() { *x = rng.below(256) as u8; } b.pack() }

pub(crate) fn run(seed: u64, n: u64, out: &mut Out) {
    let guard = ckb_systemtime::faketime();
    guard.set_faketime(super::chain::T0);
    let mut rng = Rng::new(seed);
    let consensus = dummy_consensus();
    let interval = 10u64;
    let worlds = (n / 12).max(1);
    let mut case_no = 0u64;
    for world in 0..worlds {
        let pool: Vec<packed::Script> = (1..=3u8).map(|i| pool_script(9, &[i])).collect();
        let mut gen = TxGen::new(pool.clone(), world * 100_000, 3);
        let len = rng.range(38, 64);
        let bc = BodyChain::new(&mut rng, flat_plan(8, 8, 5), len, 5_000 + world, &mut gen);
        let fork_at = rng.range(2, len - 6);
        let other = bc.fork(&mut rng, fork_at, 5, 9_000 + world, pool.clone(), 3);
        let tip = bc.tip();
        let mut net = Net::new(&bc.chain, &consensus, 5, 1, interval);
        let mut hid = Interner::new(1000);
        let fin = rng.below(((len - 1) / interval).min(3) + 1);
        if fin > 0 {
            let cps: Vec<packed::Byte32> = (1..=fin).map(|i| bc.fhashes[(i * interval) as usize].clone()).collect();
            net.storage.update_check_points(1, &cps);
            net.storage.update_max_check_point_index(fin as u32);
            net.restart();
        }
        let peer = PeerIndex::new(1);
        let proved_at = if rng.chance(2, 5) { rng.range(fin * interval + 1, tip).min(tip) } else { tip };
        if !net.prove_peer(peer, &bc.chain, proved_at) { out.stat("fh-unproven-world", &format!("{}", world)); continue; }
        // a peer that has ANNOUNCED more than it has proven (a last state is only a claim): what it may deliver hashes for is
        // bounded by the proven header, not by the announced one
        if proved_at + 1 < tip && rng.chance(2, 3) {
            let r = net.lc_recv(peer, super::prover::last_state_message(&bc.chain, tip).as_bytes());
            if r.panicked { out.stat("fh-announce-panicked", &format!("{}", world)); }
        }
        let unproven = PeerIndex::new(78);
        net.lc_connect(unproven);
        let stranger = PeerIndex::new(77);
        let fin_number = fin * interval;
        // the peer's latest hashes so far
        let lat_cp = if rng.chance(1, 8) { fin_number + interval } else { fin_number };
        // (a peer proven below the tip often holds every hash up to its proven header: what it sends next starts right above it)
        let lat_len = if rng.chance(1, 3) { 0 } else if proved_at < tip && rng.chance(1, 2) { proved_at - fin_number } else { rng.range(0, proved_at - fin_number) };
        let lat: Vec<packed::Byte32> = (1..=lat_len).map(|j| bc.fhashes[(fin_number + j) as usize].clone()).collect();
        net.peers.mock_latest_block_filter_hashes(peer, lat_cp, lat.clone());
        // where filter syncing stands decides the cached range
        let m0 = if fin > 0 && rng.chance(2, 3) { rng.range(0, fin_number - 1) } else { fin_number };
        net.storage.update_min_filtered_block_number(m0);
        net.peers.update_min_filtered_block_number(m0);
        {
            let (ci, _) = net.peers.get_cached_block_filter_hashes();
            let base = ci as u64 * interval;
            let full: Vec<packed::Byte32> = (1..=interval).filter(|j| base + j <= tip).map(|j| bc.fhashes[(base + j) as usize].clone()).collect();
            let cached = match rng.below(4) { 0 => Vec::new(), 1 | 2 => full[..rng.below(full.len() as u64 + 1) as usize].to_vec(), _ => full };
            net.peers.update_cached_block_filter_hashes(cached);
        }
        for _step in 0..12 {
            let (fin_index, fcp) = net.storage.get_last_check_point();
            let (ci, cached) = net.peers.get_cached_block_filter_hashes();
            let cps = net.storage.get_check_points(ci, 2);
            let lat_now = net.peers.get_latest_block_filter_hashes(fin_index);
            // ---- the message ----
            let fin_n = fin_index as u64 * interval;
            let mut what = "honest";
            let mut sender = peer;
            let mut start = match rng.below(8) {
                0 => rng.range(1, tip),
                1 | 2 => fin_n + 1 + lat_now.len() as u64,                       // what the client would ask for next
                3 => fin_n + 1 + rng.below(lat_now.len() as u64 + 1),            // an overlap with what is stored
                4 => ci as u64 * interval + 1 + cached.len() as u64,             // the next cached hash
                5 => ci as u64 * interval + 1 + rng.below(cached.len() as u64 + 1),
                6 => fin_n + rng.below(3),
                _ => rng.range(1, tip),
            }.max(1).min(tip);
            let count = match rng.below(6) { 0 => 0, 1 => 1, 2 => rng.range(1, 4), _ => rng.range(1, 25) };
            let mut hashes: Vec<packed::Byte32> = (0..count).filter(|j| start + j <= tip).map(|j| bc.fhashes[(start + j) as usize].clone()).collect();
            let mut parent = bc.fhashes[start as usize - 1].clone();
            match rng.below(14) {
                0 => { what = "wrong-parent"; parent = junk_hash(&mut rng); }
                1 if !hashes.is_empty() => { what = "wrong-hash"; let j = rng.below(hashes.len() as u64) as usize; hashes[j] = junk_hash(&mut rng); }
                2 if start <= other.tip() => { what = "other-branch"; hashes = (0..count).filter(|j| start + j <= other.tip()).map(|j| other.fhashes[(start + j) as usize].clone()).collect(); parent = other.fhashes[start as usize - 1].clone(); }
                3 => { what = "start-boundary"; start = *rng.pick(&[0u64, u64::MAX, u64::MAX - 1, u64::MAX - 24, 1u64 << 63, (1u64 << 32) - 1]); }
                4 => { what = "beyond-tip"; for _ in 0..rng.range(1, 30) { hashes.push(junk_hash(&mut rng)); } }
                5 => { what = "unproven-peer"; sender = unproven; }
                6 => { what = "unknown-peer"; sender = stranger; }
                7 => { what = "empty"; hashes.clear(); }
                8 if !hashes.is_empty() => { what = "shifted"; start = start.saturating_add(1).min(tip); }
                _ => {}
            }
            // ---- the model's view ----
            let st = net.peers.get_state(&sender);
            let prove_term = match st.as_ref().and_then(|s| s.get_prove_state().map(|p| p.get_last_header().header().number())) { Some(nr) => format!("(Some {})", nr), None => "None".into() };
            let ids = |hid: &mut Interner, v: &[packed::Byte32]| coq_list(&v.iter().map(|h| format!("{}", hid.id(h.as_slice()))).collect::<Vec<_>>());
            let ccp = cps.first().map(|h| hid.id(h.as_slice())).unwrap_or(0);
            let ncp = cps.get(1).map(|h| hid.id(h.as_slice())).unwrap_or(0);
            // the per-peer list is only visible through the vote while its check point number is the finalized one
            let lat_visible = lat_cp == fin_n;
            let lat_term = if sender == peer { format!("(mkLat {} {})", lat_cp, if lat_visible { ids(&mut hid, &lat_now) } else { ids(&mut hid, &lat) }) } else { format!("(mkLat {} [])", fin_n) };
            let wterm = format!("(mkFW {} {} {} {} {} {} {} {} {})", prove_term, interval, fin_index, hid.id(fcp.as_slice()), ci, ccp, ncp, ids(&mut hid, &cached), lat_term);
            let model = format!("(run_fh {} {} {} {})", wterm, start, hid.id(parent.as_slice()), ids(&mut hid, &hashes));
            // ---- the implementation ----
            let r = net.fp_recv(sender, hashes_message(start, &parent, &hashes));
            let ban = r.bans.iter().filter(|(p, _)| *p == sender).map(|(_, c)| *c).next().unwrap_or(0);
            let (_, cached_after) = net.peers.get_cached_block_filter_hashes();
            let lat_after = if sender == peer { net.peers.get_latest_block_filter_hashes(fin_index) } else { Vec::new() };
            let next: Option<u64> = r.sent.iter().filter_map(|(_, s)| if let Sent::GetBlockFilterHashes(x) = s { Some(*x) } else { None }).next();
            let v = if r.panicked { Val::l(vec![Val::n(3)]) } else {
                Val::l(vec![Val::n(0), Val::n(ban),
                    Val::l(lat_after.iter().map(|h| Val::n(hid.id(h.as_slice()))).collect()),
                    Val::l(cached_after.iter().map(|h| Val::n(hid.id(h.as_slice()))).collect()),
                    Val::opt(next.map(Val::n))])
            };
            let mut problems: Vec<String> = Vec::new();
            if r.panicked { problems.push(format!("[C10-filter-panic] BlockFilterHashes made the handler panic: {}", super::last_panic())); }
            // whatever is trusted after the message is the chain's own hash chain (one honest proven peer: its list is the vote)
            if sender == peer && lat_visible {
                for (j, h) in lat_after.iter().enumerate() {
                    if lat_now.get(j).map(|o| o != h).unwrap_or(false) { problems.push(format!("[C06-latest-hash-rewritten] position {} of the peer's accepted filter hashes changed", j)); break; }
                }
            }
            for (j, h) in cached_after.iter().enumerate() {
                if cached.get(j).map(|o| o != h).unwrap_or(false) { problems.push(format!("[C06-cached-hash-rewritten] position {} of the cached filter hashes changed", j)); break; }
            }
            // (an authentic answer contradicts the sender's own earlier claims if those were not the chain's: only a consistent past counts)
            let past_authentic = lat_now.iter().enumerate().all(|(j, h)| bc.fhashes.get((fin_n + 1 + j as u64) as usize) == Some(h))
                && cached.iter().enumerate().all(|(j, h)| bc.fhashes.get((ci as u64 * interval + 1 + j as u64) as usize) == Some(h));
            if ban != 0 && what == "honest" && !hashes.is_empty() && past_authentic { problems.push(format!("[C05-honest-hashes-banned] authentic BlockFilterHashes(start {}, {} hashes) were answered with a ban ({})", start, hashes.len(), ban)); }
            let oracle = if problems.is_empty() { Ok(()) } else { Err(problems.join(" || ")) };
            if r.panicked {
                // locks may be poisoned: this world ends here
                out.case(&format!("hashes-{}", case_no), &["filter-hashes", what], &model, &v, oracle,
                    &format!("world {}: chain {} blocks, finalized index {}, cached index {} ({} hashes), peer proven at {}, {} latest hashes; BlockFilterHashes(start {}, {} hashes) [{}]", world, len, fin_index, ci, cached.len(), proved_at, lat_now.len(), start, hashes.len(), what));
                case_no += 1;
                break;
            }
            out.case(&format!("hashes-{}", case_no), &["filter-hashes", what], &model, &v, oracle,
                &format!("world {}: chain {} blocks, finalized index {}, cached index {} ({} hashes), peer proven at {}, {} latest hashes; BlockFilterHashes(start {}, {} hashes) [{}]", world, len, fin_index, ci, cached.len(), proved_at, lat_now.len(), start, hashes.len(), what));
            case_no += 1;
        }
    }
    boundary_messages(&mut rng, n, out);
    fork_histories(&mut rng, n, out);
    poisoned_cache(&mut rng, n, out);
    download_after_clear(&mut rng, n, &guard, out);
}

/// C05 on the download path: an honest proven peer is asked for matched blocks; before they arrive the matched blocks are
/// cleared (set_scripts); the peer then delivers exactly what it was asked for.  Its request is answered: more than a message
/// timeout later a refresh tick must not disconnect it.
fn download_after_clear(rng: &mut Rng, n: u64, guard: &ckb_systemtime::FaketimeGuard, out: &mut Out) {
    use crate::protocols::light_client::constant::REFRESH_PEERS_TOKEN;
    let consensus = dummy_consensus();
    let interval = 10u64;
    for world in 0..(n / 60).max(1) {
        guard.set_faketime(super::chain::T0);
        let pool: Vec<packed::Script> = (1..=3u8).map(|i| pool_script(9, &[i])).collect();
        let mut gen = TxGen::new(pool.clone(), world * 100_000, 1);
        let len = rng.range(14, 22);
        let bc = BodyChain::new(rng, flat_plan(8, 8, 5), len, 45_000 + world, &mut gen);
        let tip = bc.tip();
        let mut net = Net::new(&bc.chain, &consensus, 5, 1, interval);
        let peer = PeerIndex::new(1);
        if !net.prove_peer(peer, &bc.chain, tip - 1) { continue; }
        let statuses = || -> Vec<crate::storage::ScriptStatus> { pool.iter().map(|s| crate::storage::ScriptStatus { script: s.clone(), script_type: crate::storage::ScriptType::Lock, block_number: 0 }).collect() };
        net.storage.update_filter_scripts(statuses(), crate::storage::SetScriptsCommand::All);
        net.peers.mock_latest_block_filter_hashes(peer, 0, (1..tip).map(|j| bc.fhashes[j as usize].clone()).collect());
        let mut log: Vec<String> = Vec::new();
        let mut problems: Vec<String> = Vec::new();
        // a batch of authentic filters: matched blocks, proof request, proof, block request
        let r = net.fp_recv(peer, filters_message(serve_block_filters(&bc, 1, 8)));
        let mut queue = r.sent;
        let mut asked: Vec<packed::Byte32> = Vec::new();
        for _ in 0..4 {
            let mut next = Vec::new();
            for (p, s) in queue.drain(..) {
                match s {
                    Sent::GetBlocksProof(req) => { if let Some(resp) = serve_blocks_proof(&bc.chain, &req) { next.extend(net.lc_recv(p, blocks_proof_message(resp)).sent); } }
                    Sent::GetBlocks(hashes) => { asked.extend(hashes); }
                    _ => {}
                }
            }
            queue = next;
            if queue.is_empty() { break; }
        }
        log.push(format!("{} blocks requested", asked.len()));
        if asked.is_empty() { out.stat("fh-download-nothing-asked", &format!("{}", world)); continue; }
        // the user changes the scripts while the blocks are under way: pending and in-memory matched blocks are dropped
        {
            let mut matched = net.peers.matched_blocks().write().expect("poisoned");
            net.storage.update_filter_scripts(statuses(), crate::storage::SetScriptsCommand::All);
            matched.clear();
        }
        guard.set_faketime(super::chain::T0 + 5_000);
        for h in asked.iter() {
            if let Some(nr) = bc.chain.number_of(h) {
                let r = net.sp_recv(peer, send_block_message(bc.chain.block(nr)));
                if r.panicked { problems.push(format!("[C10-handler-panic] SendBlock panicked: {}", super::last_panic())); }
                if !r.bans.is_empty() { problems.push(format!("[C05-honest-peer-banned-for-requested-block] the requested block {} was answered with a ban ({:?})", nr, r.bans)); }
            }
        }
        let outstanding = net.peers.get_peer(&peer).map(|p| p.get_blocks_request().is_some()).unwrap_or(false);
        // the peer announces a new tip in time (so only the block request's timer can expire)
        guard.set_faketime(super::chain::T0 + 50_000);
        net.lc_recv(peer, super::prover::last_state_message(&bc.chain, tip).as_bytes());
        guard.set_faketime(super::chain::T0 + 70_000);
        let r = net.lc_tick(REFRESH_PEERS_TOKEN);
        if r.disconnects.contains(&peer) || net.peers.get_state(&peer).is_none() {
            problems.push(format!("[C05-honest-peer-timed-out-after-answering] the peer delivered every block it was asked for, yet the refresh tick 70 s after the request disconnected it (request still outstanding after delivery: {})", outstanding));
        }
        let oracle = if problems.is_empty() { Ok(()) } else { Err(problems.join(" || ")) };
        out.case(&format!("download-after-clear-{}", world), &["download-after-clear"], "(VN 1)", &Val::n(1), oracle,
            &format!("world {}: chain {} blocks, one honest proven peer; {}; set_scripts while they are under way; all delivered; refresh tick 70 s later", world, len, log.join("; ")));
    }
    guard.set_faketime(super::chain::T0);
}

/// C06 below the finalized check point: one proven peer delivers filter hashes for the cached range that are NOT the chain's
/// (a hash chain over filters of its own making), then block filters that fit them.  Nothing of this may be acted on: every
/// hash between two finalized check points has to chain up to the upper one.
fn poisoned_cache(rng: &mut Rng, n: u64, out: &mut Out) {
    use ckb_types::utilities::calc_filter_hash;
    let consensus = dummy_consensus();
    let interval = 10u64;
    for world in 0..(n / 40).max(1) {
        let pool: Vec<packed::Script> = (1..=3u8).map(|i| pool_script(9, &[i])).collect();
        let mut gen = TxGen::new(pool.clone(), world * 100_000, 1);
        let len = rng.range(34, 48);
        let bc = BodyChain::new(rng, flat_plan(8, 8, 5), len, 35_000 + world, &mut gen);
        let tip = bc.tip();
        let mut net = Net::new(&bc.chain, &consensus, 5, 1, interval);
        let fin = rng.range(1, ((len - 1) / interval).min(3));
        let cps: Vec<packed::Byte32> = (1..=fin).map(|i| bc.fhashes[(i * interval) as usize].clone()).collect();
        net.storage.update_check_points(1, &cps);
        net.storage.update_max_check_point_index(fin as u32);
        net.restart();
        let peer = PeerIndex::new(1);
        if !net.prove_peer(peer, &bc.chain, tip) { continue; }
        net.storage.update_filter_scripts(pool.iter().map(|s| crate::storage::ScriptStatus { script: s.clone(), script_type: crate::storage::ScriptType::Lock, block_number: 0 }).collect(), crate::storage::SetScriptsCommand::All);
        // filter syncing stands at the lower end of a cached range
        let ci = rng.below(fin);
        let cn = ci * interval;
        net.storage.update_min_filtered_block_number(cn);
        net.peers.update_min_filtered_block_number(cn);
        net.storage.update_block_number(cn);
        // the forger's filters: the previous block's filter everywhere (so nothing of block n's own activity matches), and its hash chain
        // variant 3 (always the first world): a forged interior whose LAST entry is the genuine upper check point - all a single
        // peer has to get right, since nothing else of the list can be checked before the filters arrive
        // variant 4 (always the second world): the authentic hashes of the range ARE cached already; a conflicting list with the right
        // parent and the genuine last hash must not replace them
        let variant = if world == 0 { 3 } else if world == 1 { 4 } else { rng.below(3) };
        let upto = match variant { 0 | 3 | 4 => cn + interval, 1 => cn + interval + rng.range(1, 3), _ => cn + rng.range(2, interval - 1) }.min(tip);
        let prefilled = variant == 4 && upto == cn + interval;
        if prefilled { net.peers.update_cached_block_filter_hashes(((cn + 1)..=(cn + interval)).map(|j| bc.fhashes[j as usize].clone()).collect()); }
        let mut parent = bc.fhashes[cn as usize].clone();
        let mut fake_filters: Vec<packed::Bytes> = Vec::new();
        let mut fake_hashes: Vec<packed::Byte32> = Vec::new();
        for nr in (cn + 1)..=upto {
            let f = bc.filters[0].clone();
            let h: packed::Byte32 = calc_filter_hash(&parent, &f).pack();
            let _ = nr;
            fake_filters.push(f);
            fake_hashes.push(h.clone());
            parent = h;
        }
        let tail = (variant == 3 || variant == 4) && upto == cn + interval;
        if tail { let k = fake_hashes.len() - 1; fake_hashes[k] = bc.fhashes[(cn + interval) as usize].clone(); fake_filters.pop(); }
        let r1 = net.fp_recv(peer, hashes_message(cn + 1, &bc.fhashes[cn as usize], &fake_hashes));
        let (_, cached_after) = net.peers.get_cached_block_filter_hashes();
        let count = (fake_filters.len() as u64).min(interval) as usize;
        let content = packed::BlockFilters::new_builder().start_number((cn + 1).pack())
            .block_hashes((0..count).map(|j| bc.chain.headers[(cn + 1) as usize + j].hash()).collect::<Vec<_>>().pack())
            .filters(fake_filters[..count].to_vec().pack()).build();
        let r2 = net.fp_recv(peer, packed::BlockFilterMessage::new_builder().set(content).build().as_bytes());
        let min_after = net.storage.get_min_filtered_block_number();
        let mut problems: Vec<String> = Vec::new();
        if r1.panicked || r2.panicked { problems.push(format!("[C10-filter-panic] the handler panicked: {}", super::last_panic())); }
        if let Some(j) = cached_after.iter().enumerate().position(|(j, h)| bc.fhashes.get((cn + 1) as usize + j) != Some(h)) {
            if prefilled {
                problems.push(format!("[C06-cached-hashes-rewritten] the authentic filter hashes cached for the range ({}, {}] were replaced by a conflicting list (forged hash for block {}) because its parent and its last hash are right", cn, cn + interval, cn + 1 + j as u64));
            } else if tail {
                problems.push(format!("[C06-cached-interior-hashes-unverified] the filter hashes of the range ({}, {}] were cached from ONE proven peer; only the last one can be compared with the finalized check point, the forged hash of block {} before it was accepted", cn, cn + interval, cn + 1 + j as u64));
            } else if upto >= cn + interval {
                problems.push(format!("[C06-unanchored-cached-hashes] a cached filter hash (block {}) that is not the chain's was accepted although the batch reaches the next finalized check point (block {})", cn + 1 + j as u64, cn + interval));
            }
        }
        if min_after > cn && prefilled {
            problems.push(format!("[C06-cached-hashes-rewritten] filter progress moved from {} to {} over forged filters after the cached hashes had been replaced", cn, min_after));
        } else if min_after > cn && tail {
            problems.push(format!("[C06-cached-interior-hashes-unverified] filter progress moved from {} to {} over {} forged filters that fit the forged interior hashes (the genuine filter of block {} would be rejected - or a peer sending it banned - only at the end of the range)", cn, min_after, count, cn + interval));
        } else if min_after > cn {
            problems.push(format!("[C06-unauthentic-filter-accepted] filter progress moved from {} to {} over filters of the peer's own making, checked against filter hashes only that peer had delivered", cn, min_after));
        }
        let oracle = if problems.is_empty() { Ok(()) } else { Err(problems.join(" || ")) };
        out.case(&format!("poison-{}", world), &["poisoned-cached-hashes", if prefilled { "conflicts-with-cached" } else if tail { "genuine-last-hash" } else { "forged-throughout" }], "(VN 1)", &Val::n(1), oracle,
            &format!("world {}: chain {} blocks, finalized index {}, filter syncing at block {} (cached range ({}, {}]); the proven peer sends {} forged filter hashes from {} (bans {:?}), then {} forged filters (bans {:?}); cached afterwards: {} hashes, min filtered {}",
                world, len, fin, cn, cn, cn + interval, fake_hashes.len(), cn + 1, r1.bans, count, r2.bans, cached_after.len(), min_after));
    }
}

/// every filter-protocol message with boundary numbers and short / empty vectors, in a world with finalized check points,
/// cached and latest hashes and a proven peer: nothing may unwind
fn boundary_messages(rng: &mut Rng, n: u64, out: &mut Out) {
    let consensus = dummy_consensus();
    let interval = 10u64;
    let mut idx = 0u64;
    for world in 0..(n / 40).max(1) {
        let pool: Vec<packed::Script> = (1..=3u8).map(|i| pool_script(9, &[i])).collect();
        let mut gen = TxGen::new(pool.clone(), world * 100_000, 3);
        let len = rng.range(38, 50);
        let bc = BodyChain::new(rng, flat_plan(8, 8, 5), len, 15_000 + world, &mut gen);
        let tip = bc.tip();
        let build = |rng: &mut Rng| -> Option<Net> {
            let mut net = Net::new(&bc.chain, &consensus, 5, 1, interval);
            let fin = rng.below(3);
            if fin > 0 {
                let cps: Vec<packed::Byte32> = (1..=fin).map(|i| bc.fhashes[(i * interval) as usize].clone()).collect();
                net.storage.update_check_points(1, &cps);
                net.storage.update_max_check_point_index(fin as u32);
                net.restart();
            }
            let peer = PeerIndex::new(1);
            if !net.prove_peer(peer, &bc.chain, tip) { return None; }
            let l = rng.range(0, tip - fin * interval);
            net.peers.mock_latest_block_filter_hashes(peer, fin * interval, (1..=l).map(|j| bc.fhashes[(fin * interval + j) as usize].clone()).collect());
            let m0 = rng.range(0, fin * interval + l.min(3));
            net.storage.update_min_filtered_block_number(m0);
            net.peers.update_min_filtered_block_number(m0);
            let (ci, _) = net.peers.get_cached_block_filter_hashes();
            let base = ci as u64 * interval;
            let k = rng.below(interval + 1);
            net.peers.update_cached_block_filter_hashes((1..=k).filter(|j| base + j <= tip).map(|j| bc.fhashes[(base + j) as usize].clone()).collect());
            net.storage.update_filter_scripts(vec![crate::storage::ScriptStatus { script: pool[0].clone(), script_type: crate::storage::ScriptType::Lock, block_number: 0 }], crate::storage::SetScriptsCommand::All);
            Some(net)
        };
        let mut net = match build(rng) { Some(x) => x, None => continue };
        let peer = PeerIndex::new(1);
        for _ in 0..40 {
            let bnd = |rng: &mut Rng| -> u64 { *rng.pick(&[0u64, 1, 2, 9, 10, 11, 20, 21, u32::MAX as u64, 1 << 63, u64::MAX - 1, u64::MAX]) };
            let some_hashes = |rng: &mut Rng, k: u64| -> Vec<packed::Byte32> { (0..k).map(|j| if rng.chance(3, 4) { bc.fhashes[((1 + j) % (tip + 1)) as usize].clone() } else { junk_hash(rng) }).collect() };
            let (what, data): (&str, P2pBytes) = match rng.below(6) {
                0 => { let k = *rng.pick(&[0u64, 1, 2, 3, 30]); let c = packed::BlockFilterHashes::new_builder().start_number(bnd(rng).pack()).parent_block_filter_hash(junk_hash(rng)).block_filter_hashes(some_hashes(rng, k).pack()).build();
                       ("BlockFilterHashes", packed::BlockFilterMessage::new_builder().set(c).build().as_bytes()) }
                1 => { let k = *rng.pick(&[0u64, 1, 2, 3, 30]); let c = packed::BlockFilterCheckPoints::new_builder().start_number(bnd(rng).pack()).block_filter_hashes(some_hashes(rng, k).pack()).build();
                       ("BlockFilterCheckPoints", packed::BlockFilterMessage::new_builder().set(c).build().as_bytes()) }
                2 => { let k = *rng.pick(&[0u64, 1, 2, 3]); let fl: Vec<packed::Bytes> = (0..k).map(|j| bc.filters[((1 + j) % (tip + 1)) as usize].clone()).collect();
                       let k2 = if rng.chance(3, 4) { k } else { *rng.pick(&[0u64, 1, 5]) };
                       let c = packed::BlockFilters::new_builder().start_number(bnd(rng).pack()).block_hashes(some_hashes(rng, k2).pack()).filters(fl.pack()).build();
                       ("BlockFilters", packed::BlockFilterMessage::new_builder().set(c).build().as_bytes()) }
                3 => { // authentic prefix, then a shorter re-send
                       let fin_n = net.storage.get_last_check_point().0 as u64 * interval;
                       let s = fin_n + 1; let k = rng.range(1, 6).min(tip - s + 1);
                       ("BlockFilterHashes-short-resend", hashes_message(s, &bc.fhashes[s as usize - 1], &(0..k).map(|j| bc.fhashes[(s + j) as usize].clone()).collect::<Vec<_>>())) }
                4 => { let (ci, _) = net.peers.get_cached_block_filter_hashes(); let s = ci as u64 * interval + 1; let k = rng.range(0, 4).min(tip - s + 1);
                       ("BlockFilterHashes-short-cached-resend", hashes_message(s, &bc.fhashes[s as usize - 1], &(0..k).map(|j| bc.fhashes[(s + j) as usize].clone()).collect::<Vec<_>>())) }
                _ => { let mut b: Vec<u8> = (0..rng.range(0, 60)).map(|_| rng.below(256) as u8).collect(); if rng.chance(1, 2) && b.len() >= 4 { b[0] = (b.len() as u8).min(60); b[1] = 0; b[2] = 0; b[3] = 0; }
                       ("random-bytes", P2pBytes::from(b)) }
            };
            // one message in six goes to the sync protocol instead (it only knows SendBlock; everything else must be ignored or banned)
            let to_sync = rng.chance(1, 6);
            let r = if to_sync { net.sp_recv(peer, data.clone()) } else { net.fp_recv(peer, data.clone()) };
            let what = if to_sync { "bytes-to-sync-protocol" } else { what };
            let v = Val::l(vec![Val::n(if r.panicked { 3 } else { 0 })]);
            let oracle = if r.panicked { Err(format!("[C10-filter-panic] {} made the {} protocol handler panic: {}", what, if to_sync { "sync" } else { "filter" }, super::last_panic())) } else { Ok(()) };
            let hex: String = data.iter().take(48).map(|b| format!("{:02x}", b)).collect();
            out.case(&format!("fp-{}", idx), &["filter-protocol-boundary", what], "(VL [VN 0])", &v, oracle, &format!("{} ({} bytes: {}...) to a proven peer", what, data.len(), hex));
            idx += 1;
            if r.panicked || !r.bans.is_empty() { net = match build(rng) { Some(x) => x, None => break }; }
        }
    }
}

/// two honest peers on one chain deliver filter hashes; the chain reorganises within last-N; both peers prove the new
/// tip; every filter-hash request the client then sends is answered honestly from the new branch: no honest peer may
/// be banned, and what the client finally trusts after the finalized check point is the new branch's hash chain
fn fork_histories(rng: &mut Rng, n: u64, out: &mut Out) {
    let consensus = dummy_consensus();
    let interval = 10u64;
    for world in 0..(n / 40).max(1) {
        let pool: Vec<packed::Script> = (1..=3u8).map(|i| pool_script(9, &[i])).collect();
        let mut gen = TxGen::new(pool.clone(), world * 100_000, 3);
        let len = rng.range(24, 40);
        let last_n = 6u64;
        let bc = BodyChain::new(rng, flat_plan(8, 8, 5), len, 25_000 + world, &mut gen);
        let tip = bc.tip();
        let depth = rng.range(1, 4);
        // a new branch that ends more than last-N above the old tip is proved from the old tip with a reorg section (fork search,
        // rollback); a shorter one is proved from a remembered header below the fork point, without any reorg section: the known
        // C04 finding "rebased-start", whose consequences for the filter hashes are listed under that finding
        let long = world % 2 == 0;
        let extra = depth + if long { last_n + rng.range(1, 4) } else { rng.range(1, 3) };
        let other = bc.fork(rng, tip - depth, extra, 29_000 + world, pool.clone(), 3);
        let mut net = Net::new(&bc.chain, &consensus, last_n, 2, interval);
        let fin = rng.below(((tip - depth - 1) / interval).min(2) + 1);
        if fin > 0 {
            let cps: Vec<packed::Byte32> = (1..=fin).map(|i| bc.fhashes[(i * interval) as usize].clone()).collect();
            net.storage.update_check_points(1, &cps);
            net.storage.update_max_check_point_index(fin as u32);
            net.restart();
        }
        let fin_number = fin * interval;
        let peers = [PeerIndex::new(1), PeerIndex::new(2)];
        let mut ok = true;
        for p in peers.iter() { ok &= net.prove_peer(*p, &bc.chain, tip); }
        if !ok { out.stat("fh-fork-unproven", &format!("{}", world)); continue; }
        let mut problems: Vec<String> = Vec::new();
        let mut log: Vec<String> = Vec::new();
        // both peers deliver the old branch's hashes up to the old tip (through the handler)
        for p in peers.iter() {
            let s = fin_number + 1;
            let hs: Vec<packed::Byte32> = (s..=tip).map(|j| bc.fhashes[j as usize].clone()).collect();
            let r = net.fp_recv(*p, hashes_message(s, &bc.fhashes[s as usize - 1], &hs));
            if r.panicked { problems.push(format!("[C10-filter-panic] BlockFilterHashes panicked: {}", super::last_panic())); }
            if !r.bans.is_empty() { problems.push(format!("[C05-honest-hashes-banned] the old branch's hashes were answered with a ban ({:?})", r.bans)); }
        }
        // the reorganisation: both peers announce and prove the new tip
        for p in peers.iter() {
            let proved = net.prove_peer(*p, &other.chain, other.tip());
            log.push(format!("peer {} proves the new tip: {}", p.value(), proved));
        }
        if std::env::var("VERIF_DEBUG").is_ok() {
            eprintln!("DBG world {} after reorg: trusted {} hashes; states {:?}", world, net.peers.get_latest_block_filter_hashes(fin as u32).len(),
                peers.iter().map(|p| net.peers.get_state(p).map(|s| format!("{} reorg {:?}", s, s.get_prove_state().map(|ps| ps.get_reorg_last_headers().len())))).collect::<Vec<_>>());
        }
        let with_reorg_section = peers.iter().any(|p| net.peers.get_state(p).and_then(|s| s.get_prove_state().map(|ps| !ps.get_reorg_last_headers().is_empty())).unwrap_or(false));
        let class = if with_reorg_section { "C04-stale-filter-hashes-after-fork-switch" } else { "C04-fork-switch-without-rollback-rebased-start" };
        // the client asks for filter hashes again (timer), the honest servers answer from the new branch
        let mut pending: Vec<(PeerIndex, Sent)> = net.fp_tick(GET_BLOCK_FILTER_HASHES_TOKEN).sent;
        let mut rounds = 0;
        while rounds < 12 {
            rounds += 1;
            let mut next = Vec::new();
            for (p, s) in pending.drain(..) {
                if let Sent::GetBlockFilterHashes(start) = s {
                    if start == 0 || start > other.tip() { continue; }
                    let end = (start + 7).min(other.tip());
                    let hs: Vec<packed::Byte32> = (start..=end).map(|j| other.fhashes[j as usize].clone()).collect();
                    let r = net.fp_recv(p, hashes_message(start, &other.fhashes[start as usize - 1], &hs));
                    log.push(format!("peer {} answers hashes [{}, {}]: bans {:?}", p.value(), start, end, r.bans));
                    if r.panicked { problems.push(format!("[C10-filter-panic] BlockFilterHashes panicked: {}", super::last_panic())); }
                    if !r.bans.is_empty() { problems.push(format!("[{}] after the fork switch peer {}'s authentic answer (start {}) was answered with a ban ({:?})", class, p.value(), start, r.bans)); }
                    next.extend(r.sent);
                }
            }
            if next.is_empty() { next = net.fp_tick(GET_BLOCK_FILTER_HASHES_TOKEN).sent; if next.is_empty() { break; } }
            pending = next;
            if !problems.is_empty() { break; }
        }
        // what is trusted now
        let trusted = net.peers.get_latest_block_filter_hashes(fin as u32);
        for (j, h) in trusted.iter().enumerate() {
            let nr = fin_number + 1 + j as u64;
            if nr > other.tip() || &other.fhashes[nr as usize] != h {
                problems.push(format!("[{}] after the fork switch the filter hash trusted for block {} is not the new branch's", class, nr));
                break;
            }
        }
        let oracle = if problems.is_empty() { Ok(()) } else { Err(problems.join(" || ")) };
        out.case(&format!("fork-hashes-{}", world), &["fork-switch-filter-hashes"], "(VN 1)", &Val::n(1), oracle,
            &format!("world {}: chain {} blocks, fork {} below the tip to a heavier branch (tip {}, proved {}), finalized index {}, two honest peers; {}", world, len, depth, other.tip(), if with_reorg_section { "with a reorg section" } else { "without a reorg section" }, fin, log.join("; ")));
    }
}
