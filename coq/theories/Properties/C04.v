(* C04 — After a fork switch the index reflects only the new chain and sync resumes.
   Models: Model/LastStateProof.v (commit_prove_state: fork detection, pending records, the rollback it
   orders) and Model/Store.v (rollback_to_block).  The end-to-end statement (index equals ground truth
   of the new chain after continued syncing; no stall) is checked by the correspondence ops c03 (storage
   histories with rollbacks against a ground-truth UTXO set) and sys (whole-client fork histories), not
   proved (level: partial).

   - [C04_fork_point]: the fork point is a header of the response's reorg section that the client
     remembers under the same hash, and no later reorg header is remembered.
   - [C04_fork_switch]: on a fork switch the stored tip / last-N / total difficulty become the new
     ones, pending matched records starting above the fork point are dropped, the others kept, and the
     index rollback is ordered at (first kept record + 1) or (fork point + 1).
     Without a shared remembered header nothing is committed and the store is untouched.
   - [C04_long_fork_never_adopted]: the same at the level of the handler's outcome.
   - [C04_rollback_removes_abandoned_history]: after rollback_to_block(to), no history entry at or above
     [to] of any registered script remains, whatever block number is recorded for the script (repair: index entries
     written before a crash that kept the numbers from being raised are rolled back too).
   - [C04_rollback_resumes_filtering]: filter progress is moved below the rollback point.
   - [C04_rollback_restores_the_index] (end to end, every chain, every script set, every number of abandoned blocks):
     index a chain bs1 ++ bs2 block by block, then roll back to n with bs1 below n and bs2 at or above n: the rollback
     does not unwind and the cell index is, key by key, the abstract cell index of bs1 alone (Model/IndexSpec.v, the
     specification C03 proves the index against) - every cell the abandoned blocks created is gone, every cell they
     spent is live again, nothing else changed.  Hypotheses = what a valid chain in ascending order guarantees
     (distinct block numbers and transaction hashes, inputs name transactions at lower positions, an out-point is spent
     once) + the script set has no duplicates (update_filter_scripts upserts).  No assumption on the block numbers
     recorded for the scripts: since the repair of rollback_to_block every script's history is scanned (before, the
     entries of a script whose number a crash had kept from being raised survived the rollback - found by the
     crash enumeration of op c08 once fork switches there really rolled back). *)
From Coq Require Import NArith List.
From LC Require Import Res LastStateProof LastStateProofProofs Store StoreProofs IndexSpec IndexRefinement IndexSpecMeaning RollbackRefinement.
Import ListNotations.
Open Scope N_scope.

Theorem C04_fork_point :
  forall l stored n,
    find_fork l stored = Some n ->
    exists h l1 l2, l = l1 ++ (n, h) :: l2 /\ lookup n stored = Some h /\
                    forall n' h', In (n', h') l1 -> lookup n' stored <> Some h'.
Proof. exact find_fork_spec. Qed.
Print Assumptions C04_fork_point.

Theorem C04_fork_switch :
  forall st new_ps r0 rs st' rb committed,
    ps_reorg new_ps = r0 :: rs ->
    LastStateProof.commit st new_ps = Ok (committed, st', rb) ->
    (exists new_td, vtd (ps_last new_ps) = Ok new_td /\
     if st_td st <? new_td then
       match find_fork (rev (r0 :: rs)) (st_lastn st) with
       | Some to =>
           committed = true /\ st_tip st' = key_of (ps_last new_ps) /\ st_lastn st' = ps_lasts new_ps /\
           st_td st' = new_td /\
           (exists dropped, st_matched st = dropped ++ st_matched st' /\ (forall s, In s dropped -> to < s) /\
              match st_matched st' with
              | [] => rb = Some (to + 1)
              | s :: _ => s <= to /\ rb = Some (s + 1)
              end)
       | None => committed = false /\ st' = st /\ rb = None
       end
     else committed = true /\ st' = st /\ rb = None).
Proof. exact commit_fork_switch. Qed.
Print Assumptions C04_fork_switch.

Theorem C04_long_fork_never_adopted :
  forall st new_ps st' rb,
    LastStateProof.commit st new_ps = Ok (false, st', rb) -> st' = st /\ rb = None.
Proof. exact commit_long_fork_keeps_store. Qed.
Print Assumptions C04_long_fork_never_adopted.

Theorem C04_rollback_removes_abandoned_history :
  forall st to st' ss bn ti ci io t,
    rollback_to_block st to = Ok st' ->
    In ss (scripts st) -> to <= bn -> (io = 0 \/ io = 1) ->
    ~ In ((ss_type ss, ss_script ss, bn, ti, ci, io), t) (history st').
Proof. exact rollback_history_gone. Qed.
Print Assumptions C04_rollback_removes_abandoned_history.

Theorem C04_rollback_resumes_filtering :
  forall st to st',
    rollback_to_block st to = Ok st' ->
    min_filtered st' = if to <=? min_filtered st then to - 1 else min_filtered st.
Proof. exact rollback_min_filtered. Qed.
Print Assumptions C04_rollback_resumes_filtering.

Theorem C04_rollback_restores_the_index :
  forall regs bs1 bs2 n,
    well_formed_chain (bs1 ++ bs2) -> refs_backwards (chain_txs (bs1 ++ bs2)) ->
    lower_positions (chain_txs (bs1 ++ bs2)) -> spent_once (chain_txs (bs1 ++ bs2)) ->
    (forall b, In b bs1 -> b_number b < n) -> (forall b, In b bs2 -> n <= b_number b) ->
    NoDup (map (fun x => (ss_type x, ss_script x)) regs) ->
    exists st', rollback_to_block (fold_left filter_block (bs1 ++ bs2) (fresh_store regs)) n = Ok st' /\
                forall k, a_get ckey_eqb k (cells st') = spec_chain (reg_of regs) bs1 k.
Proof. exact rollback_restores_index. Qed.
Print Assumptions C04_rollback_restores_the_index.

(* the same for blocks given in ascending order of their numbers: "inputs name transactions at lower positions" then follows
   from "an input never names its own or a later transaction" *)
Theorem C04_rollback_restores_the_index_ascending :
  forall regs bs1 bs2 n,
    well_formed_chain (bs1 ++ bs2) -> ascending (bs1 ++ bs2) -> refs_backwards (chain_txs (bs1 ++ bs2)) ->
    spent_once (chain_txs (bs1 ++ bs2)) ->
    (forall b, In b bs1 -> b_number b < n) -> (forall b, In b bs2 -> n <= b_number b) ->
    NoDup (map (fun x => (ss_type x, ss_script x)) regs) ->
    exists st', rollback_to_block (fold_left filter_block (bs1 ++ bs2) (fresh_store regs)) n = Ok st' /\
                forall k, a_get ckey_eqb k (cells st') = spec_chain (reg_of regs) bs1 k.
Proof. exact rollback_restores_index_ascending. Qed.
Print Assumptions C04_rollback_restores_the_index_ascending.

(* non-vacuity: block 1 creates two cells of the watched lock script 5; the abandoned block 2 spends the first and creates
   another; the hypotheses hold, and after the rollback to 2 exactly the two cells of block 1 are live *)
Definition ex_t1 : tx := mkTx 100 [] [mkOut 5 None; mkOut 5 (Some 6)].
Definition ex_t2 : tx := mkTx 200 [(100, 0)] [mkOut 7 None; mkOut 5 None].
Definition ex_bs1 : list block := [mkBlock 1 [ex_t1]].
Definition ex_bs2 : list block := [mkBlock 2 [ex_t2]].

Example C04_rollback_example_hypotheses :
  well_formed_chain (ex_bs1 ++ ex_bs2) /\ refs_backwards (chain_txs (ex_bs1 ++ ex_bs2)) /\
  lower_positions (chain_txs (ex_bs1 ++ ex_bs2)) /\ spent_once (chain_txs (ex_bs1 ++ ex_bs2)).
Proof.
  split; [|split; [|split]].
  - split; cbn; repeat constructor; cbn; intuition discriminate.
  - intros l1 p l2 H inp Hin q Hq. cbn in H.
    destruct l1 as [|a [|a' l1]]; cbn in H; inversion H; subst; cbn in Hin.
    + destruct Hin.
    + destruct Hin as [<-|[]]. destruct Hq as [<-|[]]. cbn. discriminate.
    + exfalso. match goal with H0 : [] = ?l ++ _ |- _ => destruct l; discriminate H0 end.
  - intros bn ti tr inp g H1 H2 H3 H4. cbn in H1, H3.
    destruct H1 as [H1|[H1|[]]]; inversion H1; subst; cbn in H2; [destruct H2|]. destruct H2 as [<-|[]].
    destruct H3 as [<-|[<-|[]]]; cbn in *; [left; reflexivity | discriminate].
  - intros q1 q2 inp H1 H2 H3 H4. cbn in H1, H2.
    destruct H1 as [<-|[<-|[]]], H2 as [<-|[<-|[]]]; cbn in H3, H4; try reflexivity; contradiction.
Qed.

Example C04_rollback_example_result :
  match rollback_to_block (fold_left filter_block (ex_bs1 ++ ex_bs2) (fresh_store [mkSS 5 0 0])) 2 with
  | Ok st' => map fst (cells st') = [(0, 5, 1, 0, 0); (0, 5, 1, 0, 1)] /\
              map fst (history st') = [(0, 5, 1, 0, 1, 1); (0, 5, 1, 0, 0, 1)]
  | _ => False
  end.
Proof. vm_compute. split; reflexivity. Qed.

(* KNOWN FINDING (see /verif/KNOWN_FINDINGS.jsonl, classes C04-fork-switch-without-rollback-...).
   The full statement "whenever the stored tip is replaced by a header of a branch that does not contain
   it, an index rollback is ordered" is FALSE of the faithful model: fork detection only looks at the
   response's reorg section, and an honest server sends none when the request's start header is on its
   chain.  That happens when the client itself rebased the start onto a remembered last-N header below the
   fork point, when the start is this peer's own earlier proof or predates the current stored tip, and on
   the child fast path (update_prove_state_to_child), which never looks for forks.
   Witness: the client remembers #7..#9 with tip #10 (hash 110); a heavier proof for #11 of another branch,
   whose last headers show #10 under hash 210, has no reorg section: the tip is replaced, nothing is rolled back. *)
Theorem C04_fork_switch_rollback_refuted :
  exists st new_ps st',
    LastStateProof.commit st new_ps = Ok (true, st', None) /\
    st_tip st' <> st_tip st /\
    (exists h, In (fst (st_tip st), h) (ps_lasts new_ps) /\ h <> snd (st_tip st)) /\
    (exists n h, In (n, h) (st_lastn st) /\ In (n, h) (ps_lasts new_ps)).
Proof.
  exists (mkStore 1000 (10, 110) [(7, 107); (8, 108); (9, 109)] [10]).
  exists (mkPS (mkVH 211 211 11 1100 10 0 (mkEpoch 1 1 10) 210 10 true true) [] [(8, 108); (9, 209); (10, 210)]).
  eexists. split; [vm_compute; reflexivity|]. split; [discriminate|]. split.
  - exists 210. split; [right; right; left; reflexivity | discriminate].
  - exists 8, 108. split; [right; left; reflexivity | left; reflexivity].
Qed.
Print Assumptions C04_fork_switch_rollback_refuted.
