//! C05: the honest prover's plan against its Coq specification (Model/HonestProver.v), and the
//! client's verdict on honest answers to realistic requests (built with the repo's own sampler).
use ckb_types::{packed, prelude::*, utilities::compact_to_difficulty, U256};

use super::chain::{flat_plan, legal_plan, plan_blocks, SynChain};
use super::out::{catch, coq_list, Out, Val};
use super::prng::Rng;
use super::prover;
use crate::protocols::light_client::verif_exports::{check_if_response_is_matched, sample_blocks};

pub(crate) fn run(seed: u64, n: u64, out: &mut Out) {
    let mut rng = Rng::new(seed);
    let mut i = 0;
    while i < n {
        let last_n = *rng.pick(&[1u64, 2, 3, 5, 10]);
        let epochs = rng.range(2, 12) as usize;
        let pbits = *rng.pick(&[4u32, 10, 30]);
        let plan = if rng.chance(1, 2) { legal_plan(&mut rng, epochs, 2, 8, pbits) } else { flat_plan(epochs, rng.range(2, 9), rng.range(1, 40)) };
        let total = plan_blocks(&plan).min(90);
        if total < 6 { continue; }
        let chain = SynChain::new(plan, total, 3);
        let last = rng.range(2, total - 1);
        let gap = match rng.below(5) { 0 => rng.range(1, last_n.min(last)), 1 => (last_n + 1).min(last), 2 => (last_n + 2).min(last), _ => rng.range(1, last) };
        let start = last - gap;
        let on_chain = rng.chance(3, 4);
        let start_hash = if on_chain { chain.headers[start as usize].hash() } else { packed::Byte32::zero() };
        let (boundary, ds): (U256, Vec<U256>) = if gap <= last_n {
            (chain.tds[start as usize].clone(), vec![])
        } else {
            sample_blocks(start, &chain.tds[start as usize], last, &chain.tds[last as usize], last_n)
        };
        let req = packed::GetLastStateProof::new_builder()
            .last_hash(chain.headers[last as usize].hash())
            .start_hash(start_hash)
            .start_number(start.pack())
            .last_n_blocks(last_n.pack())
            .difficulty_boundary(boundary.pack())
            .difficulties(ds.iter().map(|d| d.pack()).pack())
            .build();
        let plan = match prover::plan_response(&chain, &req) { Some(p) => p, None => continue };
        let numbers = plan.numbers();
        let vhs: Vec<_> = numbers.iter().map(|x| chain.vheader(*x)).collect();
        let last_vh = chain.vheader(last);
        let verdict = catch(|| check_if_response_is_matched(last_n as usize, &req, &vhs, &last_vh));
        let nums = |v: &[u64]| Val::l(v.iter().map(Val::n).collect());
        let vv = match &verdict {
            None => Val::l(vec![Val::n(3)]),
            Some(Ok((a, b, c))) => Val::l(vec![Val::n(0), Val::n(a), Val::n(b), Val::n(c)]),
            Some(Err(st)) => Val::l(vec![Val::n(1), Val::n(st.code() as u16)]),
        };
        let v = Val::l(vec![nums(&plan.reorg), nums(&plan.sampled), nums(&plan.last_n), vv]);
        let bds: Vec<String> = chain.headers.iter().map(|h| format!("{:#x}", compact_to_difficulty(h.compact_target()))).collect();
        let model = format!("(run_honest {} {} {} {} {} {:#x} {})", coq_list(&bds), on_chain || start == 0, last_n, start, last, boundary,
            coq_list(&ds.iter().map(|d| format!("{:#x}", d)).collect::<Vec<_>>()));
        let oracle = match &verdict {
            Some(Ok(_)) => Ok(()),
            Some(Err(st)) => {
                let class = if plan.sampled.is_empty() && gap > last_n { "C05-honest-rejected-no-sample-in-sampled-gap" } else { "C05-honest-rejected" };
                Err(format!("[{}] the honest answer is rejected with status {}", class, st.code() as u16))
            }
            None => Err("[C10-handler-panic] check_if_response_is_matched panicked on an honest answer".to_string()),
        };
        let shape = if gap <= last_n { "small-gap" } else if plan.sampled.is_empty() { "sampled-gap-no-sample" } else { "sampled" };
        out.case(&format!("honest-{}", i), &["honest-plan", shape, if on_chain { "on-chain" } else { "reorg" }], &model, &v, oracle,
            &format!("chain of {} blocks, last_n {}, start {} ({}), last {}, {} requested difficulties; plan reorg {:?} sampled {:?} last-N {:?}",
                total, last_n, start, if on_chain { "on chain" } else { "unknown start hash" }, last, ds.len(), plan.reorg, plan.sampled, plan.last_n));
        i += 1;
    }
}
