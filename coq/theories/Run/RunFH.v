From LC Require Export Val HashesUpdate.
Open Scope N_scope.

(* what the harness observes: ban code, the vote over one proven peer (= that peer's list while its check point number
   is the finalized one, [] otherwise), the cached list, the next GetBlockFilterHashes start number *)
Definition run_fh (w : fh_world) (start parent : N) (hs : list N) : val :=
  match process w start parent hs with
  | Ok o =>
      VL [VN 0; VN (o_code o);
          vlist VN (if l_cp (w_lat w) =? w_fi w * w_interval w then o_lat o else []);
          vlist VN (o_cached o); vopt VN (o_next o)]
  | Err c => VL [VN 1; VN c]
  | Panic _ => VL [VN 3]
  end.
