(* C14 — Difficulty checks accept every legal difficulty history and bound illegal ones.
   Property theorems only: each is closed by [exact] of a lemma from Proofs/ and followed by
   Print Assumptions.  Model: Model/Difficulty.v (verify_tau, verify_total_difficulty and the
   EpochDifficultyTrend methods of send_last_state_proof.rs).

   Full statement of completeness (FALSE of the code, see C14_complete_total_refuted):
     forall legal histories h, verify_history h = Ok tt.
   What is proved instead: C14_complete_total_partial (legal histories are never rejected
   except by the step-2 range estimate, and always accepted with at most one epoch switch). *)
From Coq Require Import NArith List.
From LC Require Import Difficulty DifficultyProofs DifficultyProofs2 DifficultyHistory.
Import ListNotations.
Open Scope N_scope.

(* -- completeness: the tau check accepts every legal sequence of epoch difficulties -- *)
Theorem C14_complete_tau :
  forall tau se sct sbd ee ect ebd (ds : list N),
    1 <= tau ->
    e_num ee = e_num se + lenN ds ->
    (ds = [] -> sct = ect) ->
    sbd * e_len se <= U256MAX -> ebd * e_len ee <= U256MAX ->
    legal_seq tau (sbd * e_len se) ds ->
    last ds (sbd * e_len se) = ebd * e_len ee ->
    verify_tau se sct sbd ee ect ebd tau = Ok true.
Proof. exact verify_tau_complete. Qed.
Print Assumptions C14_complete_tau.

(* -- the tau check is exactly the tau^n bound -- *)
Theorem C14_sound_tau :
  forall tau s e n,
    1 <= tau -> s <= U256MAX -> e <= U256MAX ->
    check_tau (trend_new s e) tau n = true -> e <= s * tau ^ n /\ s / tau ^ n <= e.
Proof. exact check_tau_sound. Qed.
Print Assumptions C14_sound_tau.

(* -- completeness of the total-difficulty check, the part that holds -- *)
Theorem C14_complete_total_partial :
  forall tau snum first sidx rest eidx std,
    1 <= tau ->
    legal_history tau first sidx rest eidx ->
    snum + lenN rest <= U24MAX ->
    std + hist_total first sidx rest eidx <= U256MAX ->
    let r := verify_history tau snum first sidx rest eidx std in
    (lenN rest <= 1 -> r = Ok tt) /\
    (r = Ok tt \/ r = Err E_BELOW_MIN \/ r = Err E_ABOVE_MAX).
Proof. exact verify_history_complete_partial. Qed.
Print Assumptions C14_complete_total_partial.

(* -- the full completeness statement is refuted by a concrete legal history -- *)
Theorem C14_complete_total_refuted :
  exists tau snum first sidx rest eidx std,
    legal_history tau first sidx rest eidx /\
    verify_history tau snum first sidx rest eidx std = Err E_ABOVE_MAX.
Proof.
  exists 2, 11, wit_first, 0, wit_rest, 0, 256. split; [exact wit_legal | exact wit_rejected].
Qed.
Print Assumptions C14_complete_total_refuted.

(* -- non-vacuity: a multi-epoch legal history that is accepted -- *)
Theorem C14_complete_total_nonvacuous :
  legal_history 2 wit_first 3 ok_rest 4 /\ verify_history 2 11 wit_first 3 ok_rest 4 256 = Ok tt.
Proof. split; [exact ok_legal | exact ok_accepted]. Qed.
Print Assumptions C14_complete_total_nonvacuous.

(* -- soundness: decrease, exact match within one epoch / across one switch, too fast -- *)
Theorem C14_sound_decrease :
  forall se sbd std ee ebd etd tau,
    etd < std -> verify_total_difficulty se sbd std ee ebd etd tau = Err E_DECREASED.
Proof.
  intros se sbd std ee ebd etd tau H. unfold verify_total_difficulty.
  rewrite (proj2 (N.ltb_lt etd std) H). reflexivity.
Qed.
Print Assumptions C14_sound_decrease.

Theorem C14_sound_same_epoch :
  forall se sbd std ee ebd etd tau,
    e_num se = e_num ee ->
    verify_total_difficulty se sbd std ee ebd etd tau = Ok tt ->
    std <= etd /\ e_idx se <= e_idx ee /\ etd - std = sbd * (e_idx ee - e_idx se).
Proof. exact verify_td_sound_same_epoch. Qed.
Print Assumptions C14_sound_same_epoch.

Theorem C14_sound_one_switch :
  forall se sbd std ee ebd etd tau,
    e_num ee = e_num se + 1 ->
    verify_total_difficulty se sbd std ee ebd etd tau = Ok tt ->
    std <= etd /\ e_idx se < e_len se /\
    etd - std = sbd * (e_len se - e_idx se - 1) + ebd * (e_idx ee + 1).
Proof. exact verify_td_sound_one_switch. Qed.
Print Assumptions C14_sound_one_switch.

Theorem C14_sound_too_fast_growth :
  forall se sbd std ee ebd etd tau,
    1 <= tau -> e_num se < e_num ee ->
    ebd * e_len ee <= U256MAX ->
    sbd * e_len se * tau ^ (e_num ee - e_num se) < ebd * e_len ee ->
    is_ok (verify_total_difficulty se sbd std ee ebd etd tau) = false.
Proof. exact verify_td_too_fast_inc. Qed.
Print Assumptions C14_sound_too_fast_growth.

Theorem C14_sound_too_fast_shrink :
  forall se sbd std ee ebd etd tau,
    0 < tau -> e_num se < e_num ee ->
    ebd * e_len ee < sbd * e_len se / tau ^ (e_num ee - e_num se) ->
    is_ok (verify_total_difficulty se sbd std ee ebd etd tau) = false.
Proof. exact verify_td_too_fast_dec. Qed.
Print Assumptions C14_sound_too_fast_shrink.

(* -- never aborts, whatever numbers a peer supplies (field ranges of the wire format;
      block difficulties below the PoW-feasibility bound 2^192) -- *)
Theorem C14_no_panic_tau :
  forall se sct sbd ee ect ebd tau,
    sbd * e_len se <= U256MAX -> ebd * e_len ee <= U256MAX ->
    is_panic (verify_tau se sct sbd ee ect ebd tau) = false.
Proof. exact verify_tau_no_panic. Qed.
Print Assumptions C14_no_panic_tau.

Theorem C14_no_panic_total :
  forall se sbd std ee ebd etd tau,
    ranges se ee -> sbd <= BD_MAX -> ebd <= BD_MAX -> 0 < tau ->
    is_panic (verify_total_difficulty se sbd std ee ebd etd tau) = false.
Proof. exact verify_td_no_panic. Qed.
Print Assumptions C14_no_panic_total.
