From LC Require Export Val Locks.
Open Scope N_scope.

(* the locked / unlocked split of each operation's writes as the code is meant to make them:
   0 set_scripts, 1 BlockFilters processing, 2 SendBlock indexing: every write under the lock;
   3 fork switch: the rollback under the lock, the tip (one batch) after releasing it *)
Definition expected_split (kind : N) (nwrites : N) : val :=
  let n := N.to_nat nwrites in
  if kind =? 3 then VL (map (fun _ => VN 1) (seq 0 (n - 1)) ++ (match n with O => [] | _ => [VN 0] end))
  else VL (map (fun _ => VN 1) (seq 0 n)).
