(* Lemmas about Model/Difficulty.v (C14). *)
From Coq Require Import NArith Lia List Bool Nnat.
From LC Require Import Difficulty LoopProofs.
Import ListNotations.
Open Scope N_scope.

Lemma U256MAX_val :
  U256MAX = 115792089237316195423570985008687907853269984665640564039457584007913129639935.
Proof. reflexivity. Qed.

(* ------------------------------------------------------------------------------------ *)
(* grow / shrink in closed form *)

Lemma grow_succ tau n x : grow tau (N.succ n) x = sat_mul256 (grow tau n x) tau.
Proof. unfold grow. apply N.iter_succ. Qed.

Lemma shrink_succ tau n x : shrink tau (N.succ n) x = shrink tau n x / tau.
Proof. unfold shrink. apply N.iter_succ. Qed.

Lemma grow_spec tau n x :
  1 <= tau -> x <= U256MAX -> grow tau n x = N.min (x * tau ^ n) U256MAX.
Proof.
  intros Htau Hx. induction n as [|n IH] using N.peano_ind.
  - unfold grow; cbn [N.iter]. rewrite N.pow_0_r, N.mul_1_r. symmetry. apply N.min_l. exact Hx.
  - rewrite grow_succ, IH. unfold sat_mul256. rewrite N.pow_succ_r'.
    destruct (N.min_spec (x * tau ^ n) U256MAX) as [[H1 H2]|[H1 H2]]; rewrite H2.
    + f_equal. lia.
    + rewrite (N.min_r (U256MAX * tau)) by nia.
      symmetry. apply N.min_r. nia.
Qed.

Lemma shrink_spec tau n x : 0 < tau -> shrink tau n x = x / tau ^ n.
Proof.
  intros Htau. induction n as [|n IH] using N.peano_ind.
  - unfold shrink; cbn [N.iter]. rewrite N.pow_0_r, N.div_1_r. reflexivity.
  - rewrite shrink_succ, IH, N.pow_succ_r'.
    rewrite N.div_div; [f_equal; lia | | lia].
    apply N.pow_nonzero. lia.
Qed.

Lemma grow_le_max tau n x : 1 <= tau -> x <= U256MAX -> grow tau n x <= U256MAX.
Proof. intros. rewrite grow_spec by assumption. apply N.le_min_r. Qed.

Lemma grow_mono tau n m x :
  1 <= tau -> x <= U256MAX -> n <= m -> grow tau n x <= grow tau m x.
Proof.
  intros Htau Hx Hnm. rewrite !grow_spec by assumption.
  apply N.min_le_compat_r. apply N.mul_le_mono_l. apply N.pow_le_mono_r; lia.
Qed.

Lemma grow_add tau a b x : grow tau (a + b) x = grow tau a (grow tau b x).
Proof. unfold grow. apply N.iter_add. Qed.

Lemma shrink_add tau a b x : shrink tau (a + b) x = shrink tau a (shrink tau b x).
Proof. unfold shrink. apply N.iter_add. Qed.

Lemma shrink_mono tau n m x : 0 < tau -> n <= m -> shrink tau m x <= shrink tau n x.
Proof.
  intros Htau Hnm. rewrite !shrink_spec by assumption.
  apply N.div_le_compat_l. split.
  - assert (tau ^ n <> 0) by (apply N.pow_nonzero; lia). lia.
  - apply N.pow_le_mono_r; lia.
Qed.

Lemma pow_ge_1 tau n : 1 <= tau -> 1 <= tau ^ n.
Proof.
  intros H. apply N.le_trans with (1 ^ n); [rewrite N.pow_1_l; apply N.le_refl | apply N.pow_le_mono_l; exact H].
Qed.

(* ------------------------------------------------------------------------------------ *)
(* tau-legal sequences of epoch difficulties *)

Definition legal_step (tau d d' : N) : Prop := d' <= tau * d /\ d <= tau * d'.

Fixpoint legal_seq (tau d : N) (ds : list N) : Prop :=
  match ds with
  | [] => True
  | d' :: tl => legal_step tau d d' /\ legal_seq tau d' tl
  end.

Definition lenN {A} (l : list A) : N := N.of_nat (length l).

Lemma last_cons {A} l : forall (a d : A), last (a :: l) d = last l a.
Proof.
  induction l as [|b l IH]; intros a d; [reflexivity|].
  change (last (a :: b :: l) d) with (last (b :: l) d).
  rewrite (IH b d), (IH b a). reflexivity.
Qed.

Lemma legal_bounds tau ds : forall d,
  legal_seq tau d ds ->
  last ds d <= d * tau ^ lenN ds /\ d <= last ds d * tau ^ lenN ds.
Proof.
  induction ds as [|d' tl IH]; intros d H.
  - cbn. rewrite N.mul_1_r. split; apply N.le_refl.
  - destruct H as [[H1 H2] H3]. rewrite last_cons.
    destruct (IH d' H3) as [I1 I2].
    unfold lenN in *. cbn [length]. rewrite Nat2N.inj_succ, N.pow_succ_r'.
    set (p := tau ^ N.of_nat (length tl)) in *.
    split.
    + apply N.le_trans with (d' * p); [exact I1|]. nia.
    + apply N.le_trans with (tau * d'); [exact H2|]. nia.
Qed.

Lemma check_tau_complete tau d ds :
  1 <= tau -> d <= U256MAX -> last ds d <= U256MAX -> legal_seq tau d ds ->
  check_tau (trend_new d (last ds d)) tau (lenN ds) = true.
Proof.
  intros Htau Hd Hl Hleg. destruct (legal_bounds tau ds d Hleg) as [B1 B2].
  unfold trend_new. destruct (d ?= last ds d) eqn:C; cbn [check_tau]; [reflexivity| |].
  - apply N.leb_le. rewrite grow_spec by assumption. apply N.min_glb; assumption.
  - apply N.leb_le. rewrite shrink_spec by lia.
    apply N.div_le_upper_bound; [apply N.pow_nonzero; lia | lia].
Qed.

(* check_tau is exactly the tau^n bound (soundness direction) *)
Lemma check_tau_sound tau s e n :
  1 <= tau -> s <= U256MAX -> e <= U256MAX ->
  check_tau (trend_new s e) tau n = true -> e <= s * tau ^ n /\ s / tau ^ n <= e.
Proof.
  intros Htau Hs He. unfold trend_new. destruct (s ?= e) eqn:C; cbn [check_tau]; intros H.
  - apply N.compare_eq in C. subst e. split.
    + pose proof (pow_ge_1 tau n ltac:(lia)) as Hp. nia.
    + apply N.div_le_upper_bound; [apply N.pow_nonzero; lia|].
      pose proof (pow_ge_1 tau n ltac:(lia)) as Hp. nia.
  - apply N.compare_lt_iff in C. apply N.leb_le in H. rewrite grow_spec in H by assumption. split.
    + apply N.le_trans with (N.min (s * tau ^ n) U256MAX); [exact H | apply N.le_min_l].
    + apply N.le_trans with s; [|apply N.lt_le_incl; exact C]. apply N.div_le_upper_bound; [apply N.pow_nonzero; lia|].
      pose proof (pow_ge_1 tau n ltac:(lia)) as Hp. nia.
  - apply N.compare_gt_iff in C. apply N.leb_le in H. rewrite shrink_spec in H by lia. split.
    + pose proof (pow_ge_1 tau n ltac:(lia)) as Hp. nia.
    + exact H.
Qed.

(* ------------------------------------------------------------------------------------ *)
(* calculate_tau_exponent *)

Lemma inc_loop tau e : forall n tmp k,
  match loop_nat (tau_exp_step_inc tau e) n (tmp, k) with
  | inl (tmp', k') =>
      tmp' = grow tau (N.of_nat n) tmp /\ k' = k + N.of_nat n /\
      (n = 0%nat \/ grow tau (N.of_nat n) tmp < e)
  | inr k' =>
      exists j, (j < n)%nat /\ k' = k + N.of_nat j /\ e <= grow tau (N.of_nat j + 1) tmp
  end.
Proof.
  induction n as [|n IH]; intros tmp k.
  - cbn. repeat split; try lia; try (left; reflexivity).
  - cbn [loop_nat]. unfold tau_exp_step_inc at 1.
    destruct (N.leb_spec e (sat_mul256 tmp tau)) as [Hle|Hgt].
    + exists 0%nat. repeat split; try lia. cbn. exact Hle.
    + specialize (IH (sat_mul256 tmp tau) (k + 1)).
      assert (G1 : sat_mul256 tmp tau = grow tau 1 tmp) by reflexivity.
      destruct (loop_nat (tau_exp_step_inc tau e) n (sat_mul256 tmp tau, k + 1)) as [[tmp' k']|k'].
      * destruct IH as [I1 [I2 I3]].
        rewrite Nat2N.inj_succ, <- N.add_1_r.
        rewrite grow_add, <- G1. repeat split; try lia; try assumption.
        right. destruct I3 as [->|I3]; [cbn; exact Hgt | rewrite <- I1 in *; exact I3].
      * destruct IH as [j [J1 [J2 J3]]]. exists (S j). repeat split; try lia.
        rewrite Nat2N.inj_succ, <- N.add_1_r.
        rewrite G1, <- grow_add in J3. exact J3.
Qed.

Lemma dec_loop tau e : forall n tmp k,
  match loop_nat (tau_exp_step_dec tau e) n (tmp, k) with
  | inl (tmp', k') =>
      tmp' = shrink tau (N.of_nat n) tmp /\ k' = k + N.of_nat n /\
      (n = 0%nat \/ e < shrink tau (N.of_nat n) tmp)
  | inr k' =>
      exists j, (j < n)%nat /\ k' = k + N.of_nat j /\ shrink tau (N.of_nat j + 1) tmp <= e
  end.
Proof.
  induction n as [|n IH]; intros tmp k.
  - cbn. repeat split; try lia; try (left; reflexivity).
  - cbn [loop_nat]. unfold tau_exp_step_dec at 1.
    destruct (N.leb_spec (tmp / tau) e) as [Hle|Hgt].
    + exists 0%nat. repeat split; try lia. cbn. exact Hle.
    + specialize (IH (tmp / tau) (k + 1)).
      assert (G1 : tmp / tau = shrink tau 1 tmp) by reflexivity.
      destruct (loop_nat (tau_exp_step_dec tau e) n (tmp / tau, k + 1)) as [[tmp' k']|k'].
      * destruct IH as [I1 [I2 I3]].
        rewrite Nat2N.inj_succ, <- N.add_1_r.
        rewrite shrink_add, <- G1. repeat split; try lia; try assumption.
        right. destruct I3 as [->|I3]; [cbn; exact Hgt | rewrite <- I1 in *; exact I3].
      * destruct IH as [j [J1 [J2 J3]]]. exists (S j). repeat split; try lia.
        rewrite Nat2N.inj_succ, <- N.add_1_r.
        rewrite G1, <- shrink_add in J3. exact J3.
Qed.

Lemma tau_exp_lt t tau n k :
  0 < n -> calculate_tau_exponent t tau n = Some k -> k < n.
Proof.
  intros Hn. destruct t as [|s e|s e]; cbn [calculate_tau_exponent].
  - intros H; inversion H; subst; exact Hn.
  - rewrite loopN_nat. pose proof (inc_loop tau e (N.to_nat n) s 0) as L.
    destruct (loop_nat (tau_exp_step_inc tau e) (N.to_nat n) (s, 0)) as [[? ?]|k']; [discriminate|].
    intros H; inversion H; subst. destruct L as [j [J1 [J2 _]]]. lia.
  - rewrite loopN_nat. pose proof (dec_loop tau e (N.to_nat n) s 0) as L.
    destruct (loop_nat (tau_exp_step_dec tau e) (N.to_nat n) (s, 0)) as [[? ?]|k']; [discriminate|].
    intros H; inversion H; subst. destruct L as [j [J1 [J2 _]]]. lia.
Qed.

(* growth faster than tau per epoch switch is detected *)
Lemma tau_exp_too_fast_inc tau s e n :
  1 <= tau -> s <= U256MAX -> s * tau ^ n < e -> e <= U256MAX ->
  calculate_tau_exponent (trend_new s e) tau n = None.
Proof.
  intros Htau Hs Hfast He.
  assert (Hse : s < e).
  { pose proof (pow_ge_1 tau n ltac:(lia)) as Hp. nia. }
  unfold trend_new. rewrite (proj2 (N.compare_lt_iff s e) Hse). cbn [calculate_tau_exponent].
  rewrite loopN_nat. pose proof (inc_loop tau e (N.to_nat n) s 0) as L.
  destruct (loop_nat (tau_exp_step_inc tau e) (N.to_nat n) (s, 0)) as [[? ?]|k']; [reflexivity|].
  exfalso. destruct L as [j [J1 [_ J3]]].
  assert (M : grow tau (N.of_nat j + 1) s <= grow tau n s) by (apply grow_mono; try assumption; lia).
  rewrite (grow_spec tau n) in M by assumption.
  assert (N.min (s * tau ^ n) U256MAX <= s * tau ^ n) by apply N.le_min_l. lia.
Qed.

Lemma tau_exp_too_fast_dec tau s e n :
  0 < tau -> e < s / tau ^ n ->
  calculate_tau_exponent (trend_new s e) tau n = None.
Proof.
  intros Htau Hfast.
  assert (Hse : e < s).
  { apply N.lt_le_trans with (s / tau ^ n); [exact Hfast|].
    apply N.div_le_upper_bound; [apply N.pow_nonzero; lia|].
    pose proof (pow_ge_1 tau n ltac:(lia)) as Hp. nia. }
  unfold trend_new. rewrite (proj2 (N.compare_gt_iff s e) Hse). cbn [calculate_tau_exponent].
  rewrite loopN_nat. pose proof (dec_loop tau e (N.to_nat n) s 0) as L.
  destruct (loop_nat (tau_exp_step_dec tau e) (N.to_nat n) (s, 0)) as [[? ?]|k']; [reflexivity|].
  exfalso. destruct L as [j [J1 [_ J3]]].
  assert (M : shrink tau n s <= shrink tau (N.of_nat j + 1) s) by (apply shrink_mono; lia).
  rewrite (shrink_spec tau n) in M by assumption. lia.
Qed.
