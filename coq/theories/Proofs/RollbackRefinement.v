(* C04, second half: rollback_to_block undoes the indexing of the abandoned blocks.
   A chain bs1 ++ bs2 is indexed block by block; rollback_to_block n with every block of bs1 below n and every block of
   bs2 at or above n returns, key by key, the cell index of bs1 alone: the cells the abandoned blocks created are gone,
   the cells they spent are live again, nothing else changes - and the rollback does not unwind. *)
From Coq Require Import NArith Lia List Bool Sorted.
From LC Require Import Res Store StoreProofs IndexSpec IndexRefinement IndexSpecMeaning HistoryInvariant.
Import ListNotations.
Open Scope N_scope.
Open Scope bool_scope.

(* ---------------------------------------------------------------------------------------------- *)
(* the descending order of the reverse scan *)
Definition hle (a b : hkey * txid) : Prop := hkey_le_desc a b = true.

Lemma hle_total a b : hkey_le_desc a b = false -> hle b a.
Proof.
  destruct a as [[[[[[a1 a2] a3] a4] a5] a6] av], b as [[[[[[b1 b2] b3] b4] b5] b6] bv]. unfold hle, hkey_le_desc.
  intros H. repeat (rewrite ?orb_false_iff, ?andb_false_iff in H).
  repeat (rewrite ?orb_true_iff, ?andb_true_iff). rewrite ?N.ltb_lt, ?N.eqb_eq, ?N.leb_le.
  rewrite ?N.ltb_ge, ?N.eqb_neq, ?N.leb_gt in H. lia.
Qed.

Lemma hle_trans a b c : hle a b -> hle b c -> hle a c.
Proof.
  destruct a as [[[[[[a1 a2] a3] a4] a5] a6] av], b as [[[[[[b1 b2] b3] b4] b5] b6] bv], c as [[[[[[c1 c2] c3] c4] c5] c6] cv].
  unfold hle, hkey_le_desc. repeat (rewrite ?orb_true_iff, ?andb_true_iff). rewrite ?N.ltb_lt, ?N.eqb_eq, ?N.leb_le. lia.
Qed.

Lemma insert_desc_sorted x l : StronglySorted hle l -> StronglySorted hle (insert_desc x l).
Proof.
  induction l as [|y l IH]; intros Hs; cbn [insert_desc]; [constructor; [constructor | constructor]|].
  inversion Hs as [|? ? Hs' Hall]; subst.
  destruct (hkey_le_desc x y) eqn:E.
  - constructor; [exact Hs|]. constructor; [exact E|].
    eapply Forall_impl; [|exact Hall]. intros z Hz. eapply hle_trans; [exact E | exact Hz].
  - constructor; [apply IH; exact Hs'|].
    apply Forall_forall. intros z Hz. apply insert_desc_in in Hz. destruct Hz as [->|Hz].
    + apply hle_total. exact E.
    + rewrite Forall_forall in Hall. apply Hall. exact Hz.
Qed.

Lemma script_history_desc_sorted st ty s to : StronglySorted hle (script_history_desc st ty s to).
Proof.
  unfold script_history_desc. match goal with |- StronglySorted _ (fold_right _ _ ?l0) => generalize l0 end.
  intros l. induction l as [|x l IH]; cbn [fold_right]; [constructor|]. apply insert_desc_sorted. exact IH.
Qed.

Lemma sorted_split_after (l : list (hkey * txid)) l1 e l2 :
  StronglySorted hle l -> l = l1 ++ e :: l2 -> forall y, In y l2 -> hle e y.
Proof.
  revert l. induction l1 as [|a l1 IH]; intros l Hs -> y Hy.
  - inversion Hs as [|? ? _ Hall]; subst. rewrite Forall_forall in Hall. apply Hall. exact Hy.
  - inversion Hs as [|? ? Hs' _]; subst. eapply IH; [exact Hs' | reflexivity | exact Hy].
Qed.

(* ---------------------------------------------------------------------------------------------- *)
(* the batch of the rollback as a flat list *)
Definition ok_ops (r : res (list wop)) : list wop := match r with Ok l => l | _ => [] end.

Lemma map_res_ops_flat f : forall l ops, map_res_ops f l = Ok ops -> ops = flat_map (fun e => ok_ops (f e)) l.
Proof.
  induction l as [|e l IH]; intros ops H; [inversion H; reflexivity|].
  cbn [map_res_ops] in H. destruct (f e) as [a| |] eqn:Fe; cbn [bind] in H; try discriminate.
  destruct (map_res_ops f l) as [b| |] eqn:Fl; cbn [bind] in H; try discriminate.
  inversion H; subst. cbn [flat_map]. rewrite Fe. cbn [ok_ops]. f_equal. apply IH. reflexivity.
Qed.

Lemma map_res_ops_ok f : forall l, (forall e, In e l -> exists x, f e = Ok x) -> exists ops, map_res_ops f l = Ok ops.
Proof.
  induction l as [|e l IH]; intros H; [exists []; reflexivity|].
  destruct (H e (or_introl eq_refl)) as [a Fa]. destruct IH as [b Fb]; [intros e' He'; apply H; right; exact He'|].
  exists (a ++ b). cbn [map_res_ops]. rewrite Fa. cbn [bind]. rewrite Fb. reflexivity.
Qed.

(* ---------------------------------------------------------------------------------------------- *)
(* cells under a batch: the last operation on a key decides *)
Lemma cells_untouched ops : forall c k,
  (forall v, ~ In (W_put_cell k v) ops) -> ~ In (W_del_cell k) ops -> cget k (fold_left cells_step ops c) = cget k c.
Proof.
  induction ops as [|op ops IH]; intros c k Hp Hd; [reflexivity|]. cbn [fold_left].
  rewrite IH; [| intros v Hin; apply (Hp v); right; exact Hin | intros Hin; apply Hd; right; exact Hin].
  destruct op; cbn [cells_step]; try reflexivity.
  - rewrite cget_del. destruct (ckey_eqb k k0) eqn:E; [|reflexivity]. apply ckey_eqb_spec in E. subst k0. exfalso. apply Hd. left. reflexivity.
  - rewrite cget_put. destruct (ckey_eqb k k0) eqn:E; [|reflexivity]. apply ckey_eqb_spec in E. subst k0. exfalso. apply (Hp t). left. reflexivity.
Qed.

Lemma cells_put_wins_gen ops : forall c k v,
  (forall v', In (W_put_cell k v') ops -> v' = v) -> ~ In (W_del_cell k) ops ->
  In (W_put_cell k v) ops \/ cget k c = Some v -> cget k (fold_left cells_step ops c) = Some v.
Proof.
  induction ops as [|op ops IH]; intros c k v Hf Hd H; [destruct H as [[]|H]; exact H|]. cbn [fold_left].
  apply IH; [intros v' Hin; apply Hf; right; exact Hin | intros Hin; apply Hd; right; exact Hin |].
  destruct H as [[->|H]|H]; [right; cbn [cells_step]; rewrite cget_put, ckey_eqb_refl; reflexivity | left; exact H |].
  right. destruct op; cbn [cells_step]; try exact H.
  - rewrite cget_del. destruct (ckey_eqb k k0) eqn:E; [|exact H]. apply ckey_eqb_spec in E. subst k0. exfalso. apply Hd. left. reflexivity.
  - rewrite cget_put. destruct (ckey_eqb k k0) eqn:E; [|exact H]. apply ckey_eqb_spec in E. subst k0. f_equal. apply Hf. left. reflexivity.
Qed.

Lemma cells_put_wins ops c k v :
  (forall v', In (W_put_cell k v') ops -> v' = v) -> ~ In (W_del_cell k) ops ->
  In (W_put_cell k v) ops -> cget k (fold_left cells_step ops c) = Some v.
Proof. intros Hf Hd Hin. apply cells_put_wins_gen; [exact Hf | exact Hd | left; exact Hin]. Qed.

Lemma cells_none_stays ops : forall c k,
  cget k c = None -> (forall v, ~ In (W_put_cell k v) ops) -> cget k (fold_left cells_step ops c) = None.
Proof.
  induction ops as [|op ops IH]; intros c k H Hno; [exact H|]. cbn [fold_left].
  apply IH; [|intros v Hin; apply (Hno v); right; exact Hin].
  destruct op; cbn [cells_step]; try exact H.
  - rewrite cget_del. destruct (ckey_eqb k k0); [reflexivity | exact H].
  - rewrite cget_put. destruct (ckey_eqb k k0) eqn:E; [|exact H]. apply ckey_eqb_spec in E. subst k0. exfalso. apply (Hno t). left. reflexivity.
Qed.

Lemma cells_deleted_get ops1 ops2 c k :
  (forall v, ~ In (W_put_cell k v) ops2) -> cget k (fold_left cells_step (ops1 ++ W_del_cell k :: ops2) c) = None.
Proof.
  intros Hno. rewrite fold_left_app. cbn [fold_left cells_step]. apply cells_none_stays; [|exact Hno].
  rewrite cget_del, ckey_eqb_refl. reflexivity.
Qed.

(* ---------------------------------------------------------------------------------------------- *)
(* association lists: lookup and membership *)
Lemma a_get_some_in {K V} (eqb : K -> K -> bool) (eqb_spec : forall a b, eqb a b = true <-> a = b) (k : K) (v : V) :
  forall l, a_get eqb k l = Some v -> In (k, v) l.
Proof.
  induction l as [|[k0 v0] l IH]; cbn [a_get]; [discriminate|]. destruct (eqb k k0) eqn:E.
  - apply eqb_spec in E. subst k0. intros H. inversion H. left. reflexivity.
  - intros H. right. apply IH. exact H.
Qed.

Lemma a_get_none_notin {K V} (eqb : K -> K -> bool) (eqb_spec : forall a b, eqb a b = true <-> a = b) (k : K) :
  forall (l : list (K * V)), a_get eqb k l = None -> forall v, ~ In (k, v) l.
Proof.
  induction l as [|[k0 v0] l IH]; cbn [a_get]; intros H v Hin; [destruct Hin|]. destruct (eqb k k0) eqn:E; [discriminate|].
  destruct Hin as [Hin|Hin]; [inversion Hin; subst; assert (eqb k k = true) by (apply eqb_spec; reflexivity); congruence|].
  exact (IH H v Hin).
Qed.

Definition is_put_on (k : ckey) (op : wop) : bool := match op with W_put_cell k' _ => ckey_eqb k' k | _ => false end.

Lemma put_on_dec k ops : {v | In (W_put_cell k v) ops} + {forall v, ~ In (W_put_cell k v) ops}.
Proof.
  destruct (find (is_put_on k) ops) as [op|] eqn:F.
  - apply find_some in F. destruct F as [Hin Hp]. destruct op; try discriminate. cbn [is_put_on] in Hp.
    apply ckey_eqb_spec in Hp. subst k0. left. exists t. exact Hin.
  - right. intros v Hin. pose proof (find_none _ _ F _ Hin) as Hn. cbn [is_put_on] in Hn. rewrite ckey_eqb_refl in Hn. discriminate.
Qed.

Definition same_script_as (kty ks : N) (ss : script_status) : bool := (ss_type ss =? kty) && (ss_script ss =? ks).

(* ---------------------------------------------------------------------------------------------- *)
Section Rollback.
  Variables (regs : list script_status) (st : store) (E : cmap) (D : list ptx) (n : N).
  Hypothesis HI : Inv regs st E D.
  Hypothesis HH : HInv st D.
  Hypothesis Hpos : pos_ok D.
  Hypothesis Hnd : NoDup (map (fun x => (ss_type x, ss_script x)) regs).
  (* an input names a transaction at a lower position (block number, index in the block) *)
  Hypothesis Hearlier : forall bn ti tr inp g, In (bn, ti, tr) D -> In inp (t_inputs tr) -> In g D -> t_id (snd g) = fst inp ->
    fst (fst g) < bn \/ (fst (fst g) = bn /\ snd (fst g) < ti).

  Let reg := registered st.

  Lemma stored_tx_is tid x : a_get N.eqb tid (txs st) = Some x -> forall g, In g D -> t_id (snd g) = tid -> x = g.
  Proof.
    intros Hx g Hg Hid. destruct (inv_txs_sound _ _ _ _ HI tid x Hx) as [HxD Hxid].
    destruct x as [[xb xi] xt], g as [[gb gi] gt]. cbn [snd] in *. apply Hpos; [exact HxD | exact Hg | left; congruence].
  Qed.

  (* the operations of one history entry *)
  Lemma entry_ops_input ty s bn ti ci v :
    In ((ty, s, bn, ti, ci, 0), v) (history st) ->
    exists tr inp g po,
      In (bn, ti, tr) D /\ t_id tr = v /\ nth_error (t_inputs tr) (N.to_nat ci) = Some inp /\
      In g D /\ t_id (snd g) = fst inp /\ nth_error (t_outputs (snd g)) (N.to_nat (snd inp)) = Some po /\ pays reg ty s po /\
      forall a1 a2, rollback_entry_ops st ty s ((a1, a2, bn, ti, ci, 0), v) =
        Ok [W_put_cell (ty, s, fst (fst g), snd (fst g), snd inp) (fst inp); W_del_hist (ty, s, bn, ti, ci, 0)].
  Proof.
    intros Hin. destruct (h_in_sound _ _ HH _ _ _ _ _ _ Hin) as (tr & inp & g & po & A & B & C & F & G & I & J).
    exists tr, inp, g, po. repeat split; try assumption. intros a1 a2. unfold rollback_entry_ops. cbn [N.eqb].
    destruct (a_get N.eqb v (txs st)) as [x|] eqn:Hx; [|exfalso; exact (h_txs_hist _ _ HH _ _ Hin Hx)].
    rewrite (stored_tx_is v x Hx (bn, ti, tr) A B). rewrite C.
    destruct (a_get N.eqb (fst inp) (txs st)) as [y|] eqn:Hy.
    - rewrite (stored_tx_is _ y Hy g F G). destruct g as [[gb gi] gt]. reflexivity.
    - exfalso. rewrite <- G in Hy. exact (h_txs _ _ HH g _ _ _ _ F I J Hy).
  Qed.

  Lemma entry_ops_output ty s a1 a2 bn ti ci io v : io <> 0 ->
    rollback_entry_ops st ty s ((a1, a2, bn, ti, ci, io), v) = Ok [W_del_cell (ty, s, bn, ti, ci); W_del_hist (ty, s, bn, ti, ci, 1)].
  Proof. intros Hio. unfold rollback_entry_ops. destruct (N.eqb_spec io 0); [contradiction | reflexivity]. Qed.

  Lemma entry_ok ty s e : In e (script_history_desc st ty s n) -> exists x, rollback_entry_ops st ty s e = Ok x.
  Proof.
    intros He. apply script_history_desc_in in He. destruct He as [He Hf].
    destruct e as [[[[[[a1 a2] bn] ti] ci] io] v]. apply andb_true_iff in Hf. destruct Hf as [Hf _]. apply andb_true_iff in Hf.
    destruct Hf as [F1 F2]. apply N.eqb_eq in F1, F2. subst a1 a2.
    destruct (N.eq_dec io 0) as [->|Hio].
    - destruct (entry_ops_input ty s bn ti ci v He) as (tr & inp & g & po & _ & _ & _ & _ & _ & _ & _ & Hops). eexists. apply Hops.
    - eexists. apply entry_ops_output. exact Hio.
  Qed.

  Definition set_op (ss : script_status) : list wop := if n <=? ss_number ss then [W_set_script (ss_script ss) (ss_type ss) n] else [].

  Lemma set_op_only_sets ss op : In op (set_op ss) -> op = W_set_script (ss_script ss) (ss_type ss) n.
  Proof. unfold set_op. destruct (n <=? ss_number ss); [intros [H|[]]; symmetry; exact H | intros []]. Qed.

  Definition seg (ss : script_status) : list wop :=
    flat_map (fun e => ok_ops (rollback_entry_ops st (ss_type ss) (ss_script ss) e)) (script_history_desc st (ss_type ss) (ss_script ss) n)
    ++ set_op ss.

  Lemma rollback_scripts_flat : forall l, rollback_scripts st n l = Ok (flat_map seg l).
  Proof.
    induction l as [|ss l IH]; [reflexivity|]. cbn [rollback_scripts flat_map].
    destruct (map_res_ops_ok (rollback_entry_ops st (ss_type ss) (ss_script ss)) (script_history_desc st (ss_type ss) (ss_script ss) n)) as [a Ha];
      [intros e He; apply entry_ok; exact He|].
    rewrite Ha. cbn [bind]. rewrite IH. cbn [bind].
    unfold seg, set_op. rewrite <- (map_res_ops_flat _ _ _ Ha), <- !app_assoc. reflexivity.
  Qed.

  (* membership in a segment *)
  Lemma seg_put ss k v : In (W_put_cell k v) (seg ss) ->
    exists bn ti ci tr inp g po,
      In ((ss_type ss, ss_script ss, bn, ti, ci, 0), t_id tr) (history st) /\ n <= bn /\
      In (bn, ti, tr) D /\ nth_error (t_inputs tr) (N.to_nat ci) = Some inp /\
      In g D /\ t_id (snd g) = fst inp /\ nth_error (t_outputs (snd g)) (N.to_nat (snd inp)) = Some po /\
      pays reg (ss_type ss) (ss_script ss) po /\
      k = (ss_type ss, ss_script ss, fst (fst g), snd (fst g), snd inp) /\ v = fst inp.
  Proof.
    unfold seg. intros H. apply in_app_or in H. destruct H as [H|H]; [|apply set_op_only_sets in H; discriminate].
    apply in_flat_map in H. destruct H as [e [He H]]. apply script_history_desc_in in He. destruct He as [He Hf].
    destruct e as [[[[[[a1 a2] bn] ti] ci] io] t]. apply andb_true_iff in Hf. destruct Hf as [Hf F3]. apply andb_true_iff in Hf.
    destruct Hf as [F1 F2]. apply N.eqb_eq in F1, F2. apply N.leb_le in F3. subst a1 a2.
    destruct (N.eq_dec io 0) as [->|Hio].
    - destruct (entry_ops_input _ _ bn ti ci t He) as (tr & inp & g & po & A & B & C & F & G & I & J & Hops).
      rewrite Hops in H. cbn [ok_ops] in H. destruct H as [H|[H|[]]]; [|discriminate]. inversion H; subst k v.
      exists bn, ti, ci, tr, inp, g, po. rewrite B. repeat split; assumption.
    - rewrite entry_ops_output in H by exact Hio. cbn [ok_ops] in H. destruct H as [H|[H|[]]]; discriminate.
  Qed.

  Lemma seg_del ss k : In (W_del_cell k) (seg ss) ->
    exists bn ti ci v, In ((ss_type ss, ss_script ss, bn, ti, ci, 1), v) (history st) /\ n <= bn /\ k = (ss_type ss, ss_script ss, bn, ti, ci).
  Proof.
    unfold seg. intros H. apply in_app_or in H. destruct H as [H|H]; [|apply set_op_only_sets in H; discriminate].
    apply in_flat_map in H. destruct H as [e [He H]]. apply script_history_desc_in in He. destruct He as [He Hf].
    destruct e as [[[[[[a1 a2] bn] ti] ci] io] t]. apply andb_true_iff in Hf. destruct Hf as [Hf F3]. apply andb_true_iff in Hf.
    destruct Hf as [F1 F2]. apply N.eqb_eq in F1, F2. apply N.leb_le in F3. subst a1 a2.
    destruct (N.eq_dec io 0) as [->|Hio].
    - destruct (entry_ops_input _ _ bn ti ci t He) as (tr & inp & g & po & _ & _ & _ & _ & _ & _ & _ & Hops).
      rewrite Hops in H. cbn [ok_ops] in H. destruct H as [H|[H|[]]]; discriminate.
    - rewrite entry_ops_output in H by exact Hio. cbn [ok_ops] in H. destruct H as [H|[H|[]]]; [|discriminate]. inversion H; subst k.
      destruct (h_io _ _ HH _ _ _ _ _ _ _ He) as [->| ->]; [contradiction|]. exists bn, ti, ci, t. repeat split; assumption.
  Qed.

  Lemma seg_has_put ss bn ti ci v : In ((ss_type ss, ss_script ss, bn, ti, ci, 0), v) (history st) -> n <= bn ->
    exists k x, In (W_put_cell k x) (seg ss) /\
      exists tr inp g, In (bn, ti, tr) D /\ t_id tr = v /\ nth_error (t_inputs tr) (N.to_nat ci) = Some inp /\ In g D /\ t_id (snd g) = fst inp /\
                       k = (ss_type ss, ss_script ss, fst (fst g), snd (fst g), snd inp) /\ x = fst inp.
  Proof.
    intros He Hn. destruct (entry_ops_input _ _ bn ti ci v He) as (tr & inp & g & po & A & B & C & F & G & I & J & Hops).
    exists (ss_type ss, ss_script ss, fst (fst g), snd (fst g), snd inp), (fst inp). split.
    - unfold seg. apply in_or_app. left. apply in_flat_map. exists ((ss_type ss, ss_script ss, bn, ti, ci, 0), v). split.
      + apply script_history_desc_in. split; [exact He|]. rewrite !N.eqb_refl. cbn [andb]. apply N.leb_le. exact Hn.
      + rewrite Hops. left. reflexivity.
    - exists tr, inp, g. repeat split; assumption.
  Qed.

  (* ---- the whole batch ---- *)
  Definition all_ops : list wop := flat_map seg regs.

  Lemma key_script_of ss k v : In (W_put_cell k v) (seg ss) -> exists b i oi, k = (ss_type ss, ss_script ss, b, i, oi).
  Proof. intros H. destruct (seg_put ss k v H) as (bn & ti & ci & tr & inp & g & po & _ & _ & _ & _ & _ & _ & _ & _ & -> & _). eauto. Qed.

  Lemma all_put kty ks b i oi v : In (W_put_cell (kty, ks, b, i, oi) v) all_ops ->
    exists ss, In ss regs /\ ss_type ss = kty /\ ss_script ss = ks /\ In (W_put_cell (kty, ks, b, i, oi) v) (seg ss).
  Proof.
    unfold all_ops. intros H. apply in_flat_map in H. destruct H as [ss [Hss H]].
    destruct (key_script_of ss _ _ H) as (b' & i' & oi' & E0). inversion E0; subst. exists ss. repeat split; assumption.
  Qed.

  Lemma all_del kty ks b i oi : In (W_del_cell (kty, ks, b, i, oi)) all_ops ->
    exists ss v, In ss regs /\ ss_type ss = kty /\ ss_script ss = ks /\ In ((kty, ks, b, i, oi, 1), v) (history st) /\ n <= b.
  Proof.
    unfold all_ops. intros H. apply in_flat_map in H. destruct H as [ss [Hss H]].
    destruct (seg_del ss _ H) as (bn & ti & ci & v & He & Hn & E0). inversion E0; subst. exists ss, v. repeat split; assumption.
  Qed.

  (* a restoring put names the creating transaction of the key, which pays the key's script at the key's output index *)
  Lemma put_names_creator kty ks b i oi v : In (W_put_cell (kty, ks, b, i, oi) v) all_ops ->
    exists g po bn ti tr ci, In g D /\ fst g = (b, i) /\ t_id (snd g) = v /\ nth_error (t_outputs (snd g)) (N.to_nat oi) = Some po /\ pays reg kty ks po /\
      In (bn, ti, tr) D /\ n <= bn /\ nth_error (t_inputs tr) (N.to_nat ci) = Some (v, oi).
  Proof.
    intros H. destruct (all_put _ _ _ _ _ _ H) as (ss & Hss & <- & <- & Hs).
    destruct (seg_put ss _ _ Hs) as (bn & ti & ci & tr & inp & g & po & He & Hn & A & C & F & G & I & J & E0 & ->).
    inversion E0; subst. exists g, po, bn, ti, tr, ci. destruct g as [[gb gi] gt]. destruct inp as [iv io]. cbn [fst snd] in *.
    repeat split; assumption.
  Qed.

  Lemma puts_agree k v v' : In (W_put_cell k v) all_ops -> In (W_put_cell k v') all_ops -> v' = v.
  Proof.
    destruct k as [[[[kty ks] b] i] oi]. intros H1 H2.
    destruct (put_names_creator _ _ _ _ _ _ H1) as (g & po & _ & _ & _ & _ & Hg & Hf & Hid & _).
    destruct (put_names_creator _ _ _ _ _ _ H2) as (g' & po' & _ & _ & _ & _ & Hg' & Hf' & Hid' & _).
    assert (g' = g).
    { destruct g as [[gb gi] gt], g' as [[gb' gi'] gt']. cbn [fst] in Hf, Hf'. inversion Hf; inversion Hf'; subst.
      apply Hpos; [exact Hg' | exact Hg | right; split; reflexivity]. }
    subst g'. congruence.
  Qed.

  Lemma regs_split ss : In ss regs -> exists r1 r2, regs = r1 ++ ss :: r2 /\
    forall ss', In ss' r2 -> (ss_type ss', ss_script ss') <> (ss_type ss, ss_script ss).
  Proof.
    intros Hin. apply in_split in Hin. destruct Hin as [r1 [r2 Hr]]. exists r1, r2. split; [exact Hr|].
    intros ss' Hin' Heq. rewrite Hr, map_app in Hnd. cbn [map] in Hnd. apply NoDup_remove_2 in Hnd. apply Hnd.
    apply in_or_app. right. apply in_map_iff. exists ss'. split; [exact Heq | exact Hin'].
  Qed.

  (* ---- keys at or above the rollback point: gone ---- *)
  Lemma rolled_back_key_gone kty ks b i oi c : n <= b ->
    (cget (kty, ks, b, i, oi) c <> None -> exists v, In ((kty, ks, b, i, oi, 1), v) (history st) /\ exists ss, In ss regs /\ ss_type ss = kty /\ ss_script ss = ks) ->
    cget (kty, ks, b, i, oi) (fold_left cells_step all_ops c) = None.
  Proof.
    intros Hb Hc. set (k := (kty, ks, b, i, oi)).
    destruct (a_get hkey_eqb (kty, ks, b, i, oi, 1) (history st)) as [v|] eqn:Hget.
    2:{ (* no output entry: nothing touches the key, and it was not there *)
        pose proof (a_get_none_notin hkey_eqb hkey_eqb_spec _ _ Hget) as Hno.
        rewrite cells_untouched.
        - destruct (cget k c) eqn:Ec; [|reflexivity]. exfalso. assert (Hne : cget k c <> None) by (rewrite Ec; discriminate). destruct (Hc Hne) as [v [Hv _]]. exact (Hno v Hv).
        - intros v Hput. destruct (put_names_creator _ _ _ _ _ _ Hput) as (g & po & _ & _ & _ & _ & Hg & Hf & _ & Hn & Hp & _).
          destruct (h_out _ _ HH g oi po kty ks Hg Hn Hp) as [v' Hv']. rewrite Hf in Hv'. cbn [fst snd] in Hv'. exact (Hno v' Hv').
        - intros Hdel. destruct (all_del _ _ _ _ _ Hdel) as (_ & v' & _ & _ & _ & Hv' & _). exact (Hno v' Hv'). }
    apply (a_get_some_in hkey_eqb hkey_eqb_spec) in Hget.
    (* is the script registered? *)
    destruct (find (same_script_as kty ks) regs) as [ss|] eqn:Ff.
    2:{ rewrite cells_untouched.
        - destruct (cget k c) eqn:Ec; [|reflexivity]. exfalso. assert (Hne : cget k c <> None) by (rewrite Ec; discriminate). destruct (Hc Hne) as [_ [_ [ss [Hss [A B]]]]].
          pose proof (find_none _ _ Ff ss Hss) as Hn. unfold same_script_as in Hn. rewrite A, B, !N.eqb_refl in Hn. discriminate.
        - intros v' Hput. destruct (all_put _ _ _ _ _ _ Hput) as (ss & Hss & A & B & _).
          pose proof (find_none _ _ Ff ss Hss) as Hn. unfold same_script_as in Hn. rewrite A, B, !N.eqb_refl in Hn. discriminate.
        - intros Hdel. destruct (all_del _ _ _ _ _ Hdel) as (ss & _ & Hss & A & B & _).
          pose proof (find_none _ _ Ff ss Hss) as Hn. unfold same_script_as in Hn. rewrite A, B, !N.eqb_refl in Hn. discriminate. }
    apply find_some in Ff. destruct Ff as [Hss Hsame]. unfold same_script_as in Hsame. apply andb_true_iff in Hsame.
    destruct Hsame as [A B]. apply N.eqb_eq in A, B.
    destruct (regs_split ss Hss) as (r1 & r2 & Hr & Hr2).
    (* the output entry in the descending list of this script *)
    set (e2 := ((kty, ks, b, i, oi, 1), v) : hkey * txid).
    assert (He2 : In e2 (script_history_desc st (ss_type ss) (ss_script ss) n)).
    { apply script_history_desc_in. split; [exact Hget|]. unfold e2. rewrite A, B, !N.eqb_refl. cbn [andb]. apply N.leb_le. exact Hb. }
    apply in_split in He2. destruct He2 as [L1 [L2 HL]].
    pose proof (script_history_desc_sorted st (ss_type ss) (ss_script ss) n) as Hsorted.
    set (ge := fun e => ok_ops (rollback_entry_ops st (ss_type ss) (ss_script ss) e)).
    assert (Hseg : seg ss = flat_map ge L1 ++ W_del_cell k :: (W_del_hist (kty, ks, b, i, oi, 1) :: flat_map ge L2 ++ set_op ss)).
    { unfold seg. fold ge. rewrite HL, flat_map_app. cbn [flat_map]. unfold ge at 2, e2. rewrite entry_ops_output by discriminate.
      cbn [ok_ops]. rewrite A, B. rewrite <- !app_assoc. reflexivity. }
    set (tail2 := (W_del_hist (kty, ks, b, i, oi, 1) :: flat_map ge L2 ++ set_op ss) ++ flat_map seg r2).
    assert (Hall_eq : all_ops = (flat_map seg r1 ++ flat_map ge L1) ++ W_del_cell k :: tail2).
    { unfold all_ops, tail2. rewrite Hr, flat_map_app. cbn [flat_map]. rewrite Hseg, <- !app_assoc. reflexivity. }
    rewrite Hall_eq. apply cells_deleted_get.
    intros v' Hput. unfold tail2 in Hput. apply in_app_or in Hput. destruct Hput as [Hput|Hput].
    - (* a later entry of the same script cannot restore this key: its position is above the key's *)
      destruct Hput as [Hput|Hput]; [discriminate|].
      apply in_app_or in Hput. destruct Hput as [Hput|Hput]; [|apply set_op_only_sets in Hput; discriminate].
      apply in_flat_map in Hput. destruct Hput as [e1 [He1 Hput]].
      assert (He1' : In e1 (script_history_desc st (ss_type ss) (ss_script ss) n)) by (rewrite HL; apply in_or_app; right; right; exact He1).
      pose proof (sorted_split_after _ _ _ _ Hsorted HL e1 He1) as Hle.
      apply script_history_desc_in in He1'. destruct He1' as [He1h Hf].
      destruct e1 as [[[[[[a1 a2] bn] ti] ci] io] t]. apply andb_true_iff in Hf. destruct Hf as [Hf F3]. apply andb_true_iff in Hf.
      destruct Hf as [F1 F2]. apply N.eqb_eq in F1, F2. subst a1 a2.
      unfold ge in Hput. destruct (N.eq_dec io 0) as [->|Hio]; [|rewrite entry_ops_output in Hput by exact Hio; destruct Hput as [Hput|[Hput|[]]]; discriminate].
      destruct (entry_ops_input _ _ bn ti ci t He1h) as (tr & inp & g & po & A1 & B1 & C1 & F1 & G1 & I1 & J1 & Hops).
      rewrite Hops in Hput. cbn [ok_ops] in Hput. destruct Hput as [Hput|[Hput|[]]]; [|discriminate]. inversion Hput; subst.
      pose proof (Hearlier bn ti tr inp g A1 (nth_error_In _ _ C1) F1 G1) as Hlt.
      unfold hle, hkey_le_desc, e2 in Hle.
      repeat (rewrite ?orb_true_iff, ?andb_true_iff in Hle). rewrite ?N.ltb_lt, ?N.eqb_eq, ?N.leb_le in Hle. lia.
    - (* segments of other scripts do not touch the key *)
      apply in_flat_map in Hput. destruct Hput as [ss' [Hss' Hput]].
      destruct (key_script_of ss' _ _ Hput) as (b' & i' & oi' & E0). unfold k in E0. inversion E0 as [[E1 E2 E3 E4 E5]].
      apply (Hr2 ss' Hss'). rewrite A, B, <- E1, <- E2. reflexivity.
  Qed.

  (* ---- keys below the rollback point: what the abandoned blocks spent is live again, the rest is unchanged ---- *)
  Variables D1 D2 : list ptx.
  Hypothesis HD : D = D1 ++ D2.
  Hypothesis Hlow : forall g, In g D1 -> fst (fst g) < n.
  Hypothesis Hhigh : forall g, In g D2 -> n <= fst (fst g).
  (* an out-point is spent at most once *)
  Hypothesis Hspend : forall q1 q2 inp, In q1 D -> In q2 D -> In inp (t_inputs (snd q1)) -> In inp (t_inputs (snd q2)) -> q1 = q2.
  Hypothesis HE : forall k tid, E k = Some tid <-> live reg D k tid.

  Lemma reg_in_regs kty ks : reg kty ks = true -> exists ss, In ss regs /\ ss_type ss = kty /\ ss_script ss = ks.
  Proof.
    unfold reg, registered. rewrite (inv_scripts _ _ _ _ HI). intros H. apply existsb_exists in H. destruct H as [ss [Hss H]].
    apply andb_true_iff in H. destruct H as [A B]. apply N.eqb_eq in A, B. exists ss. repeat split; assumption.
  Qed.

  Lemma pays_registered kty ks po : pays reg kty ks po -> reg kty ks = true.
  Proof. intros [[-> [-> R]]|[-> [_ R]]]; exact R. Qed.

  Lemma in_D1 g : In g D -> fst (fst g) < n -> In g D1.
  Proof. intros Hg Hlt. rewrite HD in Hg. apply in_app_or in Hg. destruct Hg as [Hg|Hg]; [exact Hg|]. specialize (Hhigh g Hg). lia. Qed.

  Lemma same_position (g g' : ptx) : In g D -> In g' D -> fst g = fst g' -> g = g'.
  Proof.
    destruct g as [[gb gi] gt], g' as [[gb' gi'] gt']. cbn [fst]. intros A B C. inversion C; subst.
    apply Hpos; [exact A | exact B | right; split; reflexivity].
  Qed.

  Lemma same_id (g g' : ptx) : In g D -> In g' D -> t_id (snd g) = t_id (snd g') -> g = g'.
  Proof.
    destruct g as [[gb gi] gt], g' as [[gb' gi'] gt']. cbn [snd]. intros A B C. apply Hpos; [exact A | exact B | left; exact C].
  Qed.

  Theorem rollback_key k tid :
    cget k (fold_left cells_step all_ops (cells st)) = Some tid <-> live reg D1 k tid.
  Proof.
    destruct k as [[[[kty ks] b] i] oi]. destruct (N.le_gt_cases n b) as [Hb|Hb].
    - (* at or above the rollback point *)
      rewrite rolled_back_key_gone; [| exact Hb |].
      + split; [discriminate|]. intros (p & Hp & _ & (stype & s & oi' & o & Hk & _) & _). inversion Hk as [[K1 K2 K3 K4 K5]]. specialize (Hlow p Hp). lia.
      + intros Hne. rewrite (inv_cells _ _ _ _ HI) in Hne. destruct (E (kty, ks, b, i, oi)) as [t|] eqn:Ek; [|contradiction]. clear Hne.
        destruct (inv_J2 _ _ _ _ HI _ _ Ek) as (stype & s & b' & i' & oi' & t' & o & Hk & HinD & Hid & Hn & Hs). inversion Hk as [[K1 K2 K3 K4 K5]]. subst stype s b' i' oi'.
        assert (Hp : pays reg kty ks o) by exact Hs.
        destruct (h_out _ _ HH (b, i, t') oi o kty ks HinD Hn Hp) as [v Hv]. exists v. split; [exact Hv|].
        apply reg_in_regs. eapply pays_registered. exact Hp.
    - (* below the rollback point *)
      pose (k := (kty, ks, b, i, oi)).
      assert (Hnodel : ~ In (W_del_cell k) all_ops).
      { intros Hdel. destruct (all_del _ _ _ _ _ Hdel) as (_ & _ & _ & _ & _ & _ & Hn). lia. }
      destruct (put_on_dec k all_ops) as [[v Hput]|Hnoput].
      + rewrite (cells_put_wins all_ops (cells st) (kty, ks, b, i, oi) v); [| intros v' Hv'; exact (puts_agree k v v' Hput Hv') | exact Hnodel | exact Hput].
        destruct (put_names_creator _ _ _ _ _ _ Hput) as (g & po & bn & ti & tr & ci & Hg & Hf & Hid & Hn & Hp & Htr & Hbn & Hci).
        assert (Hg1 : In g D1) by (apply in_D1; [exact Hg | rewrite Hf; exact Hb]).
        split.
        * intros Hv. inversion Hv; subst tid. exists g. split; [exact Hg1|]. split; [exact Hid|]. split.
          -- exists kty, ks, oi, po. rewrite Hf. cbn [fst snd]. repeat split; assumption.
          -- intros q Hq Hs. unfold spends in Hs. cbn [k_oi] in Hs.
             assert (Hq' : In q D) by (rewrite HD; apply in_or_app; left; exact Hq).
             assert (q = (bn, ti, tr)) by (apply (Hspend q (bn, ti, tr) (v, oi)); [exact Hq' | exact Htr | exact Hs | eapply nth_error_In; exact Hci]).
             subst q. specialize (Hlow _ Hq). cbn [fst] in Hlow. lia.
        * intros (p & Hp1 & Hpid & (stype & s & oi' & o & Hk & _) & _).
          assert (Hpg : p = g).
          { apply same_position; [rewrite HD; apply in_or_app; left; exact Hp1 | exact Hg |].
            inversion Hk as [[K1 K2 K3 K4 K5]]. rewrite Hf. destruct p as [[pb pi] pt]. cbn [fst snd] in *. congruence. }
          rewrite Hpg in Hpid. congruence.
      + rewrite cells_untouched by assumption. rewrite (inv_cells _ _ _ _ HI), HE. split.
        * intros (p & Hp & Hpid & Hc & Hns). exists p. split; [|split; [exact Hpid|split; [exact Hc|]]].
          -- apply in_D1; [exact Hp|]. destruct Hc as (stype & s & oi' & o & Hk & _). inversion Hk as [[K1 K2 K3 K4 K5]]. rewrite <- K3. exact Hb.
          -- intros q Hq. apply Hns. rewrite HD. apply in_or_app. left. exact Hq.
        * intros (p & Hp1 & Hpid & Hc & Hns).
          assert (Hp : In p D) by (rewrite HD; apply in_or_app; left; exact Hp1).
          exists p. split; [exact Hp|]. split; [exact Hpid|]. split; [exact Hc|].
          intros q Hq Hs. rewrite HD in Hq. apply in_app_or in Hq. destruct Hq as [Hq|Hq]; [exact (Hns q Hq Hs)|].
          (* a spender among the abandoned transactions would have left an input entry, hence a restoring put *)
          destruct Hc as (stype & s & oi' & o & Hk & Hn & Hpay). inversion Hk as [[K1 K2 K3 K4 K5]]. subst stype s oi'. cbn [k_oi] in Hs.
          unfold spends in Hs. destruct q as [[bn ti] tr]. cbn [snd] in Hs. apply In_nth_error in Hs. destruct Hs as [m Hm].
          assert (Hq' : In (bn, ti, tr) D) by (rewrite HD; apply in_or_app; right; exact Hq).
          assert (Hentry : In ((kty, ks, bn, ti, N.of_nat m, 0), t_id tr) (history st)).
          { apply (h_in_complete _ _ HH bn ti tr (N.of_nat m) (tid, oi) p o kty ks); try assumption.
            rewrite Nat2N.id. exact Hm. }
          destruct (reg_in_regs kty ks (pays_registered _ _ _ Hpay)) as (ss & Hss & A & B).
          rewrite <- A, <- B in Hentry.
          destruct (seg_has_put ss bn ti (N.of_nat m) (t_id tr) Hentry (Hhigh _ Hq)) as (k' & x & Hin & tr' & inp & g & Htr' & Hid' & Hnth & Hg & Hgid & Hk' & Hx).
          assert (tr' = tr).
          { assert (E0 : (bn, ti, tr') = (bn, ti, tr)) by (apply same_position; [exact Htr' | exact Hq' | reflexivity]). inversion E0. reflexivity. }
          subst tr'. rewrite Nat2N.id, Hm in Hnth. inversion Hnth; subst inp. cbn [fst snd] in *.
          assert (g = p) by (apply same_id; [exact Hg | exact Hp | congruence]). subst g.
          apply (Hnoput x). unfold all_ops. apply in_flat_map. exists ss. split; [exact Hss|].
          unfold k. rewrite K3, K4. rewrite A, B in Hk'. rewrite <- Hk'. exact Hin.
  Qed.
End Rollback.

(* ---------------------------------------------------------------------------------------------- *)
(* end to end *)
Definition lower_positions (L : list ptx) : Prop :=
  forall bn ti tr inp g, In (bn, ti, tr) L -> In inp (t_inputs tr) -> In g L -> t_id (snd g) = fst inp ->
    fst (fst g) < bn \/ (fst (fst g) = bn /\ snd (fst g) < ti).

Definition spent_once (L : list ptx) : Prop :=
  forall q1 q2 inp, In q1 L -> In q2 L -> In inp (t_inputs (snd q1)) -> In inp (t_inputs (snd q2)) -> q1 = q2.

Lemma option_ext {A} (a b : option A) : (forall x, a = Some x <-> b = Some x) -> a = b.
Proof.
  intros H. destruct a as [x|], b as [y|]; try reflexivity.
  - apply H. reflexivity.
  - symmetry. apply H. reflexivity.
  - apply H. reflexivity.
Qed.

Lemma chain_txs_app bs1 bs2 : chain_txs (bs1 ++ bs2) = chain_txs bs1 ++ chain_txs bs2.
Proof. unfold chain_txs. apply flat_map_app. Qed.

Lemma cells_only_tail ops tail c : (forall op, In op tail -> forall c', cells_step c' op = c') ->
  fold_left cells_step (ops ++ tail) c = fold_left cells_step ops c.
Proof.
  intros H. rewrite fold_left_app. generalize (fold_left cells_step ops c). induction tail as [|op tail IH]; intros c0; [reflexivity|].
  cbn [fold_left]. rewrite (H op (or_introl eq_refl)). apply IH. intros op' Hin. apply H. right. exact Hin.
Qed.

Theorem rollback_restores_index regs bs1 bs2 n :
  well_formed_chain (bs1 ++ bs2) -> refs_backwards (chain_txs (bs1 ++ bs2)) ->
  lower_positions (chain_txs (bs1 ++ bs2)) -> spent_once (chain_txs (bs1 ++ bs2)) ->
  (forall b, In b bs1 -> b_number b < n) -> (forall b, In b bs2 -> n <= b_number b) ->
  NoDup (map (fun x => (ss_type x, ss_script x)) regs) ->
  exists st', rollback_to_block (fold_left filter_block (bs1 ++ bs2) (fresh_store regs)) n = Ok st' /\
              forall k, a_get ckey_eqb k (cells st') = spec_chain (reg_of regs) bs1 k.
Proof.
  intros Hwf Href Hlp Hso Hb1 Hb2 Hnd.
  set (st := fold_left filter_block (bs1 ++ bs2) (fresh_store regs)).
  set (D := chain_txs (bs1 ++ bs2)).
  assert (Hpos : pos_ok D) by (apply well_formed_pos_ok; exact Hwf).
  destruct (chain_invariants regs (bs1 ++ bs2) (fresh_store regs) empty_cmap [] (fresh_inv regs) (fresh_hinv regs) Hpos Href) as [HI HH].
  cbn [app] in HI, HH. fold st D in HI, HH.
  assert (Hscripts : scripts st = regs) by exact (inv_scripts _ _ _ _ HI).
  assert (Hreg : registered st = reg_of regs) by (rewrite registered_reg_of, Hscripts; reflexivity).
  unfold rollback_to_block. rewrite Hscripts.
  rewrite (rollback_scripts_flat regs st _ D n HI HH Hpos). cbn [bind].
  eexists. split; [reflexivity|]. intros k.
  rewrite commit_cells.
  rewrite cells_only_tail by (intros op Hin c'; destruct (n <=? min_filtered st); [destruct Hin as [<-|[]]; reflexivity | destruct Hin]).
  apply option_ext. intros tid.
  assert (HD : D = chain_txs bs1 ++ chain_txs bs2) by apply chain_txs_app.
  assert (Hpos1 : pos_ok (chain_txs bs1)) by (apply (pos_ok_prefix (chain_txs bs1) (chain_txs bs2)); rewrite <- chain_txs_app; exact Hpos).
  assert (Href1 : refs_backwards (chain_txs bs1)) by (apply (refs_backwards_prefix (chain_txs bs1) (chain_txs bs2)); rewrite <- chain_txs_app; exact Href).
  rewrite (spec_chain_is_live_cells (reg_of regs) bs1 k tid Hpos1 Href1), <- Hreg.
  apply (rollback_key regs st _ D n HI HH Hpos Hnd Hlp (chain_txs bs1) (chain_txs bs2) HD).
  - intros g Hg. destruct g as [[gb gi] gt]. apply chain_txs_in in Hg. destruct Hg as [blk [Hblk [<- _]]]. cbn [fst]. apply Hb1. exact Hblk.
  - intros g Hg. destruct g as [[gb gi] gt]. apply chain_txs_in in Hg. destruct Hg as [blk [Hblk [<- _]]]. cbn [fst]. apply Hb2. exact Hblk.
  - exact Hso.
  - intros k0 tid0. rewrite Hreg. unfold spec_chain. apply (spec_chain_is_live_cells (reg_of regs) (bs1 ++ bs2) k0 tid0 Hpos Href).
Qed.

(* ---------------------------------------------------------------------------------------------- *)
(* blocks in ascending order: "inputs name transactions at lower positions" follows from "inputs name earlier transactions" *)
Definition pos_lt (p q : ptx) : Prop := fst (fst p) < fst (fst q) \/ (fst (fst p) = fst (fst q) /\ snd (fst p) < snd (fst q)).

Definition ascending (bs : list block) : Prop := StronglySorted (fun a b => b_number a < b_number b) bs.

Lemma sorted_app {A} (R : A -> A -> Prop) (l1 l2 : list A) :
  StronglySorted R l1 -> StronglySorted R l2 -> (forall x y, In x l1 -> In y l2 -> R x y) -> StronglySorted R (l1 ++ l2).
Proof.
  induction l1 as [|a l1 IH]; intros H1 H2 Hc; [exact H2|]. cbn [app]. inversion H1 as [|? ? Hs Hall]; subst.
  constructor.
  - apply IH; [exact Hs | exact H2 | intros x y Hx Hy; apply Hc; [right; exact Hx | exact Hy]].
  - apply Forall_app. split; [exact Hall|]. apply Forall_forall. intros y Hy. apply Hc; [left; reflexivity | exact Hy].
Qed.

Lemma indexed_sorted {A} (l : list A) : forall i, StronglySorted (fun a b : N * A => fst a < fst b) (indexed i l).
Proof.
  induction l as [|a l IH]; intros i; [constructor|]. cbn [indexed]. constructor; [apply IH|].
  apply Forall_forall. intros [j b] Hin. apply indexed_in in Hin. destruct Hin as [_ Hle]. cbn [fst]. lia.
Qed.

Lemma sorted_map {A B} (R : A -> A -> Prop) (S : B -> B -> Prop) (f : A -> B) (l : list A) :
  (forall a b, R a b -> S (f a) (f b)) -> StronglySorted R l -> StronglySorted S (map f l).
Proof.
  intros Hf. induction 1 as [|a l Hs IH Hall]; [constructor|]. cbn [map]. constructor; [exact IH|].
  apply Forall_forall. intros y Hy. apply in_map_iff in Hy. destruct Hy as [x [<- Hx]]. apply Hf. rewrite Forall_forall in Hall. apply Hall. exact Hx.
Qed.

Lemma chain_txs_sorted bs : ascending bs -> StronglySorted pos_lt (chain_txs bs).
Proof.
  unfold ascending. induction 1 as [|b bs Hs IH Hall]; [constructor|].
  cbn [chain_txs flat_map]. apply sorted_app.
  - unfold block_txs. apply (sorted_map (fun a b0 : N * tx => fst a < fst b0)); [|apply indexed_sorted].
    intros a b0 Hlt. right. cbn [fst snd]. split; [reflexivity | exact Hlt].
  - exact IH.
  - intros x y Hx Hy. unfold block_txs in Hx. apply in_map_iff in Hx. destruct Hx as [[i t] [<- _]].
    destruct y as [[yb yi] yt]. apply chain_txs_in in Hy. destruct Hy as [blk [Hblk [Hn _]]]. left. cbn [fst snd].
    rewrite Forall_forall in Hall. rewrite <- Hn. apply Hall. exact Hblk.
Qed.

Lemma sorted_split_before {A} (R : A -> A -> Prop) (l : list A) : forall l1 q l2, StronglySorted R l -> l = l1 ++ q :: l2 -> forall y, In y l1 -> R y q.
Proof.
  induction l as [|a l IH]; intros l1 q l2 Hs Heq y Hy; [destruct l1; discriminate|].
  destruct l1 as [|a' l1]; [destruct Hy|]. cbn [app] in Heq. inversion Heq; subst a' l. inversion Hs as [|? ? Hs' Hall]; subst.
  destruct Hy as [->|Hy].
  - rewrite Forall_forall in Hall. apply Hall. apply in_or_app. right. left. reflexivity.
  - eapply IH; [exact Hs' | reflexivity | exact Hy].
Qed.

Theorem ascending_lower_positions bs :
  ascending bs -> refs_backwards (chain_txs bs) -> lower_positions (chain_txs bs).
Proof.
  intros Ha Href bn ti tr inp g Hq Hinp Hg Hid.
  apply in_split in Hq. destruct Hq as [l1 [l2 HL]].
  assert (Hg1 : In g l1).
  { rewrite HL in Hg. apply in_app_or in Hg. destruct Hg as [Hg|Hg]; [exact Hg|]. exfalso.
    exact (Href l1 (bn, ti, tr) l2 HL inp Hinp g Hg Hid). }
  pose proof (sorted_split_before pos_lt _ l1 (bn, ti, tr) l2 (chain_txs_sorted bs Ha) HL g Hg1) as Hlt.
  exact Hlt.
Qed.

(* the end-to-end theorem for blocks in ascending order *)
Theorem rollback_restores_index_ascending regs bs1 bs2 n :
  well_formed_chain (bs1 ++ bs2) -> ascending (bs1 ++ bs2) -> refs_backwards (chain_txs (bs1 ++ bs2)) -> spent_once (chain_txs (bs1 ++ bs2)) ->
  (forall b, In b bs1 -> b_number b < n) -> (forall b, In b bs2 -> n <= b_number b) ->
  NoDup (map (fun x => (ss_type x, ss_script x)) regs) ->
  exists st', rollback_to_block (fold_left filter_block (bs1 ++ bs2) (fresh_store regs)) n = Ok st' /\
              forall k, a_get ckey_eqb k (cells st') = spec_chain (reg_of regs) bs1 k.
Proof.
  intros Hwf Ha Href Hso Hb1 Hb2 Hnd. apply rollback_restores_index; try assumption.
  apply ascending_lower_positions; assumption.
Qed.
