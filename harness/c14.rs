//! C14: difficulty checks (verify_tau, verify_total_difficulty, EpochDifficultyTrend).
//! Correspondence with Model/Difficulty.v plus property oracles computed independently here.
use ckb_types::{
    core::EpochNumberWithFraction,
    utilities::{compact_to_difficulty, difficulty_to_compact},
    U256,
};

use super::out::{catch, Out, Val};
use super::prng::Rng;
use crate::protocols::light_client::verif_exports::{
    verify_tau, verify_total_difficulty, EpochDifficultyTrend, EstimatedLimit,
};

type Ep = (u64, u64, u64);

fn ep(e: Ep) -> EpochNumberWithFraction {
    EpochNumberWithFraction::new_unchecked(e.0, e.1, e.2)
}

fn obs_unit<E>(r: Option<Result<(), E>>) -> Val {
    match r {
        Some(Ok(())) => Val::l(vec![Val::n(0), Val::n(0)]),
        Some(Err(_)) => Val::l(vec![Val::n(1)]),
        None => Val::l(vec![Val::n(3)]),
    }
}

fn obs_bool<E>(r: Option<Result<bool, E>>) -> Val {
    match r {
        Some(Ok(b)) => Val::l(vec![Val::n(0), Val::b(b)]),
        Some(Err(_)) => Val::l(vec![Val::n(1)]),
        None => Val::l(vec![Val::n(3)]),
    }
}

/// a compact target whose difficulty has roughly `bits` bits, and that difficulty
fn compact_for_bits(rng: &mut Rng, bits: u32) -> (u32, U256) {
    let mut d = rng.u256_bits(bits);
    if d.is_zero() {
        d = U256::one();
    }
    let c = difficulty_to_compact(d);
    (c, compact_to_difficulty(c))
}

fn compact_near(d: &U256) -> (u32, U256) {
    let d = if d.is_zero() { U256::one() } else { d.clone() };
    let c = difficulty_to_compact(d);
    (c, compact_to_difficulty(c))
}

fn case_tau(out: &mut Out, id: &str, tags: &[&str], se: Ep, sct: u32, ee: Ep, ect: u32, tau: u64) {
    case_tau_x(out, id, tags, se, sct, ee, ect, tau, None, "")
}

#[allow(clippy::too_many_arguments)]
fn case_tau_x(out: &mut Out, id: &str, tags: &[&str], se: Ep, sct: u32, ee: Ep, ect: u32, tau: u64, expect: Option<bool>, why: &str) {
    let sbd = compact_to_difficulty(sct);
    let ebd = compact_to_difficulty(ect);
    let r = catch(|| verify_tau(ep(se), sct, ep(ee), ect, tau));
    let model = format!(
        "(run_verify_tau {} {} {} {} {} {} {} {} {} {} {})",
        se.0, se.1, se.2, sct, sbd, ee.0, ee.1, ee.2, ect, ebd, tau
    );
    // oracle: never aborts on well-typed input
    let oracle = if r.is_none() && (sbd.leading_zeros() < 64 || ebd.leading_zeros() < 64) {
        // a header with such a difficulty cannot pass the PoW check that precedes this call
        Ok(())
    } else if r.is_none() {
        let class = if ee.0 < se.0 {
            "C14-tau-epoch-order"
        } else {
            "C14-tau-mul-overflow"
        };
        Err(format!("[{}] verify_tau panicked", class))
    } else {
        match (&r, expect) {
            (Some(Ok(true)), Some(true)) | (Some(Ok(false)), Some(false)) | (_, None) => Ok(()),
            (_, Some(true)) => Err(format!("[C14-tau-legal-rejected] the tau check rejects a legal history ({})", why)),
            (_, Some(false)) => Err(format!("[C14-tau-illegal-accepted] the tau check accepts a change faster than tau per epoch ({})", why)),
        }
    };
    let descr = format!(
        "verify_tau(start_epoch={:?}, start_compact={:#x}, end_epoch={:?}, end_compact={:#x}, tau={})",
        se, sct, ee, ect, tau
    );
    out.case(id, tags, &model, &obs_bool(r), oracle, &descr);
}

#[allow(clippy::too_many_arguments)]
fn case_td(
    out: &mut Out,
    id: &str,
    tags: &[&str],
    se: Ep,
    sct: u32,
    std: &U256,
    ee: Ep,
    ect: u32,
    etd: &U256,
    tau: u64,
    expect: Option<bool>, // Some(true): a legal history (must be accepted); Some(false): must be rejected
    why: &str,
) -> bool {
    let sbd = compact_to_difficulty(sct);
    let ebd = compact_to_difficulty(ect);
    let r = catch(|| verify_total_difficulty(ep(se), sct, std, ep(ee), ect, etd, tau));
    let model = format!(
        "(run_verify_td {} {} {} {} {} {} {} {} {} {} {})",
        se.0, se.1, se.2, sbd, std, ee.0, ee.1, ee.2, ebd, etd, tau
    );
    let oracle = match (&r, expect) {
        // a header with such a difficulty cannot pass the PoW check that precedes this call
        (None, _) if sbd.leading_zeros() < 64 || ebd.leading_zeros() < 64 => Ok(()),
        (None, _) => {
            let class = if ee.0 < se.0 || (ee.0 == se.0 && ee.1 < se.1) {
                "C14-td-epoch-order"
            } else if se.1 >= se.2 {
                "C14-td-illformed-epoch"
            } else {
                "C14-td-overflow"
            };
            Err(format!("[{}] verify_total_difficulty panicked", class))
        }
        (Some(Err(msg)), Some(true)) => {
            let class = if msg.contains("limit") {
                "C14-legal-history-rejected-by-limit"
            } else {
                "C14-legal-history-rejected-other"
            };
            Err(format!("[{}] legal history rejected ({}): {}", class, why, msg))
        }
        (Some(Ok(())), Some(false)) => Err(format!(
            "[C14-illegal-accepted] total outside the envelope accepted ({})",
            why
        )),
        _ => Ok(()),
    };
    let accepted = matches!(r, Some(Ok(())));
    let descr = format!(
        "verify_total_difficulty(start_epoch={:?}, start_compact={:#x}, start_td={:#x}, end_epoch={:?}, end_compact={:#x}, end_td={:#x}, tau={}) [{}]",
        se, sct, std, ee, ect, etd, tau, why
    );
    out.case(id, tags, &model, &obs_unit(r), oracle, &descr);
    accepted
}

struct EpochSpec {
    len: u64,
    compact: u32,
    bd: U256, // block difficulty
}

/// A tau-legal sequence of epochs: consecutive epoch difficulties (block difficulty * length)
/// differ by at most a factor tau (next*tau >= prev and next <= prev*tau).
fn gen_legal_epochs(rng: &mut Rng, count: usize, tau: u64, bits: u32, small: bool) -> Vec<EpochSpec> {
    let mut v: Vec<EpochSpec> = Vec::with_capacity(count);
    let tau_u = U256::from(tau);
    for i in 0..count {
        let len = if small { rng.range(1, 8) } else { rng.range(1, 1800) };
        if i == 0 {
            let (c, bd) = compact_for_bits(rng, bits.max(1));
            v.push(EpochSpec { len, compact: c, bd });
            continue;
        }
        let prev = &v[i - 1];
        let prev_ed = &prev.bd * prev.len;
        // choose a mode: top of the range, bottom, same, random inside
        let mut found = None;
        for attempt in 0..40 {
            let mode = if attempt < 20 { rng.below(5) } else { 2 };
            let len = if mode == 2 || attempt >= 20 { prev.len } else { len };
            let target_ed = match mode {
                0 => prev_ed.saturating_mul(&tau_u),
                1 => {
                    let q = &prev_ed / &tau_u;
                    if (&q * &tau_u) < prev_ed { q + 1u32 } else { q }
                }
                2 => prev_ed.clone(),
                _ => {
                    let lo = &prev_ed / &tau_u;
                    let hi = prev_ed.saturating_mul(&tau_u);
                    let span = &hi - &lo;
                    let r = rng.u256_bits(256);
                    if span.is_zero() { lo } else { &lo + (r % &span) }
                }
            };
            let want_bd = &target_ed / len;
            let (c, bd) = if mode == 2 { (prev.compact, prev.bd.clone()) } else { compact_near(&want_bd) };
            let ed = match bd.checked_mul(&U256::from(len)) { Some(x) => x, None => continue };
            // legality
            let up_ok = ed <= prev_ed.saturating_mul(&tau_u);
            let down_ok = ed.saturating_mul(&tau_u) >= prev_ed;
            if up_ok && down_ok {
                found = Some(EpochSpec { len, compact: c, bd });
                break;
            }
        }
        v.push(found.unwrap_or(EpochSpec { len: prev.len, compact: prev.compact, bd: prev.bd.clone() }));
    }
    v
}

pub(crate) fn run(seed: u64, n: u64, out: &mut Out) {
    let mut rng = Rng::new(seed);
    let tau = 2u64;

    // ---- corpus: fixed witnesses (run first) ----
    {
        // the reproduced legal-but-rejected history: epoch difficulties 40,80,160,160,80
        let c4 = difficulty_to_compact(U256::from(4u64));
        let c8 = difficulty_to_compact(U256::from(8u64));
        let std = U256::from(0x100u64);
        let etd = U256::from(0x100u64 + 444);
        case_td(out, "corpus-legal-40-80-160-160-80", &["corpus", "legal"], (11, 0, 10), c4, &std,
            (15, 0, 10), c8, &etd, tau, Some(true), "epoch difficulties 40,80,160,160,80");
        case_tau(out, "corpus-tau-end-before-start", &["corpus", "malformed"], (5, 0, 10), c4, (4, 0, 10), c8, tau);
        case_td(out, "corpus-td-same-epoch-index-decreasing", &["corpus", "malformed"], (5, 7, 10), c4, &std,
            (5, 3, 10), c4, &etd, tau, None, "same epoch, end index < start index");
        case_td(out, "corpus-td-end-epoch-before-start", &["corpus", "malformed"], (5, 7, 10), c4, &std,
            (4, 3, 10), c4, &etd, tau, None, "end epoch number < start epoch number");
    }

    // ---- A: verify_tau direct ----
    for i in 0..n {
        let bits = *rng.pick(&[8u32, 32, 64, 100, 200, 240, 256]);
        let (sct, _) = compact_for_bits(&mut rng, bits);
        let same_epoch = rng.chance(1, 4);
        let malformed = rng.chance(1, 10);
        let snum = if rng.chance(1, 2) { rng.range(0, 50) } else { rng.bits(24) };
        let slen = rng.range(1, 2000);
        let sidx = rng.below(slen);
        let gap = if rng.chance(3, 4) { rng.range(1, 12) } else { rng.range(1, 600) };
        let enum_ = if same_epoch { snum } else if malformed { snum.saturating_sub(gap) } else { (snum + gap).min((1 << 24) - 1) };
        let elen = if same_epoch { slen } else { rng.range(1, 2000) };
        let eidx = rng.below(elen);
        // end compact: related to start by a factor around tau^gap, or unrelated
        let ect = match rng.below(6) {
            0 => sct,
            1 => compact_for_bits(&mut rng, bits).0,
            _ => {
                let sbd = compact_to_difficulty(sct);
                let sed = sbd.saturating_mul(&U256::from(slen));
                let g = (enum_.saturating_sub(snum)).min(255) as u32;
                let jitter = rng.range(0, 2) as u32;
                let up = rng.chance(1, 2);
                let target = if up {
                    let sh = (g + jitter).saturating_sub(1).min(255);
                    if sed.leading_zeros() as u32 > sh { &sed << sh } else { U256::max_value() }
                } else {
                    &sed >> (g + jitter).saturating_sub(1).min(255)
                };
                let adj = match rng.below(3) { 0 => target.clone(), 1 => target.saturating_add(&U256::one()), _ => target.saturating_sub(&U256::one()) };
                compact_near(&(&adj / elen)).0
            }
        };
        let tag = if same_epoch { "same-epoch" } else if malformed { "malformed" } else { "cross-epoch" };
        case_tau(out, &format!("tau-{}", i), &["tau", tag], (snum, sidx, slen), sct, (enum_, eidx, elen), ect, tau);
    }

    // ---- B: trend methods direct ----
    for i in 0..n {
        let bits = *rng.pick(&[6u32, 16, 64, 128, 250, 256]);
        let s = if rng.chance(1, 6) { (U256::max_value() >> (rng.range(1, 6) as u32)) - rng.u256_bits(200) } else { rng.u256_bits(bits) };
        let e = match rng.below(4) {
            0 => s.clone(),
            1 => rng.u256_bits(bits),
            2 => { let sh = rng.range(0, 20) as u32; if (s.leading_zeros() as u32) > sh { &s << sh } else { U256::max_value() } }
            _ => &s >> (rng.range(0, 20) as u32),
        };
        let e = match rng.below(3) { 0 => e, 1 => e.saturating_add(&U256::one()), _ => e.saturating_sub(&U256::one()) };
        let trend = EpochDifficultyTrend::new(&s, &e);
        let cnt = if rng.chance(9, 10) { rng.range(0, 30) } else { rng.range(0, 3000) };
        let r = catch(|| trend.check_tau(tau, cnt));
        let v = match r { Some(b) => Val::b(b), None => Val::n(3) };
        out.case(&format!("trend-check-tau-{}", i), &["trend", "check_tau"],
            &format!("(run_check_tau {} {} {} {})", s, e, tau, cnt), &v, Ok(()),
            &format!("EpochDifficultyTrend::new({:#x},{:#x}).check_tau({},{})", s, e, tau, cnt));
        let r = catch(|| trend.calculate_tau_exponent(tau, cnt));
        let v = match r { Some(o) => Val::opt(o.map(Val::n)), None => Val::n(3) };
        out.case(&format!("trend-tau-exp-{}", i), &["trend", "tau_exp"],
            &format!("(run_tau_exp {} {} {} {})", s, e, tau, cnt), &v, Ok(()),
            &format!("EpochDifficultyTrend::new({:#x},{:#x}).calculate_tau_exponent({},{})", s, e, tau, cnt));
        // check_total_difficulty_limit with n >= 2, k < n
        let nn = if rng.chance(9, 10) { rng.range(2, 40) } else { rng.range(2, 2000) };
        let k = match trend.calculate_tau_exponent(tau, nn) { Some(k) if rng.chance(3, 4) => k, _ => rng.below(nn) };
        let actual = match rng.below(3) { 0 => rng.u256_bits(bits), 1 => rng.u256_bits(256), _ => s.saturating_mul(&U256::from(nn)) };
        let unaligned = rng.u256_bits(bits);
        for (is_max, lim) in [(false, EstimatedLimit::Min), (true, EstimatedLimit::Max)] {
            let r = catch(|| trend.check_total_difficulty_limit(lim, nn, k, &actual, &s, tau, &unaligned));
            out.case(&format!("trend-limit-{}-{}", if is_max { "max" } else { "min" }, i), &["trend", "limit"],
                &format!("(run_limit {} {} {} {} {} {} {} {} {})", if is_max { "true" } else { "false" }, s, e, nn, k, actual, s, tau, unaligned),
                &obs_unit(r), Ok(()),
                &format!("EpochDifficultyTrend::new({:#x},{:#x}).check_total_difficulty_limit({:?},{},{},{:#x},{:#x},{},{:#x})", s, e, lim, nn, k, actual, s, tau, unaligned));
        }
    }

    // ---- C: legal histories and their mutations ----
    let mut legal_total = 0u64;
    let mut legal_rejected = 0u64;
    for i in 0..n {
        let near_top = rng.chance(1, 8);
        let small = near_top || rng.chance(1, 2);
        let count = if near_top { rng.range(2, 7) as usize } else if rng.chance(4, 5) { rng.range(1, 8) as usize } else { rng.range(8, 300) as usize };
        let bits = if near_top { *rng.pick(&[249u32, 251, 252, 253]) } else if small { 6 } else { *rng.pick(&[20u32, 64, 100, 180, 236]) };
        let epochs = gen_legal_epochs(&mut rng, count, tau, bits, small);
        let first = &epochs[0];
        let last = &epochs[count - 1];
        let snum = rng.range(0, 1000);
        let sidx = rng.below(first.len);
        let eidx = if count == 1 { rng.range(sidx, first.len - 1) } else { rng.below(last.len) };
        // total difficulty from the block after start up to and including end
        let mut total = U256::zero();
        if count == 1 {
            total = &first.bd * (eidx - sidx);
        } else {
            total = &first.bd * (first.len - sidx - 1);
            for e in &epochs[1..count - 1] {
                total = total + &e.bd * e.len;
            }
            total = total + &last.bd * (eidx + 1);
        }
        let std = rng.u256_bits(100);
        let etd = &std + &total;
        let se = (snum, sidx, first.len);
        let ee = (snum + (count as u64 - 1), eidx, last.len);
        let shape = match count { 1 => "same-epoch", 2 => "one-switch", _ => "multi-epoch" };
        legal_total += 1;
        let ok = case_td(out, &format!("legal-{}", i), &["legal", shape], se, first.compact, &std, ee, last.compact, &etd, tau,
            Some(true), &format!("legal history of {} epochs", count));
        if !ok { legal_rejected += 1; }
        case_tau_x(out, &format!("legal-{}-tau", i), &["legal", "tau", shape], se, first.compact, ee, last.compact, tau,
            Some(true), &format!("legal history of {} epochs", count));
        // mutations
        if !total.is_zero() || count <= 2 {
            // exact-match regimes: any other total must be rejected
            let delta = U256::from(rng.range(1, 1000));
            let (m_etd, why) = if rng.chance(1, 2) { (&etd + &delta, "total increased") } else if etd >= (&std + &delta) { (&etd - &delta, "total decreased") } else { (&etd + &delta, "total increased") };
            let expect = if count <= 2 { Some(false) } else { None };
            case_td(out, &format!("legal-{}-mut-total", i), &["mutated", shape], se, first.compact, &std, ee, last.compact, &m_etd, tau, expect, why);
        }
        if !std.is_zero() {
            // total difficulty decreased
            let m_etd = &std - 1u32;
            case_td(out, &format!("legal-{}-mut-decrease", i), &["mutated", "decrease"], se, first.compact, &std, ee, last.compact, &m_etd, tau, Some(false), "end total difficulty below start");
        }
        if count >= 3 {
            // far outside the envelope: more than tau^n * start epoch difficulty * n, or zero growth
            let sed = &first.bd * first.len;
            let n_sw = count as u32 - 1;
            if (sed.leading_zeros() as u32) > n_sw + 12 {
                let huge = (&sed << n_sw) * (count as u64) + &total + &total;
                case_td(out, &format!("legal-{}-mut-huge", i), &["mutated", "huge"], se, first.compact, &std, ee, last.compact, &(&std + &huge), tau, Some(false), "total above n * tau^n * start epoch difficulty");
            }
            // end epoch difficulty grows faster than tau^n
            if (sed.leading_zeros() as u32) > n_sw + 6 {
                let fast_bd = &sed << (n_sw + 2);
                let (fc, fbd) = compact_near(&fast_bd);
                if &fbd * 1u64 > (&sed << n_sw) {
                    case_tau_x(out, &format!("legal-{}-mut-fast-tau", i), &["mutated", "too-fast", "tau"], se, first.compact, (ee.0, 0, 1), fc, tau, Some(false), "end epoch difficulty above tau^n * start");
                    case_td(out, &format!("legal-{}-mut-fast", i), &["mutated", "too-fast"], se, first.compact, &std, (ee.0, 0, 1), fc, &etd, tau, Some(false), "end epoch difficulty above tau^n * start");
                }
            }
        }
    }
    out.stat("legal_histories", &format!("{}", legal_total));
    out.stat("legal_histories_rejected", &format!("{}", legal_rejected));

    // ---- D: fully random inputs (incl. ill-formed epochs) ----
    for i in 0..n {
        let bits = *rng.pick(&[8u32, 64, 128, 255, 256]);
        let (sct, _) = compact_for_bits(&mut rng, bits);
        let (ect, _) = if rng.chance(1, 3) { (sct, U256::zero()) } else { compact_for_bits(&mut rng, bits) };
        let snum = rng.range(0, 20);
        let enum_ = if rng.chance(1, 3) { snum } else { rng.range(0, 30) };
        let slen = rng.range(0, 12);
        let elen = rng.range(0, 12);
        let se = (snum, rng.range(0, 12), slen);
        let ee = (enum_, rng.range(0, 12), elen);
        let std = rng.u256_bits(bits);
        let etd = if rng.chance(1, 5) { rng.u256_bits(256) } else { std.saturating_add(&rng.u256_bits(bits)) };
        case_td(out, &format!("random-{}", i), &["random"], se, sct, &std, ee, ect, &etd, tau, None, "random");
    }

    // ---- D2: long gaps with enormous claimed totals (limit estimation overflows U256) ----
    for i in 0..(n / 4 + 4) {
        let bits = *rng.pick(&[64u32, 100, 160, 200]);
        let (sct, _) = compact_for_bits(&mut rng, bits);
        let gap = rng.range(40, 700);
        let ect = match rng.below(3) { 0 => sct, 1 => compact_for_bits(&mut rng, bits).0, _ => compact_for_bits(&mut rng, 30).0 };
        let snum = rng.range(0, 100);
        let slen = rng.range(1, 1800);
        let elen = rng.range(1, 1800);
        let se = (snum, rng.below(slen), slen);
        let ee = (snum + gap, rng.below(elen), elen);
        let std = rng.u256_bits(100);
        let etd = match rng.below(3) { 0 => U256::max_value(), 1 => U256::max_value() - rng.u256_bits(200), _ => std.saturating_add(&rng.u256_bits(256)) };
        case_td(out, &format!("long-{}", i), &["random", "long-gap"], se, sct, &std, ee, ect, &etd, tau, None, "long gap, enormous claimed total");
    }

    // ---- E: small exhaustive grid with a reachability oracle ----
    // Epoch length 1 everywhere (block difficulty = epoch difficulty); start at the last block of
    // its epoch and end at the first block of its epoch, so the total is
    //   sum of the intermediate epoch difficulties + end epoch difficulty.
    // reachable(n, s, e) = all sums of legal sequences s = D0, D1, ..., Dn = e.
    let cands: Vec<(u64, u32)> = (1u64..=64)
        .filter_map(|d| {
            let c = difficulty_to_compact(U256::from(d));
            if compact_to_difficulty(c) == U256::from(d) { Some((d, c)) } else { None }
        })
        .collect();
    let value_set: Vec<u64> = cands.iter().map(|x| x.0).collect();
    let grid_n: u64 = if n >= 1000 { 5 } else { 4 };
    let mut grid_cases = 0u64;
    for &(s, sc) in cands.iter().filter(|x| x.0 <= 8) {
        for &(e, ec) in cands.iter().filter(|x| x.0 <= 16) {
            for nn in 2..=grid_n {
                // dynamic programming over exactly-representable difficulties
                use std::collections::{BTreeMap, BTreeSet};
                let mut layer: BTreeMap<u64, BTreeSet<u64>> = BTreeMap::new();
                layer.insert(s, [0u64].into_iter().collect());
                for step in 1..=nn {
                    let mut next: BTreeMap<u64, BTreeSet<u64>> = BTreeMap::new();
                    for (d, sums) in &layer {
                        for &d2 in &value_set {
                            if d2 <= d * tau && d2 * tau >= *d {
                                if step == nn && d2 != e { continue; }
                                let entry = next.entry(d2).or_default();
                                for sum in sums { entry.insert(sum + d2); }
                            }
                        }
                    }
                    layer = next;
                }
                let sums = match layer.get(&e) { Some(x) => x.clone(), None => continue };
                let lo = *sums.iter().next().unwrap();
                let hi = *sums.iter().next_back().unwrap();
                let std = U256::from(1000u64);
                // every reachable total must be accepted (only extremes + a middle one to bound volume)
                let mid = *sums.iter().nth(sums.len() / 2).unwrap();
                for (tot, w) in [(lo, "min"), (hi, "max"), (mid, "mid")] {
                    grid_cases += 1;
                    case_td(out, &format!("grid-{}-{}-{}-{}", s, e, nn, w), &["grid", "legal"], (3, 0, 1), sc, &std,
                        (3 + nn, 0, 1), ec, &(&std + tot), tau, Some(true),
                        &format!("reachable total {} ({}) for epoch difficulties {}->{} over {} switches", tot, w, s, e, nn));
                }
            }
        }
    }
    out.stat("grid_cases", &format!("{}", grid_cases));
}
