From Coq Require Import List.
From LC Require Import Locks.
Import ListNotations.

Section LocksProofs.
  Variables (S W : Type) (apply : S -> W -> S).
  Notation run := (run S W apply).
  Notation merge := (merge W).
  Notation commute := (commute S W apply).

  Lemma run_app s l1 l2 : run s (l1 ++ l2) = run (run s l1) l2.
  Proof. unfold Locks.run. apply fold_left_app. Qed.

  Lemma merge_nil_inv l m : merge [] l m -> m = l.
  Proof.
    remember [] as e. intros H. induction H as [l|l|a l1 l2 m H IH|b l1 l2 m H IH]; subst; try reflexivity; try discriminate.
    f_equal. apply IH. reflexivity.
  Qed.

  (* a write that commutes with every write of a sequence can be moved across it *)
  Lemma commute_run u ws : (forall w, In w ws -> commute u w) -> forall s, run (apply s u) ws = apply (run s ws) u.
  Proof.
    induction ws as [|w ws IH]; intros H s; [reflexivity|]. cbn [Locks.run fold_left].
    rewrite (H w (or_introl eq_refl) s). apply IH. intros w' Hw'. apply H. right. exact Hw'.
  Qed.

  (* merging writes that commute with everything on the other side changes nothing: it is as if they came first *)
  Lemma merge_commute us bs m :
    merge us bs m -> (forall u b, In u us -> In b bs -> commute u b) -> forall s, run s m = run s (us ++ bs).
  Proof.
    intros H. induction H as [l|l|a l1 l2 m H IH|b l1 l2 m H IH]; intros C s.
    - reflexivity.
    - rewrite app_nil_r. reflexivity.
    - cbn [app Locks.run fold_left]. apply IH. intros u b Hu Hb. apply C; [right; exact Hu | exact Hb].
    - cbn [Locks.run fold_left]. fold (run (apply s b) m). rewrite IH by (intros u b' Hu Hb'; apply C; [exact Hu | right; exact Hb']).
      rewrite !run_app. cbn [Locks.run fold_left]. fold (run (apply (run s l1) b) l2).
      f_equal.
      (* move b across l1 *)
      assert (Cb : forall u, In u l1 -> commute u b) by (intros u Hu; apply C; [exact Hu | left; reflexivity]).
      clear - Cb. revert s. induction l1 as [|u l1 IHl]; intros s; [reflexivity|]. cbn [Locks.run fold_left].
      rewrite <- (Cb u (or_introl eq_refl) s). apply IHl. intros u' Hu'. apply Cb. right. exact Hu'.
  Qed.

  (* both operations hold the lock for all their writes: only the two serial orders exist *)
  Theorem fully_locked_serial a b sched s :
    unlocked W a = [] -> unlocked W b = [] -> schedule W a b sched ->
    run s sched = run s (writes W a ++ writes W b) \/ run s sched = run s (writes W b ++ writes W a).
  Proof.
    intros Ha Hb [(m & Hm & ->)|(m & Hm & ->)].
    - left. rewrite Ha in Hm. apply merge_nil_inv in Hm. subst m. unfold writes. rewrite Ha, app_nil_r. reflexivity.
    - right. rewrite Hb in Hm. apply merge_nil_inv in Hm. subst m. unfold writes. rewrite Hb, app_nil_r. reflexivity.
  Qed.

  (* writes made after the lock is released are harmless when they commute with everything the other operation writes *)
  Theorem commuting_tail_serial a b sched s :
    (forall u w, In u (unlocked W a) -> In w (writes W b) -> commute u w) ->
    (forall u w, In u (unlocked W b) -> In w (writes W a) -> commute u w) ->
    schedule W a b sched ->
    run s sched = run s (writes W a ++ writes W b) \/ run s sched = run s (writes W b ++ writes W a).
  Proof.
    intros Ca Cb [(m & Hm & ->)|(m & Hm & ->)].
    - left. rewrite !run_app. rewrite (merge_commute _ _ _ Hm Ca). unfold writes. rewrite !run_app. reflexivity.
    - right. rewrite !run_app. rewrite (merge_commute _ _ _ Hm Cb). unfold writes. rewrite !run_app. reflexivity.
  Qed.
End LocksProofs.
