(* Model of src/protocols/light_client/sampling.rs and of
   LightClientProtocol::build_prove_request_content{,_from_genesis} (light_client/mod.rs).
   Floats are oracle inputs (DESIGN section 3): [m] is the u64 value of
   ceil(lambda / log_0.5(1 - 1/k)), [num_b] the u32 numerator of (1 - delta) * 10^9, and
   [nums] the u32 numerators of the random draws gen_x() * 10^9.  Given those the model is exact. *)
From LC Require Export U.
From Coq Require Export List.
Export ListNotations.
Open Scope N_scope.

Definition SCALE : N := 1000000000.
Definition MOD256 : N := 2 ^ 256.

Definition S_SAMPLE_ADD : N := 70.
Definition S_SAMPLE_SUB : N := 72.
Definition S_BLOCKS_SUB : N := 96.
Definition S_RANGE_SUB : N := 101.
Definition S_BOUNDARY_ADD : N := 103.

(* multiply(uint, ratio): U512 product, / 10^9, truncated to 256 bits, zero -> one *)
Definition multiply (u num : N) : N :=
  let r := (u * num / SCALE) mod MOD256 in
  if r =? 0 then 1 else r.

Definition estimate_samples_count (blocks_count last_n m : N) : N :=
  if blocks_count <=? last_n then 0
  else if m <=? last_n then 1
  else if blocks_count <? m then blocks_count - last_n
  else m - last_n.

Definition random_sample (start range boundary num : N) : res N :=
  let* s := add256 S_SAMPLE_ADD start (multiply range num) in
  if boundary <=? s then sub_chk S_SAMPLE_SUB boundary 1 else Ok s.

(* HashSet + sort = sorted list without duplicates *)
Fixpoint insert_uniq (x : N) (l : list N) : list N :=
  match l with
  | [] => [x]
  | y :: tl =>
      if x <? y then x :: l
      else if x =? y then l
      else y :: insert_uniq x tl
  end.
Definition sort_uniq (l : list N) : list N := fold_right insert_uniq [] l.

Fixpoint map_res {A B} (f : A -> res B) (l : list A) : res (list B) :=
  match l with
  | [] => Ok []
  | a :: tl => let* b := f a in let* bs := map_res f tl in Ok (b :: bs)
  end.

(* sample_blocks: returns (samples_count, boundary, difficulties); [nums] are the draws *)
Definition sample_blocks (start_number start_d last_number last_d last_n m num_b : N)
                         (nums : list N) : res (N * N * list N) :=
  let* blocks_count := sub_chk S_BLOCKS_SUB last_number start_number in
  let samples_count := estimate_samples_count blocks_count last_n m in
  let* range := sub_chk S_RANGE_SUB last_d start_d in
  let* boundary := add256 S_BOUNDARY_ADD start_d (multiply range num_b) in
  let* ds := map_res (random_sample start_d range boundary) nums in
  Ok (samples_count, boundary, sort_uniq ds).

(* ------------------------------------------------------------------------------------ *)
(* build_prove_request_content *)

Record request := mkReq {
  rq_start_hash : N; rq_start_number : N; rq_boundary : N; rq_difficulties : list N
}.

(* find(|(num, _)| num < start_number && last_number <= num + last_n) over stored last-N *)
Fixpoint find_rebase (hs : list (N * N)) (start_number last_number last_n : N) : option (N * N) :=
  match hs with
  | [] => None
  | (num, h) :: tl =>
      if andb (num <? start_number) (last_number <=? num + last_n) then Some (num, h)
      else find_rebase tl start_number last_number last_n
  end.

Definition build_request
  (last_n last_number last_td : N)
  (start_hash start_number start_td : N)
  (stored : list (N * N)) (m num_b : N) (nums : list N) : res (option request) :=
  if orb (last_td <? start_td) (last_number <=? start_number) then Ok None
  else if last_number - start_number <=? last_n then
    let '(n', h') := match find_rebase stored start_number last_number last_n with
                     | Some p => p | None => (start_number, start_hash) end in
    Ok (Some (mkReq h' n' start_td []))
  else
    let* r := sample_blocks start_number start_td last_number last_td last_n m num_b nums in
    let '(_, boundary, ds) := r in
    Ok (Some (mkReq start_hash start_number boundary ds)).
