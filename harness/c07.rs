//! C07: filter check points.  BlockFilterCheckPoints messages are delivered through
//! FilterProtocol::received, finalization runs inside LightClientProtocol::notify(REFRESH).
//! Correspondence with Model/CheckPoints.v; quorum / immutability oracles computed here.
use std::collections::HashMap;
use std::sync::Arc;

use ckb_network::{CKBProtocolHandler, PeerIndex, SupportProtocols};
use ckb_types::{packed, prelude::*, U256};

use super::chain::{flat_plan, SynChain, T0};
use super::client::dummy_consensus;
use super::ctx::{ban_code, drive, Ctx};
use super::out::{coq_list, Out, Val};
use super::prng::Rng;
use crate::protocols::light_client::constant::REFRESH_PEERS_TOKEN;
use crate::protocols::{FilterProtocol, LightClientProtocol, Peers};
use crate::tests::utils::new_storage;

fn hv(h: &packed::Byte32) -> u64 {
    // check point values are small numbers stored in the first 8 bytes
    u64::from_le_bytes(h.as_slice()[..8].try_into().unwrap())
}
fn mk(v: u64) -> packed::Byte32 {
    let mut b = [0u8; 32];
    b[..8].copy_from_slice(&v.to_le_bytes());
    b.pack()
}
fn hashes_term(v: &[packed::Byte32]) -> String {
    coq_list(&v.iter().map(|h| format!("{}", hv_or_big(h))).collect::<Vec<_>>())
}
fn hv_or_big(h: &packed::Byte32) -> String {
    if h.as_slice()[8..].iter().all(|b| *b == 0) { format!("{}", hv(h)) } else { let mut b = [0u8; 32]; b.copy_from_slice(h.as_slice()); format!("{:#x}", U256::from_le_bytes(&b)) }
}

pub(crate) fn run(seed: u64, n: u64, out: &mut Out) {
    let guard = ckb_systemtime::faketime();
    guard.set_faketime(T0);
    let mut rng = Rng::new(seed);
    let consensus = dummy_consensus();
    let interval = 10u64;
    let mut case_no = 0u64;
    for world in 0..n {
        let max_outbound = rng.range(1, 7) as u32;
        let required = ((max_outbound + 1) / 2) as usize;
        let n_peers = if rng.chance(2, 3) { max_outbound as usize } else { rng.range(1, max_outbound as u64) as usize };
        let storage = new_storage("verif-c07");
        let chain = SynChain::new(flat_plan(2, 4, 5), 4, 9);
        storage.init_genesis_block(chain.genesis_block());
        let (idx0, cp0) = storage.get_last_check_point();
        let peers = Arc::new(Peers::new(max_outbound, interval, (idx0, cp0.clone())));
        let mut lc = LightClientProtocol::new(storage.clone(), peers.clone(), consensus.clone());
        let mut fp = FilterProtocol::new(storage.clone(), peers.clone());
        let nc = Ctx::new(SupportProtocols::LightClient);
        let fnc = Ctx::new(SupportProtocols::Filter);
        // ground truth values: index i -> 100 + i ; the genesis one is whatever the store holds
        let truth = |i: u64| -> packed::Byte32 { if i == 0 { cp0.clone() } else { mk(100 + i) } };
        let k_max = rng.range(3, 14);
        let proved_number = interval * (k_max + 3);
        let mut ids: Vec<PeerIndex> = (0..n_peers).map(|i| PeerIndex::new(i + 1)).collect();
        // behaviours: honest, or deviating from some index on, or at exactly one index
        let mut behaviour: Vec<(u64, u64, bool)> = ids.iter().map(|_| match rng.below(4) {
            0 => (rng.range(1, k_max), 7000, true),   // all values from this index on differ
            1 => (rng.range(1, k_max), 9000, false),  // only this index differs
            _ => (u64::MAX, 0, false),
        }).collect();
        let value = |behaviour: &Vec<(u64, u64, bool)>, p: usize, i: u64| -> packed::Byte32 {
            let (from, salt, onward) = behaviour[p];
            if from != u64::MAX && (i == from || (onward && i > from)) { mk(salt + i + if rng_salt(p) { 0 } else { 0 }) } else { truth(i) }
        };
        for (p, id) in ids.iter().enumerate() {
            peers.add_peer(*id);
            if rng.chance(19, 20) {
                let raw = packed::RawHeader::new_builder().number(proved_number.pack()).timestamp((p as u64).pack()).build();
                let header = packed::Header::new_builder().raw(raw).build().into_view();
                let vh = ckb_types::utilities::merkle_mountain_range::VerifiableHeader::new(header, Default::default(), None, Default::default());
                peers.mock_prove_state(*id, vh).unwrap();
            }
        }
        let mut sent_upto: Vec<u64> = vec![0; n_peers]; // highest index each peer has delivered
        let mut prev_stored: Vec<packed::Byte32> = storage.get_check_points(0, 1000);
        for round in 0..rng.range(2, 6) {
            // ---- churn: a peer leaves, a fresh proved peer joins (its vector starts at the client's start check point) ----
            if round > 0 && rng.chance(1, 2) && ids.len() > 1 {
                let k = rng.below(ids.len() as u64) as usize;
                peers.remove_peer(ids[k]);
                ids.remove(k); behaviour.remove(k); sent_upto.remove(k);
            }
            if round > 0 && rng.chance(1, 2) && ids.len() < max_outbound as usize + 1 {
                let id = PeerIndex::new(100 + world as usize * 10 + round as usize);
                peers.add_peer(id);
                let raw = packed::RawHeader::new_builder().number(proved_number.pack()).timestamp((round as u64 + 50).pack()).build();
                let header = packed::Header::new_builder().raw(raw).build().into_view();
                let vh = ckb_types::utilities::merkle_mountain_range::VerifiableHeader::new(header, Default::default(), None, Default::default());
                peers.mock_prove_state(id, vh).unwrap();
                ids.push(id);
                behaviour.push(match rng.below(3) { 0 => (rng.range(1, k_max), 7000, true), 1 => (rng.range(1, k_max), 9000, false), _ => (u64::MAX, 0, false) });
                sent_upto.push(0);
            }
            let n_peers = ids.len();
            // ---- deliver check point messages ----
            for _ in 0..rng.range(n_peers as u64, 3 * n_peers as u64 + 1) {
                let p = rng.below(n_peers as u64) as usize;
                let id = ids[p];
                let before = peers.get_all_proved_check_points().get(&id).cloned();
                let cur_last = match &before { Some((start, v)) => *start as u64 + v.len() as u64 - 1, None => sent_upto[p] };
                let (start_idx, malformed) = match rng.below(16) { 0 => (cur_last + 1, "shifted-start"), 1 => (cur_last.saturating_sub(1), "stale-start"), _ => (cur_last, "") };
                let len = match rng.below(14) { 0 => 0, 1 => 1, 2 | 3 => 2, _ => rng.range(2, 6) };
                let mut cps: Vec<packed::Byte32> = (0..len).map(|j| value(&behaviour, p, start_idx + j)).collect();
                if rng.chance(1, 25) && !cps.is_empty() { cps[0] = mk(31337); }
                let start_number = if rng.chance(1, 25) { start_idx * interval + 3 } else { start_idx * interval };
                let content = packed::BlockFilterCheckPoints::new_builder().start_number(start_number.pack()).block_filter_hashes(cps.clone().pack()).build();
                let msg = packed::BlockFilterMessage::new_builder().set(content).build();
                let r = drive(fp.received(fnc.context(), id, msg.as_bytes()));
                let bans = fnc.take_banned();
                let sent = fnc.take_sent();
                let after = peers.get_all_proved_check_points().get(&id).cloned();
                if let Some((start, v)) = &after { sent_upto[p] = *start as u64 + v.len() as u64 - 1; }
                let next_req: Option<u64> = sent.iter().filter_map(|(_, _, d)| packed::BlockFilterMessage::from_slice(d).ok()).filter_map(|m| match m.to_enum() { packed::BlockFilterMessageUnion::GetBlockFilterCheckPoints(g) => Some(g.start_number().unpack()), _ => None }).next();
                if let Some((first, cur)) = before {
                    let v = if r.is_err() { Val::l(vec![Val::n(3)]) } else if let Some((_, reason)) = bans.first() {
                        Val::l(vec![Val::n(1), Val::n(ban_code(reason))])
                    } else {
                        let (_, vec_after) = after.clone().unwrap();
                        Val::l(vec![Val::n(0), Val::l(vec_after.iter().map(|h| Val::n(hv_or_big(h))).collect()), Val::opt(next_req.map(Val::n))])
                    };
                    let oracle = if r.is_err() { Err("[C10-filter-panic] BlockFilterCheckPoints made the handler panic".to_string()) } else { Ok(()) };
                    out.case(&format!("add-{}", case_no), &["add_check_points", if malformed.is_empty() { "aligned" } else { malformed }],
                        &format!("(run_add_check_points {} {} {} {} {} {})", interval, first, hashes_term(&cur), proved_number, start_number, hashes_term(&cps)),
                        &v, oracle, &format!("peer {} (vector from index {} with {} entries, proved #{}) receives BlockFilterCheckPoints(start_number={}, {} hashes)", id, first, cur.len(), proved_number, start_number, cps.len()));
                    case_no += 1;
                }
            }
            // ---- refresh tick: finalization ----
            let data = peers.get_all_proved_check_points();
            let (last_idx, last_cp) = storage.get_last_check_point();
            let mut plist: Vec<(u64, u32, Vec<packed::Byte32>)> = data.iter().map(|(id, (s, v))| (id.value() as u64, *s, v.clone())).collect();
            plist.sort_by_key(|x| x.0);
            let r = drive(lc.notify(nc.context(), REFRESH_PEERS_TOKEN));
            let bans: Vec<u64> = { let mut b: Vec<u64> = nc.take_banned().into_iter().map(|(p, _)| p.value() as u64).collect(); b.sort(); b.dedup(); b };
            nc.take_sent(); nc.take_disconnected();
            let new_max = storage.get_max_check_point_index();
            let stored = storage.get_check_points(0, 1000);
            let written: Vec<packed::Byte32> = stored.iter().skip(last_idx as usize + 1).take((new_max - last_idx) as usize).cloned().collect();
            let v = if r.is_err() { Val::l(vec![Val::n(3)]) } else {
                Val::l(vec![Val::l(bans.iter().map(Val::n).collect()), Val::l(written.iter().map(|h| Val::n(hv_or_big(h))).collect()), Val::n(new_max), Val::b(true)])
            };
            let model = format!("(run_finalize {} {} {} {} {})", required,
                coq_list(&plist.iter().map(|(id, s, v)| format!("({}, {}, {})", id, s, hashes_term(v))).collect::<Vec<_>>()),
                last_idx, hv_or_big(&last_cp), hashes_term(&written));
            // ---- oracles ----
            let mut problems: Vec<String> = Vec::new();
            if r.is_err() { problems.push("[C10-handler-panic] refresh tick panicked".into()); }
            if new_max < last_idx { problems.push("[C07-index-decreased] the final check point index decreased".into()); }
            for (i, h) in prev_stored.iter().enumerate() {
                if stored.get(i) != Some(h) { problems.push(format!("[C07-rewritten] final check point {} was rewritten", i)); break; }
            }
            if (stored.len() as u64) < new_max as u64 + 1 { problems.push("[C07-missing] the final index points beyond the stored check points".into()); }
            // quorum: each new value is reported by >= required proven peers that agree on everything since the previous final one
            let mut agreeing: Vec<&(u64, u32, Vec<packed::Byte32>)> = plist.iter().filter(|(_, s, v)| {
                let s = *s as u64; s <= last_idx as u64 && v.get((last_idx as u64 - s) as usize) == Some(&last_cp)
            }).collect();
            for (k, w) in written.iter().enumerate() {
                let j = last_idx as u64 + 1 + k as u64;
                agreeing.retain(|(_, s, v)| v.get((j - *s as u64) as usize) == Some(w));
                if agreeing.len() < required {
                    problems.push(format!("[C07-no-quorum] check point {} was finalized with {} agreeing proven peers, {} required", j, agreeing.len(), required));
                    break;
                }
            }
            // "nor block agreement among the rest": a tick that panics although a quorum of the proven peers that agree with everything
            // final so far report the same next value finalizes nothing, now and at every later tick with these peers.  (Without a panic
            // the code may stop early at the shortest agreeing list and go on at the next tick: not judged here, the model follows it.)
            if r.is_err() {
                let j = new_max as u64 + 1;
                let mut votes: Vec<(&packed::Byte32, usize)> = Vec::new();
                for (_, s, v) in agreeing.iter() { if let Some(x) = v.get((j - *s as u64) as usize) { if let Some(e) = votes.iter_mut().find(|e| e.0 == x) { e.1 += 1; } else { votes.push((x, 1)); } } }
                if let Some((_, c)) = votes.iter().max_by_key(|e| e.1) {
                    if *c >= required { problems.push(format!("[C07-agreement-blocked] {} proven peers that agree with every final check point report the same value for check point {} ({} required) and the tick panicked: {}", c, j, required, super::last_panic())); }
                }
            }
            // contradiction: a proven peer whose value at the final index differs is banned (when finalization runs at all)
            if plist.len() >= required {
                for (id, s, v) in &plist {
                    let s = *s as u64;
                    let contradicts = s > last_idx as u64 || v.get((last_idx as u64 - s) as usize).map(|x| x != &last_cp).unwrap_or(false);
                    if contradicts && !bans.contains(id) { problems.push(format!("[C07-contradiction-not-banned] peer {} contradicts final check point {} and was not banned", id, last_idx)); }
                    if !contradicts && bans.contains(id) { problems.push(format!("[C07-honest-banned] peer {} agrees with the final check point and was banned", id)); }
                }
            }
            prev_stored = stored.clone();
            let oracle = if problems.is_empty() { Ok(()) } else { Err(problems.join(" || ")) };
            out.case(&format!("finalize-{}", case_no), &["finalize", if written.is_empty() { "nothing-finalized" } else { "finalized" }], &model, &v, oracle,
                &format!("world {}: max_outbound {} (quorum {}), proven peers {:?}, final index {} -> {}", world, max_outbound, required,
                    plist.iter().map(|(id, s, v)| format!("{}@{}:{:?}", id, s, v.iter().map(hv).collect::<Vec<_>>())).collect::<Vec<_>>(), last_idx, new_max));
            case_no += 1;
        }
    }
}

fn rng_salt(_p: usize) -> bool { true }
