(* C16: the block reported for a transaction contains it - as long as no block NUMBER is written twice. *)
From Coq Require Import NArith List Bool Lia.
From LC Require Import Store StoreProofs IndexRefinement TxPairing.
Import ListNotations.
Open Scope N_scope.

Lemma fold_put_get (ts : list txid) (bn : N) : forall (m : list (txid * N)) (t : txid),
  a_get N.eqb t (fold_left (fun m0 t0 => a_put N.eqb t0 bn m0) ts m) = if existsb (N.eqb t) ts then Some bn else a_get N.eqb t m.
Proof.
  induction ts as [|x ts IH]; intros m t; [reflexivity|]. cbn [fold_left existsb]. rewrite IH.
  destruct (existsb (N.eqb t) ts); [rewrite orb_true_r; reflexivity|]. rewrite orb_false_r.
  rewrite (a_get_put N.eqb Neqb_spec). reflexivity.
Qed.

Definition numbers (hist : list (N * N * list txid)) : list N := map (fun b => snd (fst b)) hist.

(* what the two maps hold after a history *)
Lemma run_index_num hist : forall st bn bh,
  a_get N.eqb bn (p_num (fold_left index_block hist st)) = Some bh ->
  (exists ts, In (bh, bn, ts) hist) \/ (a_get N.eqb bn (p_num st) = Some bh /\ ~ In bn (numbers hist)).
Proof.
  induction hist as [|[[h n] ts] hist IH]; intros st bn bh H; [right; split; [exact H | intros []]|].
  cbn [fold_left] in H. destruct (IH _ _ _ H) as [[ts' Hin]|[Hg Hn]]; [left; exists ts'; right; exact Hin|].
  cbn [index_block p_num] in Hg. rewrite (a_get_put N.eqb Neqb_spec) in Hg. destruct (N.eqb_spec bn n) as [->|Hne].
  - inversion Hg; subst. left. exists ts. left. reflexivity.
  - right. split; [exact Hg|]. cbn [numbers map fst snd]. intros [E|Hin]; [congruence | exact (Hn Hin)].
Qed.

Lemma run_index_txs hist : forall st t bn,
  a_get N.eqb t (p_txs (fold_left index_block hist st)) = Some bn ->
  (exists bh ts, In (bh, bn, ts) hist /\ In t ts) \/ a_get N.eqb t (p_txs st) = Some bn.
Proof.
  induction hist as [|[[h n] ts] hist IH]; intros st t bn H; [right; exact H|].
  cbn [fold_left] in H. destruct (IH _ _ _ H) as [(bh & ts' & Hin & Ht)|Hg]; [left; exists bh, ts'; split; [right; exact Hin | exact Ht]|].
  cbn [index_block p_txs] in Hg. rewrite fold_put_get in Hg. destruct (existsb (N.eqb t) ts) eqn:E.
  - inversion Hg; subst. left. exists h, ts. split; [left; reflexivity|]. apply existsb_exists in E. destruct E as [x [Hx Ex]].
    apply N.eqb_eq in Ex. subst. exact Hx.
  - right. exact Hg.
Qed.

(* truthful pairing when every block number is written at most once *)
Theorem pairing_truthful hist t bh :
  NoDup (numbers hist) ->
  reported_block (run_index hist) t = Some bh ->
  exists bn ts, In (bh, bn, ts) hist /\ In t ts.
Proof.
  intros Hnd H. unfold reported_block, run_index in H.
  destruct (a_get N.eqb t (p_txs (fold_left index_block hist (mkPS [] [])))) as [bn|] eqn:Ht; [|discriminate].
  destruct (run_index_txs _ _ _ _ Ht) as [(bh' & ts & Hin & Hts)|Hg]; [|discriminate Hg].
  destruct (run_index_num _ _ _ _ H) as [[ts' Hin']|[Hg _]]; [|discriminate Hg].
  (* both blocks carry the number bn: they are the same entry of the history *)
  assert (Heq : (bh', bn, ts) = (bh, bn, ts')).
  { clear - Hnd Hin Hin'. induction hist as [|b hist IH]; [destruct Hin|]. cbn [numbers map] in Hnd. inversion Hnd as [|? ? Hno Hnd']; subst.
    destruct Hin as [->|Hin], Hin' as [E|Hin'].
    - exact E.
    - exfalso. apply Hno. apply in_map_iff. exists (bh, bn, ts'). split; [reflexivity | exact Hin'].
    - exfalso. apply Hno. subst b. apply in_map_iff. exists (bh', bn, ts). split; [reflexivity | exact Hin].
    - apply IH; assumption. }
  inversion Heq; subst. exists bn, ts'. split; assumption.
Qed.
