(* Lemmas about Model/Crash.v (C08). *)
From Coq Require Import NArith Lia List Bool Arith.
From LC Require Import Crash.
Import ListNotations.
Open Scope N_scope.
Open Scope bool_scope.

Section Safety.
  (* [touch b s]: block b carries activity of script s (ground truth of the chain) *)
  Variable touch : N -> N -> bool.

  Definition pending (st : cstate) (b : N) : Prop := exists r, In r (cs_records st) /\ In b (snd r).

  (* no activity of a registered script between its recorded number and the filter progress is unaccounted for:
     the block is indexed already, or a pending record still names it (so a restart downloads it) *)
  Definition Safe (st : cstate) : Prop :=
    forall s n b, In (s, n) (cs_scripts st) -> touch b s = true -> n < b <= cs_min st ->
                  In b (cs_indexed st) \/ pending st b.

  Lemma hasB_In x l : hasB x l = true <-> In x l.
  Proof.
    unfold hasB. rewrite existsb_exists. split.
    - intros (y & Hy & E). apply N.eqb_eq in E. subst. exact Hy.
    - intros H. exists x. split; [exact H | apply N.eqb_refl].
  Qed.

  Lemma bump_in n l s m : In (s, m) (bump n l) -> exists m0, In (s, m0) l /\ m0 <= m.
  Proof.
    unfold bump. intros H. apply in_map_iff in H. destruct H as ([s0 m0] & E & Hin). cbn [fst snd] in E.
    inversion E; subst. exists m0. split; [exact Hin|]. destruct (N.ltb_spec m0 n); lia.
  Qed.

  (* writes that can only help *)
  Lemma safe_index st b t : Safe st -> Safe (apply_write st (CW_index b t)).
  Proof.
    intros H s n b0 Hs Ht Hr. cbn [apply_write cs_scripts cs_min cs_indexed cs_records] in *.
    destruct (H s n b0 Hs Ht Hr) as [Hi|Hp]; [left | right; exact Hp].
    destruct (t && negb (hasB b (cs_indexed st))); [right; exact Hi | exact Hi].
  Qed.

  Lemma safe_bump st n : Safe st -> Safe (apply_write st (CW_bump n)).
  Proof.
    intros H s m b Hs Ht Hr. cbn [apply_write cs_scripts cs_min cs_indexed cs_records] in *.
    apply bump_in in Hs. destruct Hs as (m0 & Hin & Hle). apply (H s m0 b Hin Ht). lia.
  Qed.

  Lemma safe_min_back st n : n <= cs_min st -> Safe st -> Safe (apply_write st (CW_min n)).
  Proof. intros Hle H s m b Hs Ht Hr. cbn [apply_write cs_scripts cs_min] in *. apply (H s m b Hs Ht). lia. Qed.

  (* the record goes last: every block it names has been indexed by then *)
  Lemma safe_remove st start :
    Safe st ->
    (forall r, In r (cs_records st) -> fst (fst r) = start ->
       forall b, In b (snd r) -> In b (cs_indexed st) \/ forall s n, In (s, n) (cs_scripts st) -> touch b s = true -> b <= n) ->
    Safe (apply_write st (CW_remove_record start)).
  Proof.
    intros H Hdone s n b Hs Ht Hr. cbn [apply_write cs_scripts cs_min cs_indexed cs_records] in *.
    destruct (H s n b Hs Ht Hr) as [Hi|(r & Hin & Hb)]; [left; exact Hi|].
    destruct (N.eqb_spec (fst (fst r)) start) as [E|E].
    - destruct (Hdone r Hin E b Hb) as [Hi|Hn]; [left; exact Hi|]. specialize (Hn s n Hs Ht). lia.
    - right. exists r. split; [apply filter_In; split; [exact Hin | apply negb_true_iff; apply N.eqb_neq; exact E] | exact Hb].
  Qed.

  (* a batch: progress moves to its end; everything in it that matters is named by the record *)
  Lemma safe_record_and_min st start count ms e :
    Safe st -> start = cs_min st + 1 -> e = start + count - 1 ->
    (forall s n b, In (s, n) (cs_scripts st) -> touch b s = true -> start <= b <= e -> n < b -> In b ms) ->
    (forall r, In r (cs_records st) -> fst (fst r) <> start) ->
    Safe (apply_write st (CW_record_and_min start count ms e)).
  Proof.
    intros H Hm He Hcomplete Hfresh s n b Hs Ht Hr. cbn [apply_write cs_scripts cs_min cs_indexed cs_records] in *.
    destruct (N.le_gt_cases b (cs_min st)) as [Hold|Hnew].
    - destruct (H s n b Hs Ht (conj (proj1 Hr) Hold)) as [Hi|(r & Hin & Hb)]; [left; exact Hi|].
      right. exists r. split; [|exact Hb]. apply in_or_app. left. apply filter_In. split; [exact Hin|].
      apply negb_true_iff. apply N.eqb_neq. apply Hfresh. exact Hin.
    - right. exists (start, count, ms). split; [apply in_or_app; right; left; reflexivity|]. cbn [snd].
      apply (Hcomplete s n b Hs Ht); lia.
  Qed.

  Lemma safe_min_forward st e :
    Safe st -> (forall s n b, In (s, n) (cs_scripts st) -> touch b s = true -> cs_min st < b <= e -> b <= n) ->
    Safe (apply_write st (CW_min e)).
  Proof.
    intros H Hnone s n b Hs Ht Hr. cbn [apply_write cs_scripts cs_min cs_indexed cs_records] in *.
    destruct (N.le_gt_cases b (cs_min st)) as [Hold|Hnew]; [apply (H s n b Hs Ht); lia|].
    specialize (Hnone s n b Hs Ht (conj Hnew (proj2 Hr))). lia.
  Qed.

  (* set_scripts in one write: kept scripts keep their numbers, new ones start at or above the new progress,
     which is at or below the old progress and below every record that is dropped *)
  Lemma safe_set_scripts st l m :
    Safe st -> m <= cs_min st ->
    (forall r, In r (cs_records st) -> forall b, In b (snd r) -> m < b) ->
    (forall s n, In (s, n) l -> In (s, n) (cs_scripts st) \/ m <= n) ->
    Safe (apply_write st (CW_set_scripts l (Some m))).
  Proof.
    intros H Hle Hrec Hscripts s n b Hs Ht Hr. cbn [apply_write cs_scripts cs_min cs_indexed cs_records] in *.
    destruct (Hscripts s n Hs) as [Hold|Hnew]; [|lia].
    destruct (H s n b Hold Ht) as [Hi|(r & Hin & Hb)]; [lia | left; exact Hi|].
    specialize (Hrec r Hin b Hb). lia.
  Qed.

  (* ---- every crash point of an operation ---- *)
  Fixpoint all_safe (l : list cstate) : Prop := match l with [] => True | s :: tl => Safe s /\ all_safe tl end.

  (* block download: index every block of the record, raise the numbers, remove the record *)
  Lemma index_run_safe ms : forall st,
    Safe st -> all_safe (prefix_states st (map (fun b => CW_index (fst b) (snd b)) ms)).
  Proof.
    induction ms as [|b ms IH]; intros st H; [cbn; auto|]. cbn [map prefix_states all_safe]. split; [exact H|].
    apply IH. apply safe_index. exact H.
  Qed.

  Lemma prefix_states_app st ws1 ws2 :
    prefix_states st (ws1 ++ ws2) = removelast (prefix_states st ws1) ++ prefix_states (fold_left apply_write ws1 st) ws2.
  Proof.
    revert st. induction ws1 as [|w ws1 IH]; intros st; [reflexivity|]. cbn [app prefix_states fold_left]. rewrite IH.
    destruct (prefix_states (apply_write st w) ws1) eqn:E; [destruct ws1; discriminate|]. reflexivity.
  Qed.

  Lemma all_safe_app l1 l2 : all_safe l1 -> all_safe l2 -> all_safe (l1 ++ l2).
  Proof. induction l1 as [|a l1 IH]; [auto|]. cbn. intros [H1 H2] H3. split; auto. Qed.

  Lemma all_safe_removelast l : all_safe l -> all_safe (removelast l).
  Proof. induction l as [|a l IH]; [auto|]. cbn [all_safe]. intros [H1 H2]. destruct l as [|b l]; [exact I|]. cbn [removelast all_safe] in *. split; [exact H1 | apply IH; exact H2]. Qed.

  Lemma fold_index_keeps ms : forall st,
    cs_scripts (fold_left apply_write (map (fun b => CW_index (fst b) (snd b)) ms) st) = cs_scripts st /\
    cs_records (fold_left apply_write (map (fun b => CW_index (fst b) (snd b)) ms) st) = cs_records st /\
    cs_min (fold_left apply_write (map (fun b => CW_index (fst b) (snd b)) ms) st) = cs_min st /\
    (forall b, In b (cs_indexed st) -> In b (cs_indexed (fold_left apply_write (map (fun b => CW_index (fst b) (snd b)) ms) st))) /\
    (forall b, In (b, true) ms -> In b (cs_indexed (fold_left apply_write (map (fun b => CW_index (fst b) (snd b)) ms) st))).
  Proof.
    induction ms as [|[b t] ms IH]; intros st; [cbn; repeat split; auto; intros b []|]. cbn [map fold_left fst snd].
    destruct (IH (apply_write st (CW_index b t))) as (H1 & H2 & H3 & H4 & H5). cbn [apply_write cs_scripts cs_records cs_min cs_indexed] in *.
    repeat split; auto.
    - intros b0 Hb0. apply H4. destruct (t && negb (hasB b (cs_indexed st))); [right; exact Hb0 | exact Hb0].
    - intros b0 [E|Hin]; [|apply H5; exact Hin]. inversion E; subst. apply H4.
      cbn [andb]. destruct (hasB b0 (cs_indexed st)) eqn:Hh; cbn [negb]; [apply hasB_In; exact Hh | left; reflexivity].
  Qed.

  Theorem complete_writes_safe st start count ms :
    Safe st ->
    (* the record being completed names exactly these blocks; a block flagged false touches no registered script *)
    (forall r, In r (cs_records st) -> fst (fst r) = start -> forall b, In b (snd r) -> exists t, In (b, t) ms) ->
    (forall b, In (b, false) ms -> forall s n, In (s, n) (cs_scripts st) -> touch b s = false) ->
    all_safe (prefix_states st (complete_writes start count ms)).
  Proof.
    intros H Hnames Hflag. unfold complete_writes. rewrite prefix_states_app. apply all_safe_app.
    - apply all_safe_removelast. apply index_run_safe. exact H.
    - set (st1 := fold_left apply_write (map (fun b => CW_index (fst b) (snd b)) ms) st).
      destruct (fold_index_keeps ms st) as (K1 & K2 & K3 & K4 & K5). fold st1 in K1, K2, K3, K4, K5.
      assert (S1 : Safe st1).
      { intros s n b Hs Ht Hr. rewrite K1 in Hs. rewrite K3 in Hr. destruct (H s n b Hs Ht Hr) as [Hi|(r & Hin & Hb)]; [left; apply K4; exact Hi|].
        right. exists r. rewrite K2. auto. }
      cbn [prefix_states all_safe]. split; [exact S1|]. split; [apply safe_bump; exact S1|]. split; [|exact I].
      apply safe_remove; [apply safe_bump; exact S1|].
      intros r Hin E b Hb. cbn [apply_write cs_records cs_indexed cs_scripts] in *. rewrite K2 in Hin.
      destruct (Hnames r Hin E b Hb) as ([|] & Hm).
      + left. apply K5. exact Hm.
      + right. intros s n Hs Ht. apply bump_in in Hs. destruct Hs as (m0 & Hs0 & _). rewrite K1 in Hs0.
        rewrite (Hflag b Hm s m0 Hs0) in Ht. discriminate.
  Qed.

  Theorem batch_writes_safe st mem_empty start count ms :
    Safe st -> start = cs_min st + 1 -> 1 <= count ->
    (* the filters have no false negatives for the scripts asked about: scripts recorded below the end of the batch *)
    (forall s n b, In (s, n) (cs_scripts st) -> touch b s = true -> start <= b <= start + count - 1 -> n < b -> In b ms) ->
    (forall r, In r (cs_records st) -> fst (fst r) <> start) ->
    all_safe (prefix_states st (batch_writes mem_empty start count ms)).
  Proof.
    intros H Hs Hc Hcomplete Hfresh. unfold batch_writes. destruct ms as [|m0 ms'].
    - assert (Hnone : forall st', cs_scripts st' = cs_scripts st \/ cs_scripts st' = bump (start + count - 1) (cs_scripts st) -> cs_min st' = cs_min st ->
                forall s n b, In (s, n) (cs_scripts st') -> touch b s = true -> cs_min st' < b <= start + count - 1 -> b <= n).
      { intros st' [E|E] Em s n b Hin Ht Hr; rewrite E in Hin; rewrite Em in Hr.
        - destruct (N.le_gt_cases b n); [assumption|]. destruct (Hcomplete s n b Hin Ht); [lia | lia].
        - apply bump_in in Hin. destruct Hin as (n0 & Hin & Hle). destruct (N.le_gt_cases b n0); [lia|]. destruct (Hcomplete s n0 b Hin Ht); [lia | lia]. }
      destruct mem_empty; cbn [app prefix_states all_safe].
      + split; [exact H|]. split; [apply safe_bump; exact H|]. split; [|exact I].
        apply safe_min_forward; [apply safe_bump; exact H|]. apply Hnone; [right; reflexivity | reflexivity].
      + split; [exact H|]. split; [|exact I]. apply safe_min_forward; [exact H|]. apply Hnone; [left; reflexivity | reflexivity].
    - cbn [prefix_states all_safe]. split; [exact H|].
      assert (S1 : Safe (apply_write st (CW_record_and_min start count (m0 :: ms') (start + count - 1)))).
      { apply safe_record_and_min; auto; lia. }
      split; [exact S1|]. split; [|exact I]. apply safe_min_back; [cbn; lia | exact S1].
  Qed.

  Theorem set_scripts_writes_safe st l m genesis :
    Safe st -> m <= cs_min st ->
    (forall r, In r (cs_records st) -> forall b, In b (snd r) -> m < b) ->
    (forall s n, In (s, n) l -> In (s, n) (cs_scripts st) \/ m <= n) ->
    all_safe (prefix_states st (set_scripts_writes l (Some m) genesis)).
  Proof.
    intros H Hle Hrec Hsc. unfold set_scripts_writes. cbn [prefix_states all_safe]. split; [exact H|].
    assert (S1 : Safe (apply_write st (CW_set_scripts l (Some m)))) by (apply safe_set_scripts; assumption).
    destruct genesis; cbn [prefix_states all_safe]; [split; [exact S1|]; split; [apply safe_index; exact S1 | exact I] | split; [exact S1 | exact I]].
  Qed.
End Safety.

(* the order before commit dfad7d8 was not safe: after its first write the record is gone and the block is not indexed *)
Lemma complete_writes_old_unsafe :
  exists touch st start count ms,
    Safe touch st /\ ~ all_safe touch (prefix_states st (complete_writes_old start count ms)).
Proof.
  exists (fun b s => (b =? 3) && (s =? 0)), (mkCS [(0, 0)] 7 [(1, 7, [3])] []), 1, 7, [(3, true)].
  split.
  - intros s n b [E|[]] Ht Hr. inversion E; subst. right. exists (1, 7, [3]). split; [left; reflexivity|].
    apply andb_prop in Ht. destruct Ht as [Ht _]. apply N.eqb_eq in Ht. subst. left; reflexivity.
  - cbn [complete_writes_old map prefix_states all_safe fst snd]. intros (_ & H2 & _).
    assert (R : 0 < 3 <= 7) by lia.
    destruct (H2 0 0 3 (or_introl eq_refl) eq_refl R) as [Hi|(r & Hin & _)]; [destruct Hi | destruct Hin].
Qed.
