//! C02 / C16: fetch_header / fetch_transaction through the real RPC implementations, the fetch tick,
//! SendBlocksProof / SendTransactionsProof answers (honest and mutated, v0 and v1), peer churn, and
//! SendBlock bodies for proven matched blocks.  Correspondence with Model/Fetch.v (RunC02.run_fetch);
//! authenticity and "no request is ever lost" oracles judged against the generated chain.
use std::collections::HashMap;
use std::sync::Arc;

use ckb_merkle_mountain_range::{leaf_index_to_mmr_size, leaf_index_to_pos};
use ckb_network::PeerIndex;
use ckb_types::{
    core::{ExtraHashView, HeaderView},
    packed,
    prelude::*,
    utilities::{merkle_mountain_range::{HeaderDigest as _, MMRProof, VerifiableHeader}, merkle_root, CBMT},
    H256,
};

use super::c06::Interner;
use super::chain::{flat_plan, SynChain, T0};
use super::client::dummy_consensus;
use super::out::{catch, coq_list, Out, Val};
use super::prng::Rng;
use super::prover;
use super::world::*;
use crate::protocols::light_client::constant::{FETCH_HEADER_TX_TOKEN, REFRESH_PEERS_TOKEN};
use crate::protocols::light_client::prelude::VerifiableHeaderPatch;
use ckb_traits::HeaderProvider;
use crate::service::{ChainRpc, ChainRpcImpl, FetchStatus, TransactionRpc, TransactionRpcImpl};
use crate::storage::{ScriptStatus, ScriptType, SetScriptsCommand, StorageWithChainData};

fn mmr_verdict(last: &VerifiableHeader, proof: &packed::HeaderDigestVec, headers: &[HeaderView]) -> bool {
    catch(|| {
        if !last.patched_is_valid(0) { return false; }
        let root = last.parent_chain_root();
        let end: u64 = root.end_number().unpack();
        if end >= u64::MAX / 2 || headers.iter().any(|h| h.number() > end) { return false; }
        let p = MMRProof::new(leaf_index_to_mmr_size(end), proof.clone().into_iter().collect());
        let mut leaves = Vec::new();
        for h in headers {
            let d = h.digest();
            if d.verify().is_err() { return false; }
            leaves.push((leaf_index_to_pos(h.number()), d));
        }
        matches!(p.verify(root, leaves), Ok(true))
    }).unwrap_or(false)
}

fn extra_verdict(headers: &[HeaderView], uncles: &[packed::Byte32], exts: &[Option<packed::Bytes>]) -> u64 {
    if headers.len() != uncles.len() || headers.len() != exts.len() { return 2; }
    for ((h, u), e) in headers.iter().zip(uncles).zip(exts) {
        let x = ExtraHashView::new(u.clone(), e.as_ref().map(|e| e.calc_raw_data_hash())).extra_hash();
        if x != h.extra_hash() { return 2; }
    }
    1
}

fn wrap(item: u32, body: &[u8]) -> ckb_network::bytes::Bytes {
    let mut v = item.to_le_bytes().to_vec();
    v.extend_from_slice(body);
    ckb_network::bytes::Bytes::from(v)
}

struct TxLoc { block: u64, index: usize }

fn status_val<T>(s: &FetchStatus<T>) -> Val {
    match s {
        FetchStatus::Fetched { .. } => Val::l(vec![Val::n(0)]),
        FetchStatus::Added { timestamp } => Val::l(vec![Val::n(1), Val::n(timestamp.value())]),
        FetchStatus::Fetching { first_sent } => Val::l(vec![Val::n(2), Val::n(first_sent.value())]),
        FetchStatus::NotFound => Val::l(vec![Val::n(3)]),
    }
}

pub(crate) fn run(seed: u64, n: u64, out: &mut Out) {
    let guard = ckb_systemtime::faketime();
    let mut rng = Rng::new(seed);
    let consensus = dummy_consensus();
    for world in 0..n {
        let mut now = T0 + 5_000;
        guard.set_faketime(now);
        let pool: Vec<packed::Script> = (1..=3u8).map(|i| pool_script(7, &[i])).collect();
        let mut gen = TxGen::new(pool.clone(), world * 100_000, 2);
        let len = rng.range(24, 40);
        let bc = BodyChain::new(&mut rng, flat_plan(8, 6, 5), len, 1 + world, &mut gen);
        let fork_at = rng.range(2, len - 6);
        let other = bc.fork(&mut rng, fork_at, 4, 9_000 + world, pool.clone(), 2);
        let n_peers = rng.range(1, 3) as usize;
        let mut net = Net::new(&bc.chain, &consensus, 5, 2, 10);
        let tip = bc.tip();
        let mut hid = Interner::new(1000);
        let mut connected: Vec<PeerIndex> = Vec::new();
        let mut events: Vec<String> = Vec::new();
        let mut obs: Vec<Val> = Vec::new();
        let mut problems: Vec<String> = Vec::new();
        let mut kinds: HashMap<&'static str, u64> = HashMap::new();
        let mut ok_world = true;
        for i in 0..n_peers {
            let id = PeerIndex::new(i + 1);
            if !net.prove_peer(id, &bc.chain, tip) { ok_world = false; }
            connected.push(id);
            events.push(format!("FE_connect {}", id.value()));
            obs.push(Val::l(vec![Val::l(vec![]), Val::l(vec![Val::l(vec![]), Val::l(vec![]), Val::l(vec![]), Val::l(vec![])])]));
        }
        if !ok_world { out.stat("c02-unproven-world", &format!("{}", world)); continue; }
        let swc = StorageWithChainData::new(net.storage.clone(), Arc::clone(&net.peers), Default::default());
        let chain_rpc = ChainRpcImpl { swc: StorageWithChainData::new(net.storage.clone(), Arc::clone(&net.peers), Default::default()), consensus: Arc::new(consensus.clone()) };
        let tx_rpc = TransactionRpcImpl { swc, consensus: Arc::new(consensus.clone()) };
        // targets
        let mut tx_loc: HashMap<packed::Byte32, TxLoc> = HashMap::new();
        for b in 1..tip { for (i, t) in bc.chain.bodies[b as usize].iter().enumerate() { tx_loc.insert(t.calc_tx_hash(), TxLoc { block: b, index: i }); } }
        let on_chain_txs: Vec<packed::Byte32> = { let mut v: Vec<_> = tx_loc.keys().cloned().collect(); v.sort_by(|a, b| a.as_slice().cmp(b.as_slice())); v };
        let mut headers_t: Vec<packed::Byte32> = (0..4).map(|_| bc.chain.headers[rng.range(1, tip - 1) as usize].hash()).collect();
        headers_t.push(other.chain.headers[other.tip() as usize].hash());       // not on the proven chain
        headers_t.push([0xabu8; 32].pack());
        // a header nobody mined: block 3 relabelled with the tip's number (the user is tricked into asking for it)
        let forged_header: packed::Header = { let h = bc.chain.headers[3].data(); let raw = h.raw().as_builder().number(tip.pack()).build(); h.as_builder().raw(raw).build() };
        headers_t.push(forged_header.calc_header_hash());
        let mut txs_t: Vec<packed::Byte32> = (0..4).map(|_| on_chain_txs[rng.below(on_chain_txs.len() as u64) as usize].clone()).collect();
        txs_t.push(other.chain.bodies[other.tip() as usize][0].calc_tx_hash());
        txs_t.push([0xcdu8; 32].pack());
        headers_t.dedup(); txs_t.dedup();
        let mut asked_h: Vec<packed::Byte32> = Vec::new();
        let mut asked_t: Vec<packed::Byte32> = Vec::new();
        let observe = |net: &Net, hid: &mut Interner, headers_t: &Vec<packed::Byte32>, txs_t: &Vec<packed::Byte32>| -> Val {
            let to_h = net.peers.get_headers_to_fetch();
            let to_t = net.peers.get_txs_to_fetch();
            let mut th: Vec<(u64, Val)> = net.peers.fetching_headers().iter().map(|kv| { let id = hid.id(kv.key().as_slice()); let (a, f, m) = net.peers.get_header_fetch_info(kv.key()).unwrap(); (id, Val::l(vec![Val::n(id), Val::n(a), Val::n(f), Val::b(m), Val::b(to_h.contains(kv.key()))])) }).collect();
            let mut tt: Vec<(u64, Val)> = net.peers.fetching_txs().iter().map(|kv| { let id = hid.id(kv.key().as_slice()); let (a, f, m) = net.peers.get_tx_fetch_info(kv.key()).unwrap(); (id, Val::l(vec![Val::n(id), Val::n(a), Val::n(f), Val::b(m), Val::b(to_t.contains(kv.key()))])) }).collect();
            th.sort_by_key(|x| x.0); tt.sort_by_key(|x| x.0);
            // fetched headers in the store: the targets, plus the blocks of fetched transactions
            let mut sh: Vec<u64> = Vec::new();
            for h in headers_t.iter() { if net.storage.get_header(h).is_some() { sh.push(hid.id(h.as_slice())); } }
            let mut st: Vec<(u64, u64)> = Vec::new();
            for t in txs_t.iter() {
                if let Some((_, header)) = net.storage.get_transaction_with_header(t) { let hh = header.calc_header_hash(); let id = hid.id(hh.as_slice()); st.push((hid.id(t.as_slice()), id)); if !sh.contains(&id) { sh.push(id); } }
            }
            sh.sort(); sh.dedup(); st.sort(); st.dedup();
            Val::l(vec![Val::l(th.into_iter().map(|x| x.1).collect()), Val::l(tt.into_iter().map(|x| x.1).collect()), Val::l(sh.into_iter().map(Val::n).collect()), Val::l(st.into_iter().map(|(a, b)| Val::l(vec![Val::n(a), Val::n(b)])).collect())])
        };
        let steps = rng.range(8, 26);
        let mut closing = 0u64;
        let mut poll: Vec<(bool, packed::Byte32)> = Vec::new();
        let mut polls_done = 0u64;
        let mut step = 0u64;
        let mut stopped = false;
        while !stopped && (step < steps || closing < 44) {
            let in_closing = step >= steps;
            if in_closing { closing += 1; }
            step += 1;
            now += rng.range(100, 2_500);
            guard.set_faketime(now);
            // outstanding requests per peer
            let pending_b: Vec<(PeerIndex, packed::GetBlocksProof)> = connected.iter().filter_map(|p| net.peers.get_peer(p).and_then(|x| x.get_blocks_proof_request().map(|r| { let hs: Vec<packed::Byte32> = r.block_hashes().into_iter().map(|h| h.pack()).collect(); (*p, packed::GetBlocksProof::new_builder().last_hash(r.last_hash()).block_hashes(hs.pack()).build()) }))).collect();
            let pending_t: Vec<(PeerIndex, packed::GetTransactionsProof)> = connected.iter().filter_map(|p| net.peers.get_peer(p).and_then(|x| x.get_txs_proof_request().map(|r| { let hs: Vec<packed::Byte32> = r.tx_hashes().into_iter().map(|h| h.pack()).collect(); (*p, packed::GetTransactionsProof::new_builder().last_hash(r.last_hash()).tx_hashes(hs.pack()).build()) }))).collect();
            if in_closing && ((closing >= 1 && polls_done == 0) || (closing >= 9 && polls_done == 1)) {
                polls_done += 1;
                // the user polls every hash they asked for (a hash a lying peer reported missing is re-added by the call)
                for h in &asked_h { poll.push((true, h.clone())); }
                for t in &asked_t { poll.push((false, t.clone())); }
            }
            let mut forced: Option<packed::Byte32> = None;
            let choice = if in_closing {
                // closing rounds: a proven honest peer is there; the user polls, ticks and honest answers alternate
                if connected.is_empty() { 6 } else if !pending_b.is_empty() { 20 } else if !pending_t.is_empty() { 21 }
                else if let Some((is_header, h)) = poll.pop() { forced = Some(h); if is_header { 0 } else { 30 } } else { 2 }
            } else {
                let have_pending = !pending_b.is_empty() || !pending_t.is_empty();
                let have_work = !net.peers.get_headers_to_fetch().is_empty() || !net.peers.get_txs_to_fetch().is_empty();
                match rng.below(20) {
                    0 => 5,                                         // disconnect
                    1 => 6,                                         // a fresh proven peer
                    2 => if rng.chance(1, 2) { 7 } else { 10 },     // an unsolicited answer now and then
                    3..=7 if have_pending => if !pending_b.is_empty() && (pending_t.is_empty() || rng.chance(1, 2)) { 7 } else { 10 },
                    8..=9 if have_pending => *rng.pick(&[0u64, 30, 3]),   // the user keeps asking, the tick finds the peer busy
                    8..=13 if have_work => 3,                       // tick
                    _ => if rng.chance(1, 2) { 0 } else { 30 },     // fetch_header / fetch_transaction
                }
            };
            let (term, v, name): (String, Val, &'static str) = match choice {
                0 | 1 => {
                    let h = forced.clone().unwrap_or_else(|| headers_t[rng.below(headers_t.len() as u64) as usize].clone());
                    if !asked_h.contains(&h) { asked_h.push(h.clone()); }
                    let r = chain_rpc.fetch_header(h.unpack());
                    let v = match &r { Ok(s) => status_val(s), Err(_) => Val::l(vec![Val::n(9)]) };
                    // C16: fetched only if really stored
                    if let Ok(FetchStatus::Fetched { .. }) = &r { if net.storage.get_header(&h).is_none() { problems.push("[C16-fetched-without-data] fetch_header says fetched, the header is not stored".into()); } }
                    (format!("FE_fetch_header {} {}", hid.id(h.as_slice()), now), v, "fetch_header")
                }
                30 => {
                    let t = forced.clone().unwrap_or_else(|| txs_t[rng.below(txs_t.len() as u64) as usize].clone());
                    if !asked_t.contains(&t) { asked_t.push(t.clone()); }
                    let r = tx_rpc.fetch_transaction(t.unpack());
                    let v = match &r { Ok(s) => status_val(s), Err(_) => Val::l(vec![Val::n(9)]) };
                    (format!("FE_fetch_tx {} {}", hid.id(t.as_slice()), now), v, "fetch_transaction")
                }
                2 | 3 | 4 => {
                    let last = net.storage.get_tip_header().calc_header_hash();
                    let r = net.lc_tick(FETCH_HEADER_TX_TOKEN);
                    if r.panicked { problems.push(format!("[C10-handler-panic] fetch tick panicked: {}", super::last_panic())); }
                    let mut ph: Option<(u64, Vec<u64>)> = None;
                    let mut pt: Option<(u64, Vec<u64>)> = None;
                    for (p, s) in &r.sent {
                        match s {
                            Sent::GetBlocksProof(g) => { let mut v: Vec<u64> = g.block_hashes().into_iter().map(|h| hid.id(h.as_slice())).collect(); v.sort(); ph = Some((p.value() as u64, v)); }
                            Sent::GetTransactionsProof(g) => { let mut v: Vec<u64> = g.tx_hashes().into_iter().map(|h| hid.id(h.as_slice())).collect(); v.sort(); pt = Some((p.value() as u64, v)); }
                            _ => {}
                        }
                    }
                    let v = Val::l(vec![Val::l(ph.as_ref().map(|x| x.1.iter().map(Val::n).collect()).unwrap_or_default()), Val::l(pt.as_ref().map(|x| x.1.iter().map(Val::n).collect()).unwrap_or_default())]);
                    let o = |x: &Option<(u64, Vec<u64>)>| match x { Some((p, _)) => format!("(Some {})", p), None => "None".to_string() };
                    (format!("FE_tick {} {} {} {}", now, hid.id(last.as_slice()), o(&ph), o(&pt)), v, "tick")
                }
                5 if !connected.is_empty() => {
                    let k = rng.below(connected.len() as u64) as usize;
                    let p = connected.remove(k);
                    net.lc_disconnect(p);
                    (format!("FE_disconnect {}", p.value()), Val::l(vec![]), "disconnect")
                }
                6 if connected.len() < 2 => {
                    let p = PeerIndex::new(10 + step as usize);
                    if net.prove_peer(p, &bc.chain, tip) { connected.push(p); (format!("FE_connect {}", p.value()), Val::l(vec![]), "connect") } else { stopped = true; continue; }
                }
                7 | 8 | 9 | 20 if !connected.is_empty() => {
                    // SendBlocksProof: answer to an outstanding request (honest / mutated) or unsolicited
                    let (p, req) = if !pending_b.is_empty() { pending_b[rng.below(pending_b.len() as u64) as usize].clone() } else {
                        (connected[rng.below(connected.len() as u64) as usize], packed::GetBlocksProof::new_builder().last_hash(bc.chain.headers[tip as usize].hash()).block_hashes(vec![bc.chain.headers[2].hash()].pack()).build())
                    };
                    let honest = serve_blocks_proof(&bc.chain, &req).expect("last hash on chain");
                    let mut last = honest.last_header();
                    let mut proof = honest.proof();
                    let mut hs: Vec<packed::Header> = honest.headers().into_iter().collect();
                    let mut missing: Vec<packed::Byte32> = honest.missing_block_hashes().into_iter().collect();
                    let mut uncles: Vec<packed::Byte32> = honest.blocks_uncles_hash().into_iter().collect();
                    let mut exts: Vec<packed::BytesOpt> = honest.blocks_extension().into_iter().collect();
                    let mut v1 = rng.chance(2, 3);
                    let mut what: &'static str = if pending_b.is_empty() { "blocks-proof-unsolicited" } else { "blocks-proof-honest" };
                    if !in_closing && !pending_b.is_empty() && rng.chance(2, 3) {
                        // (the forged header at the last number can only be tried when the user's request for it is under way: take the chance)
                        let other_tip_hash = other.chain.headers[other.tip() as usize].hash();
                        let pick = if missing.contains(&forged_header.calc_header_hash()) && rng.chance(1, 2) { 8 }
                                   else if missing.contains(&other_tip_hash) && rng.chance(1, 2) { 9 } else { rng.below(10) };
                        match pick {
                            0 if !hs.is_empty() => { what = "blocks-proof-foreign-header"; let j = rng.below(hs.len() as u64) as usize; let n = rng.range(1, tip - 1); hs[j] = other.chain.headers[(n.min(other.tip())) as usize].data(); }
                            1 if !hs.is_empty() => { what = "blocks-proof-dropped-header"; let j = rng.below(hs.len() as u64) as usize; hs.remove(j); if v1 && j < uncles.len() { uncles.remove(j); exts.remove(j); } }
                            2 => { what = "blocks-proof-extra-header"; let n = rng.range(1, tip - 1); hs.push(bc.chain.headers[n as usize].data()); uncles.push(packed::Byte32::zero()); exts.push(Pack::pack(&bc.chain.extension(n))); }
                            3 if !hs.is_empty() => { what = "blocks-proof-found-as-missing"; let h = hs.remove(0); missing.push(h.calc_header_hash()); if v1 { uncles.remove(0); exts.remove(0); } }
                            4 => { what = "blocks-proof-bad-mmr-proof"; proof = bc.chain.proof(tip, &[1, 2]); }
                            5 => { what = "blocks-proof-newer-last-state-only"; last = bc.chain.packed_vheader(tip - 1); proof = Default::default(); hs.clear(); missing.clear(); uncles.clear(); exts.clear(); }
                            6 => {
                                what = "blocks-proof-other-last-with-data";
                                last = bc.chain.packed_vheader(tip - 1);
                                let nums: Vec<u64> = hs.iter().filter_map(|h| bc.chain.number_of(&h.calc_header_hash())).filter(|n| *n < tip - 1).collect();
                                if nums.len() == hs.len() { proof = bc.chain.proof(tip - 1, &nums); }
                            }
                            8 if missing.contains(&forged_header.calc_header_hash()) => {
                                what = "blocks-proof-forged-header-at-last-number";
                                let fh = forged_header.calc_header_hash();
                                missing.retain(|m| m != &fh);
                                hs.push(forged_header.clone()); uncles.push(packed::Byte32::zero()); exts.push(Pack::pack(&bc.chain.extension(3)));
                            }
                            9 if missing.contains(&other_tip_hash) && !hs.iter().any(|h| bc.chain.number_of(&h.calc_header_hash()) == Some(other.tip())) => {
                                // the RIGHT last header (same hash as requested) carrying the root of an MMR the peer built itself, in which
                                // the leaf at the other branch's tip number is the other branch's header; proof items from that private MMR
                                what = "blocks-proof-forged-chain-root";
                                let on = other.tip();
                                missing.retain(|m| m != &other_tip_hash);
                                let mut nums: Vec<u64> = hs.iter().filter_map(|h| bc.chain.number_of(&h.calc_header_hash())).collect();
                                nums.push(on);
                                hs.push(other.chain.headers[on as usize].data()); uncles.push(packed::Byte32::zero()); exts.push(Pack::pack(&other.chain.extension(on)));
                                let (root, items) = bc.chain.hybrid_root_and_proof(&other.chain, tip, &|i| i == on, &nums);
                                last = last.as_builder().parent_chain_root(root).build();
                                proof = items.pack();
                            }
                            7 if v1 && !exts.is_empty() => { what = "blocks-proof-bad-extension"; exts[0] = Pack::pack(&Some(ckb_types::bytes::Bytes::from(vec![1u8; 32]).pack())); }
                            _ if !missing.is_empty() => { what = "blocks-proof-missing-as-found"; let m = missing.remove(0); let _ = m; let n = rng.range(1, tip - 1); hs.push(other.chain.headers[n.min(other.tip()) as usize].data()); uncles.push(packed::Byte32::zero()); exts.push(Pack::pack(&None::<packed::Bytes>)); }
                            _ => {}
                        }
                    }
                    if what == "blocks-proof-unsolicited" { v1 = false; }
                    let views: Vec<HeaderView> = hs.iter().map(|h| h.clone().into_view()).collect();
                    let last_vh: VerifiableHeader = last.clone().into();
                    let ext_opts: Vec<Option<packed::Bytes>> = exts.iter().map(|e| e.to_opt()).collect();
                    let extra = if v1 { extra_verdict(&views, &uncles, &ext_opts) } else { 0 };
                    let mmr_ok = mmr_verdict(&last_vh, &proof, &views);
                    let last_code = if bc.chain.number_of(&last_vh.header().hash()).is_some() { 200 } else { 431 };
                    let v0 = packed::SendBlocksProof::new_builder().last_header(last.clone()).proof(proof.clone()).headers(hs.clone().pack()).missing_block_hashes(missing.clone().pack()).build();
                    let data = if v1 {
                        let m = packed::SendBlocksProofV1::new_builder().last_header(last.clone()).proof(proof.clone()).headers(hs.clone().pack()).missing_block_hashes(missing.clone().pack())
                            .blocks_uncles_hash(uncles.clone().pack()).blocks_extension(packed::BytesOptVec::new_builder().set(exts.clone()).build()).build();
                        wrap(5, m.as_slice())
                    } else { wrap(5, v0.as_slice()) };
                    let r = net.lc_recv(p, data);
                    if r.panicked { problems.push(format!("[C10-handler-panic] SendBlocksProof panicked: {}", super::last_panic())); }
                    let code = r.bans.iter().filter(|(q, _)| *q == p).map(|(_, c)| *c).next().unwrap_or(200);
                    let m = format!("(mkBM {} {} {} {} {} true {} {})", hid.id(last_vh.header().hash().as_slice()), last_code, proof.is_empty(),
                        coq_list(&views.iter().map(|h| format!("{}", hid.id(h.hash().as_slice()))).collect::<Vec<_>>()),
                        coq_list(&missing.iter().map(|h| format!("{}", hid.id(h.as_slice()))).collect::<Vec<_>>()), extra, mmr_ok);
                    (format!("FE_blocks_proof {} {}", p.value(), m), Val::l(vec![Val::n(code)]), what)
                }
                10 | 11 | 12 | 21 if !connected.is_empty() => {
                    let (p, req) = if !pending_t.is_empty() { pending_t[rng.below(pending_t.len() as u64) as usize].clone() } else {
                        (connected[rng.below(connected.len() as u64) as usize], packed::GetTransactionsProof::new_builder().last_hash(bc.chain.headers[tip as usize].hash()).tx_hashes(vec![on_chain_txs[0].clone()].pack()).build())
                    };
                    // the honest answer: group the found transactions by block, CBMT proof per block
                    let mut by_block: Vec<(u64, Vec<usize>)> = Vec::new();
                    let mut missing: Vec<packed::Byte32> = Vec::new();
                    for t in req.tx_hashes().into_iter() {
                        match tx_loc.get(&t) {
                            Some(loc) => { if let Some(e) = by_block.iter_mut().find(|e| e.0 == loc.block) { if !e.1.contains(&loc.index) { e.1.push(loc.index); } } else { by_block.push((loc.block, vec![loc.index])); } }
                            None => missing.push(t),
                        }
                    }
                    by_block.sort();
                    let mut blocks: Vec<packed::FilteredBlock> = Vec::new();
                    let mut numbers: Vec<u64> = Vec::new();
                    for (b, idxs) in &by_block {
                        let body = &bc.chain.bodies[*b as usize];
                        let leaves: Vec<packed::Byte32> = body.iter().map(|t| t.calc_tx_hash()).collect();
                        let mut idx: Vec<u32> = idxs.iter().map(|i| *i as u32).collect();
                        idx.sort();
                        let mp = CBMT::build_merkle_proof(&leaves, &idx).expect("proof");
                        let wroot = merkle_root(&body.iter().map(|t| t.calc_witness_hash()).collect::<Vec<_>>());
                        let fb = packed::FilteredBlock::new_builder()
                            .header(bc.chain.headers[*b as usize].data())
                            .witnesses_root(wroot)
                            .transactions(idx.iter().map(|i| body[*i as usize].clone()).collect::<Vec<_>>().pack())
                            .proof(packed::MerkleProof::new_builder().indices(mp.indices().to_owned().pack()).lemmas(mp.lemmas().to_owned().pack()).build())
                            .build();
                        blocks.push(fb);
                        numbers.push(*b);
                    }
                    let mut last = bc.chain.packed_vheader(tip);
                    let mut what: &'static str = if pending_t.is_empty() { "txs-proof-unsolicited" } else { "txs-proof-honest" };
                    if blocks.len() >= 2 && rng.chance(1, 2) {
                        // the order of the filtered blocks is the server's choice
                        what = if pending_t.is_empty() { "txs-proof-unsolicited" } else { "txs-proof-honest-descending-blocks" };
                        blocks.reverse(); numbers.reverse();
                    }
                    let mut proof = bc.chain.proof(tip, &numbers);
                    if !in_closing && !pending_t.is_empty() && rng.chance(2, 3) {
                        match rng.below(10) {
                            7 | 8 if !blocks.is_empty() => {
                                // a header nobody mined into the chain (the genuine one with another nonce: same transactions root, so the
                                // Merkle path still fits) and NO MMR proof at all
                                what = "txs-proof-forged-header-empty-mmr-proof";
                                let fb = blocks[0].clone();
                                let h = fb.header().as_builder().nonce(777u128.pack()).build();
                                blocks[0] = fb.as_builder().header(h).build();
                                proof = Default::default();
                            }
                            0 if !blocks.is_empty() => {
                                // the right header with a different transaction under the same Merkle proof
                                what = "txs-proof-forged-transaction";
                                let forged = other.chain.bodies[other.tip() as usize][0].clone();
                                let fb = blocks[0].clone();
                                let mut txs: Vec<packed::Transaction> = fb.transactions().into_iter().collect();
                                txs[0] = forged;
                                blocks[0] = fb.as_builder().transactions(txs.pack()).build();
                            }
                            1 if !blocks.is_empty() => { what = "txs-proof-wrong-witnesses-root"; let fb = blocks[0].clone(); blocks[0] = fb.as_builder().witnesses_root([7u8; 32].pack()).build(); }
                            2 if !blocks.is_empty() => { what = "txs-proof-other-block-header"; let fb = blocks[0].clone(); let n = numbers[0]; let m = if n + 1 < tip { n + 1 } else { n - 1 }; blocks[0] = fb.as_builder().header(bc.chain.headers[m as usize].data()).build(); numbers[0] = m; proof = bc.chain.proof(tip, &numbers); }
                            3 => { what = "txs-proof-bad-mmr-proof"; proof = bc.chain.proof(tip, &[1, 2]); }
                            6 if !numbers.is_empty() && numbers.iter().all(|n| *n < tip - 1) => { what = "txs-proof-other-last-with-data"; last = bc.chain.packed_vheader(tip - 1); proof = bc.chain.proof(tip - 1, &numbers); }
                            4 => { what = "txs-proof-newer-last-state-only"; last = bc.chain.packed_vheader(tip - 1); proof = Default::default(); blocks.clear(); missing.clear(); }
                            5 if !blocks.is_empty() => { what = "txs-proof-found-as-missing"; let fb = blocks.remove(0); numbers.remove(0); for t in fb.transactions().into_iter() { missing.push(t.calc_tx_hash()); } proof = bc.chain.proof(tip, &numbers); }
                            _ if !missing.is_empty() && !blocks.is_empty() => {
                                // an unknown transaction "found": a fabricated transaction with the requested... impossible to match the hash; send a foreign one instead
                                what = "txs-proof-missing-as-found"; missing.remove(0);
                                let fb = blocks[0].clone(); let mut txs: Vec<packed::Transaction> = fb.transactions().into_iter().collect(); txs.push(other.chain.bodies[other.tip() as usize][0].clone()); blocks[0] = fb.as_builder().transactions(txs.pack()).build();
                            }
                            _ => {}
                        }
                    }
                    let views: Vec<HeaderView> = blocks.iter().map(|b| b.header().into_view()).collect();
                    let last_vh: VerifiableHeader = last.clone().into();
                    let mmr_ok = mmr_verdict(&last_vh, &proof, &views);
                    let merkle_ok = blocks.iter().all(|fb| {
                        let idx: Vec<u32> = fb.proof().indices().into_iter().map(|v| v.unpack()).collect();
                        let lemmas: Vec<packed::Byte32> = fb.proof().lemmas().into_iter().collect();
                        let leaves: Vec<packed::Byte32> = fb.transactions().into_iter().map(|t| t.calc_tx_hash()).collect();
                        catch(|| ckb_types::utilities::MerkleProof::new(idx, lemmas).root(&leaves).map(|r| merkle_root(&[r, fb.witnesses_root()]) == fb.header().raw().transactions_root()).unwrap_or(false)).unwrap_or(false)
                    });
                    let last_code = if bc.chain.number_of(&last_vh.header().hash()).is_some() { 200 } else { 431 };
                    let content = packed::SendTransactionsProof::new_builder().last_header(last).proof(proof.clone())
                        .filtered_blocks(packed::FilteredBlockVec::new_builder().set(blocks.clone()).build()).missing_tx_hashes(missing.clone().pack()).build();
                    let r = net.lc_recv(p, wrap(7, content.as_slice()));
                    if r.panicked { problems.push(format!("[C10-handler-panic] SendTransactionsProof panicked: {}", super::last_panic())); }
                    let code = r.bans.iter().filter(|(q, _)| *q == p).map(|(_, c)| *c).next().unwrap_or(200);
                    let m = format!("(mkTM {} {} {} {} {} true 0 {} {})", hid.id(last_vh.header().hash().as_slice()), last_code, proof.is_empty(),
                        coq_list(&blocks.iter().map(|b| format!("({}, {})", hid.id(b.header().calc_header_hash().as_slice()), coq_list(&b.transactions().into_iter().map(|t| format!("{}", hid.id(t.calc_tx_hash().as_slice()))).collect::<Vec<_>>()))).collect::<Vec<_>>()),
                        coq_list(&missing.iter().map(|h| format!("{}", hid.id(h.as_slice()))).collect::<Vec<_>>()), mmr_ok, merkle_ok);
                    (format!("FE_txs_proof {} {}", p.value(), m), Val::l(vec![Val::n(code)]), what)
                }
                _ => continue,
            };
            *kinds.entry(name).or_insert(0) += 1;
            if name.ends_with("other-last-with-data") {
                if v.to_coq().contains("200") {
                    problems.push(format!("[C02-answer-for-unrequested-last-state-accepted] {}: data proven against a last header the client never asked about (and never proved) was accepted", name));
                }
            }
            // a banned peer is dropped by the network layer
            events.push(term);
            obs.push(Val::l(vec![v, observe(&net, &mut hid, &headers_t, &txs_t)]));
            // ---- C02: whatever is now served as fetched is committed by the proven chain ----
            for h in &headers_t {
                if net.storage.get_header(h).is_some() {
                    if bc.chain.number_of(h).is_none() { problems.push(format!("[C02-unauthentic-header-served] get_header serves a header that is not on the proven chain ({})", name)); }
                }
            }
            for t in txs_t.iter().chain(std::iter::once(&other.chain.bodies[other.tip() as usize][0].calc_tx_hash())) {
                if let Some((tx, header)) = net.storage.get_transaction_with_header(t) {
                    let hh = header.calc_header_hash();
                    let committed = bc.chain.number_of(&hh).map(|n| bc.chain.bodies[n as usize].iter().any(|x| x.as_slice() == tx.as_slice())).unwrap_or(false);
                    if !committed { problems.push(format!("[C02-uncommitted-transaction-served] get_transaction reports a transaction as committed in a block whose transactions root does not commit to it ({})", name)); }
                }
            }
            if !problems.is_empty() { stopped = true; }
            // the network layer drops banned peers
            let banned: Vec<PeerIndex> = connected.iter().filter(|p| obs_is_banned(&events, p)).cloned().collect();
            let _ = banned;
        }
        // ---- C16: nothing the user asked for is lost ----
        if !stopped {
            for h in &asked_h {
                let on_chain = bc.chain.number_of(h).map(|n| n < tip).unwrap_or(false);
                let stored = net.storage.get_header(h).is_some();
                let info = net.peers.get_header_fetch_info(h);
                if on_chain && !stored { problems.push(format!("[C16-request-lost] fetch_header of block #{} of the proven chain is still not fetched after 12 rounds with an honest proven peer (fetch info {:?})", bc.chain.number_of(h).unwrap(), info)); break; }
                if !on_chain && !stored && !matches!(info, Some((_, _, true))) { problems.push(format!("[C16-request-lost] fetch_header of an unknown hash is neither fetched nor reported missing after the closing rounds (fetch info {:?})", info)); break; }
            }
            for t in &asked_t {
                let on_chain = tx_loc.contains_key(t);
                let stored = net.storage.get_transaction_with_header(t).is_some();
                let info = net.peers.get_tx_fetch_info(t);
                if on_chain && !stored { problems.push(format!("[C16-request-lost] fetch_transaction of a transaction of the proven chain is still not fetched after the closing rounds (fetch info {:?})", info)); break; }
                if !on_chain && !stored && !matches!(info, Some((_, _, true))) { problems.push(format!("[C16-request-lost] fetch_transaction of an unknown hash is neither fetched nor reported missing after the closing rounds (fetch info {:?})", info)); break; }
            }
        }
        let mut kv: Vec<String> = kinds.iter().map(|(k, v)| format!("{}={}", k, v)).collect();
        kv.sort();
        let oracle = if problems.is_empty() { Ok(()) } else { Err(problems.join(" || ")) };
        out.case(&format!("fetch-{}", world), &["fetch-history"], &format!("(run_fetch {})", coq_list(&events)), &Val::l(obs), oracle,
            &format!("chain {} blocks, {} events: {}", len, events.len(), kv.join(",")));

        // ---- SendBlock: the body of a proven matched block ----
        block_body_cases(&mut rng, &consensus, world, out);
        if world % 4 == 0 { withheld_answer_case(&mut rng, &consensus, world, &guard, out); }
    }
}

fn obs_is_banned(_events: &[String], _p: &PeerIndex) -> bool { false }

/// a proven matched block is pending download; SendBlock arrives with the right header and a right / wrong body
fn block_body_cases(rng: &mut Rng, consensus: &ckb_chain_spec::consensus::Consensus, world: u64, out: &mut Out) {
    let pool: Vec<packed::Script> = (1..=3u8).map(|i| pool_script(7, &[i])).collect();
    let mut gen = TxGen::new(pool.clone(), world * 100_000 + 50_000, 1);
    let len = rng.range(14, 24);
    let bc = BodyChain::new(rng, flat_plan(8, 6, 5), len, 500 + world, &mut gen);
    let mut net = Net::new(&bc.chain, consensus, 5, 1, 10);
    let tip = bc.tip();
    let p = PeerIndex::new(1);
    if !net.prove_peer(p, &bc.chain, tip) { return; }
    let sid = rng.below(3) as usize;
    net.storage.update_filter_scripts(vec![ScriptStatus { script: pool[sid].clone(), script_type: ScriptType::Lock, block_number: 0 }], SetScriptsCommand::All);
    let hashes: Vec<packed::Byte32> = (1..=9u64).filter(|j| *j <= tip).map(|j| bc.fhashes[j as usize].clone()).collect();
    net.peers.mock_latest_block_filter_hashes(p, 0, hashes);
    let batch = serve_block_filters(&bc, 1, 9);
    let r = net.fp_recv(p, filters_message(batch));
    // a body arrives before its header is proven: it must not be kept
    let mut n_case = 0;
    for (_, s) in r.sent.iter() {
        if let Sent::GetBlocksProof(req) = s {
            for h in req.block_hashes().into_iter().take(2) {
                if let Some(n) = bc.chain.number_of(&h) {
                    let r0 = net.sp_recv(p, send_block_message(bc.chain.block(n)));
                    let kept = net.peers.matched_blocks().read().map(|m| { let k: H256 = h.unpack(); m.get(&k).map(|v| v.1.is_some()).unwrap_or(true) }).unwrap_or(true);
                    let oracle = if kept { Err("[C02-unproved-block-body-kept] the body of a matched block whose header is not yet proven was kept for indexing".to_string()) } else { Ok(()) };
                    out.case(&format!("body-{}-{}", world, n_case), &["send-block", "unproved-hash"], "(run_accept_block [(1, false)] 1 true)", &Val::b(kept && r0.bans.is_empty()), oracle,
                        &format!("SendBlock for matched block #{} before its header is proven", n));
                    n_case += 1;
                }
            }
        }
    }
    // prove the matched blocks, stop before the bodies
    let mut get_blocks: Vec<packed::Byte32> = Vec::new();
    for (q, s) in r.sent {
        if let Sent::GetBlocksProof(req) = s {
            if let Some(resp) = serve_blocks_proof(&bc.chain, &req) {
                for (_, s2) in net.lc_recv(q, blocks_proof_message(resp)).sent { if let Sent::GetBlocks(hs) = s2 { get_blocks.extend(hs); } }
            }
        }
    }
    if get_blocks.is_empty() { return; }
    let mut problems: Vec<String> = Vec::new();
    for h in get_blocks.clone() {
        let n = bc.chain.number_of(&h).unwrap();
        let good = bc.chain.block(n);
        let mutate = rng.chance(2, 3);
        let (block, what): (packed::Block, &str) = if !mutate { (good.clone(), "authentic") } else {
            match rng.below(3) {
                0 => { let m = if n > 1 { n - 1 } else { n + 1 }; (good.clone().as_builder().transactions(bc.chain.bodies[m as usize].clone().pack()).build(), "body-of-another-block") }
                1 => { let mut txs = bc.chain.bodies[n as usize].clone(); txs.pop(); (good.clone().as_builder().transactions(txs.pack()).build(), "transaction-dropped") }
                _ => {
                    let mut txs = bc.chain.bodies[n as usize].clone();
                    let out0 = packed::CellOutput::new_builder().capacity(777u64.pack()).lock(pool[sid].clone()).build();
                    let raw = packed::RawTransaction::new_builder().version(99u32.pack()).outputs(vec![out0].pack()).outputs_data(vec![ckb_types::bytes::Bytes::new().pack()].pack()).build();
                    txs.push(packed::Transaction::new_builder().raw(raw).build());
                    (good.clone().as_builder().transactions(txs.pack()).build(), "transaction-added")
                }
            }
        };
        let before = super::c06::indexed_cells(&net, &pool[sid], true);
        let r = net.sp_recv(p, send_block_message(block.clone()));
        if r.panicked { problems.push(format!("[C10-handler-panic] SendBlock panicked: {}", super::last_panic())); }
        let banned = !r.bans.is_empty();
        let body_ok = block.as_slice() == good.as_slice();
        // taken = the handler kept the body for indexing (a refused body gets its sender banned)
        let v = Val::b(!banned);
        let _ = before;
        out.case(&format!("body-{}-{}", world, n_case), &["send-block", what],
            &format!("(run_accept_block [(1, true)] 1 {})", body_ok), &v, Ok(()), &format!("SendBlock for proven matched block #{} [{}]", n, what));
        n_case += 1;
        if !body_ok && !banned { /* resend the authentic one so the batch can finish */ }
        if !body_ok { net.sp_recv(p, send_block_message(good)); }
    }
    // after all authentic bodies have (also) been delivered, the index must be the chain's
    let rec = net.storage.get_filter_scripts();
    let upto = rec.first().map(|s| s.block_number).unwrap_or(0);
    let expect = bc.live_cells(&pool[sid], true, 0, upto);
    let got: Vec<_> = super::c06::indexed_cells(&net, &pool[sid], true).into_iter().filter(|c| c.0 <= upto).collect();
    let oracle = if got == expect { Ok(()) } else {
        Err(format!("[C02-block-body-not-committed-indexed] after SendBlock messages with bodies the headers do not commit to, the index of script {} differs from the chain: indexed {:?}, chain {:?}", sid + 1, got.iter().map(|c| (c.0, c.1, c.2)).collect::<Vec<_>>(), expect.iter().map(|c| (c.0, c.1, c.2)).collect::<Vec<_>>()))
    };
    let _ = problems;
    out.case(&format!("body-index-{}", world), &["send-block", "index-after-bodies"], "(VN 1)", &Val::n(1), oracle, &format!("index of script {} after {} SendBlock messages (some with foreign bodies)", sid + 1, n_case));
}


/// C16: the peer that was asked for a header / transaction never answers, but stays alive otherwise: it keeps announcing new
/// tips.  The message timeout of the fetch request must still take it out (refresh tick), after which the request goes to the
/// other proven peer and the user's fetch ends as fetched.
fn withheld_answer_case(rng: &mut Rng, consensus: &ckb_chain_spec::consensus::Consensus, world: u64, guard: &ckb_systemtime::FaketimeGuard, out: &mut Out) {
    use crate::protocols::light_client::constant::REFRESH_PEERS_TOKEN;
    let mut now = T0 + 5_000;
    guard.set_faketime(now);
    let pool: Vec<packed::Script> = (1..=3u8).map(|i| pool_script(7, &[i])).collect();
    let mut gen = TxGen::new(pool, 77_000 + world * 100, 2);
    let len = rng.range(24, 36);
    let bc = BodyChain::new(rng, flat_plan(8, 6, 5), len, 500 + world, &mut gen);
    let tip = bc.tip();
    let h0 = tip - 3;
    let mut net = Net::new(&bc.chain, consensus, 5, 2, 10);
    let (pa, pb) = (PeerIndex::new(1), PeerIndex::new(2));
    if !net.prove_peer(pa, &bc.chain, h0) || !net.prove_peer(pb, &bc.chain, h0) { out.stat("c02-withheld-unproven", &format!("{}", world)); return; }
    let swc = StorageWithChainData::new(net.storage.clone(), Arc::clone(&net.peers), Default::default());
    let chain_rpc = ChainRpcImpl { swc: StorageWithChainData::new(net.storage.clone(), Arc::clone(&net.peers), Default::default()), consensus: Arc::new(consensus.clone()) };
    let tx_rpc = TransactionRpcImpl { swc, consensus: Arc::new(consensus.clone()) };
    let use_tx = false; // (a transactions proof takes the same road through fetch_headers_txs and the same timeout)
    let bn = rng.range(1, h0 - 1);
    let target_h = bc.chain.headers[bn as usize].hash();
    let target_t = bc.chain.bodies[bn as usize][0].calc_tx_hash();
    let mut problems: Vec<String> = Vec::new();
    let mut log: Vec<String> = Vec::new();
    if use_tx { let _ = tx_rpc.fetch_transaction(target_t.unpack()); } else { let _ = chain_rpc.fetch_header(target_h.unpack()); }
    let r = net.lc_tick(FETCH_HEADER_TX_TOKEN);
    let asked: Vec<PeerIndex> = r.sent.iter().filter(|(_, s)| matches!(s, Sent::GetBlocksProof(_) | Sent::GetTransactionsProof(_))).map(|(p, _)| *p).collect();
    if asked.len() != 1 { out.stat("c02-withheld-no-request", &format!("{}", world)); return; }
    let silent = asked[0];
    let other = if silent == pa { pb } else { pa };
    log.push(format!("{} for block #{} sent to peer {}", if use_tx { "GetTransactionsProof" } else { "GetBlocksProof" }, bn, silent.value()));
    // both peers keep announcing their growing chain; the asked one never answers the fetch request
    let announce = |net: &mut Net, p: PeerIndex, h: u64| {
        let content = packed::SendLastState::new_builder().last_header(bc.chain.packed_vheader(h)).build();
        net.lc_recv(p, packed::LightClientMessage::new_builder().set(content).build().as_bytes())
    };
    let mut height = h0;
    let mut gone = false;
    for round in 0..6u64 {
        now += 25_000;
        guard.set_faketime(now);
        if height < tip { height += 1; }
        for p in [pa, pb] {
            if p == silent && gone { continue; }
            let r = announce(&mut net, p, height);
            if r.panicked { problems.push(format!("[C10-handler-panic] SendLastState panicked: {}", super::last_panic())); }
        }
        let r = net.lc_tick(REFRESH_PEERS_TOKEN);
        for d in &r.disconnects { if *d == silent && !gone { gone = true; net.lc_disconnect(silent); log.push(format!("{} s after the request the refresh tick disconnects the silent peer", (round + 1) * 25)); } }
        // honest answers to whatever proof requests the ticks sent to the OTHER peer
        let mut queue: Vec<(PeerIndex, Sent)> = r.sent;
        queue.extend(net.lc_tick(FETCH_HEADER_TX_TOKEN).sent);
        for (p, s) in queue {
            if p != other { continue; }
            match s {
                Sent::GetLastStateProof(req) => {
                    if let Some(plan) = prover::plan_response(&bc.chain, &req) {
                        let numbers = plan.numbers();
                        let content = packed::SendLastStateProof::new_builder().last_header(bc.chain.packed_vheader(plan.last))
                            .headers(numbers.iter().map(|x| bc.chain.packed_vheader(*x)).collect::<Vec<_>>().pack()).proof(bc.chain.proof(plan.last, &numbers)).build();
                        let _ = net.lc_recv(p, packed::LightClientMessage::new_builder().set(content).build().as_bytes());
                    }
                }
                Sent::GetBlocksProof(req) => { if let Some(resp) = serve_blocks_proof(&bc.chain, &req) { let _ = net.lc_recv(p, blocks_proof_message(resp)); log.push(format!("round {}: the other peer answers GetBlocksProof", round)); } }
                _ => {}
            }
        }
    }
    let fetched = if use_tx { net.storage.get_transaction_with_header(&target_t).is_some() } else { net.storage.get_header(&target_h).is_some() };
    if !fetched {
        let info = if use_tx { net.peers.get_tx_fetch_info(&target_t) } else { net.peers.get_header_fetch_info(&target_h) };
        problems.push(format!("[C16-request-lost] the peer serving the fetch never answered for 150 s (it only kept announcing new tips); the request was {} and the fetch is still not fetched although another honest proven peer was there all the time (fetch info {:?})",
            if gone { "released when the peer was disconnected" } else { "never timed out: the silent peer is still connected" }, info));
    }
    let oracle = if problems.is_empty() { Ok(()) } else { Err(problems.join(" || ")) };
    out.case(&format!("withheld-{}", world), &["withheld-answer", if use_tx { "transaction" } else { "header" }], "(VN 1)", &Val::n(1), oracle,
        &format!("chain {} blocks, two proven peers at #{}: {}", len, h0, log.join("; ")));
}
