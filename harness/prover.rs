//! The server side of RFC 44 (GetLastStateProof), re-implemented for the harness: no
//! light-client server crate is available offline.  Rules (see DESIGN section 4):
//!  - start block on the server's chain  => no reorg section; otherwise the last-N blocks
//!    before the start number (never the genesis block);
//!  - at most last-N blocks between start and last => all of [start, last), no samples;
//!  - otherwise: last-N section = blocks from the difficulty boundary (at least last-N of them),
//!    samples = for every requested difficulty below the last-N section the first block whose
//!    total difficulty reaches it.
use ckb_types::{packed, prelude::*, U256};

use super::chain::SynChain;

pub(crate) struct Response {
    pub last: u64,
    pub reorg: Vec<u64>,
    pub sampled: Vec<u64>,
    pub last_n: Vec<u64>,
}

impl Response {
    pub(crate) fn numbers(&self) -> Vec<u64> {
        let mut v = self.reorg.clone();
        v.extend(&self.sampled);
        v.extend(&self.last_n);
        v
    }
}

pub(crate) fn plan_response(chain: &SynChain, req: &packed::GetLastStateProof) -> Option<Response> {
    let last_hash = req.last_hash();
    let last = chain.number_of(&last_hash)?;
    let start_number: u64 = req.start_number().unpack();
    let last_n: u64 = req.last_n_blocks().unpack();
    let boundary: U256 = req.difficulty_boundary().unpack();
    let difficulties: Vec<U256> = req.difficulties().into_iter().map(|d| d.unpack()).collect();
    if start_number >= last {
        return None;
    }
    let reorg: Vec<u64> = if start_number == 0 || chain.on_chain(start_number, &req.start_hash()) {
        Vec::new()
    } else {
        let first = start_number.saturating_sub(last_n).max(1);
        (first..start_number).collect()
    };
    let (sampled, last_n_numbers) = if last - start_number <= last_n {
        (Vec::new(), (start_number..last).collect::<Vec<_>>())
    } else {
        // first block in [start, last) whose total difficulty is not less than the boundary
        let mut b = (start_number..last).find(|n| chain.tds[*n as usize] >= boundary).unwrap_or(last - last_n);
        if last - b < last_n {
            b = last - last_n;
        }
        let last_n_numbers: Vec<u64> = (b..last).collect();
        let mut sampled: Vec<u64> = Vec::new();
        if b > 0 {
            let limit = &chain.tds[b as usize - 1];
            for d in difficulties.iter().take_while(|d| *d <= limit) {
                if let Some(n) = (start_number..b).find(|n| &chain.tds[*n as usize] >= d) {
                    if sampled.last() != Some(&n) {
                        sampled.push(n);
                    }
                }
            }
        }
        (sampled, last_n_numbers)
    };
    Some(Response { last, reorg, sampled, last_n: last_n_numbers })
}

pub(crate) fn build_message(chain: &SynChain, last: u64, numbers: &[u64]) -> packed::SendLastStateProof {
    let headers: Vec<packed::VerifiableHeader> = numbers.iter().map(|n| chain.packed_vheader(*n)).collect();
    packed::SendLastStateProof::new_builder()
        .last_header(chain.packed_vheader(last))
        .proof(chain.proof(last, numbers))
        .headers(packed::VerifiableHeaderVec::new_builder().set(headers).build())
        .build()
}

pub(crate) fn respond(chain: &SynChain, req: &packed::GetLastStateProof) -> Option<packed::SendLastStateProof> {
    let r = plan_response(chain, req)?;
    Some(build_message(chain, r.last, &r.numbers()))
}

pub(crate) fn last_state_message(chain: &SynChain, number: u64) -> packed::LightClientMessage {
    let content = packed::SendLastState::new_builder().last_header(chain.packed_vheader(number)).build();
    packed::LightClientMessage::new_builder().set(content).build()
}
