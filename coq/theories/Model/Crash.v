(* C08: the order and grouping of the database writes of the sync operations, and what a crash between two
   of them leaves behind.  A write is one atomic RocksDB operation (put / delete / WriteBatch commit); an
   operation is the list of its writes in program order; a crash leaves the store after some prefix.

   The abstract store keeps what decides whether script activity can be lost: each script's recorded number,
   the filter progress, the pending matched records and the set of blocks already indexed.
   Operations (after the repairs 823c417 18ab572 dfad7d8 e38bc25 00a37b0):
     filter batch, matching      : [record + progress]                    ; [progress]   (second put, same value)
     filter batch, nothing matches: [raise script numbers] (if nothing is pending in memory) ; [progress]
     block download completes     : [index b1] ... [index bn] ; [raise script numbers] ; [remove record]
     set_scripts                  : [scripts + progress + all records removed] ; [genesis block]  *)
From LC Require Export U.
From Coq Require Export List Bool.
Export ListNotations.
Open Scope N_scope.
Open Scope bool_scope.

Definition hasB (x : N) (l : list N) : bool := existsb (N.eqb x) l.

Record cstate := mkCS {
  cs_scripts : list (N * N);              (* (script, recorded block number) *)
  cs_min : N;                             (* min filtered block number *)
  cs_records : list (N * N * list N);     (* pending: (start, count, numbers of the matched blocks) *)
  cs_indexed : list N                     (* blocks whose activity for registered scripts has been indexed *)
}.

Inductive cwrite :=
| CW_record_and_min (start count : N) (ms : list N) (m : N)
| CW_bump (n : N)
| CW_min (n : N)
| CW_index (b : N) (touches : bool)       (* filter_block: one batch per block; nothing visible if no registered script is touched *)
| CW_remove_record (start : N)
| CW_set_scripts (scripts : list (N * N)) (m : option N).

Definition bump (n : N) (l : list (N * N)) : list (N * N) := map (fun s => (fst s, if snd s <? n then n else snd s)) l.

Definition apply_write (st : cstate) (w : cwrite) : cstate :=
  match w with
  | CW_record_and_min start count ms m =>
      mkCS (cs_scripts st) m (filter (fun r => negb (fst (fst r) =? start)) (cs_records st) ++ [(start, count, ms)]) (cs_indexed st)
  | CW_bump n => mkCS (bump n (cs_scripts st)) (cs_min st) (cs_records st) (cs_indexed st)
  | CW_min n => mkCS (cs_scripts st) n (cs_records st) (cs_indexed st)
  | CW_index b t => mkCS (cs_scripts st) (cs_min st) (cs_records st) (if t && negb (hasB b (cs_indexed st)) then b :: cs_indexed st else cs_indexed st)
  | CW_remove_record start => mkCS (cs_scripts st) (cs_min st) (filter (fun r => negb (fst (fst r) =? start)) (cs_records st)) (cs_indexed st)
  | CW_set_scripts l m => mkCS l (match m with Some n => n | None => cs_min st end) [] (cs_indexed st)
  end.

(* the store after each prefix of the writes: what a crash can leave behind, the crash-free outcome last *)
Fixpoint prefix_states (st : cstate) (ws : list cwrite) : list cstate :=
  match ws with
  | [] => [st]
  | w :: tl => st :: prefix_states (apply_write st w) tl
  end.

Definition batch_writes (mem_empty : bool) (start count : N) (ms : list N) : list cwrite :=
  let e := start + count - 1 in
  match ms with
  | [] => (if mem_empty then [CW_bump e] else []) ++ [CW_min e]
  | _ => [CW_record_and_min start count ms e; CW_min e]
  end.

Definition complete_writes (start count : N) (ms : list (N * bool)) : list cwrite :=
  map (fun b => CW_index (fst b) (snd b)) ms ++ [CW_bump (start + count - 1); CW_remove_record start].

Definition set_scripts_writes (l : list (N * N)) (m : option N) (genesis : bool) : list cwrite :=
  CW_set_scripts l m :: (if genesis then [CW_index 0 false] else []).

(* the order before commit dfad7d8: the record went first *)
Definition complete_writes_old (start count : N) (ms : list (N * bool)) : list cwrite :=
  CW_remove_record start :: map (fun b => CW_index (fst b) (snd b)) ms ++ [CW_bump (start + count - 1)].
