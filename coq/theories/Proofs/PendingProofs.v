(* Lemmas about Model/Pending.v (C18). *)
From Coq Require Import NArith Lia List Bool Arith.
From LC Require Import Pending.
Import ListNotations.
Open Scope N_scope.
Open Scope bool_scope.

Definition in_pool (l : pool) (h : N) : Prop := exists e, In e l /\ pe_hash e = h.
Definition announced (l : pool) (p h : N) : Prop := exists e, In e l /\ pe_hash e = h /\ In p (pe_peers e).
Definition distinct (l : pool) : Prop := NoDup (map pe_hash l).

Lemma hasN_In x l : hasN x l = true <-> In x l.
Proof.
  unfold hasN. rewrite existsb_exists. split.
  - intros (y & Hy & E). apply N.eqb_eq in E. subst. exact Hy.
  - intros H. exists x. split; [exact H | apply N.eqb_refl].
Qed.

Lemma p_remove_in h l e : In e (p_remove h l) <-> In e l /\ pe_hash e <> h.
Proof.
  unfold p_remove. rewrite filter_In. split; intros [H1 H2]; split; auto.
  - apply negb_true_iff in H2. apply N.eqb_neq in H2. exact H2.
  - apply negb_true_iff. apply N.eqb_neq. exact H2.
Qed.

Lemma p_remove_length h l : (length (p_remove h l) <= length l)%nat.
Proof. unfold p_remove. induction l as [|a l IH]; cbn [filter length]; [lia|]. destruct (negb _); cbn [length]; lia. Qed.

Lemma p_find_some h l e : p_find h l = Some e -> In e l /\ pe_hash e = h.
Proof.
  induction l as [|a l IH]; [discriminate|]. cbn [p_find]. destruct (N.eqb_spec (pe_hash a) h) as [E|E].
  - intros H; inversion H; subst. split; [left; reflexivity | reflexivity].
  - intros H. destruct (IH H). split; [right|]; assumption.
Qed.

Lemma p_find_none h l : p_find h l = None -> forall e, In e l -> pe_hash e <> h.
Proof.
  induction l as [|a l IH]; [intros _ e []|]. cbn [p_find]. destruct (N.eqb_spec (pe_hash a) h) as [E|E]; [discriminate|].
  intros H e [->|He]; [exact E | exact (IH H e He)].
Qed.

Lemma p_find_distinct h l e : distinct l -> In e l -> pe_hash e = h -> p_find h l = Some e.
Proof.
  induction l as [|a l IH]; [intros _ []|]. unfold distinct. cbn [map p_find]. intros ND Hin E. inversion ND as [|? ? Hn ND']; subst.
  destruct (N.eqb_spec (pe_hash a) (pe_hash e)) as [K|K].
  - destruct Hin as [->|Hin]; [reflexivity|]. exfalso. apply Hn. rewrite K. apply in_map. exact Hin.
  - destruct Hin as [->|Hin]; [contradiction | apply IH; auto].
Qed.

(* ---- size ---- *)
Lemma push_length limit h c l : (length l <= limit)%nat -> (length (push limit h c l) <= limit)%nat.
Proof.
  intros H. unfold push. set (l1 := p_remove h l ++ _).
  assert (L1 : (length l1 <= S limit)%nat) by (unfold l1; rewrite app_length; cbn [length]; pose proof (p_remove_length h l); lia).
  destruct (Nat.ltb_spec limit (length l1)); [|lia]. destruct l1; cbn [tl length] in *; lia.
Qed.

Lemma pstep_length limit l e : (length l <= limit)%nat -> (length (fst (pstep limit l e)) <= limit)%nat.
Proof.
  intros H. destruct e as [h v|p|hs|p]; cbn [pstep fst].
  - destruct v; cbn [send]; [apply push_length; exact H | exact H].
  - unfold broadcast. cbn [fst]. rewrite map_length. exact H.
  - exact H.
  - exact H.
Qed.

Theorem pool_bounded limit evs : forall l, (length l <= limit)%nat -> (length (pfinal limit l evs) <= limit)%nat.
Proof. induction evs as [|e tl IH]; intros l H; [exact H|]. cbn [pfinal]. apply IH. apply pstep_length. exact H. Qed.

(* the oldest entry goes first: a new hash pushed into a full pool drops exactly the head *)
Lemma push_evicts_oldest limit h c e0 l :
  p_find h (e0 :: l) = None -> length (e0 :: l) = limit ->
  push limit h c (e0 :: l) = l ++ [mkPE h c []].
Proof.
  intros Hn Hl. unfold push. rewrite Hn.
  assert (R : p_remove h (e0 :: l) = e0 :: l).
  { unfold p_remove. pose proof (p_find_none _ _ Hn) as Hall. clear Hn Hl. induction (e0 :: l) as [|a tl0 IHl]; [reflexivity|]. cbn [filter].
    destruct (N.eqb_spec (pe_hash a) h) as [K|K]; [exfalso; exact (Hall a (or_introl eq_refl) K)|]. cbn [negb]. f_equal. apply IHl. intros e He. apply Hall. right. exact He. }
  rewrite R. cbn [app]. replace (Nat.ltb limit (length (e0 :: l ++ [mkPE h c []]))) with true; [reflexivity|].
  symmetry. apply Nat.ltb_lt. cbn [length] in *. rewrite app_length. cbn [length]. lia.
Qed.

(* a rejected submission leaves the pool alone *)
Lemma send_rejected limit h l : send limit None h l = l.
Proof. reflexivity. Qed.

(* ---- distinct hashes ---- *)
Lemma distinct_remove h l : distinct l -> distinct (p_remove h l).
Proof.
  unfold distinct, p_remove. induction l as [|a l IH]; [auto|]. cbn [map filter]. intros ND. inversion ND as [|? ? Hn ND']; subst.
  destruct (negb _); [|apply IH; exact ND']. cbn [map]. constructor; [|apply IH; exact ND'].
  intros Hin. apply Hn. apply in_map_iff in Hin. destruct Hin as (x & E & Hx). apply filter_In in Hx. apply in_map_iff. exists x. tauto.
Qed.

Lemma distinct_snoc l e : distinct l -> (forall x, In x l -> pe_hash x <> pe_hash e) -> distinct (l ++ [e]).
Proof.
  unfold distinct. induction l as [|a l IH]; intros ND Hn; [cbn; constructor; [intros []|constructor]|].
  cbn [app map]. inversion ND as [|? ? Ha ND']; subst. constructor.
  - rewrite map_app. intros Hin. apply in_app_or in Hin. destruct Hin as [Hin|[E|[]]]; [contradiction|]. apply (Hn a); [left; reflexivity | symmetry; exact E].
  - apply IH; [exact ND' | intros x Hx; apply Hn; right; exact Hx].
Qed.

Lemma distinct_tl l : distinct l -> distinct (tl l).
Proof. unfold distinct. destruct l; [auto|]. cbn [tl map]. intros ND. inversion ND; assumption. Qed.

Lemma push_distinct limit h c l : distinct l -> distinct (push limit h c l).
Proof.
  intros D. unfold push. set (e := mkPE h c _).
  assert (D1 : distinct (p_remove h l ++ [e])).
  { apply distinct_snoc; [apply distinct_remove; exact D|]. intros x Hx. apply p_remove_in in Hx. exact (proj2 Hx). }
  destruct (Nat.ltb _ _); [apply distinct_tl; exact D1 | exact D1].
Qed.

Lemma broadcast_hashes p l : map pe_hash (snd (broadcast p l)) = map pe_hash l.
Proof. unfold broadcast. cbn [snd]. rewrite map_map. apply map_ext. intros e. destruct (hasN p (pe_peers e)); reflexivity. Qed.

Lemma pstep_distinct limit l e : distinct l -> distinct (fst (pstep limit l e)).
Proof.
  intros D. destruct e as [h v|p|hs|p]; cbn [pstep fst].
  - destruct v; cbn [send]; [apply push_distinct; exact D | exact D].
  - unfold distinct. change (fst (let '(hs, l') := broadcast p l in (l', map (fun h => (p, h)) hs))) with (snd (broadcast p l)).
    rewrite broadcast_hashes. exact D.
  - exact D.
  - exact D.
Qed.

(* ---- announcements ---- *)
(* only pool members not yet announced to the peer are announced *)
Lemma broadcast_only_unannounced p l h :
  distinct l -> In h (fst (broadcast p l)) -> in_pool l h /\ ~ announced l p h.
Proof.
  intros D H. unfold broadcast in H. cbn [fst] in H. apply in_map_iff in H. destruct H as (e & E & He). apply filter_In in He.
  destruct He as [Hin Hn]. apply negb_true_iff in Hn. split; [exists e; auto|].
  intros (e' & Hin' & E' & Hp). assert (e' = e).
  { rewrite <- E in E'. pose proof (p_find_distinct _ _ _ D Hin' eq_refl) as F1. pose proof (p_find_distinct _ _ _ D Hin (eq_sym E')) as F2.
    rewrite E' in F2. congruence. }
  subst e'. apply hasN_In in Hp. congruence.
Qed.

(* afterwards the peer is remembered for every pool member *)
Lemma broadcast_marks_all p l h : in_pool l h -> announced (snd (broadcast p l)) p h.
Proof.
  intros (e & Hin & E). unfold broadcast. cbn [snd]. destruct (hasN p (pe_peers e)) eqn:Hp.
  - exists e. split; [apply in_map_iff; exists e; rewrite Hp; auto|]. split; [exact E | apply hasN_In; exact Hp].
  - exists (mkPE (pe_hash e) (pe_cycles e) (p :: pe_peers e)). split; [apply in_map_iff; exists e; rewrite Hp; auto|].
    split; [exact E | left; reflexivity].
Qed.

Lemma broadcast_keeps_announced q l p h : announced l p h -> announced (snd (broadcast q l)) p h.
Proof.
  intros (e & Hin & E & Hp). unfold broadcast. cbn [snd]. destruct (hasN q (pe_peers e)) eqn:Hq.
  - exists e. split; [apply in_map_iff; exists e; rewrite Hq; auto | auto].
  - exists (mkPE (pe_hash e) (pe_cycles e) (q :: pe_peers e)). split; [apply in_map_iff; exists e; rewrite Hq; auto|].
    split; [exact E | right; exact Hp].
Qed.

(* a submission never forgets an announcement of a transaction that stays in the pool — including the re-submitted one *)
Lemma push_keeps_announced limit h c l p k :
  distinct l -> announced l p k -> in_pool (push limit h c l) k -> announced (push limit h c l) p k.
Proof.
  intros D (e & Hin & E & Hp) (e2 & Hin2 & E2). unfold push in *.
  set (kept := match p_find h l with Some e0 => pe_peers e0 | None => [] end) in *.
  set (l1 := p_remove h l ++ [mkPE h c kept]) in *.
  assert (A1 : exists x, In x l1 /\ pe_hash x = k /\ In p (pe_peers x)).
  { destruct (N.eq_dec k h) as [K|K].
    - exists (mkPE h c kept). split; [unfold l1; apply in_or_app; right; left; reflexivity|]. split; [cbn [pe_hash]; congruence|].
      cbn [pe_peers]. unfold kept. rewrite (p_find_distinct _ _ _ D Hin (eq_trans E K)). exact Hp.
    - exists e. split; [unfold l1; apply in_or_app; left; apply p_remove_in; split; [exact Hin | congruence]|]. auto. }
  destruct (Nat.ltb limit (length l1)); [|exact A1].
  (* the head was evicted: k is still in the pool, so it was not the head *)
  assert (D1 : distinct l1).
  { unfold l1. apply distinct_snoc; [apply distinct_remove; exact D|]. intros x Hx. apply p_remove_in in Hx. exact (proj2 Hx). }
  destruct A1 as (x & Hx & Ex & Hpx). destruct l1 as [|a tl1]; [destruct Hx|]. cbn [tl] in *.
  destruct Hx as [->|Hx]; [|exists x; auto].
  exfalso. unfold distinct in D1. cbn [map] in D1. inversion D1 as [|? ? Hn _]; subst. apply Hn. rewrite Ex, <- E2. apply in_map. exact Hin2.
Qed.

Theorem pstep_keeps_announced limit l e p k :
  distinct l -> announced l p k -> in_pool (fst (pstep limit l e)) k -> announced (fst (pstep limit l e)) p k.
Proof.
  intros D A I. destruct e as [h v|q|hs|q]; cbn [pstep fst] in *.
  - destruct v; cbn [send] in *; [apply push_keeps_announced; assumption | exact A].
  - change (fst (let '(hs, l') := broadcast q l in (l', map (fun h => (q, h)) hs))) with (snd (broadcast q l)).
    apply broadcast_keeps_announced. exact A.
  - exact A.
  - exact A.
Qed.

(* what a step announces was in the pool and had not been announced to that peer *)
Theorem pstep_announces_fresh limit l e p h :
  distinct l -> In (p, h) (snd (pstep limit l e)) -> in_pool l h /\ ~ announced l p h /\ announced (fst (pstep limit l e)) p h.
Proof.
  intros D H. destruct e as [h0 v|q|hs|q']; cbn [pstep snd] in H; try destruct H.
  destruct (broadcast q l) as [hs l'] eqn:B. cbn [snd fst] in *. apply in_map_iff in H. destruct H as (x & E & Hx). inversion E; subst.
  assert (Hx' : In h (fst (broadcast p l))) by (rewrite B; exact Hx).
  destruct (broadcast_only_unannounced _ _ _ D Hx') as [I N]. split; [exact I|]. split; [exact N|].
  replace l' with (snd (broadcast p l)) by (rewrite B; reflexivity). apply broadcast_marks_all. exact I.
Qed.

(* nothing is ever announced that was not admitted *)
Lemma push_in_pool limit h c l k : in_pool (push limit h c l) k -> k = h \/ in_pool l k.
Proof.
  unfold push. set (l1 := p_remove h l ++ _). intros (e & Hin & E).
  assert (Hin1 : In e l1) by (destruct (Nat.ltb _ _); [destruct l1; [destruct Hin | right; exact Hin] | exact Hin]).
  unfold l1 in Hin1. apply in_app_or in Hin1. destruct Hin1 as [H|[H|[]]].
  - right. apply p_remove_in in H. exists e. tauto.
  - left. subst e. cbn in E. congruence.
Qed.
