//! C03 / C04 / C09: the script and cell index at storage level.  Histories of
//! set_scripts / filter_block / update_block_number / rollback_to_block (+ fork) / add_fetched_tx on a real
//! RocksDB, each step's full dump compared with Model/Store.v; ground-truth UTXO oracle.
use std::collections::{BTreeMap, HashMap};

use ckb_types::{bytes::Bytes, core::ScriptHashType, packed, prelude::*};
use rocksdb::{ops::Iterate, IteratorMode};

use super::chain::{flat_plan, SynChain};
use super::out::{catch, coq_list, Out, Val};
use super::prng::Rng;
use crate::storage::{extract_raw_data, HeaderWithExtension, ScriptStatus, ScriptType, SetScriptsCommand, Storage};
use crate::tests::utils::new_storage;

#[derive(Clone)]
struct GOut { lock: usize, ty: Option<usize> }
#[derive(Clone)]
struct GTx { id: u64, hash: packed::Byte32, packed: packed::Transaction, inputs: Vec<(u64, u32)>, outputs: Vec<GOut> }
#[derive(Clone)]
struct GBlock { number: u64, txs: Vec<GTx>, packed: packed::Block }

struct World {
    storage: Storage,
    pool: Vec<packed::Script>,
    raw_to_sid: HashMap<Vec<u8>, usize>,
    tx_ids: HashMap<packed::Byte32, u64>,
    next_tx: u64,
}

impl World {
    fn tid(&mut self, h: &packed::Byte32) -> u64 {
        if let Some(x) = self.tx_ids.get(h) { return *x; }
        self.next_tx += 1;
        self.tx_ids.insert(h.clone(), self.next_tx);
        self.next_tx
    }
}

fn script(code: u8, args: &[u8]) -> packed::Script {
    packed::Script::new_builder().code_hash([code; 32].pack()).hash_type(ScriptHashType::Data.into()).args(Bytes::from(args.to_vec()).pack()).build()
}

fn tx_term(t: &GTx) -> String {
    format!("(mkTx {} {} {})", t.id,
        coq_list(&t.inputs.iter().map(|(a, b)| format!("({}, {})", a, b)).collect::<Vec<_>>()),
        coq_list(&t.outputs.iter().map(|o| format!("(mkOut {} {})", o.lock + 1, match o.ty { Some(x) => format!("(Some {})", x + 1), None => "None".into() })).collect::<Vec<_>>()))
}
fn block_term(b: &GBlock) -> String {
    format!("(mkBlock {} {})", b.number, coq_list(&b.txs.iter().map(tx_term).collect::<Vec<_>>()))
}

fn dump(w: &mut World) -> Val {
    let mut scripts: Vec<Vec<u64>> = Vec::new();
    let mut cells: Vec<Vec<u64>> = Vec::new();
    let mut hist: Vec<Vec<u64>> = Vec::new();
    let mut txs: Vec<Vec<u64>> = Vec::new();
    let mut headers: Vec<Vec<u64>> = Vec::new();
    let mut matched: Vec<Vec<u64>> = Vec::new();
    let raw: Vec<(Vec<u8>, Vec<u8>)> = w.storage.db.iterator(IteratorMode::Start).map(|(k, v)| (k.to_vec(), v.to_vec())).collect();
    for (k, v) in raw {
        match k[0] {
            0 => { let h = packed::Byte32::from_slice(&k[1..]).unwrap(); let id = w.tid(&h); txs.push(vec![id, u64::from_be_bytes(v[0..8].try_into().unwrap()), u32::from_be_bytes(v[8..12].try_into().unwrap()) as u64]); }
            32 | 64 => {
                let sid = w.raw_to_sid.get(&k[1..k.len() - 16]).map(|x| *x as u64 + 1).unwrap_or(9999);
                let h = packed::Byte32::from_slice(&v).unwrap();
                let id = w.tid(&h);
                let n = k.len();
                cells.push(vec![if k[0] == 32 { 0 } else { 1 }, sid, u64::from_be_bytes(k[n - 16..n - 8].try_into().unwrap()), u32::from_be_bytes(k[n - 8..n - 4].try_into().unwrap()) as u64, u32::from_be_bytes(k[n - 4..].try_into().unwrap()) as u64, id]);
            }
            96 | 128 => {
                let sid = w.raw_to_sid.get(&k[1..k.len() - 17]).map(|x| *x as u64 + 1).unwrap_or(9999);
                let h = packed::Byte32::from_slice(&v).unwrap();
                let id = w.tid(&h);
                let n = k.len();
                hist.push(vec![if k[0] == 96 { 0 } else { 1 }, sid, u64::from_be_bytes(k[n - 17..n - 9].try_into().unwrap()), u32::from_be_bytes(k[n - 9..n - 5].try_into().unwrap()) as u64, u32::from_be_bytes(k[n - 5..n - 1].try_into().unwrap()) as u64, k[n - 1] as u64, id]);
            }
            192 => headers.push(vec![u64::from_be_bytes(k[1..9].try_into().unwrap())]),
            224 => {
                let name = &k[1..];
                if name.starts_with(b"MATCHED_BLOCKS") && name.len() == 14 + 8 { matched.push(vec![u64::from_be_bytes(name[14..].try_into().unwrap())]); }
            }
            _ => {}
        }
    }
    for ss in w.storage.get_filter_scripts() {
        let sid = w.raw_to_sid.get(&extract_raw_data(&ss.script)).map(|x| *x as u64 + 1).unwrap_or(9999);
        scripts.push(vec![sid, if ss.script_type == ScriptType::Lock { 0 } else { 1 }, ss.block_number]);
    }
    let rows = |mut v: Vec<Vec<u64>>| { v.sort(); Val::l(v.into_iter().map(|r| Val::l(r.into_iter().map(Val::n).collect())).collect()) };
    Val::l(vec![rows(scripts), rows(cells), rows(hist), rows(txs), rows(headers), Val::n(w.storage.get_min_filtered_block_number()), rows(matched)])
}

/// (registered scripts with their numbers, min filtered block number, starts of the pending matched records)
fn summary(w: &World) -> (BTreeMap<(usize, bool), u64>, u64, Vec<u64>) {
    let mut scripts = BTreeMap::new();
    for ss in w.storage.get_filter_scripts() {
        let sid = w.raw_to_sid.get(&extract_raw_data(&ss.script)).cloned().unwrap_or(9999);
        scripts.insert((sid, ss.script_type == ScriptType::Lock), ss.block_number);
    }
    let mut matched = Vec::new();
    for (k, _) in w.storage.db.iterator(IteratorMode::Start) {
        if k[0] == 224 && k[1..].starts_with(b"MATCHED_BLOCKS") && k.len() == 1 + 14 + 8 { matched.push(u64::from_be_bytes(k[15..].try_into().unwrap())); }
    }
    (scripts, w.storage.get_min_filtered_block_number(), matched)
}

/// ground truth: the live cells of a script over a list of blocks, counting only blocks after `from`
fn truth_cells(blocks: &[GBlock], sid: usize, is_lock: bool, from: u64) -> Vec<(u64, u64, u64, u64)> {
    // (block, tx index, out index, tx id)
    let mut live: BTreeMap<(u64, u32), (u64, u64, u64)> = BTreeMap::new();
    for b in blocks {
        for (ti, t) in b.txs.iter().enumerate() {
            for (prev, idx) in &t.inputs { live.remove(&(*prev, *idx)); }
            if b.number > from {
                for (oi, o) in t.outputs.iter().enumerate() {
                    let hit = if is_lock { o.lock == sid } else { o.ty == Some(sid) };
                    if hit { live.insert((t.id, oi as u32), (b.number, ti as u64, oi as u64)); }
                }
            }
        }
    }
    let mut v: Vec<(u64, u64, u64, u64)> = live.into_iter().map(|((id, _), (bn, ti, oi))| (bn, ti, oi, id)).collect();
    v.sort();
    v
}

pub(crate) fn run(seed: u64, n: u64, out: &mut Out) {
    let mut rng = Rng::new(seed);
    for hist_no in 0..n {
        let storage = new_storage("verif-c03");
        let chain = SynChain::new(flat_plan(2, 4, 5), 4, 21 + hist_no);
        storage.init_genesis_block(chain.genesis_block());
        let prefix_related = rng.chance(1, 4);
        let arg_sets: Vec<Vec<u8>> = if prefix_related { vec![vec![1], vec![1, 0], vec![1, 2], vec![2], vec![]] } else { vec![vec![1], vec![2], vec![3], vec![4, 4], vec![5]] };
        let pool: Vec<packed::Script> = arg_sets.iter().map(|a| script(7, a)).collect();
        let raw_to_sid: HashMap<Vec<u8>, usize> = pool.iter().enumerate().map(|(i, s)| (extract_raw_data(s), i)).collect();
        let mut w = World { storage: storage.clone(), pool, raw_to_sid, tx_ids: HashMap::new(), next_tx: 0 };
        let static_scripts = rng.chance(1, 2); // scripts registered once at start 0: the ground-truth oracle applies
        let mut events: Vec<String> = Vec::new();
        let mut obs: Vec<Val> = Vec::new();
        let mut problems: Vec<String> = Vec::new();
        let mut blocks: Vec<GBlock> = Vec::new();      // the current chain (block 1..)
        let mut live: Vec<(u64, u32)> = Vec::new();    // ground-truth live outputs of the current chain
        let mut all_tx: HashMap<u64, GTx> = HashMap::new();
        let genesis_term = "(mkBlock 0 [])".to_string();
        let init = format!("[SE_init (mkBlock 0 [])]");
        let mut registered: Vec<(usize, bool, u64)> = Vec::new(); // (sid, is_lock, start) as far as the oracle knows
        let mut salt = 0u64;
        let mut orphaned: Vec<GTx> = Vec::new();
        let mut pending_orphan: Option<GTx> = None;
        let steps = rng.range(6, 22);
        let mut stopped = false;
        for step in 0..steps {
            if stopped { break; }
            let choice = if step == 0 { 0 } else { rng.below(14) };
            let tip = blocks.len() as u64;
            let (term, res): (String, Option<()>) = match choice {
                0 | 1 if step == 0 || !static_scripts => {
                    // set_scripts
                    let cmd = if step == 0 { 0 } else { rng.below(3) };
                    let k = rng.range(if cmd == 0 { 1 } else { 0 }, 4);
                    let mut list: Vec<(usize, bool, u64)> = Vec::new();
                    for _ in 0..k {
                        let sid = rng.below(w.pool.len() as u64) as usize;
                        let start = if static_scripts { 0 } else { match rng.below(4) { 0 => 0, 1 => tip, 2 => tip + rng.range(1, 3), _ => rng.range(0, tip + 1) } };
                        list.push((sid, rng.chance(2, 3), start));
                    }
                    let statuses: Vec<ScriptStatus> = list.iter().map(|(sid, is_lock, start)| ScriptStatus { script: w.pool[*sid].clone(), script_type: if *is_lock { ScriptType::Lock } else { ScriptType::Type }, block_number: *start }).collect();
                    let command = match cmd { 0 => SetScriptsCommand::All, 1 => SetScriptsCommand::Partial, _ => SetScriptsCommand::Delete };
                    let (before_scripts, before_min, before_matched) = summary(&w);
                    let resume_before = before_matched.iter().min().map(|s| before_min.min(s.saturating_sub(1))).unwrap_or(before_min);
                    let inv_before = before_scripts.values().all(|n| *n >= resume_before);
                    let st = w.storage.clone();
                    let r = catch(move || st.update_filter_scripts(statuses, command));
                    if cmd == 0 { registered = list.clone(); } else { registered.clear(); }
                    if r.is_some() {
                        // C09: the documented script set, pending records discarded, resume point at or below every script
                        let mut expect: BTreeMap<(usize, bool), u64> = if cmd == 0 { BTreeMap::new() } else { before_scripts.clone() };
                        for (sid, is_lock, start) in &list {
                            if cmd == 2 { expect.remove(&(*sid, *is_lock)); } else { expect.insert((*sid, *is_lock), *start); }
                        }
                        let (after_scripts, after_min, after_matched) = summary(&w);
                        if after_scripts != expect {
                            problems.push(format!("[C09-script-set] step {}: command {} with {:?} on {:?} left {:?}, documented {:?}", step, cmd, list, before_scripts, after_scripts, expect));
                        }
                        if (cmd == 0 || !list.is_empty()) && !after_matched.is_empty() {
                            problems.push(format!("[C09-pending-kept] step {}: matched records {:?} survive set_scripts", step, after_matched));
                        }
                        if (cmd == 0 || !list.is_empty()) && inv_before {
                            if let Some(((sid, is_lock), n)) = after_scripts.iter().find(|(_, n)| **n < after_min) {
                                problems.push(format!("[C09-rewind-insufficient] step {}: script {} ({}) is recorded at {} but filter syncing resumes after {} (before: min {}, pending records {:?})", step, sid + 1, if *is_lock { "lock" } else { "type" }, n, after_min, before_min, before_matched));
                            }
                        }
                    }
                    (format!("SE_set_scripts {} {} {}", coq_list(&list.iter().map(|(sid, l, s)| format!("(mkSS {} {} {})", sid + 1, if *l { 0 } else { 1 }, s)).collect::<Vec<_>>()), cmd, genesis_term), r)
                }
                2 | 3 | 4 | 5 | 6 | 7 => {
                    // next block of the current chain
                    let number = tip + 1;
                    let mut txs: Vec<GTx> = Vec::new();
                    // a transaction of an abandoned branch is committed again, at whatever position it gets here
                    if !orphaned.is_empty() && rng.chance(1, 2) {
                        let k = rng.below(orphaned.len() as u64) as usize;
                        if orphaned[k].inputs.iter().all(|i| live.contains(i)) && !blocks.iter().any(|b| b.txs.iter().any(|t| t.id == orphaned[k].id)) {
                            let t = orphaned.remove(k);
                            live.retain(|x| !t.inputs.contains(x));
                            if rng.chance(1, 2) { for oi in 0..t.outputs.len() { live.push((t.id, oi as u32)); } txs.push(t); } else { pending_orphan = Some(t); }
                        }
                    }
                    for _ in 0..rng.range(1, 3) {
                        let mut inputs: Vec<(u64, u32)> = Vec::new();
                        for _ in 0..rng.range(0, 2) {
                            if !live.is_empty() && rng.chance(4, 5) { let k = rng.below(live.len() as u64) as usize; inputs.push(live.remove(k)); }
                        }
                        let n_out = rng.range(1, 3);
                        let outputs: Vec<GOut> = (0..n_out).map(|_| GOut { lock: rng.below(w.pool.len() as u64) as usize, ty: if rng.chance(1, 3) { Some(rng.below(w.pool.len() as u64) as usize) } else { None } }).collect();
                        salt += 1;
                        let p_inputs: Vec<packed::CellInput> = inputs.iter().map(|(id, idx)| packed::CellInput::new(packed::OutPoint::new(all_tx[id].hash.clone(), *idx), 0)).collect();
                        let p_outputs: Vec<packed::CellOutput> = outputs.iter().map(|o| packed::CellOutput::new_builder().capacity(100u64.pack()).lock(w.pool[o.lock].clone()).type_(o.ty.map(|x| w.pool[x].clone()).pack()).build()).collect();
                        let datas: Vec<packed::Bytes> = outputs.iter().map(|_| Bytes::new().pack()).collect();
                        let raw = packed::RawTransaction::new_builder().version((salt as u32).pack()).inputs(p_inputs.pack()).outputs(p_outputs.pack()).outputs_data(datas.pack()).build();
                        let ptx = packed::Transaction::new_builder().raw(raw).build();
                        let hash = ptx.calc_tx_hash();
                        let id = w.tid(&hash);
                        let t = GTx { id, hash, packed: ptx, inputs, outputs };
                        for oi in 0..n_out { if rng.chance(4, 5) { live.push((id, oi as u32)); } }
                        all_tx.insert(id, t.clone());
                        txs.push(t);
                    }
                    if let Some(t) = pending_orphan.take() { for oi in 0..t.outputs.len() { live.push((t.id, oi as u32)); } txs.push(t); }
                    let raw = packed::RawHeader::new_builder().number(number.pack()).timestamp((salt + 1000).pack()).build();
                    let header = packed::Header::new_builder().raw(raw).build();
                    let pblock = packed::Block::new_builder().header(header).transactions(txs.iter().map(|t| t.packed.clone()).collect::<Vec<_>>().pack()).build();
                    let b = GBlock { number, txs, packed: pblock.clone() };
                    blocks.push(b.clone());
                    if rng.chance(1, 6) {
                        // fetch_transaction answered for a transaction of this block before the block itself is indexed
                        let t = b.txs[rng.below(b.txs.len() as u64) as usize].clone();
                        let raw = packed::RawHeader::new_builder().number(number.pack()).timestamp(77u64.pack()).build();
                        let hwe = HeaderWithExtension { header: packed::Header::new_builder().raw(raw).build(), extension: None };
                        let st = w.storage.clone();
                        let ptx = t.packed.clone();
                        if catch(move || st.add_fetched_tx(&ptx, &hwe)).is_some() {
                            events.push(format!("SE_fetched_tx {} {}", tx_term(&t), number));
                            obs.push(dump(&mut w));
                        }
                    }
                    let st = w.storage.clone();
                    let r = catch(move || st.filter_block(pblock));
                    if static_scripts && r.is_some() {
                        // the synchronizer raises the scripts' block numbers after indexing a batch
                        events.push(format!("SE_filter_block {}", block_term(&b)));
                        obs.push(dump(&mut w));
                        let st = w.storage.clone();
                        let r2 = catch(move || st.update_block_number(number));
                        (format!("SE_update_block_number {}", number), r2)
                    } else {
                    (format!("SE_filter_block {}", block_term(&b)), r)
                    }
                }
                8 if tip > 0 && !static_scripts => {
                    let nn = rng.range(0, tip + 1);
                    let st = w.storage.clone();
                    let r = catch(move || st.update_block_number(nn));
                    (format!("SE_update_block_number {}", nn), r)
                }
                9 | 10 if tip > 1 => {
                    // fork: roll back to `to` (that block is removed) and continue on a different branch
                    let to = rng.range(1, tip);
                    let st = w.storage.clone();
                    let r = catch(move || st.rollback_to_block(to));
                    for b in blocks.iter().skip((to - 1) as usize) { for t in &b.txs { orphaned.push(t.clone()); } }
                    blocks.truncate((to - 1) as usize);
                    // recompute the ground-truth live set of the shortened chain
                    let mut l: Vec<(u64, u32)> = Vec::new();
                    for b in &blocks { for t in &b.txs { for i in &t.inputs { l.retain(|x| x != i); } for oi in 0..t.outputs.len() { l.push((t.id, oi as u32)); } } }
                    live = l;
                    (format!("SE_rollback {}", to), r)
                }
                11 if !all_tx.is_empty() => {
                    // the answer to an earlier fetch_transaction arrives (possibly for an already indexed transaction)
                    let ids: Vec<u64> = all_tx.keys().cloned().collect();
                    let id = *rng.pick(&ids);
                    let t = all_tx[&id].clone();
                    let bn = blocks.iter().find(|b| b.txs.iter().any(|x| x.id == id)).map(|b| b.number).unwrap_or(tip + 5);
                    let raw = packed::RawHeader::new_builder().number(bn.pack()).timestamp(77u64.pack()).build();
                    let hwe = HeaderWithExtension { header: packed::Header::new_builder().raw(raw).build(), extension: None };
                    let st = w.storage.clone();
                    let ptx = t.packed.clone();
                    let r = catch(move || st.add_fetched_tx(&ptx, &hwe));
                    (format!("SE_fetched_tx {} {}", tx_term(&t), bn), r)
                }
                12 if !static_scripts => {
                    let nn = rng.range(0, tip + 2);
                    let st = w.storage.clone();
                    let r = catch(move || st.update_min_filtered_block_number(nn));
                    (format!("SE_set_min {}", nn), r)
                }
                _ => {
                    let start = rng.range(1, tip + 3);
                    let st = w.storage.clone();
                    let r = catch(move || st.add_matched_blocks(start, 2, vec![(packed::Byte32::zero(), false)]));
                    (format!("SE_add_matched {}", start), r)
                }
            };
            events.push(term.clone());
            if res.is_none() {
                obs.push(Val::l(vec![Val::n(3)]));
                problems.push(format!("[C10-storage-panic] step {} ({}) panicked{}", step, term.split(' ').next().unwrap_or(""), if prefix_related { " (prefix-related scripts registered)" } else { "" }));
                stopped = true;
                continue;
            }
            obs.push(dump(&mut w));
            // ---- ground truth (static script set registered at start 0) ----
            if static_scripts {
                for (sid, is_lock, start) in &registered {
                    let expect = truth_cells(&blocks, *sid, *is_lock, *start);
                    let tag = if *is_lock { 32u8 } else { 64u8 };
                    let mut pfx = vec![tag];
                    pfx.extend_from_slice(&extract_raw_data(&w.pool[*sid]));
                    let mut got: Vec<(u64, u64, u64, u64)> = Vec::new();
                    let raw: Vec<(Vec<u8>, Vec<u8>)> = w.storage.db.iterator(IteratorMode::Start).map(|(k, v)| (k.to_vec(), v.to_vec())).collect();
                    for (k, v) in raw {
                        if k.len() == pfx.len() + 16 && k.starts_with(&pfx) {
                            let nn = k.len();
                            let h = packed::Byte32::from_slice(&v).unwrap();
                            got.push((u64::from_be_bytes(k[nn - 16..nn - 8].try_into().unwrap()), u32::from_be_bytes(k[nn - 8..nn - 4].try_into().unwrap()) as u64, u32::from_be_bytes(k[nn - 4..].try_into().unwrap()) as u64, w.tid(&h)));
                        }
                    }
                    got.sort();
                    if got != expect {
                        let phantom: Vec<_> = got.iter().filter(|x| !expect.contains(x)).collect();
                        let missing: Vec<_> = expect.iter().filter(|x| !got.contains(x)).collect();
                        let class = if events.iter().any(|e| e.starts_with("SE_fetched_tx")) { "C03-phantom-after-late-fetched-tx" } else if events.iter().any(|e| e.starts_with("SE_rollback")) { "C04-rollback-index-mismatch" } else { "C03-index-mismatch" };
                        problems.push(format!("[{}] step {}: script {} ({}) phantom cells {:?}, missing cells {:?}", class, step, sid + 1, if *is_lock { "lock" } else { "type" }, phantom, missing));
                        break;
                    }
                }
            }
        }
        let model = format!("(run_store {} {})", init, coq_list(&events));
        let oracle = if problems.is_empty() { Ok(()) } else { Err(problems.join(" || ")) };
        let kinds: Vec<&str> = events.iter().map(|e| e.split(' ').next().unwrap_or("")).collect();
        out.case(&format!("store-{}", hist_no), &["store-history", if static_scripts { "static-scripts" } else { "changing-scripts" }, if prefix_related { "prefix-related" } else { "distinct-scripts" }],
            &model, &Val::l(obs), oracle, &format!("{} events: {}", events.len(), kinds.join(",")));
    }
}
