(* C03 end to end: indexing any chain block by block with filter_block (Model/Store.v) computes exactly the
   abstract cell index of Model/IndexSpec.v. *)
From Coq Require Import NArith Lia List Bool.
From LC Require Import Store StoreProofs IndexSpec.
Import ListNotations.
Open Scope N_scope.
Open Scope bool_scope.

(* ------------------------------------------------------------------------------------ *)
(* association lists as maps *)
Section AssocGet.
  Context {K V : Type} (eqb : K -> K -> bool).
  Hypothesis eqb_spec : forall a b, eqb a b = true <-> a = b.

  Lemma eqb_refl' a : eqb a a = true.
  Proof. apply eqb_spec. reflexivity. Qed.

  Lemma eqb_sym' a b : eqb a b = eqb b a.
  Proof.
    destruct (eqb a b) eqn:E1, (eqb b a) eqn:E2; try reflexivity.
    - apply eqb_spec in E1. subst. rewrite eqb_refl' in E2. discriminate.
    - apply eqb_spec in E2. subst. rewrite eqb_refl' in E1. discriminate.
  Qed.

  Lemma a_get_del (k k' : K) (l : list (K * V)) :
    a_get eqb k (a_del eqb k' l) = if eqb k k' then None else a_get eqb k l.
  Proof.
    induction l as [|[k0 v0] l IH]; cbn [a_del a_get]; [destruct (eqb k k'); reflexivity|].
    destruct (eqb k' k0) eqn:E0.
    - apply eqb_spec in E0. subst k0. rewrite IH. destruct (eqb k k'); reflexivity.
    - cbn [a_get]. rewrite IH. destruct (eqb k k0) eqn:E1; [|reflexivity].
      apply eqb_spec in E1. subst k0. rewrite eqb_sym', E0. reflexivity.
  Qed.

  Lemma a_get_put (k k' : K) (v : V) (l : list (K * V)) :
    a_get eqb k (a_put eqb k' v l) = if eqb k k' then Some v else a_get eqb k l.
  Proof. unfold a_put. cbn [a_get]. rewrite a_get_del. destruct (eqb k k'); reflexivity. Qed.
End AssocGet.

Lemma Neqb_spec a b : N.eqb a b = true <-> a = b.
Proof. apply N.eqb_eq. Qed.

Definition cget (k : ckey) (c : list (ckey * txid)) : option txid := a_get ckey_eqb k c.

Lemma cget_del k k' c : cget k (a_del ckey_eqb k' c) = if ckey_eqb k k' then None else cget k c.
Proof. apply (a_get_del ckey_eqb ckey_eqb_spec). Qed.
Lemma cget_put k k' v c : cget k (a_put ckey_eqb k' v c) = if ckey_eqb k k' then Some v else cget k c.
Proof. apply (a_get_put ckey_eqb ckey_eqb_spec). Qed.

Lemma ckey_eqb_refl k : ckey_eqb k k = true.
Proof. apply ckey_eqb_spec. reflexivity. Qed.

Lemma ckey_eqb_false a b : a <> b -> ckey_eqb a b = false.
Proof. intros H. destruct (ckey_eqb a b) eqn:E; [apply ckey_eqb_spec in E; contradiction | reflexivity]. Qed.

Lemma fold_left_flat_map {A B C} (f : A -> B -> A) (g : C -> list B) (l : list C) : forall a,
  fold_left f (flat_map g l) a = fold_left (fun a x => fold_left f (g x) a) l a.
Proof. induction l as [|x l IH]; intros a; [reflexivity|]. cbn [flat_map fold_left]. rewrite fold_left_app. apply IH. Qed.

(* ------------------------------------------------------------------------------------ *)
(* the transaction table *)
Definition txs_step (m : list (txid * (N * N * tx))) (op : wop) : list (txid * (N * N * tx)) :=
  match op with W_put_tx t v => a_put N.eqb t v m | _ => m end.

Lemma commit_txs ops : forall st, txs (commit st ops) = fold_left txs_step ops (txs st).
Proof. induction ops as [|op ops IH]; intros st; [reflexivity|]. cbn [commit fold_left]. unfold commit in IH. rewrite IH. destruct op; reflexivity. Qed.

Definition no_set_script (ops : list wop) : Prop := forall s ty n, ~ In (W_set_script s ty n) ops.

Lemma commit_scripts ops : no_set_script ops -> forall st, scripts (commit st ops) = scripts st.
Proof.
  induction ops as [|op ops IH]; intros H st; [reflexivity|]. cbn [commit fold_left]. unfold commit in IH.
  rewrite IH; [| intros s ty n Hin; apply (H s ty n); right; exact Hin].
  destruct op; try reflexivity. exfalso. apply (H s stype n). left; reflexivity.
Qed.

(* every transaction a batch leaves in the table was there or is put by the batch *)
Lemma txs_after_batch ops : forall m tid v,
  a_get N.eqb tid (fold_left txs_step ops m) = Some v -> a_get N.eqb tid m = Some v \/ In (W_put_tx tid v) ops.
Proof.
  induction ops as [|op ops IH]; intros m tid v H; [left; exact H|].
  cbn [fold_left] in H. destruct (IH _ _ _ H) as [H1|H1]; [|right; right; exact H1].
  destruct op; cbn [txs_step] in H1; try (left; exact H1).
  rewrite (a_get_put N.eqb Neqb_spec) in H1. destruct (tid =? t) eqn:E.
  - apply N.eqb_eq in E. subst t. inversion H1; subst. right. left. reflexivity.
  - left. exact H1.
Qed.

(* a transaction in the table stays in the table *)
Lemma txs_stay ops : forall m tid, a_get N.eqb tid m <> None -> a_get N.eqb tid (fold_left txs_step ops m) <> None.
Proof.
  induction ops as [|op ops IH]; intros m tid H; [exact H|]. cbn [fold_left]. apply IH.
  destruct op; cbn [txs_step]; try exact H.
  rewrite (a_get_put N.eqb Neqb_spec). destruct (tid =? t); [discriminate | exact H].
Qed.

Lemma txs_put_present ops1 ops2 m tid v : a_get N.eqb tid (fold_left txs_step (ops1 ++ W_put_tx tid v :: ops2) m) <> None.
Proof.
  rewrite fold_left_app. cbn [fold_left txs_step]. apply txs_stay.
  rewrite (a_get_put N.eqb Neqb_spec), N.eqb_refl. discriminate.
Qed.

(* ------------------------------------------------------------------------------------ *)
(* one block *)
Section OneBlock.
  Variables (st : store) (bn : N).
  Let reg := registered st.

  (* positions and identifiers determine the transaction *)
  Definition pos_ok (D : list (N * N * tx)) : Prop :=
    forall b1 i1 t1 b2 i2 t2, In (b1, i1, t1) D -> In (b2, i2, t2) D ->
      t_id t1 = t_id t2 \/ (b1 = b2 /\ i1 = i2) -> (b1, i1, t1) = (b2, i2, t2).

  (* every entry of the abstract index belongs to an output of a known transaction paying a registered script *)
  Definition J2 (E : cmap) (D : list (N * N * tx)) : Prop :=
    forall k tid, E k = Some tid ->
      exists stype s b i oi t o,
        k = (stype, s, b, i, oi) /\ In (b, i, t) D /\ t_id t = tid /\
        nth_error (t_outputs t) (N.to_nat oi) = Some o /\
        ((stype = 0 /\ s = o_lock o /\ reg 0 s = true) \/ (stype = 1 /\ o_type o = Some s /\ reg 1 s = true)).

  (* what find_prev returns is the transaction of that identifier at its true position *)
  Definition J3 (local : list (txid * (N * tx))) (D : list (N * N * tx)) : Prop :=
    forall tid g, find_prev st bn local tid = Some g -> In g D /\ t_id (snd g) = tid.

  (* the creator of every live entry can be found *)
  Definition J4 (E : cmap) (local : list (txid * (N * tx))) : Prop :=
    forall k tid, E k = Some tid -> find_prev st bn local tid <> None.

  Lemma kill_J2 E D inp : J2 E D -> J2 (kill E inp) D.
  Proof.
    intros H k tid Hk. unfold kill in Hk. destruct (E k) as [t0|] eqn:Ek; [|discriminate].
    destruct ((t0 =? fst inp) && (k_oi k =? snd inp)); [discriminate|]. inversion Hk; subst. apply H. exact Ek.
  Qed.

  Lemma kill_J4 E local inp : J4 E local -> J4 (kill E inp) local.
  Proof.
    intros H k tid Hk. unfold kill in Hk. destruct (E k) as [t0|] eqn:Ek; [|discriminate].
    destruct ((t0 =? fst inp) && (k_oi k =? snd inp)); [discriminate|]. inversion Hk; subst. apply (H k). exact Ek.
  Qed.

  (* ---- an input: the deletions of input_ops are exactly [kill] ---- *)
  Lemma input_sim ti t local ii inp c E D :
    (forall k, cget k c = E k) -> pos_ok D -> J2 E D -> J3 local D -> J4 E local ->
    forall k, cget k (fold_left cells_step (input_ops st bn ti t local ii inp) c) = kill E inp k.
  Proof.
    intros HcE Hpos H2 H3 H4 k. destruct inp as [ptid oi]. unfold input_ops. cbn [fst snd].
    destruct (find_prev st bn local ptid) as [[[gbn gti] ptx]|] eqn:Fp.
    2:{ (* unknown previous transaction: nothing it created is live *)
        cbn [fold_left]. rewrite HcE. unfold kill. destruct (E k) as [t0|] eqn:Ek; [|reflexivity]. cbn [fst snd].
        destruct (t0 =? ptid) eqn:Et; [|reflexivity]. apply N.eqb_eq in Et. subst t0.
        exfalso. apply (H4 k ptid Ek). exact Fp. }
    destruct (H3 ptid _ Fp) as [HinD Hid]. cbn [snd] in Hid.
    destruct (nth_error (t_outputs ptx) (N.to_nat oi)) as [po|] eqn:Hnth.
    2:{ cbn [fold_left]. rewrite HcE. unfold kill. destruct (E k) as [t0|] eqn:Ek; [|reflexivity]. cbn [fst snd].
        destruct (t0 =? ptid) eqn:Et; [|reflexivity]. apply N.eqb_eq in Et. subst t0.
        destruct (k_oi k =? oi) eqn:Eo; [|reflexivity]. apply N.eqb_eq in Eo.
        exfalso. destruct (H2 k ptid Ek) as (stype & s & b & i & oi' & t' & o & Hk & HinD' & Hid' & Hnth' & _).
        subst k. cbn [k_oi] in Eo. subst oi'.
        assert (Heq : (b, i, t') = (gbn, gti, ptx)) by (apply Hpos; [exact HinD' | exact HinD | left; congruence]).
        inversion Heq; subst. congruence. }
    (* the characterisation of the entries [kill] removes *)
    assert (Hkill : forall k0 t0, E k0 = Some t0 -> k_oi k0 = oi ->
              (t0 = ptid <->
               (k0 = (0, o_lock po, gbn, gti, oi) /\ reg 0 (o_lock po) = true) \/
               (exists s, o_type po = Some s /\ k0 = (1, s, gbn, gti, oi) /\ reg 1 s = true))).
    { intros k0 t0 Ek0 Hoi. destruct (H2 k0 t0 Ek0) as (stype & s & b & i & oi' & t' & o & Hk & HinD' & Hid' & Hnth' & Hs).
      subst k0. cbn [k_oi] in Hoi. subst oi'. split.
      - intros ->. assert (Heq : (b, i, t') = (gbn, gti, ptx)) by (apply Hpos; [exact HinD' | exact HinD | left; congruence]).
        inversion Heq; subst. rewrite Hnth in Hnth'. inversion Hnth'; subst o.
        destruct Hs as [[-> [-> Hr]]|[-> [Ht Hr]]]; [left; split; [reflexivity | exact Hr] | right; exists s; repeat split; assumption].
      - intros [[Hk Hr]|[s' [Ht [Hk Hr]]]]; inversion Hk; subst;
          assert (Heq : (gbn, gti, t') = (gbn, gti, ptx)) by (apply Hpos; [exact HinD' | exact HinD | right; split; reflexivity]);
          inversion Heq; subst; reflexivity. }
    (* the effect of the batch on key k *)
    set (k0 := (0, o_lock po, gbn, gti, oi) : ckey).
    assert (Hlock : forall c', cget k (fold_left cells_step
              (if registered st 0 (o_lock po)
               then [W_del_cell k0; W_put_hist (0, o_lock po, bn, ti, ii, 0) (t_id t); W_put_tx (t_id t) (bn, ti, t)] else []) c')
              = if reg 0 (o_lock po) && ckey_eqb k k0 then None else cget k c').
    { intros c'. fold reg. destruct (reg 0 (o_lock po)); cbn [fold_left cells_step andb]; [apply cget_del | reflexivity]. }
    rewrite fold_left_app.
    assert (Htype : forall c', cget k (fold_left cells_step
              match o_type po with
              | Some s => if registered st 1 s
                          then [W_del_cell (1, s, gbn, gti, oi); W_put_hist (1, s, bn, ti, ii, 0) (t_id t); W_put_tx (t_id t) (bn, ti, t)] else []
              | None => [] end c')
              = match o_type po with
                | Some s => if reg 1 s && ckey_eqb k (1, s, gbn, gti, oi) then None else cget k c'
                | None => cget k c' end).
    { intros c'. fold reg. destruct (o_type po) as [s|]; [|reflexivity].
      destruct (reg 1 s); cbn [fold_left cells_step andb]; [apply cget_del | reflexivity]. }
    rewrite Htype, Hlock, HcE. unfold kill. cbn [fst snd].
    destruct (E k) as [t0|] eqn:Ek.
    2:{ destruct (o_type po) as [s|]; [destruct (reg 1 s && ckey_eqb k (1, s, gbn, gti, oi))|];
          destruct (reg 0 (o_lock po) && ckey_eqb k k0); reflexivity. }
    destruct ((t0 =? ptid) && (k_oi k =? oi)) eqn:Hc.
    - (* killed by the specification: one of the two deletions hits k *)
      apply andb_true_iff in Hc. destruct Hc as [Et Eo]. apply N.eqb_eq in Et, Eo.
      destruct (proj1 (Hkill k t0 Ek Eo) Et) as [[Hk Hr]|[s [Ht [Hk Hr]]]].
      + subst k. fold k0. rewrite Hr, ckey_eqb_refl. cbn [andb].
        destruct (o_type po) as [s|]; [destruct (reg 1 s && ckey_eqb k0 (1, s, gbn, gti, oi))|]; reflexivity.
      + rewrite Ht. subst k. rewrite Hr, ckey_eqb_refl. reflexivity.
    - (* kept by the specification: neither deletion hits k *)
      assert (Hnot : ~ (t0 = ptid /\ k_oi k = oi)).
      { intros [A B]. apply andb_false_iff in Hc. destruct Hc as [Hc|Hc]; apply N.eqb_neq in Hc; contradiction. }
      assert (H0 : reg 0 (o_lock po) && ckey_eqb k k0 = false).
      { destruct (reg 0 (o_lock po)) eqn:Hr; [|reflexivity]. cbn [andb].
        destruct (ckey_eqb k k0) eqn:Ek0; [|reflexivity]. apply ckey_eqb_spec in Ek0. exfalso. apply Hnot.
        assert (Hoi : k_oi k = oi) by (rewrite Ek0; reflexivity).
        split; [|exact Hoi]. apply (Hkill k t0 Ek Hoi). left. split; [exact Ek0 | reflexivity]. }
      rewrite H0.
      destruct (o_type po) as [s|] eqn:Ht; [|reflexivity].
      destruct (reg 1 s) eqn:Hr; [|reflexivity]. cbn [andb].
      destruct (ckey_eqb k (1, s, gbn, gti, oi)) eqn:Ek1; [|reflexivity]. apply ckey_eqb_spec in Ek1. exfalso. apply Hnot.
      assert (Hoi : k_oi k = oi) by (rewrite Ek1; reflexivity).
      split; [|exact Hoi]. apply (Hkill k t0 Ek Hoi). right. exists s. repeat split; try assumption; reflexivity.
  Qed.

  Lemma inputs_sim ti t local D : pos_ok D -> J3 local D ->
    forall (ins : list (txid * N)) i0 c E,
      (forall k, cget k c = E k) -> J2 E D -> J4 E local ->
      forall k, cget k (fold_left cells_step (flat_map (fun p => input_ops st bn ti t local (fst p) (snd p)) (indexed i0 ins)) c)
                = fold_left kill ins E k.
  Proof.
    intros Hpos H3. induction ins as [|inp ins IH]; intros i0 c E HcE H2 H4 k; [apply HcE|].
    cbn [indexed flat_map fold_left fst snd]. rewrite fold_left_app.
    apply (IH (i0 + 1) _ (kill E inp)); [| apply kill_J2; exact H2 | apply kill_J4; exact H4].
    intros k'. apply (input_sim ti t local i0 inp c E D); assumption.
  Qed.

  (* ---- an output ---- *)
  Lemma output_sim ti t oi o c E :
    (forall k, cget k c = E k) ->
    forall k, cget k (fold_left cells_step (output_ops st bn ti t oi o) c) = create reg bn ti t E (oi, o) k.
  Proof.
    intros HcE k. unfold output_ops, create. cbn [fst snd]. fold reg. rewrite fold_left_app.
    set (c1 := fold_left cells_step (if reg 0 (o_lock o) then _ else []) c).
    set (E1 := if reg 0 (o_lock o) then upd E (0, o_lock o, bn, ti, oi) (t_id t) else E).
    assert (H1 : forall k', cget k' c1 = E1 k').
    { intros k'. unfold c1, E1. destruct (reg 0 (o_lock o)); cbn [fold_left cells_step]; [|apply HcE].
      rewrite cget_put. unfold upd. rewrite HcE. reflexivity. }
    destruct (o_type o) as [s|]; [|apply H1].
    destruct (reg 1 s); cbn [fold_left cells_step]; [|apply H1].
    rewrite cget_put. unfold upd. rewrite H1. reflexivity.
  Qed.

  Lemma outputs_sim ti t : forall (outs : list output) i0 c E,
    (forall k, cget k c = E k) ->
    forall k, cget k (fold_left cells_step (flat_map (fun p => output_ops st bn ti t (fst p) (snd p)) (indexed i0 outs)) c)
              = fold_left (create reg bn ti t) (indexed i0 outs) E k.
  Proof.
    induction outs as [|o outs IH]; intros i0 c E HcE k; [apply HcE|].
    cbn [indexed flat_map fold_left fst snd]. rewrite fold_left_app.
    apply IH. intros k'. apply output_sim. exact HcE.
  Qed.

  (* ---- a transaction ---- *)
  Lemma tx_sim ti t local c E D :
    (forall k, cget k c = E k) -> pos_ok D -> J2 E D -> J3 local D -> J4 E local ->
    forall k, cget k (fold_left cells_step (tx_ops st bn ti t local) c) = spec_tx reg bn E (ti, t) k.
  Proof.
    intros HcE Hpos H2 H3 H4 k. unfold tx_ops, spec_tx. cbn [fst snd]. rewrite fold_left_app.
    apply outputs_sim. intros k'. apply (inputs_sim ti t local D Hpos H3); assumption.
  Qed.

  (* the invariants after a transaction *)
  Lemma create_J2 ti t D : forall (outs : list output) i0 E,
    In (bn, ti, t) D -> (forall j o, In (j, o) (indexed i0 outs) -> nth_error (t_outputs t) (N.to_nat j) = Some o) ->
    J2 E D -> J2 (fold_left (create reg bn ti t) (indexed i0 outs) E) D.
  Proof.
    induction outs as [|o outs IH]; intros i0 E HinD Hnth H2; [exact H2|].
    cbn [indexed fold_left]. apply IH; [exact HinD | intros j o' Hj; apply Hnth; right; exact Hj |].
    assert (Ho : nth_error (t_outputs t) (N.to_nat i0) = Some o) by (apply Hnth; left; reflexivity).
    intros k tid Hk. unfold create in Hk. cbn [fst snd] in Hk.
    set (E1 := if reg 0 (o_lock o) then upd E (0, o_lock o, bn, ti, i0) (t_id t) else E) in *.
    assert (H21 : forall k tid, E1 k = Some tid ->
      exists stype s b i oi t' o', k = (stype, s, b, i, oi) /\ In (b, i, t') D /\ t_id t' = tid /\
        nth_error (t_outputs t') (N.to_nat oi) = Some o' /\
        ((stype = 0 /\ s = o_lock o' /\ reg 0 s = true) \/ (stype = 1 /\ o_type o' = Some s /\ reg 1 s = true))).
    { intros k' tid' Hk'. unfold E1 in Hk'. destruct (reg 0 (o_lock o)) eqn:Hr; [|apply H2; exact Hk'].
      unfold upd in Hk'. destruct (ckey_eqb k' (0, o_lock o, bn, ti, i0)) eqn:Ek; [|apply H2; exact Hk'].
      apply ckey_eqb_spec in Ek. inversion Hk'; subst.
      exists 0, (o_lock o), bn, ti, i0, t, o. repeat split; try assumption. left. repeat split. exact Hr. }
    destruct (o_type o) as [s|] eqn:Ht; [|apply H21; exact Hk].
    destruct (reg 1 s) eqn:Hr; [|apply H21; exact Hk].
    unfold upd in Hk. destruct (ckey_eqb k (1, s, bn, ti, i0)) eqn:Ek; [|apply H21; exact Hk].
    apply ckey_eqb_spec in Ek. inversion Hk; subst.
    exists 1, s, bn, ti, i0, t, o. repeat split; try assumption. right. repeat split; assumption.
  Qed.

  Lemma indexed_nth_error {A} (l : list A) : forall i0 j a, In (j, a) (indexed i0 l) -> nth_error l (N.to_nat (j - i0)) = Some a /\ i0 <= j.
  Proof. exact (indexed_in l). Qed.

  Lemma J2_mono E D D' : (forall x, In x D -> In x D') -> J2 E D -> J2 E D'.
  Proof.
    intros Hsub H k tid Hk. destruct (H k tid Hk) as (stype & s & b & i & oi & t & o & A & B & C).
    exists stype, s, b, i, oi, t, o. split; [exact A|]. split; [apply Hsub; exact B | exact C].
  Qed.

  Lemma spec_tx_J2 ti t E D : J2 E D -> J2 (spec_tx reg bn E (ti, t)) (D ++ [(bn, ti, t)]).
  Proof.
    intros H2. unfold spec_tx. cbn [fst snd]. apply create_J2.
    - apply in_or_app. right. left. reflexivity.
    - intros j o Hj. destruct (indexed_nth_error _ _ _ _ Hj) as [Hn _]. rewrite N.sub_0_r in Hn. exact Hn.
    - apply (J2_mono _ D); [intros x Hx; apply in_or_app; left; exact Hx|].
      clear - H2. revert E H2. induction (t_inputs t) as [|inp ins IH]; intros E H2; [exact H2|].
      cbn [fold_left]. apply IH. apply kill_J2. exact H2.
  Qed.

  Lemma find_prev_local_put local ti t tid :
    find_prev st bn (a_put N.eqb (t_id t) (ti, t) local) tid =
    if tid =? t_id t then Some (bn, ti, t) else find_prev st bn local tid.
  Proof. unfold find_prev. rewrite (a_get_put N.eqb Neqb_spec). destruct (tid =? t_id t); reflexivity. Qed.

  Lemma step_J3 local D ti t : J3 local D -> J3 (a_put N.eqb (t_id t) (ti, t) local) (D ++ [(bn, ti, t)]).
  Proof.
    intros H3 tid g Hg. rewrite find_prev_local_put in Hg. destruct (tid =? t_id t) eqn:E.
    - apply N.eqb_eq in E. inversion Hg; subst. split; [apply in_or_app; right; left; reflexivity | reflexivity].
    - destruct (H3 tid g Hg) as [A B]. split; [apply in_or_app; left; exact A | exact B].
  Qed.

  Lemma create_values ti t : forall (outs : list (N * output)) E k tid,
    fold_left (create reg bn ti t) outs E k = Some tid -> E k = Some tid \/ tid = t_id t.
  Proof.
    induction outs as [|p outs IH]; intros E k tid H; [left; exact H|].
    cbn [fold_left] in H. destruct (IH _ _ _ H) as [H1|H1]; [|right; exact H1].
    unfold create in H1.
    assert (Hupd : forall E0 k0 v, upd E0 k0 v k = Some tid -> E0 k = Some tid \/ tid = v).
    { intros E0 k0 v Hu. unfold upd in Hu. destruct (ckey_eqb k k0); [inversion Hu; right; reflexivity | left; exact Hu]. }
    set (E1 := if reg 0 (o_lock (snd p)) then upd E (0, o_lock (snd p), bn, ti, fst p) (t_id t) else E) in *.
    assert (H1' : E1 k = Some tid -> E k = Some tid \/ tid = t_id t).
    { unfold E1. destruct (reg 0 (o_lock (snd p))); [apply Hupd | intros Hx; left; exact Hx]. }
    destruct (o_type (snd p)) as [s|]; [|apply H1'; exact H1].
    destruct (reg 1 s); [|apply H1'; exact H1].
    destruct (Hupd _ _ _ H1) as [Hx|Hx]; [apply H1'; exact Hx | right; exact Hx].
  Qed.

  Lemma kills_values : forall (ins : list (txid * N)) E k tid, fold_left kill ins E k = Some tid -> E k = Some tid.
  Proof.
    induction ins as [|inp ins IH]; intros E k tid H; [exact H|]. cbn [fold_left] in H. apply IH in H.
    unfold kill in H. destruct (E k) as [t0|]; [|discriminate].
    destruct ((t0 =? fst inp) && (k_oi k =? snd inp)); [discriminate | exact H].
  Qed.

  Lemma step_J4 E local ti t : J4 E local -> J4 (spec_tx reg bn E (ti, t)) (a_put N.eqb (t_id t) (ti, t) local).
  Proof.
    intros H4 k tid Hk. rewrite find_prev_local_put. destruct (tid =? t_id t) eqn:Et; [discriminate|].
    unfold spec_tx in Hk. cbn [fst snd] in Hk. apply create_values in Hk. destruct Hk as [Hk|Hk].
    - apply kills_values in Hk. apply (H4 k). exact Hk.
    - subst tid. rewrite N.eqb_refl in Et. discriminate.
  Qed.

  (* ---- the transactions of a block, with the local table ---- *)
  Lemma block_sim : forall (l : list (N * tx)) local c E D,
    (forall k, cget k c = E k) ->
    pos_ok (D ++ map (fun p => (bn, fst p, snd p)) l) -> J2 E D -> J3 local D -> J4 E local ->
    forall k, cget k (fold_left cells_step (block_ops st bn l local) c) = fold_left (spec_tx reg bn) l E k.
  Proof.
    induction l as [|[ti t] l IH]; intros local c E D HcE Hpos H2 H3 H4 k; [apply HcE|].
    cbn [block_ops fold_left]. rewrite fold_left_app.
    assert (HposD : pos_ok D).
    { intros b1 i1 t1 b2 i2 t2 A B. apply Hpos; apply in_or_app; left; assumption. }
    apply (IH _ _ _ (D ++ [(bn, ti, t)])).
    - intros k'. apply (tx_sim ti t local c E D); assumption.
    - cbn [map fst snd] in Hpos. rewrite <- app_assoc. exact Hpos.
    - apply spec_tx_J2. exact H2.
    - apply step_J3. exact H3.
    - apply step_J4. exact H4.
  Qed.

  (* the invariants at the end of the block, before the table is written *)
  Lemma block_J2 : forall (l : list (N * tx)) E D,
    J2 E D -> J2 (fold_left (spec_tx reg bn) l E) (D ++ map (fun p => (bn, fst p, snd p)) l).
  Proof.
    induction l as [|[ti t] l IH]; intros E D H2; [cbn [map fold_left]; rewrite app_nil_r; exact H2|].
    cbn [map fold_left fst snd]. replace (D ++ (bn, ti, t) :: map (fun p => (bn, fst p, snd p)) l)
      with ((D ++ [(bn, ti, t)]) ++ map (fun p => (bn, fst p, snd p)) l) by (rewrite <- app_assoc; reflexivity).
    apply IH. apply spec_tx_J2. exact H2.
  Qed.

  (* transactions put by the block are the block's own, at their positions *)
  Lemma input_ops_put_tx ti t local ii inp tid v :
    In (W_put_tx tid v) (input_ops st bn ti t local ii inp) -> tid = t_id t /\ v = (bn, ti, t).
  Proof.
    unfold input_ops. destruct (find_prev st bn local (fst inp)) as [[[gbn gti] ptx]|]; [|intros []].
    destruct (nth_error (t_outputs ptx) (N.to_nat (snd inp))) as [po|]; [|intros []].
    intros H. apply in_app_or in H. destruct H as [H|H].
    - destruct (registered st 0 (o_lock po)); [|destruct H].
      destruct H as [H|[H|[H|[]]]]; try discriminate. inversion H; subst. split; reflexivity.
    - destruct (o_type po) as [s|]; [|destruct H]. destruct (registered st 1 s); [|destruct H].
      destruct H as [H|[H|[H|[]]]]; try discriminate. inversion H; subst. split; reflexivity.
  Qed.

  Lemma output_ops_put_tx ti t oi o tid v :
    In (W_put_tx tid v) (output_ops st bn ti t oi o) -> tid = t_id t /\ v = (bn, ti, t).
  Proof.
    unfold output_ops. intros H. apply in_app_or in H. destruct H as [H|H].
    - destruct (registered st 0 (o_lock o)); [|destruct H].
      destruct H as [H|[H|[H|[]]]]; try discriminate. inversion H; subst. split; reflexivity.
    - destruct (o_type o) as [s|]; [|destruct H]. destruct (registered st 1 s); [|destruct H].
      destruct H as [H|[H|[H|[]]]]; try discriminate. inversion H; subst. split; reflexivity.
  Qed.

  Lemma block_ops_put_tx : forall (l : list (N * tx)) local tid v,
    In (W_put_tx tid v) (block_ops st bn l local) -> exists ti t, In (ti, t) l /\ tid = t_id t /\ v = (bn, ti, t).
  Proof.
    induction l as [|[ti t] l IH]; intros local tid v H; [destruct H|].
    cbn [block_ops] in H. apply in_app_or in H. destruct H as [H|H].
    - exists ti, t. split; [left; reflexivity|]. unfold tx_ops in H. apply in_app_or in H. destruct H as [H|H];
        apply in_flat_map in H; destruct H as [p [_ H]]; [eapply input_ops_put_tx | eapply output_ops_put_tx]; exact H.
    - destruct (IH _ _ _ H) as [ti' [t' [A B]]]. exists ti', t'. split; [right; exact A | exact B].
  Qed.

  (* a created entry has its transaction put into the table by the same batch *)
  Lemma output_ops_creates ti t oi o E k :
    create reg bn ti t E (oi, o) k <> E k -> In (W_put_tx (t_id t) (bn, ti, t)) (output_ops st bn ti t oi o).
  Proof.
    unfold create, output_ops. cbn [fst snd]. fold reg. intros H.
    destruct (reg 0 (o_lock o)) eqn:R0; [apply in_or_app; left; right; right; left; reflexivity|].
    destruct (o_type o) as [s|]; [|contradiction H; reflexivity].
    destruct (reg 1 s) eqn:R1; [apply in_or_app; right; right; right; left; reflexivity | contradiction H; reflexivity].
  Qed.

  Lemma block_ops_no_set_script : forall (l : list (N * tx)) local, no_set_script (block_ops st bn l local).
  Proof.
    induction l as [|[ti t] l IH]; intros local s ty n H; [destruct H|].
    cbn [block_ops] in H. apply in_app_or in H. destruct H as [H|H]; [|exact (IH _ _ _ _ H)].
    unfold tx_ops in H. apply in_app_or in H. destruct H as [H|H]; apply in_flat_map in H; destruct H as [p [_ H]].
    - unfold input_ops in H. destruct (find_prev st bn local (fst (snd p))) as [[[gbn gti] ptx]|]; [|destruct H].
      destruct (nth_error (t_outputs ptx) (N.to_nat (snd (snd p)))) as [po|]; [|destruct H].
      apply in_app_or in H. destruct H as [H|H].
      + destruct (registered st 0 (o_lock po)); [|destruct H]. destruct H as [H|[H|[H|[]]]]; discriminate.
      + destruct (o_type po) as [s'|]; [|destruct H]. destruct (registered st 1 s'); [|destruct H]. destruct H as [H|[H|[H|[]]]]; discriminate.
    - unfold output_ops in H. apply in_app_or in H. destruct H as [H|H].
      + destruct (registered st 0 (o_lock (snd p))); [|destruct H]. destruct H as [H|[H|[H|[]]]]; discriminate.
      + destruct (o_type (snd p)) as [s'|]; [|destruct H]. destruct (registered st 1 s'); [|destruct H]. destruct H as [H|[H|[H|[]]]]; discriminate.
  Qed.
End OneBlock.

(* ------------------------------------------------------------------------------------ *)
(* the chain *)

Definition reg_of (regs : list script_status) : N -> sid -> bool :=
  fun stype s => existsb (fun x => (ss_script x =? s) && (ss_type x =? stype)) regs.

Lemma registered_reg_of st : registered st = reg_of (scripts st).
Proof. reflexivity. Qed.

(* entries created by a list of outputs come with the transaction written to the table *)
Lemma creates_put_tx st bn ti t : forall (outs : list output) i0 E k tid,
  fold_left (create (registered st) bn ti t) (indexed i0 outs) E k = Some tid ->
  E k = Some tid \/
  (tid = t_id t /\ In (W_put_tx (t_id t) (bn, ti, t)) (flat_map (fun p => output_ops st bn ti t (fst p) (snd p)) (indexed i0 outs))).
Proof.
  induction outs as [|o outs IH]; intros i0 E k tid H; [left; exact H|].
  cbn [indexed fold_left flat_map fst snd] in *. destruct (IH _ _ _ _ H) as [H1|[H1 H2]].
  - destruct (create_values st bn ti t [(i0, o)] E k tid H1) as [H3|H3]; [left; exact H3|].
    destruct (E k) as [t0|] eqn:Ek.
    + destruct (N.eq_dec t0 tid) as [->|Hne]; [left; reflexivity|].
      right. split; [exact H3|]. apply in_or_app. left. apply (output_ops_creates st bn ti t i0 o E k).
      cbn [fold_left] in H1. rewrite Ek. intros Hx. rewrite Hx in H1. inversion H1; subst. congruence.
    + right. split; [exact H3|]. apply in_or_app. left. apply (output_ops_creates st bn ti t i0 o E k).
      rewrite Ek. congruence.
  - right. split; [exact H1|]. apply in_or_app. right. exact H2.
Qed.

Lemma block_creates_put_tx st bn : forall (l : list (N * tx)) local E k tid,
  fold_left (spec_tx (registered st) bn) l E k = Some tid ->
  E k = Some tid \/ exists v, In (W_put_tx tid v) (block_ops st bn l local).
Proof.
  induction l as [|[ti t] l IH]; intros local E k tid H; [left; exact H|].
  cbn [fold_left block_ops] in *.
  destruct (IH (a_put N.eqb (t_id t) (ti, t) local) _ _ _ H) as [H1|[v H1]].
  - unfold spec_tx in H1. cbn [fst snd] in H1. apply creates_put_tx in H1. destruct H1 as [H1|[H1 H2]].
    + left. apply (kills_values _ _ _ _ H1).
    + right. exists (bn, ti, t). subst tid. apply in_or_app. left. unfold tx_ops. apply in_or_app. right. exact H2.
  - right. exists v. apply in_or_app. right. exact H1.
Qed.

Record Inv (regs : list script_status) (st : store) (E : cmap) (D : list (N * N * tx)) : Prop := mkInv {
  inv_scripts : scripts st = regs;
  inv_cells : forall k, cget k (cells st) = E k;
  inv_J2 : J2 st E D;
  inv_txs_sound : forall tid g, a_get N.eqb tid (txs st) = Some g -> In g D /\ t_id (snd g) = tid;
  inv_txs_complete : forall k tid, E k = Some tid -> a_get N.eqb tid (txs st) <> None
}.

Lemma J2_scripts st st' E D : scripts st' = scripts st -> J2 st E D -> J2 st' E D.
Proof.
  intros Hs H k tid Hk. destruct (H k tid Hk) as (stype & s & b & i & oi & t & o & A & B & C & F & G).
  exists stype, s, b, i, oi, t, o. repeat split; try assumption.
  rewrite registered_reg_of, Hs, <- registered_reg_of. exact G.
Qed.

Lemma filter_block_ops_form st b :
  exists hdr, filter_block st b = commit st (block_ops st (b_number b) (indexed 0 (b_txs b)) [] ++ hdr) /\
              (hdr = [] \/ hdr = [W_put_header (b_number b)]).
Proof.
  unfold filter_block. destruct (block_ops st (b_number b) (indexed 0 (b_txs b)) []) as [|op ops].
  - exists []. split; [reflexivity | left; reflexivity].
  - exists [W_put_header (b_number b)]. split; [reflexivity | right; reflexivity].
Qed.

Lemma block_step regs st E D b :
  Inv regs st E D -> pos_ok (D ++ block_txs b) ->
  Inv regs (filter_block st b) (spec_block (reg_of regs) E b) (D ++ block_txs b).
Proof.
  intros [Hs Hc H2 H3 H4] Hpos.
  destruct (filter_block_ops_form st b) as [hdr [Hfb Hhdr]].
  set (ops := block_ops st (b_number b) (indexed 0 (b_txs b)) []) in *.
  assert (Hreg : reg_of regs = registered st) by (rewrite registered_reg_of, Hs; reflexivity).
  assert (Hnoset : no_set_script (ops ++ hdr)).
  { intros s ty n Hin. apply in_app_or in Hin. destruct Hin as [Hin|Hin]; [exact (block_ops_no_set_script _ _ _ _ _ _ _ Hin)|].
    destruct Hhdr as [->| ->]; [destruct Hin | destruct Hin as [Hin|[]]; discriminate]. }
  assert (Hscripts : scripts (filter_block st b) = scripts st) by (rewrite Hfb; apply commit_scripts; exact Hnoset).
  assert (Hput : forall tid v, In (W_put_tx tid v) (ops ++ hdr) -> In (W_put_tx tid v) ops).
  { intros tid v Hin. apply in_app_or in Hin. destruct Hin as [Hin|Hin]; [exact Hin|].
    destruct Hhdr as [->| ->]; [destruct Hin | destruct Hin as [Hin|[]]; discriminate]. }
  unfold spec_block, block_txs. rewrite Hreg.
  constructor.
  - rewrite Hscripts. exact Hs.
  - intros k. rewrite filter_block_cells. fold ops.
    apply (block_sim st (b_number b) (indexed 0 (b_txs b)) [] (cells st) E D); [exact Hc | exact Hpos | exact H2 | exact H3 | exact H4].
  - apply (J2_scripts st); [exact Hscripts|]. apply block_J2. exact H2.
  - intros tid g Hg. rewrite Hfb, commit_txs in Hg. apply txs_after_batch in Hg. destruct Hg as [Hg|Hg].
    + destruct (H3 tid g Hg) as [A B]. split; [apply in_or_app; left; exact A | exact B].
    + apply Hput in Hg. apply block_ops_put_tx in Hg. destruct Hg as (ti & t & Hin & -> & ->).
      split; [|reflexivity]. apply in_or_app. right.
      apply in_map_iff. exists (ti, t). split; [reflexivity | exact Hin].
  - intros k tid Hk. rewrite Hfb, commit_txs.
    destruct (block_creates_put_tx st (b_number b) (indexed 0 (b_txs b)) [] E k tid Hk) as [Hk'|[v Hv]].
    + apply txs_stay. apply (H4 k). exact Hk'.
    + fold ops in Hv. apply in_split in Hv. destruct Hv as [o1 [o2 Ho]]. rewrite Ho, <- app_assoc. cbn [app].
      apply txs_put_present.
Qed.

Lemma chain_sim regs : forall bs st E D,
  Inv regs st E D -> pos_ok (D ++ chain_txs bs) ->
  forall k, cget k (cells (fold_left filter_block bs st)) = fold_left (spec_block (reg_of regs)) bs E k.
Proof.
  induction bs as [|b bs IH]; intros st E D HI Hpos k; [apply (inv_cells _ _ _ _ HI)|].
  cbn [fold_left]. cbn [chain_txs flat_map] in Hpos. rewrite app_assoc in Hpos.
  apply (IH _ _ (D ++ block_txs b)); [|exact Hpos].
  apply block_step; [exact HI|].
  intros b1 i1 t1 b2 i2 t2 A B. apply Hpos; apply in_or_app; left; assumption.
Qed.

Lemma fresh_inv regs : Inv regs (fresh_store regs) empty_cmap [].
Proof.
  constructor; try reflexivity.
  - intros k tid H. discriminate.
  - intros tid g H. discriminate.
  - intros k tid H. discriminate.
Qed.

(* ---- well-formed chains: distinct block numbers, distinct transaction identifiers ---- *)
Lemma NoDup_map_inj {A B} (f : A -> B) l a b : NoDup (map f l) -> In a l -> In b l -> f a = f b -> a = b.
Proof.
  induction l as [|x l IH]; intros Hnd Ha Hb Hf; [destruct Ha|].
  cbn [map] in Hnd. inversion Hnd as [|? ? Hnin Hnd']; subst.
  destruct Ha as [->|Ha], Hb as [->|Hb]; try reflexivity.
  - exfalso. apply Hnin. rewrite Hf. apply in_map. exact Hb.
  - exfalso. apply Hnin. rewrite <- Hf. apply in_map. exact Ha.
  - apply IH; assumption.
Qed.

Lemma chain_txs_in bs b i t :
  In (b, i, t) (chain_txs bs) <-> exists blk, In blk bs /\ b_number blk = b /\ In (i, t) (indexed 0 (b_txs blk)).
Proof.
  unfold chain_txs. rewrite in_flat_map. split.
  - intros [blk [Hb Hin]]. unfold block_txs in Hin. apply in_map_iff in Hin. destruct Hin as [[i' t'] [Heq Hin]].
    cbn [fst snd] in Heq. inversion Heq; subst. exists blk. repeat split; assumption.
  - intros [blk [Hb [Hn Hin]]]. exists blk. split; [exact Hb|]. unfold block_txs. apply in_map_iff. exists (i, t).
    cbn [fst snd]. subst b. split; [reflexivity | exact Hin].
Qed.

Definition well_formed_chain (bs : list block) : Prop :=
  NoDup (map b_number bs) /\ NoDup (map (fun x => t_id (snd x)) (chain_txs bs)).

Lemma well_formed_pos_ok bs : well_formed_chain bs -> pos_ok (chain_txs bs).
Proof.
  intros [Hb Ht] b1 i1 t1 b2 i2 t2 H1 H2 [Hid|[-> ->]].
  - apply (NoDup_map_inj (fun x => t_id (snd x)) (chain_txs bs)); assumption.
  - apply chain_txs_in in H1, H2. destruct H1 as [k1 [A1 [B1 C1]]]. destruct H2 as [k2 [A2 [B2 C2]]].
    assert (k1 = k2) by (apply (NoDup_map_inj b_number bs); [exact Hb | exact A1 | exact A2 | congruence]). subst k2.
    apply indexed_in in C1, C2. destruct C1 as [C1 _]. destruct C2 as [C2 _]. rewrite C1 in C2. inversion C2. reflexivity.
Qed.

(* indexing a well-formed chain block by block yields exactly the abstract cell index *)
Theorem index_refines_spec regs bs :
  well_formed_chain bs ->
  forall k, a_get ckey_eqb k (cells (fold_left filter_block bs (fresh_store regs))) = spec_chain (reg_of regs) bs k.
Proof.
  intros Hwf k. unfold spec_chain.
  apply (chain_sim regs bs (fresh_store regs) empty_cmap []); [apply fresh_inv|].
  cbn [app]. apply well_formed_pos_ok. exact Hwf.
Qed.
