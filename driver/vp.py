#!/usr/bin/env python3
"""Driver of the /verif machinery (see DESIGN.md sections 2, 4, 5).

  ./vp setup
  ./vp check <Cxx> [--tier quick|thorough] [--seed N]
  ./vp replay <path>

A check = (1) build the Coq development, verify the property file's theorems are closed and
axiom-free; (2) build the harness into /repo's current working tree and run the property's
operation on the implementation; (3) evaluate the Coq model on the same cases inside coqc and
compare; (4) apply the property oracles' verdicts; (5) classify against KNOWN_FINDINGS.jsonl;
(6) write evidence, print KNOWN-FINDING / VIOLATION lines, exit 0 / 1.
"""
import hashlib
import json
import os
import re
import shutil
import subprocess
import sys
import time
from concurrent.futures import ThreadPoolExecutor

VERIF = os.path.dirname(os.path.dirname(os.path.abspath(__file__)))
REPO = os.environ.get("VERIF_REPO", "/repo")
COQ = os.path.join(VERIF, "coq")
# VERIF_SCRATCH (with VERIF_REPO) lets tools/try_seed_wt.sh judge a patched scratch worktree without touching /repo,
# /verif/work, /verif/replays or the evidence files; the registered checks never set it
_SCRATCH = os.environ.get("VERIF_SCRATCH")
WORK = os.path.join(_SCRATCH or VERIF, "work")
REPLAYS = os.path.join(_SCRATCH or VERIF, "replays")
EVIDENCE = os.path.join(_SCRATCH or VERIF, "evidence")
TEST_NAME = "tests::verif_harness::verif_entry"

sys.path.insert(0, os.path.dirname(os.path.abspath(__file__)))
from props import PROPS, TRUSTED_BASE_COMMON  # noqa: E402

FORBIDDEN = re.compile(
    r"\b(Admitted|admit|Axiom|Axioms|Parameter|Parameters|Conjecture|Conjectures|"
    r"Admit Obligations|Unset Guard Checking|Unset Positivity Checking|Unset Universe Checking|"
    r"bypass_check|type-in-type|impredicative-set)\b"
)


def log(msg):
    print(msg, flush=True)


def run(cmd, cwd=None, env=None, timeout=None, capture=True):
    e = dict(os.environ)
    e["CARGO_NET_OFFLINE"] = "true"
    if env:
        e.update(env)
    p = subprocess.run(
        cmd, cwd=cwd, env=e, timeout=timeout,
        stdout=subprocess.PIPE if capture else None,
        stderr=subprocess.STDOUT if capture else None,
        text=True, errors="replace",
    )
    return p.returncode, (p.stdout or "")


# ---------------------------------------------------------------------------------------
# Coq side
# ---------------------------------------------------------------------------------------

def strip_comments(text):
    out, depth, i = [], 0, 0
    while i < len(text):
        if text.startswith("(*", i):
            depth += 1
            i += 2
        elif text.startswith("*)", i) and depth > 0:
            depth -= 1
            i += 2
        else:
            if depth == 0:
                out.append(text[i])
            i += 1
    return "".join(out)


def scan_forbidden():
    """Forbidden vernacular anywhere in the development (comments stripped).  Variable /
    Hypothesis / Context are allowed only between Section ... End."""
    bad = []
    for root, _, files in os.walk(os.path.join(COQ, "theories")):
        for f in sorted(files):
            if not f.endswith(".v"):
                continue
            path = os.path.join(root, f)
            text = strip_comments(open(path).read())
            for m in FORBIDDEN.finditer(text):
                line = text.count("\n", 0, m.start()) + 1
                bad.append("%s:%d: %s" % (path, line, m.group(0)))
            depth = 0
            for ln, line in enumerate(text.split("\n"), 1):
                s = line.strip()
                if re.match(r"Section\s+\w+\s*\.", s):
                    depth += 1
                elif re.match(r"End\s+\w+\s*\.", s) and depth > 0:
                    depth -= 1
                elif depth == 0 and re.match(r"(Variable|Variables|Hypothesis|Hypotheses|Context)\b", s):
                    bad.append("%s:%d: %s outside a Section" % (path, ln, s.split()[0]))
    return bad


def coq_make(jobs=16):
    if not os.path.exists(os.path.join(COQ, "Makefile")) or \
            os.path.getmtime(os.path.join(COQ, "Makefile")) < os.path.getmtime(os.path.join(COQ, "_CoqProject")):
        rc, out = run(["coq_makefile", "-f", "_CoqProject", "-o", "Makefile"], cwd=COQ)
        if rc != 0:
            return rc, out
    return run(["timeout", "3000", "make", "-j%d" % jobs], cwd=COQ, timeout=3100)


def coq_flags():
    return ["-Q", os.path.join(COQ, "theories"), "LC", "-w",
            "-notation-overridden,-deprecated-hint-without-locality,-deprecated-syntactic-definition"]


def check_property_file(pid):
    """Re-compile Properties/<pid>.v, return (n_theorems, n_closed, problems, theorem names)."""
    path = os.path.join(COQ, "theories", "Properties", pid + ".v")
    problems = []
    if not os.path.exists(path):
        return 0, 0, ["missing " + path], []
    text = strip_comments(open(path).read())
    theorems = re.findall(r"^\s*Theorem\s+(\w+)", text, re.M)
    printed = re.findall(r"Print Assumptions\s+(\w+)\s*\.", text)
    for t in theorems:
        if t not in printed:
            problems.append("theorem %s has no Print Assumptions" % t)
    rc, out = run(["timeout", "900", "coqc"] + coq_flags() + [path], cwd=COQ, timeout=1000)
    if rc != 0:
        problems.append("coqc failed on %s:\n%s" % (path, out[-3000:]))
        return len(theorems), 0, problems, theorems
    closed = out.count("Closed under the global context")
    if "Axioms:" in out:
        # list what is reported; nothing is allow-listed in this development
        for m in re.finditer(r"Axioms:\n((?:.+\n?)+?)(?:\n|$)", out):
            problems.append("assumptions reported: " + m.group(1).strip()[:500])
    if closed != len(printed):
        problems.append("%d Print Assumptions but %d closed" % (len(printed), closed))
    return len(theorems), min(closed, len(theorems)), problems, theorems


# ---------------------------------------------------------------------------------------
# Implementation side
# ---------------------------------------------------------------------------------------

def build_harness():
    """cargo test --features verif --no-run in /repo's working tree; returns (binary, log)."""
    cmd = ["cargo", "test", "--features", "verif", "--offline", "--no-run", "--message-format=json"]
    rc, out = run(cmd, cwd=REPO, timeout=3600)
    exe = None
    rendered = []
    for line in out.splitlines():
        line = line.strip()
        if not line.startswith("{"):
            rendered.append(line)
            continue
        try:
            j = json.loads(line)
        except ValueError:
            continue
        if j.get("reason") == "compiler-artifact" and j.get("profile", {}).get("test") and j.get("executable") \
                and j.get("target", {}).get("name") == "ckb-light-client":
            exe = j["executable"]
        if j.get("reason") == "compiler-message":
            msg = j.get("message", {})
            if msg.get("level") == "error":
                rendered.append(msg.get("rendered", ""))
    if rc != 0 or not exe:
        return None, "\n".join(rendered)[-8000:]
    return exe, ""


def run_harness(exe, op, seed, n, out_path, extra_env=None, timeout=3600):
    env = {"VERIF_OP": op, "VERIF_SEED": str(seed), "VERIF_N": str(n), "VERIF_OUT": out_path,
           "RUST_BACKTRACE": "0", "RUST_LOG": "off"}
    if extra_env:
        env.update(extra_env)
    rc, out = run([exe, TEST_NAME, "--exact", "--nocapture", "--test-threads", "1"], cwd=REPO, env=env, timeout=timeout)
    return rc, out


class Case:
    __slots__ = ("id", "tags", "model", "impl", "oracle", "descr", "op", "run_module", "n")

    def __init__(self, fields):
        self.id, tags, self.model, self.impl, self.oracle, self.descr = fields
        self.tags = [t for t in tags.split(",") if t]

    def fail_class(self):
        m = re.match(r"FAIL: \[([^\]]+)\]", self.oracle)
        if m:
            return m.group(1)
        return "unclassified" if self.oracle.startswith("FAIL") else None

    def fail_classes(self):
        """every class named in the oracle message (one case can break several properties)"""
        if not self.oracle.startswith("FAIL"):
            return []
        found = re.findall(r"\[(C[0-9][0-9]-[A-Za-z0-9_.-]+)\]", self.oracle)
        out = []
        for c in found:
            if c not in out:
                out.append(c)
        return out or ["unclassified"]


DEFS = {}


def read_cases(path):
    cases, stats = [], {}
    with open(path) as f:
        for line in f:
            line = line.rstrip("\n")
            if not line:
                continue
            parts = line.split("\t")
            if parts[0] == "#STAT":
                stats[parts[1]] = parts[2] if len(parts) > 2 else ""
                continue
            if parts[0] == "#DEF":
                DEFS[parts[1]] = parts[2]
                continue
            if len(parts) != 6:
                raise ValueError("bad harness line: " + line[:200])
            cases.append(Case(parts))
    return cases, stats


# ---------------------------------------------------------------------------------------
# Model evaluation inside Coq
# ---------------------------------------------------------------------------------------

def write_cases_v(path, run_module, cases, base, chunk=100):
    with open(path, "w") as f:
        f.write("From LC Require Import %s.\nOpen Scope N_scope.\n" % run_module)
        text = "\n".join(c.model for c in cases)
        for name, term in DEFS.items():
            if name in text:
                f.write("Definition %s := %s.\n" % (name, term))
        for c0 in range(0, len(cases), chunk):
            part = cases[c0:c0 + chunk]
            f.write("Eval vm_compute in (mismatches_from %d [\n" % (base + c0))
            f.write(";\n".join("(%s, %s)" % (c.model, c.impl) for c in part))
            f.write("]).\n")


def eval_shard(args):
    idx, run_module, cases, base, wdir = args
    path = os.path.join(wdir, "cases_%d.v" % idx)
    write_cases_v(path, run_module, cases, base)
    rc, out = run(["timeout", "1800", "coqc", "-noglob"] + coq_flags() + [path], cwd=wdir, timeout=1900)
    if rc != 0:
        return None, out[-4000:]
    mism = []
    for m in re.finditer(r"=\s*\[(.*?)\]\s*:\s*list N", out, re.S):
        body = m.group(1).strip()
        if body:
            mism.extend(int(x.strip().replace("%N", "")) for x in body.split(";"))
    n_evals = len(re.findall(r":\s*list N", out))
    expected = (len(cases) + 99) // 100
    if n_evals != expected:
        return None, "expected %d results, parsed %d\n%s" % (expected, n_evals, out[-2000:])
    return mism, ""


def eval_model(run_module, cases, wdir, shard_size=400):
    shards = []
    for i, s in enumerate(range(0, len(cases), shard_size)):
        shards.append((i, run_module, cases[s:s + shard_size], s, wdir))
    mism, errors = [], []
    with ThreadPoolExecutor(max_workers=16) as ex:
        for res, err in ex.map(eval_shard, shards):
            if res is None:
                errors.append(err)
            else:
                mism.extend(res)
    return sorted(mism), errors


def model_value(run_module, case, wdir):
    path = os.path.join(wdir, "one_case.v")
    with open(path, "w") as f:
        f.write("From LC Require Import %s.\nOpen Scope N_scope.\n" % run_module)
        for name, term in DEFS.items():
            if name in case.model:
                f.write("Definition %s := %s.\n" % (name, term))
        f.write("Eval vm_compute in %s.\n" % case.model)
    rc, out = run(["timeout", "600", "coqc", "-noglob"] + coq_flags() + [path], cwd=wdir, timeout=700)
    return " ".join(out.split())[:4000]


# ---------------------------------------------------------------------------------------
# Known findings
# ---------------------------------------------------------------------------------------

def load_known(pid):
    path = os.path.join(VERIF, "KNOWN_FINDINGS.jsonl")
    known = []
    if os.path.exists(path):
        for line in open(path):
            line = line.strip()
            if not line or line.startswith("#") or line.startswith("fixed:"):
                continue
            j = json.loads(line)
            if j.get("property") == pid:
                known.append(j)
    return known


# ---------------------------------------------------------------------------------------
# check
# ---------------------------------------------------------------------------------------

def write_replay(pid, name, payload):
    os.makedirs(REPLAYS, exist_ok=True)
    path = os.path.join(REPLAYS, "%s_%s.json" % (pid, name))
    with open(path, "w") as f:
        json.dump(payload, f, indent=1)
    return path


def check(pid, tier, seed):
    t0 = time.time()
    cfg = PROPS[pid]
    wdir = os.path.join(WORK, pid)
    shutil.rmtree(wdir, ignore_errors=True)
    os.makedirs(wdir, exist_ok=True)
    os.makedirs(EVIDENCE, exist_ok=True)
    violations = []  # (replay path, suffix)
    known_lines = []
    ev = {
        "property_id": pid, "tier": tier, "seed": seed, "level": "proof",
        "coverage": {}, "assumptions": list(cfg.get("assumptions", [])), "wall_s": 0.0, "violations": 0,
    }
    cov = ev["coverage"]

    # ---- 1. proofs ----
    rc, out = coq_make()
    bad = scan_forbidden()
    if rc != 0:
        violations.append((write_replay(pid, "coq_build", {
            "kind": "proof-obligation", "what": "the Coq development no longer builds", "log": out[-6000:]}),
            "no-failing-input-found"))
        n_thm = n_closed = 0
        thms = []
    else:
        n_thm, n_closed, problems, thms = check_property_file(pid)
        problems += bad
        if problems or n_thm == 0 or n_closed != n_thm:
            violations.append((write_replay(pid, "theorems", {
                "kind": "proof-obligation", "file": "coq/theories/Properties/%s.v" % pid,
                "theorems": thms, "problems": problems}), "no-failing-input-found"))
    cov["obligations"] = max(n_thm, 1)
    cov["discharged"] = n_closed
    cov["theorems"] = thms
    cov["checker_cmd"] = "make -C /verif/coq -j16 && coqc -Q /verif/coq/theories LC /verif/coq/theories/Properties/%s.v  (every theorem followed by Print Assumptions: 'Closed under the global context')" % pid
    cov["trusted_base"] = TRUSTED_BASE_COMMON + list(cfg.get("trusted_base", []))

    # ---- 2. implementation ----
    exe, err = build_harness()
    cases, stats = [], {}
    ops = cfg.get("ops") or [(cfg["op"], cfg["run_module"], cfg["n"])]
    if exe is None:
        violations.append((write_replay(pid, "harness_build", {
            "kind": "correspondence", "what": "the harness no longer compiles against /repo's working tree, "
            "so the model/implementation correspondence of %s cannot be established" % pid,
            "compiler_output": err}), "no-failing-input-found"))
    else:
        for (op, run_module, nn) in ops:
            n = nn[tier]
            tsv = os.path.join(wdir, "cases_%s.tsv" % op)
            rc, out = run_harness(exe, op, seed, n, tsv, extra_env={"VERIF_TIER": tier},
                                  timeout=cfg.get("timeout", {}).get(tier, 3000))
            if rc != 0 or not os.path.exists(tsv):
                violations.append((write_replay(pid, "harness_run_" + op, {
                    "kind": "correspondence", "what": "the harness operation '%s' aborted" % op,
                    "seed": seed, "n": n, "output": out[-6000:]}), "no-failing-input-found"))
            else:
                cs, st = read_cases(tsv)
                if "ABORT" in st:
                    violations.append((write_replay(pid, "harness_abort_" + op, {
                        "kind": "correspondence", "what": "the harness operation '%s' unwound outside a handler call after %d cases "
                        "(a storage accessor or the protocol object panicked): %s" % (op, len(cs), st["ABORT"]),
                        "seed": seed, "n": n, "last_case": (cs[-1].descr if cs else None)}), "no-failing-input-found"))
                for c in cs:
                    c.op, c.run_module, c.n = op, run_module, n
                    c.id = op + ":" + c.id
                cases.extend(cs)
                for k, v in st.items():
                    stats[op + ":" + k] = v

    # ---- 3. model ----
    mism = []
    if cases:
        by_mod = {}
        for c in cases:
            by_mod.setdefault(c.run_module, []).append(c)
        for run_module, cs in by_mod.items():
            mdir = os.path.join(wdir, run_module)
            os.makedirs(mdir, exist_ok=True)
            mism_idx, errors = eval_model(run_module, cs, mdir)
            if errors:
                violations.append((write_replay(pid, "model_eval_" + run_module, {
                    "kind": "correspondence", "what": "coqc failed while evaluating the model on the cases",
                    "errors": errors[:3]}), "no-failing-input-found"))
            mism.extend(cs[i] for i in mism_idx)
    mism_ids = set(c.id for c in mism)

    # ---- 4/5. oracle verdicts and known findings ----
    known = load_known(pid)
    known_classes = {}
    for k in known:
        known_classes.setdefault(k["class"], []).append(k)
    all_failing = [c for c in cases if c.oracle.startswith("FAIL")]
    # an oracle failure is judged by the check of the property its class names (C10-..., C05-...)
    def own(c):
        return [x for x in c.fail_classes() if x.startswith(pid) or x == "unclassified"]
    failing = [c for c in all_failing if own(c)]
    foreign = {}
    for c in all_failing:
        for x in c.fail_classes():
            if not (x.startswith(pid) or x == "unclassified"):
                foreign[x] = foreign.get(x, 0) + 1
    kf_hits = {}
    new_fail = []
    for c in failing:
        classes = own(c)
        # suppressed only when every class of this property in the message is a listed finding and the model agrees
        if all(x in known_classes for x in classes) and c.id not in mism_ids:
            for x in classes:
                kf_hits.setdefault(x, []).append(c)
        else:
            new_fail.append(c)
    for cls, entries in known_classes.items():
        hits = kf_hits.get(cls, [])
        for k in entries:
            wit = k.get("witness")
            # every listed finding is reported on every run, with the number of cases of its class met this time
            if True:
                known_lines.append("KNOWN-FINDING: property=%s %s [class %s, witness %s, %d case(s) of this class in this run]"
                                   % (pid, k["what"], cls, wit, len(hits)))

    # new oracle failures: concrete failing inputs
    for c in new_fail[:5]:
        payload = {"kind": "failing-input", "property": pid, "op": c.op, "seed": seed, "n": c.n,
                   "case_id": c.id, "tags": c.tags, "oracle": c.oracle, "input": c.descr,
                   "implementation_observation": c.impl, "model_expression": c.model,
                   "model_disagrees": c.id in mism_ids,
                   "replay": "VERIF_OP=%s VERIF_SEED=%d VERIF_N=%d VERIF_CASE=%s (./vp replay <this file>)"
                             % (c.op, seed, c.n, c.id.split(":", 1)[1])}
        violations.append((write_replay(pid, "fail_" + re.sub(r"[^A-Za-z0-9_.-]", "_", c.id), payload), ""))
    # model / implementation disagreements without a failing oracle
    pure_mism = [c for c in mism if not (c.oracle.startswith("FAIL") and c in new_fail)]
    if pure_mism and not new_fail:
        c = pure_mism[0]
        payload = {"kind": "correspondence", "property": pid, "op": c.op, "seed": seed, "n": c.n,
                   "what": "model (coq/theories/Run/%s.v) and implementation disagree on %d case(s); the "
                           "theorems of Properties/%s.v are therefore no longer shown to describe this code. "
                           "The property oracles found no failing input among the %d cases of this run."
                           % (c.run_module, len(mism), pid, len(cases)),
                   "first_case": {"case_id": c.id, "tags": c.tags, "input": c.descr, "implementation_observation": c.impl,
                                  "model_expression": c.model, "model_observation": model_value(c.run_module, c, wdir)},
                   "all_disagreeing_case_ids": [x.id for x in mism][:200]}
        violations.append((write_replay(pid, "correspondence", payload), "no-failing-input-found"))

    # ---- 6. evidence ----
    nontrivial = {}
    tag_hist = {}
    obs_hist = {}
    for c in cases:
        for t in c.tags:
            tag_hist[t] = tag_hist.get(t, 0) + 1
        obs_hist[c.impl[:40]] = obs_hist.get(c.impl[:40], 0) + 1
        if "trivial" not in c.tags:
            nontrivial[hashlib.sha1(c.model.encode()).hexdigest()] = 1
    cov["evaluations"] = len(cases)
    cov["distinct_nontrivial"] = len(nontrivial)
    cov["rule"] = cfg.get("rule", "")
    cov["traces_validated_against_impl"] = len(cases) - len(mism)
    cov["model_impl_disagreements"] = len(mism)
    cov["disagreeing_case_ids"] = [c.id for c in mism][:20]
    cov["oracle_failures"] = len(failing)
    cov["oracle_failures_of_other_properties_seen"] = foreign
    cov["oracle_failures_in_known_classes"] = sum(len(v) for v in kf_hits.values())
    cov["input_distribution_by_tag"] = tag_hist
    cov["observation_histogram"] = dict(sorted(obs_hist.items(), key=lambda kv: -kv[1])[:12])
    cov["harness_stats"] = stats
    step = max(1, len(cases) // 6)
    cov["samples"] = [{"id": c.id, "input": c.descr[:600], "impl": c.impl[:200], "oracle": c.oracle[:200]}
                      for c in cases[::step][:6]] or [{"note": "no cases were produced"}]
    cov["known_findings_reported"] = known_lines
    ev["violations"] = len(violations)
    ev["wall_s"] = round(time.time() - t0, 2)
    with open(os.path.join(EVIDENCE, pid + ".json"), "w") as f:
        json.dump(ev, f, indent=1)

    for line in known_lines:
        log(line)
    log("%s tier=%s seed=%d: %d theorems closed / %d; %d cases, %d model/impl disagreements, %d oracle failures "
        "(%d in known classes); %.1fs" % (pid, tier, seed, n_closed, n_thm, len(cases), len(mism), len(failing),
                                        cov["oracle_failures_in_known_classes"], ev["wall_s"]))
    if violations:
        for path, suffix in violations:
            log(("VIOLATION property=%s replay=%s %s" % (pid, path, suffix)).rstrip())
        return 1
    return 0


def setup():
    rc, out = coq_make()
    log(out[-2000:])
    if rc != 0:
        return rc
    exe, err = build_harness()
    if exe is None:
        log(err)
        return 1
    log("harness: " + exe)
    return 0


def replay(path):
    j = json.load(open(path))
    log(json.dumps(j, indent=1)[:6000])
    if j.get("kind") not in ("failing-input", "correspondence") or "op" not in j:
        return 0
    case_id = j.get("case_id") or j.get("first_case", {}).get("case_id")
    if case_id and ":" in case_id:
        case_id = case_id.split(":", 1)[1]
    exe, err = build_harness()
    if exe is None:
        log(err)
        return 1
    wdir = os.path.join(WORK, "replay")
    os.makedirs(wdir, exist_ok=True)
    tsv = os.path.join(wdir, "cases.tsv")
    rc, out = run_harness(exe, j["op"], j["seed"], j["n"], tsv, extra_env={"VERIF_CASE": case_id})
    log(out[-2000:])
    if os.path.exists(tsv):
        log(open(tsv).read()[:6000])
    return 0


def main(argv):
    if len(argv) < 2:
        print(__doc__)
        return 2
    cmd = argv[1]
    if cmd == "setup":
        return setup()
    if cmd == "check":
        pid = argv[2]
        tier = os.environ.get("VERIF_TIER", "quick")
        seed = int(os.environ.get("VERIF_SEED", "1"))
        args = argv[3:]
        i = 0
        while i < len(args):
            if args[i] == "--tier":
                tier = args[i + 1]
                i += 2
            elif args[i] == "--seed":
                seed = int(args[i + 1])
                i += 2
            else:
                i += 1
        if tier not in ("quick", "thorough"):
            tier = "quick"
        return check(pid, tier, seed)
    if cmd == "replay":
        return replay(argv[2])
    print(__doc__)
    return 2


if __name__ == "__main__":
    sys.exit(main(sys.argv))
