(* Byte-level encoding of the two meta values that carry the trusted tip across a restart
   (storage.rs update_last_state / get_last_state, update_last_n_headers / get_last_n_headers):
     LAST_STATE      = total difficulty as 32 little-endian bytes ++ header bytes
     LAST_N_HEADERS  = for each header: number as 8 little-endian bytes ++ 32-byte hash *)
From Coq Require Export NArith List.
Export ListNotations.
Open Scope N_scope.

Fixpoint le_bytes (n : nat) (x : N) : list N :=
  match n with
  | O => []
  | S n' => (x mod 256) :: le_bytes n' (x / 256)
  end.

Fixpoint of_le (bs : list N) : N :=
  match bs with
  | [] => 0
  | b :: tl => b + 256 * of_le tl
  end.

Definition enc_last_state (td : N) (header : list N) : list N := le_bytes 32 td ++ header.

Definition dec_last_state (v : list N) : option (N * list N) :=
  if Nat.ltb (length v) 32 then None else Some (of_le (firstn 32 v), skipn 32 v).

Definition enc_entry (e : N * list N) : list N := le_bytes 8 (fst e) ++ snd e.
Definition enc_last_n (l : list (N * list N)) : list N := flat_map enc_entry l.

(* data.chunks(40) with the assert!(data.len() % 40 == 0): fuel = number of entries *)
Fixpoint dec_last_n (fuel : nat) (v : list N) : list (N * list N) :=
  match fuel with
  | O => []
  | S f =>
      match v with
      | [] => []
      | _ => (of_le (firstn 8 v), firstn 32 (skipn 8 v)) :: dec_last_n f (skipn 40 v)
      end
  end.
