(* C02 — Only data committed by a proven header is ever indexed or served as fetched.
   Model: Model/Fetch.v — SendBlocksProofProcess::execute, SendTransactionsProofProcess::execute and the
   acceptance of a SendBlock body (Peers::add_block + the transactions-root check added by commit 6a54662).
   Library verdicts (PoW, extra hash, MMR proof against the message's last header, transactions Merkle proof)
   are oracle inputs of each message; the harness computes them with direct library calls.

   - [C02_header_stored_only_if_proven]: a header handed to add_fetched_header was being fetched, is one of the
     message's headers, the message answers an outstanding request of this peer for the same last header
     (the client's proven tip when the request was built), carries exactly the requested hashes, and passed
     PoW, extra-hash and MMR verification.
   - [C02_answer_carries_exactly_the_request]: with a duplicate-free request, every header / missing hash of an
     accepted answer was requested (headers outside the request are impossible).
   - [C02_rejected_answer_stores_nothing], [C02_unsolicited_answer_ignored].
   - [C02_transaction_stored_only_if_committed]: a transaction handed to add_fetched_tx was being fetched, sits in
     a filtered block of the message whose Merkle proof yields its header's transactions root, and that
     header passed MMR verification against the requested last header.
   - [C02_block_body_accepted_only_if_committed]: a SendBlock body is kept only for a hash that is matched AND
     proved AND whose transactions hash to the header's transactions root. *)
From Coq Require Import NArith List.
From LC Require Import Fetch FetchProofs.
Import ListNotations.
Open Scope N_scope.

Theorem C02_header_stored_only_if_proven :
  forall req m t h,
    In h (bo_stored (blocks_proof req m t)) ->
    exists r, req = Some r /\ br_last r = bm_last m /\ same_hashes (br_hashes r) (bm_headers m) (bm_missing m) = true /\
              In h (bm_headers m) /\ t_get h t <> None /\
              bm_pow_ok m = true /\ bm_mmr_ok m = true /\ bm_extra m <> 2 /\ bm_extra m <> 3 /\
              bo_code (blocks_proof req m t) = 200.
Proof. exact blocks_proof_stored. Qed.
Print Assumptions C02_header_stored_only_if_proven.

Theorem C02_answer_carries_exactly_the_request :
  forall req recv missing,
    NoDup req -> same_hashes req recv missing = true -> forall h, In h (recv ++ missing) -> In h req.
Proof. exact same_hashes_exact. Qed.
Print Assumptions C02_answer_carries_exactly_the_request.

Theorem C02_rejected_answer_stores_nothing :
  forall req m t,
    bo_code (blocks_proof req m t) <> 200 ->
    bo_stored (blocks_proof req m t) = [] /\ bo_proved (blocks_proof req m t) = [].
Proof. exact blocks_proof_rejected. Qed.
Print Assumptions C02_rejected_answer_stores_nothing.

Theorem C02_unsolicited_answer_ignored :
  forall m t mt tt th,
    blocks_proof None m t = mkBO E_NOT_ON_PROCESS t [] [] false /\
    txs_proof None mt tt th = mkTO E_NOT_ON_PROCESS tt th [] false.
Proof. intros. split; reflexivity. Qed.
Print Assumptions C02_unsolicited_answer_ignored.

Theorem C02_transaction_stored_only_if_committed :
  forall req m tt th t b,
    In (t, b) (to_stored (txs_proof req m tt th)) ->
    exists last hashes, req = Some (last, hashes) /\ last = tm_last m /\
       same_hashes hashes (flat_map snd (tm_blocks m)) (tm_missing m) = true /\
       (exists txs, In (b, txs) (tm_blocks m) /\ In t txs) /\ t_get t tt <> None /\
       tm_pow_ok m = true /\ tm_mmr_ok m = true /\ tm_merkle_ok m = true /\ tm_extra m <> 2 /\ tm_extra m <> 3.
Proof. exact txs_proof_stored. Qed.
Print Assumptions C02_transaction_stored_only_if_committed.

Theorem C02_block_body_accepted_only_if_committed :
  forall matched h body_ok,
    accept_block matched h body_ok = true ->
    body_ok = true /\ exists e, In e matched /\ fst e = h /\ snd e = true.
Proof. exact accept_block_spec. Qed.
Print Assumptions C02_block_body_accepted_only_if_committed.

Example C02_accepts_an_honest_answer :
  bo_stored (blocks_proof (Some (mkBR 9 [1; 2] false)) (mkBM 9 200 false [1] [2] true 1 true) [(1, mkFI 5 6 false false); (2, mkFI 5 6 false false)]) = [1].
Proof. vm_compute. reflexivity. Qed.
