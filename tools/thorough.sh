#!/bin/sh
# usage: tools/thorough.sh [ids...]  -- runs the thorough tier of each check once, with timing
ids="$@"; [ -z "$ids" ] && ids="C01 C02 C03 C04 C05 C06 C07 C08 C09 C10 C11 C12 C13 C14 C15 C16 C17 C18"
for p in $ids; do
  t0=$(date +%s)
  out=$(./vp check $p --tier thorough 2>&1); rc=$?
  t1=$(date +%s)
  echo "$p rc=$rc $((t1-t0))s :: $(echo "$out" | grep 'tier=' | tail -1 | cut -c1-170)"
  [ $rc -ne 0 ] && echo "$out" | grep VIOLATION | head -3
done
