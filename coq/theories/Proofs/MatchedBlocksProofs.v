(* C10 for SendBlock: the three aborts of SyncProtocol::received are unreachable, because the in-memory table is always
   empty or the image of the EARLIEST pending record - an invariant of every operation that touches either. *)
From Coq Require Import NArith PeanoNat List Bool Lia.
From LC Require Import Res U MatchedBlocks.
Import ListNotations.
Open Scope N_scope.

(* the table is empty, or holds exactly the hashes of the earliest record (bodies arrived or not) *)
Definition table_inv (s : mb) : Prop :=
  m_table s = [] \/ exists start hs rest, m_records s = (start, hs) :: rest /\ map fst (m_table s) = hs /\ hs <> [].

(* records never have an empty hash list *)
Definition recs_ok (s : mb) : Prop := Forall (fun r => snd r <> []) (m_records s).

Lemma map_fst_load hs : map fst (load hs) = hs.
Proof. unfold load. rewrite map_map. cbn. apply map_id. Qed.

Lemma map_fst_mark h t : map fst (mark h t) = map fst t.
Proof. induction t as [|[x b] t IH]; [reflexivity|]. cbn [mark]. destruct (x =? h); cbn [map fst]; [reflexivity | rewrite IH; reflexivity]. Qed.

Lemma reload_inv recs : Forall (fun r : N * list N => snd r <> []) recs -> table_inv (mkMB recs (reload recs)).
Proof.
  intros H. destruct recs as [|[st hs] rest]; [left; reflexivity|]. right. exists st, hs, rest. cbn [reload m_records m_table].
  split; [reflexivity|]. split; [apply map_fst_load|]. inversion H; subst. assumption.
Qed.

Lemma insert_ok r l : snd r <> [] -> Forall (fun x : N * list N => snd x <> []) l -> Forall (fun x => snd x <> []) (insert_record r l).
Proof.
  intros Hr. induction l as [|x tl IH]; intros H; cbn [insert_record]; [constructor; [exact Hr | constructor]|].
  inversion H; subst. destruct (fst r <? fst x); [constructor; assumption|]. destruct (fst r =? fst x); [constructor; assumption|].
  constructor; [assumption | apply IH; assumption].
Qed.

(* a record inserted in front of, or in place of, the earliest one would change what the table has to mirror: batches are only
   accepted right after the current filter progress, which lies at or beyond every pending record *)
Definition appends (start : N) (s : mb) : Prop := Forall (fun r => fst r < start) (m_records s).

Lemma insert_behind start hs l : Forall (fun r : N * list N => fst r < start) l -> insert_record (start, hs) l = l ++ [(start, hs)].
Proof.
  induction l as [|x tl IH]; intros H; [reflexivity|]. inversion H; subst. cbn [insert_record fst].
  destruct (N.ltb_spec start (fst x)); [lia|]. destruct (N.eqb_spec start (fst x)); [lia|]. cbn [app]. f_equal. apply IH. assumption.
Qed.

Definition ev_ok (s : mb) (e : mev) : Prop :=
  match e with M_batch start hs => appends start s | _ => True end.

Theorem mstep_keeps_inv s e s' :
  table_inv s -> recs_ok s -> ev_ok s e -> mstep s e = Ok s' -> table_inv s' /\ recs_ok s'.
Proof.
  intros HI HR He H. destruct e as [start hs|h| | |to|]; cbn [mstep] in H.
  - destruct hs as [|h0 hs]; [inversion H; subst; split; assumption|]. inversion H; subst; clear H. cbn [ev_ok] in He.
    rewrite (insert_behind _ _ _ He). split.
    + destruct (m_table s) as [|x t] eqn:Et.
      * apply reload_inv. apply Forall_app. split; [exact HR | constructor; [discriminate | constructor]].
      * destruct HI as [HI|(st & hs' & rest & Hr & Hm & Hne)]; [rewrite Et in HI; discriminate|].
        right. exists st, hs', (rest ++ [(start, h0 :: hs)]). cbn [m_records m_table]. rewrite Hr. split; [reflexivity|]. rewrite <- Et. split; assumption.
    + unfold recs_ok. cbn [m_records]. apply Forall_app. split; [exact HR | constructor; [discriminate | constructor]].
  - set (t := mark h (m_table s)) in *. destruct t as [|x t'] eqn:Et; [inversion H; subst; split; assumption|].
    destruct (all_arrived (x :: t')).
    + destruct (m_records s) as [|[st hs] rest] eqn:Er; [discriminate|].
      destruct (negb (Nat.eqb (length (x :: t')) (length hs))); [discriminate|].
      destruct (negb (forallb (fun y => existsb (N.eqb (fst y)) hs) (x :: t'))); [discriminate|].
      inversion H; subst; clear H. unfold recs_ok in HR. rewrite Er in HR. inversion HR; subst.
      split; [apply reload_inv; assumption | assumption].
    + inversion H; subst; clear H. split; [|exact HR].
      destruct HI as [HI|(st & hs' & rest & Hr & Hm & Hne)].
      * unfold t in Et. rewrite HI in Et. discriminate.
      * right. exists st, hs', rest. cbn [m_records m_table]. split; [exact Hr|]. split; [|exact Hne].
        rewrite <- Et. unfold t. rewrite map_fst_mark. exact Hm.
  - inversion H; subst; clear H. split; [|exact HR]. destruct (m_table s) as [|x t] eqn:Et.
    + apply reload_inv. exact HR.
    + destruct HI as [HI|(st & hs' & rest & Hr & Hm & Hne)]; [rewrite Et in HI; discriminate|].
      right. exists st, hs', rest. cbn [m_records m_table]. rewrite <- Et. repeat split; assumption.
  - inversion H; subst. split; [left; reflexivity | constructor].
  - inversion H; subst; clear H. split; [left; reflexivity|]. unfold recs_ok. cbn [m_records].
    apply Forall_forall. intros r Hr. apply filter_In in Hr. destruct Hr as [Hr _]. unfold recs_ok in HR. rewrite Forall_forall in HR. apply HR. exact Hr.
  - inversion H; subst. split; [left; reflexivity | exact HR].
Qed.

(* under the invariant no step unwinds: SendBlock's expect and both asserts hold *)
Theorem mstep_never_panics s e : table_inv s -> recs_ok s -> is_panic (mstep s e) = false.
Proof.
  intros HI HR. destruct e as [start hs|h| | |to|]; cbn [mstep]; try reflexivity.
  - destruct hs; reflexivity.
  - set (t := mark h (m_table s)). destruct t as [|x t'] eqn:Et; [reflexivity|].
    destruct (all_arrived (x :: t')) eqn:Ea; [|reflexivity].
    destruct HI as [HI|(st & hs' & rest & Hr & Hm & Hne)]; [unfold t in Et; rewrite HI in Et; discriminate|].
    rewrite Hr.
    assert (Hmt : map fst (x :: t') = hs') by (rewrite <- Et; unfold t; rewrite map_fst_mark; exact Hm).
    assert (Hlen : length (x :: t') = length hs') by (rewrite <- Hmt, map_length; reflexivity).
    rewrite Hlen, Nat.eqb_refl. cbn [negb].
    assert (Hall : forallb (fun y => existsb (N.eqb (fst y)) hs') (x :: t') = true).
    { apply forallb_forall. intros y Hy. apply existsb_exists. exists (fst y). split; [rewrite <- Hmt; apply in_map; exact Hy | apply N.eqb_refl]. }
    rewrite Hall. reflexivity.
Qed.

(* every history from an empty client: the invariant holds throughout and nothing unwinds *)
Fixpoint evs_ok (s : mb) (evs : list mev) : Prop :=
  match evs with
  | [] => True
  | e :: tl => ev_ok s e /\ match mstep s e with Ok s' => evs_ok s' tl | _ => True end
  end.

Theorem mrun_never_panics : forall evs s, table_inv s -> recs_ok s -> evs_ok s evs -> is_panic (mrun s evs) = false.
Proof.
  induction evs as [|e tl IH]; intros s HI HR Hok; [reflexivity|]. cbn [mrun]. destruct Hok as [He Htl].
  pose proof (mstep_never_panics s e HI HR) as Hnp.
  destruct (mstep s e) as [s'| |] eqn:Es; cbn [bind]; [|reflexivity|discriminate Hnp].
  destruct (mstep_keeps_inv s e s' HI HR He Es) as [HI' HR']. apply IH; assumption.
Qed.

(* without the invariant the aborts are real: a table that does not mirror the earliest record *)
Example send_block_aborts_without_the_invariant :
  mstep (mkMB [(5, [11; 12])] [(11, true); (13, false)]) (M_block 13) = Panic S_SB_FOREIGN.
Proof. vm_compute. reflexivity. Qed.
