(* How get_transaction / fetch_transaction pair a stored transaction with a block (C16, second sentence):
   Storage::get_transaction_with_header (storage.rs) reads TxHash -> (block NUMBER, index, tx), then
   BlockNumber(number) -> block hash, then BlockHash(hash) -> header.  Both maps are written by filter_block for a
   matched block and by add_fetched_tx / add_fetched_header; rollback_to_block touches neither.
   The model keeps exactly these two maps; a history is the list of (block hash, block number, recorded transactions)
   in the order they were written. *)
From LC Require Export Store.
Open Scope N_scope.

Record pstore := mkPS { p_txs : list (txid * N); p_num : list (N * N) }.

Definition index_block (st : pstore) (b : N * N * list txid) : pstore :=
  let '(bh, bn, ts) := b in
  mkPS (fold_left (fun m t => a_put N.eqb t bn m) ts (p_txs st)) (a_put N.eqb bn bh (p_num st)).

Definition run_index (hist : list (N * N * list txid)) : pstore := fold_left index_block hist (mkPS [] []).

(* the block hash get_transaction reports for a transaction *)
Definition reported_block (st : pstore) (t : txid) : option N :=
  match a_get N.eqb t (p_txs st) with
  | Some bn => a_get N.eqb bn (p_num st)
  | None => None
  end.
