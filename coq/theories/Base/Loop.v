(* A bounded loop with early exit, structurally recursive on the binary iteration count, so
   a model can carry a u64 loop bound without unary fuel.  [loopN n f a] runs [f] at most [n]
   times, threading the state through [inl] and stopping at the first [inr]. *)
From Coq Require Import NArith PArith.
Open Scope N_scope.

Section Loop.
  Context {A B : Type} (f : A -> A + B).

  Fixpoint loop_pos (p : positive) (a : A) : A + B :=
    match p with
    | xH => f a
    | xO p' =>
        match loop_pos p' a with
        | inl a' => loop_pos p' a'
        | inr b => inr b
        end
    | xI p' =>
        match f a with
        | inl a1 =>
            match loop_pos p' a1 with
            | inl a2 => loop_pos p' a2
            | inr b => inr b
            end
        | inr b => inr b
        end
    end.

  Definition loopN (n : N) (a : A) : A + B :=
    match n with
    | N0 => inl a
    | Npos p => loop_pos p a
    end.

  (* reference semantics: unary iteration *)
  Fixpoint loop_nat (n : nat) (a : A) : A + B :=
    match n with
    | O => inl a
    | S n' =>
        match f a with
        | inl a' => loop_nat n' a'
        | inr b => inr b
        end
    end.
End Loop.
