(* Machine integers as N with explicit overflow behaviour (see DESIGN section 3):
   the crate is built with overflow-checks in every profile, numext U256 operators panic
   on overflow in every build. *)
From Coq Require Export NArith Lia.
From LC Require Export Res.
Open Scope N_scope.

Definition U16MAX : N := 65535.
Definition U24MAX : N := 16777215.
Definition U32MAX : N := 4294967295.
Definition U64MAX : N := 18446744073709551615.
Definition U256MAX : N := 2 ^ 256 - 1.

Definition in_u16 (x : N) : Prop := x <= U16MAX.
Definition in_u24 (x : N) : Prop := x <= U24MAX.
Definition in_u32 (x : N) : Prop := x <= U32MAX.
Definition in_u64 (x : N) : Prop := x <= U64MAX.
Definition in_u256 (x : N) : Prop := x <= U256MAX.

(* checked (panicking) operators; [site] identifies the source line for replay *)
Definition add_chk (max site a b : N) : res N :=
  if a + b <=? max then Ok (a + b) else Panic site.
Definition sub_chk (site a b : N) : res N :=
  if b <=? a then Ok (a - b) else Panic site.
Definition mul_chk (max site a b : N) : res N :=
  if a * b <=? max then Ok (a * b) else Panic site.

Definition add64 := add_chk U64MAX.
Definition mul64 := mul_chk U64MAX.
Definition add256 := add_chk U256MAX.
Definition mul256 := mul_chk U256MAX.

Definition sat_mul256 (a b : N) : N := N.min (a * b) U256MAX.
Definition sat_sub (a b : N) : N := a - b. (* N subtraction truncates at 0 = saturating_sub *)
