(* Lemmas about Model/Filters.v (C06). *)
From Coq Require Import NArith Lia List Bool Arith.
From LC Require Import Filters.
Import ListNotations.
Open Scope N_scope.
Open Scope bool_scope.

(* the hashes obtained by chaining the filters from [parent] *)
Fixpoint chained (t : list (hash * N * hash)) (parent : hash) (filters : list N) : list hash :=
  match filters with
  | [] => []
  | f :: tl => let cur := hlookup t parent f in cur :: chained t cur tl
  end.

Lemma chain_check_spec t : forall filters expected parent p',
  chain_check t parent filters expected = Some p' ->
  firstn (Nat.min (length filters) (length expected)) (chained t parent filters) =
  firstn (Nat.min (length filters) (length expected)) expected.
Proof.
  induction filters as [|f ftl IH]; intros expected parent p' H; [reflexivity|].
  destruct expected as [|e etl]; [reflexivity|]. cbn [chain_check] in H.
  destruct (N.eqb_spec (hlookup t parent f) e) as [E|E]; [|discriminate].
  cbn [length Nat.min chained firstn]. rewrite E. f_equal. rewrite <- E. eapply IH. exact H.
Qed.

Lemma chain_check_complete t : forall filters expected parent,
  firstn (Nat.min (length filters) (length expected)) (chained t parent filters) =
  firstn (Nat.min (length filters) (length expected)) expected ->
  exists p', chain_check t parent filters expected = Some p'.
Proof.
  induction filters as [|f ftl IH]; intros expected parent H; [eexists; reflexivity|].
  destruct expected as [|e etl]; [eexists; reflexivity|]. cbn [length Nat.min chained firstn] in H.
  inversion H as [[E H']]. cbn [chain_check]. rewrite E, N.eqb_refl. apply IH. rewrite <- E. exact H'.
Qed.

Lemma skipn_S_nth {A} (l : list A) : forall n x, nth_error l n = Some x -> x :: skipn (S n) l = skipn n l.
Proof.
  induction l as [|a l IH]; intros n x H; [destruct n; discriminate|]. destruct n as [|n].
  - inversion H; subst. reflexivity.
  - cbn [skipn]. apply IH. exact H.
Qed.

(* precise statement for the two regimes *)
Lemma expected_hashes_latest w start parent expected :
  fw_interval w * fw_fin_index w < start ->
  expected_hashes w start = Ok (Some (parent, expected)) ->
  parent :: expected = skipn (N.to_nat (start - fw_interval w * fw_fin_index w - 1)) (fw_fin_hash w :: fw_latest w).
Proof.
  intros Hlt H. unfold expected_hashes in H.
  destruct (N.leb_spec start (fw_interval w * fw_fin_index w)) as [Hle|_]; [lia|].
  destruct (N.eqb_spec start (fw_interval w * fw_fin_index w + 1)) as [E|E].
  - inversion H; subst. replace (N.to_nat _) with 0%nat by lia. reflexivity.
  - destruct (nth_error (fw_latest w) _) as [p|] eqn:Nth; [|discriminate]. inversion H; subst.
    replace (N.to_nat (start - fw_interval w * fw_fin_index w - 1)) with (S (N.to_nat (start - fw_interval w * fw_fin_index w - 2))) by lia.
    cbn [skipn]. apply skipn_S_nth. exact Nth.
Qed.

Lemma expected_hashes_cached w start parent expected :
  start <= fw_interval w * fw_fin_index w ->
  expected_hashes w start = Ok (Some (parent, expected)) ->
  fw_interval w * fw_cached_index w < start /\ start <= fw_interval w * (fw_cached_index w + 1) /\
  exists cp, (start = fw_interval w * fw_cached_index w + 1 -> fw_cached_cp w = Some cp) /\
    parent :: expected = skipn (N.to_nat (start - fw_interval w * fw_cached_index w - 1)) (cp :: fw_cached w).
Proof.
  intros Hle H. unfold expected_hashes in H.
  destruct (N.leb_spec start (fw_interval w * fw_fin_index w)) as [_|Hgt]; [|lia].
  destruct (N.leb_spec start (fw_interval w * fw_cached_index w)) as [H1|H1]; cbn [orb] in H; [discriminate|].
  destruct (N.ltb_spec (fw_interval w * (fw_cached_index w + 1)) start) as [H2|H2]; [discriminate|].
  split; [exact H1|]. split; [exact H2|].
  destruct (fw_cached w) as [|c0 ctl] eqn:C; [discriminate|]. rewrite <- C in *.
  destruct (N.eqb_spec start (fw_interval w * fw_cached_index w + 1)) as [E|E].
  - destruct (fw_cached_cp w) as [cp|]; [|discriminate]. inversion H; subst. exists parent. split; [reflexivity|].
    replace (N.to_nat _) with 0%nat by lia. reflexivity.
  - destruct (nth_error (fw_cached w) _) as [p|] eqn:Nth; [|discriminate]. inversion H; subst. exists 0.
    split; [intros; lia|].
    replace (N.to_nat (start - fw_interval w * fw_cached_index w - 1)) with (S (N.to_nat (start - fw_interval w * fw_cached_index w - 2))) by lia.
    cbn [skipn]. apply skipn_S_nth. exact Nth.
Qed.

(* ------------------------------------------------------------------------------------ *)
(* what an accepted batch looks like *)

Lemma execute_cases w m o :
  execute w m = Ok o ->
  (o = nothing w) \/
  (o = mkFO 0 (fw_min w) (if fw_db_pending w then None else Some (fw_min w)) None false None /\ fw_min w + 1 <> m_start m) \/
  (exists code, o = banned w code) \/
  (exists tip parent expected,
     fw_scripts w <> [] /\ fw_peer w = Some (Some tip) /\
     fw_min w + 1 = m_start m /\ length (m_filters m) = length (m_hashes m) /\ m_filters m <> [] /\
     expected_hashes w (m_start m) = Ok (Some (parent, expected)) /\
     let limit := Nat.min (length (m_filters m)) (length expected) in
     firstn limit (chained (fw_htable w) parent (m_filters m)) = firstn limit expected /\
     let active := active_scripts w (m_start m + N.of_nat limit) in
     let matched := matched_hashes w active limit (m_filters m) (m_hashes m) in
     fo_ban o = 0 /\ fo_min o = fw_min w + N.of_nat limit /\
     fo_record o = match matched with [] => None | _ => Some (m_start m, N.of_nat limit, map (fun h => (h, h =? tip)) matched) end /\
     fo_bump o = match matched with [] => if fw_mem_empty w && negb (fw_db_pending w) then Some (fw_min w + N.of_nat limit) else None | _ => None end).
Proof.
  unfold execute. intros H.
  destruct (fw_scripts w) as [|s0 stl] eqn:S; [left; inversion H; reflexivity|].
  destruct (fw_peer w) as [[tip|]|] eqn:P; try (left; inversion H; reflexivity).
  destruct (N.eqb_spec (fw_min w + 1) (m_start m)) as [E1|E1]; cbn [negb] in H.
  2: { right; left. inversion H; subst. split; [reflexivity | exact E1]. }
  destruct (N.eqb_spec (lenN (m_filters m)) (lenN (m_hashes m))) as [E2|E2]; cbn [negb] in H.
  2: { right; right; left. eexists. inversion H; reflexivity. }
  destruct (N.eqb_spec (lenN (m_filters m)) 0) as [E3|E3]; [left; inversion H; reflexivity|].
  destruct (expected_hashes w (m_start m)) as [[[parent expected]|]| |] eqn:EH; cbn [bind] in H; try discriminate.
  2: { left; inversion H; reflexivity. }
  destruct (chain_check _ _ _ _) as [p'|] eqn:CC.
  2: { right; right; left. eexists. inversion H; reflexivity. }
  right; right; right. exists tip, parent, expected.
  set (limit := Nat.min (length (m_filters m)) (length expected)) in *.
  assert (Hlen : length (m_filters m) = length (m_hashes m)) by (unfold lenN in E2; lia).
  assert (Hne : m_filters m <> []) by (intros Z; rewrite Z in E3; apply E3; reflexivity).
  split; [discriminate|]. split; [reflexivity|]. split; [exact E1|]. split; [exact Hlen|]. split; [exact Hne|]. split; [reflexivity|].
  cbv zeta. split.
  - (* the chain over the first [limit] filters *)
    apply chain_check_spec in CC. rewrite firstn_length in CC.
    assert (Hmin : Nat.min (Nat.min limit (length (m_filters m))) (length expected) = limit) by (unfold limit; lia).
    rewrite Hmin in CC. rewrite <- CC. clear.
    generalize (fw_htable w) parent (m_filters m) limit. intros t. clear.
    intros p fs. revert p. induction fs as [|f fs IH]; intros p l; [destruct l; reflexivity|].
    destruct l as [|l]; [reflexivity|]. cbn [firstn chained]. f_equal. apply IH.
  - inversion H; subst; clear H. cbn [fo_ban fo_min fo_record fo_bump].
    split; [reflexivity|]. split; [lia|]. split; [reflexivity|].
    destruct (matched_hashes _ _ _ _ _); [|reflexivity]. destruct (fw_mem_empty w && negb (fw_db_pending w)); [f_equal; lia | reflexivity].
Qed.

Lemma execute_min_monotone w m o : execute w m = Ok o -> fw_min w <= fo_min o.
Proof.
  intros H. apply execute_cases in H. destruct H as [->|[[-> _]|[[c ->]|(tip & p & e & _ & _ & _ & _ & _ & _ & H)]]]; cbn; try lia.
  cbv zeta in H. destruct H as (_ & _ & Hm & _). lia.
Qed.

(* matched hashes: exactly the block hashes sent at the positions of matching filters, among the verified prefix *)
Lemma matched_hashes_spec w active : forall limit filters hashes h,
  In h (matched_hashes w active limit filters hashes) <->
  exists i f, (i < limit)%nat /\ nth_error filters i = Some f /\ nth_error hashes i = Some h /\ filter_matches w active f = true.
Proof.
  induction limit as [|k IH]; intros filters hashes h.
  - cbn. split; [intros [] | intros (i & f & Hi & _); lia].
  - destruct filters as [|f ftl]; [cbn; split; [intros [] | intros (i & f0 & _ & Hn & _); destruct i; discriminate]|].
    destruct hashes as [|h0 htl]; [cbn; split; [intros [] | intros (i & f0 & _ & _ & Hn & _); destruct i; discriminate]|].
    cbn [matched_hashes]. destruct (filter_matches w active f) eqn:Mf.
    + cbn [In]. rewrite IH. split.
      * intros [<-|(i & f0 & Hi & H1 & H2 & H3)]; [exists 0%nat, f; repeat split; auto; lia | exists (S i), f0; repeat split; auto; lia].
      * intros (i & f0 & Hi & H1 & H2 & H3). destruct i as [|i]; [left; inversion H2; reflexivity|].
        right. exists i, f0. repeat split; auto; lia.
    + rewrite IH. split.
      * intros (i & f0 & Hi & H1 & H2 & H3). exists (S i), f0. repeat split; auto; lia.
      * intros (i & f0 & Hi & H1 & H2 & H3). destruct i as [|i]; [inversion H1; subst; congruence|].
        exists i, f0. repeat split; auto; lia.
Qed.

(* ------------------------------------------------------------------------------------ *)
(* the hashes trusted after the finalized check point *)
From LC Require Import LatestHashes CheckPointsProofs.

Lemma latest_hashes_quorum required peers chosen :
  forall k, (k < length (fst (latest_hashes required peers chosen)))%nat ->
    (required <= length (filter (agrees_from 0 (firstn (S k) (fst (latest_hashes required peers chosen)))) peers))%nat.
Proof.
  intros k. unfold latest_hashes. destruct (Nat.ltb (length peers) required); [cbn; lia|].
  destruct (fin_loop required _ 0 peers chosen) as [written ok] eqn:R. cbn [fst]. intros Hk. eapply fin_loop_quorum; eauto.
Qed.
