(* Entry points evaluated by the correspondence check for C14. *)
From LC Require Export Val Difficulty.
Open Scope N_scope.

Definition obs_res {A} (f : A -> N) (r : res A) : val :=
  match r with
  | Ok a => VL [VN 0; VN (f a)]
  | Err _ => VL [VN 1]
  | Panic _ => VL [VN 3]
  end.

Definition run_verify_tau (sn si sl sct sbd en ei el ect ebd tau : N) : val :=
  obs_res (fun b : bool => if b then 1 else 0)
          (verify_tau (mkEpoch sn si sl) sct sbd (mkEpoch en ei el) ect ebd tau).

Definition run_verify_td (sn si sl sbd std en ei el ebd etd tau : N) : val :=
  obs_res (fun _ : unit => 0)
          (verify_total_difficulty (mkEpoch sn si sl) sbd std (mkEpoch en ei el) ebd etd tau).

(* trend methods called directly: kind 0 = check_tau, 1 = calculate_tau_exponent,
   2 = check_total_difficulty_limit Min, 3 = ... Max *)
Definition run_check_tau (s e tau cnt : N) : val :=
  vbool (check_tau (trend_new s e) tau cnt).
Definition run_tau_exp (s e tau limit : N) : val :=
  vopt VN (calculate_tau_exponent (trend_new s e) tau limit).
Definition run_limit (is_max : bool) (s e n k actual start tau unaligned : N) : val :=
  obs_res (fun _ : unit => 0)
    (check_total_difficulty_limit (trend_new s e) (if is_max then LMax else LMin)
       n k actual start tau unaligned).
