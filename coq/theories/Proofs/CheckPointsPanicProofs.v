(* C10 for the BlockFilterCheckPoints message: the checked model of CheckPoints::add_check_points never unwinds when the
   peer's own vector is within range, whatever the message, and there it computes what the unbounded model computes. *)
From Coq Require Import NArith ZArith List Bool Lia ZifyBool ZifyN.
From LC Require Import Res U CheckPoints CheckPointsChecked.
Import ListNotations.
Open Scope N_scope.

(* the client's own state: a positive interval, a non-empty vector (CheckPoints::new starts it with one entry and nothing
   ever empties it), and numbers far below 2^64: the vector ends below 2^62 and a message carries at most 2^32 entries *)
Record cp_range (interval : N) (c : cps) (new : list hash) : Prop := mkCpRange {
  cr_interval : 0 < interval;
  cr_nonempty : cp_list c <> [];
  cr_small : interval * (cp_first c + lenN (cp_list c) + lenN new + 2) <= 2 ^ 62
}.

Lemma add64_ok site a b : a + b <= U64MAX -> add64 site a b = Ok (a + b).
Proof. intros H. unfold add64, add_chk. destruct (a + b <=? U64MAX) eqn:E; [reflexivity | lia]. Qed.
Lemma mul64_ok site a b : a * b <= U64MAX -> mul64 site a b = Ok (a * b).
Proof. intros H. unfold mul64, mul_chk. destruct (a * b <=? U64MAX) eqn:E; [reflexivity | lia]. Qed.
Lemma sub_ok site a b : b <= a -> sub_chk site a b = Ok (a - b).
Proof. intros H. unfold sub_chk. destruct (b <=? a) eqn:E; [reflexivity | lia]. Qed.

Lemma lenN_app {A} (a b : list A) : lenN (a ++ b) = lenN a + lenN b.
Proof. unfold lenN. rewrite app_length. lia. Qed.

Lemma lenN_pos {A} (l : list A) : l <> [] -> 1 <= lenN l.
Proof. destruct l; [contradiction | intros _; unfold lenN; cbn [length]; lia]. Qed.

Lemma last_number_chk_ok interval c :
  cp_list c <> [] -> interval * (cp_first c + lenN (cp_list c)) <= 2 ^ 62 ->
  last_number_chk interval c = Ok (last_number interval c).
Proof.
  intros Hne Hs. pose proof (lenN_pos _ Hne) as Hl. unfold last_number_chk, last_number.
  assert (U64MAX = 2 ^ 64 - 1) by reflexivity.
  rewrite mul64_ok by nia. cbn [bind]. rewrite sub_ok by exact Hl. cbn [bind].
  rewrite mul64_ok by nia. cbn [bind]. rewrite add64_ok by nia. reflexivity.
Qed.

Lemma last_rev {A} (l : list A) d : last l d = match rev l with x :: _ => x | [] => d end.
Proof.
  induction l as [|a l IH] using rev_ind; [reflexivity|]. rewrite rev_app_distr. cbn [rev app].
  rewrite last_last. reflexivity.
Qed.

Lemma ext_length (new : list hash) (b : bool) :
  lenN (if b then tl new else if 2 <? lenN new then removelast (tl new) else []) <= lenN new.
Proof.
  assert (Htl : lenN (tl new) <= lenN new) by (destruct new; unfold lenN; cbn [tl length]; lia).
  destruct b; [exact Htl|]. destruct (2 <? lenN new); [|unfold lenN; cbn; lia].
  assert (length (removelast (tl new)) <= length (tl new))%nat.
  { generalize (tl new). intros l. induction l as [|a l IH]; [cbn; lia|]. cbn [removelast]. destruct l; [cbn; lia|]. cbn [length] in *. lia. }
  unfold lenN in *. lia.
Qed.

Theorem add_check_points_chk_eq interval c last_proved start new :
  cp_range interval c new ->
  add_check_points_chk interval c last_proved start new = add_check_points interval c last_proved start new.
Proof.
  intros [Hi Hne Hs]. unfold add_check_points_chk, add_check_points.
  destruct new as [|first_new rest]; [reflexivity|].
  destruct (interval =? 0) eqn:E0; [lia|].
  destruct (negb (start mod interval =? 0)); [reflexivity|].
  rewrite last_number_chk_ok by (try exact Hne; nia). cbn [bind].
  destruct (negb (start =? last_number interval c)) eqn:Es; [reflexivity|].
  rewrite (last_rev (cp_list c) 0).
  destruct (rev (cp_list c)) as [|prev_last r] eqn:R.
  { exfalso. apply Hne. rewrite <- (rev_involutive (cp_list c)), R. reflexivity. }
  destruct (negb (prev_last =? first_new)); [reflexivity|].
  destruct (lenN (first_new :: rest) <? 2); [reflexivity|].
  assert (Hstart : start = last_number interval c) by lia.
  assert (Hln : last_number interval c <= interval * (cp_first c + lenN (cp_list c))).
  { unfold last_number. pose proof (lenN_pos _ Hne). nia. }
  assert (U64MAX = 2 ^ 64 - 1) by reflexivity.
  rewrite mul64_ok by nia. cbn [bind]. rewrite add64_ok by nia. cbn [bind].
  set (ext := if start + interval * lenN (first_new :: rest) <=? last_proved then tl (first_new :: rest)
              else if 2 <? lenN (first_new :: rest) then removelast (tl (first_new :: rest)) else []).
  pose proof (ext_length (first_new :: rest) (start + interval * lenN (first_new :: rest) <=? last_proved)) as Hext. fold ext in Hext.
  assert (Hne' : cp_list (mkCps (cp_first c) (cp_list c ++ ext)) <> []).
  { cbn [cp_list]. intros Hx. apply app_eq_nil in Hx. destruct Hx as [Hx _]. exact (Hne Hx). }
  rewrite last_number_chk_ok; [| exact Hne' | cbn [cp_list cp_first]; rewrite lenN_app; nia]. cbn [bind].
  assert (Hln' : last_number interval (mkCps (cp_first c) (cp_list c ++ ext)) <= interval * (cp_first c + lenN (cp_list c) + lenN (first_new :: rest))).
  { unfold last_number. cbn [cp_list cp_first]. rewrite lenN_app. pose proof (lenN_pos _ Hne). nia. }
  rewrite mul64_ok by nia. cbn [bind]. rewrite add64_ok by nia. reflexivity.
Qed.

Lemma add_check_points_no_panic interval c last_proved start new : is_panic (add_check_points interval c last_proved start new) = false.
Proof.
  unfold add_check_points. destruct new as [|f r]; [reflexivity|].
  repeat match goal with |- context [if ?b then _ else _] => destruct b; try reflexivity end.
Qed.

(* whatever BlockFilterCheckPoints message a proven peer sends, the handler returns *)
Theorem check_points_never_panics interval c last_proved start new :
  cp_range interval c new -> is_panic (add_check_points_chk interval c last_proved start new) = false.
Proof. intros H. rewrite add_check_points_chk_eq by exact H. apply add_check_points_no_panic. Qed.

(* and outside the range the unwinding is real: an empty vector makes the index expression fail *)
Example check_points_panics_on_empty_vector :
  add_check_points_chk 2000 (mkCps 0 []) 100000 0 [5; 6] = Panic S_CP_COUNT.
Proof. vm_compute. reflexivity. Qed.
