From LC Require Export Val Matching.
Open Scope N_scope.

(* observation: [0; reorg; sampled; last_n] | [1; status code] | [3] *)
Definition run_matched (last_n start_number boundary : N) (difficulties : list N)
                       (hs : list (N * N * N)) (last_number : N) : val :=
  match matched last_n start_number boundary difficulties
          (map (fun t => mkMH (fst (fst t)) (snd (fst t)) (snd t)) hs) last_number with
  | Ok (r, s, l) => VL [VN 0; VN r; VN s; VN l]
  | Err c => VL [VN 1; VN c]
  | Panic _ => VL [VN 3]
  end.

From LC Require Export LastStateProof.

Definition obs_keys (l : list hkey) : val := vlist (fun k => VN (snd k)) l.
Definition obs_ps (p : prove_state) : val :=
  VL [VN (v_xid (ps_last p)); obs_keys (ps_reorg p); obs_keys (ps_lasts p)].
Definition obs_store (s : store) : val :=
  VL [VN (st_td s); VN (snd (st_tip s)); obs_keys (st_lastn s); vlist VN (st_matched s)].

(* when the last state was replaced the follow-up request is random: wildcard 9 *)
Definition obs_effect (e : effect) : val :=
  VL [VN (ef_code e);
      vopt obs_ps (ef_prove e);
      (if ef_last_state_updated e then VL [VN 9]
       else vopt (fun f : bool * bool => VL [vbool (fst f); vbool (snd f)]) (ef_request e));
      (if ef_last_state_updated e then VN 9 else vbool (ef_new_request e));
      obs_store (ef_store e)].

Definition run_execute (last_n tau : N) (peer : pstate) (st : store)
  (msg_last : vhdr) (proof_empty : bool) (hs : list vhdr) (mmr : N) (rebuild rebuild_genesis : bool) : val :=
  match execute last_n tau peer st msg_last proof_empty hs mmr rebuild rebuild_genesis with
  | Ok e => obs_effect e
  | Err c => VL [VN 1; VN c]
  | Panic _ => VL [VN 3]
  end.
