(* C13 — Cell and transaction queries are exact views of the index.
   Model: Model/Query.v, byte level: keys are the bytes Key::into_vec builds, the store is the list of
   entries in RocksDB (bytewise) order, "matching" = the stored key starts with the search prefix.

   Proved for ascending order, for cells and for (ungrouped) transactions alike (the theorem is generic
   in the entry type and the filter).  Descending order, the grouped page-boundary rule and the
   cursor = Some [] corner are decided by the correspondence check only (C13 is claimed partial there):
   their byte-level proofs mirror the ascending one over the reversed order and are not written yet. *)
From Coq Require Import NArith List Bool Sorted.
From LC Require Import Query QueryProofs.
Import ListNotations.
Open Scope N_scope.

(* following last_cursor page by page with any limit >= 1 yields every matching entry that passes the
   filters exactly once, in key order, and terminates (the fuel |db|+1 suffices) *)
Theorem C13_pages_exact_cells :
  forall tag raw al other f limit (db : list centry),
    sorted_db ce_key db -> (1 <= limit)%nat ->
    pages ce_key (cell_pass other f) tag raw al limit db (S (length db)) None
    = filter (cell_pass other f) (scan ce_key tag raw al true None db).
Proof. intros. apply pages_exact; assumption. Qed.
Print Assumptions C13_pages_exact_cells.

Theorem C13_pages_exact_txs :
  forall tag raw al fs block limit (db : list tentry),
    sorted_db te_key db -> (1 <= limit)%nat ->
    pages te_key (tx_pass fs block) tag raw al limit db (S (length db)) None
    = filter (tx_pass fs block) (scan te_key tag raw al true None db).
Proof. intros. apply pages_exact; assumption. Qed.
Print Assumptions C13_pages_exact_txs.

(* the generic page is what get_cells / get_transactions compute *)
Theorem C13_page_is_get_cells :
  forall tag raw al other f limit cursor (db : list centry),
    get_page ce_key (cell_pass other f) tag raw al limit db cursor = get_cells tag raw al other f true limit cursor db.
Proof. reflexivity. Qed.
Print Assumptions C13_page_is_get_cells.

Theorem C13_page_is_get_txs :
  forall tag raw al fs block limit cursor (db : list tentry),
    get_page te_key (tx_pass fs block) tag raw al limit db cursor = get_txs tag raw al fs block true limit cursor db.
Proof. reflexivity. Qed.
Print Assumptions C13_page_is_get_txs.

(* each filter removes exactly the entries outside it: a returned cell passes all five filters
   (bounds as implemented) and belongs to the scan *)
Theorem C13_filters_exact :
  forall tag raw al other f asc limit cursor db page lk e,
    get_cells tag raw al other f asc limit cursor db = (page, lk) ->
    In e page -> cell_pass other f e = true /\ In e (scan ce_key tag raw al asc cursor db).
Proof. exact get_cells_sound. Qed.
Print Assumptions C13_filters_exact.

(* get_cells_capacity is the capacity sum of exactly the cells get_cells returns for the same key *)
Theorem C13_capacity_is_sum :
  forall tag raw al other f db,
    get_cells_capacity tag raw al other f db =
    fold_right N.add 0 (map ce_cap (fst (get_cells tag raw al other f true
         (length (scan ce_key tag raw al true None db)) None db))).
Proof. exact capacity_is_sum. Qed.
Print Assumptions C13_capacity_is_sum.

(* non-vacuity: a sorted three-entry store, limit 1, three pages *)
Example C13_example_pages :
  let e k := mkCE [32; 7; k] k [] None 0 10 in
  pages ce_key (cell_pass true (mkCF None None None None None)) 32 [7] 0 1 [e 1; e 2; e 5] 4 None = [e 1; e 2; e 5].
Proof. vm_compute. reflexivity. Qed.
