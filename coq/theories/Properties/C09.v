(* C09 — set_scripts does what the README says and never makes a kept script lose history.
   Model: Model/Store.v, update_filter_scripts (command 0 = all, 1 = partial, 2 = delete).

   - [C09_script_set]: for every (script, type) the registered number afterwards is exactly the documented
     one: all = the argument (last duplicate wins); partial = the argument over the old set; delete = the
     old set minus the named pairs.
   - [C09_pending_discarded]: every command that changes anything discards the pending matched blocks.
   - [C09_rewind_covers_every_script]: under the progress invariant (every script's recorded number is at
     or above the point filter syncing would resume from, i.e. the stored progress or the block before the
     earliest pending record) filter syncing resumes at or below the recorded number of every script that
     is registered afterwards — no block after a script's number is skipped.  (Before commit 4aabef2 the
     partial and delete commands broke this when matched blocks were pending.)
   - [C09_invariant_kept]: update_filter_scripts and update_block_number keep the progress invariant.
   - [C09_never_forward]: partial / delete never move filter progress forward. *)
From Coq Require Import NArith List.
From LC Require Import Store StoreProofs.
Import ListNotations.
Open Scope N_scope.

Theorem C09_script_set :
  forall st new cmd s ty,
    lookup_script (scripts (fst (update_filter_scripts st new cmd))) s ty =
    if cmd =? 0 then lookup_script (rev new) s ty
    else if cmd =? 1 then match lookup_script (rev new) s ty with Some n => Some n | None => lookup_script (scripts st) s ty end
    else if existsb (same_script s ty) new then None else lookup_script (scripts st) s ty.
Proof. exact update_filter_scripts_set. Qed.
Print Assumptions C09_script_set.

Theorem C09_pending_discarded :
  forall st new cmd, (cmd = 0 \/ new <> []) -> matched (fst (update_filter_scripts st new cmd)) = [].
Proof. exact update_filter_scripts_discards_pending. Qed.
Print Assumptions C09_pending_discarded.

Theorem C09_rewind_covers_every_script :
  forall st new cmd,
    (cmd = 0 \/ new <> []) -> progress_inv st ->
    forall x, In x (scripts (fst (update_filter_scripts st new cmd))) ->
      min_filtered (fst (update_filter_scripts st new cmd)) <= ss_number x.
Proof. exact update_filter_scripts_resume. Qed.
Print Assumptions C09_rewind_covers_every_script.

Theorem C09_invariant_kept :
  forall st, progress_inv st ->
    (forall new cmd, progress_inv (fst (update_filter_scripts st new cmd))) /\
    (forall n, progress_inv (update_block_number st n)).
Proof.
  intros st Inv. split; [intros; apply update_filter_scripts_progress; exact Inv | intros; apply update_block_number_progress; exact Inv].
Qed.
Print Assumptions C09_invariant_kept.

Theorem C09_rewinds_below_pending :
  forall st new cmd start,
    cmd <> 0 -> new <> [] -> In start (matched st) ->
    min_filtered (fst (update_filter_scripts st new cmd)) <= start - 1.
Proof. exact update_filter_scripts_rewinds. Qed.
Print Assumptions C09_rewinds_below_pending.

Theorem C09_never_forward :
  forall st new cmd,
    cmd <> 0 -> scripts st <> [] ->
    min_filtered (fst (update_filter_scripts st new cmd)) <= min_filtered st.
Proof. exact update_filter_scripts_never_forward. Qed.
Print Assumptions C09_never_forward.

(* the invariant is not vacuous: a store with a pending record below the progress mark satisfies it *)
Example C09_invariant_inhabited :
  progress_inv (mkSt [mkSS 7 0 40; mkSS 8 1 55] [] [] [] [] 60 [41; 51]).
Proof. intros x [<-|[<-|[]]]; vm_compute; discriminate. Qed.
