(* Lemmas about Model/HashesUpdate.v (C06, C10). *)
From Coq Require Import NArith Lia List Bool.
From LC Require Import HashesUpdate.
Import ListNotations.
Open Scope N_scope.
Open Scope bool_scope.

Lemma nthN_some {A} (l : list A) i : i < len l -> exists x, nthN l i = Some x.
Proof.
  unfold nthN, len. intros H. destruct (nth_error l (N.to_nat i)) as [x|] eqn:E; [exists x; reflexivity|].
  apply nth_error_None in E. lia.
Qed.

Lemma len_takeN {A} (l : list A) i : i <= len l -> len (takeN i l) = i.
Proof. unfold len, takeN. intros H. rewrite firstn_length. lia. Qed.

Lemma len_dropN {A} (l : list A) i : len (dropN i l) = len l - i.
Proof. unfold len, dropN. rewrite skipn_length. lia. Qed.

Lemma nth_error_firstn_some {A} : forall n (l : list A) k x, nth_error (firstn n l) k = Some x -> nth_error l k = Some x.
Proof.
  induction n as [|n IH]; intros l k x H; [destruct k; discriminate|].
  destruct l as [|a l]; [destruct k; discriminate|]. destruct k as [|k]; [exact H|]. cbn [firstn nth_error] in *. apply IH. exact H.
Qed.

(* ---- no panic (C10) ---- *)
Theorem update_latest_no_panic last_proved fin_number fcp start parent hs l site :
  update_latest last_proved fin_number fcp start parent hs l <> Panic site.
Proof.
  unfold update_latest. destruct hs as [|h0 hs0]; [discriminate|]. set (hs := h0 :: hs0).
  assert (Hlen : 1 <= len hs) by (unfold len, hs; cbn [length]; lia).
  destruct (last_proved <=? fin_number) eqn:E1; [discriminate|]. apply N.leb_gt in E1.
  destruct (negb (fin_number =? l_cp l)) eqn:E2; [discriminate|]. apply negb_false_iff, N.eqb_eq in E2.
  destruct (U64MAX <? start + (len hs - 1)); [discriminate|].
  destruct (start + (len hs - 1) <=? fin_number) eqn:E3; [discriminate|]. apply N.leb_gt in E3.
  destruct (last_proved <? start) eqn:E4; [discriminate|]. apply N.ltb_ge in E4.
  destruct (l_cp l + len (l_inner l) + 1 <? start) eqn:E5; [discriminate|]. apply N.ltb_ge in E5.
  set (hs1 := if last_proved <? start + (len hs - 1) then takeN (len hs - (start + (len hs - 1) - last_proved)) hs else hs).
  assert (Hhs1 : fin_number - start < len hs1 \/ fin_number < start).
  { destruct (N.lt_ge_cases fin_number start) as [Hlt|Hge]; [right; exact Hlt|]. left.
    unfold hs1. destruct (last_proved <? start + (len hs - 1)) eqn:E6.
    - apply N.ltb_lt in E6. rewrite len_takeN by lia. lia.
    - lia. }
  destruct (start <=? fin_number) eqn:E7.
  - apply N.leb_le in E7. destruct Hhs1 as [Hi|Hi]; [|lia]. destruct (nthN_some hs1 _ Hi) as [x Hx]. rewrite Hx.
    destruct (x =? fcp); cbn [bind]; [|discriminate]. destruct (zip_differs _ _); discriminate.
  - apply N.leb_gt in E7. destruct (start =? fin_number + 1) eqn:E8.
    + destruct (parent =? fcp); cbn [bind]; [|discriminate]. destruct (zip_differs _ _); discriminate.
    + apply N.eqb_neq in E8.
      assert (Hi : start - fin_number - 2 < len (l_inner l)) by lia.
      destruct (nthN_some (l_inner l) _ Hi) as [x Hx]. rewrite Hx.
      destruct (x =? parent); cbn [bind]; [|discriminate]. destruct (zip_differs _ _); discriminate.
Qed.

Theorem update_cached_no_panic cn nn ccp ncp cached start parent hs site :
  cn < start -> start <= nn ->
  update_cached cn nn ccp ncp cached start parent hs <> Panic site.
Proof.
  intros Hs1 Hs2. unfold update_cached.
  destruct (cn + len cached + 1 <? start) eqn:E1; [discriminate|]. apply N.ltb_ge in E1.
  assert (Hp : exists r, (if start =? cn + 1 then Ok (if ccp =? parent then inr tt else inl C_HASHES_UNEXPECTED)
                          else match nthN cached (start - cn - 2) with
                               | None => Panic S_FH_CACHED_PARENT
                               | Some h => Ok (if h =? parent then inr tt else inl 0) end) = Ok r).
  { destruct (start =? cn + 1) eqn:E2; [eexists; reflexivity|]. apply N.eqb_neq in E2.
    assert (Hi : start - cn - 2 < len cached) by lia. destruct (nthN_some cached _ Hi) as [x Hx]. rewrite Hx. eexists; reflexivity. }
  destruct Hp as [r Hr]. rewrite Hr. cbn [bind]. destruct r as [c|[]]; [discriminate|].
  destruct (start + len hs - 1 <? nn) eqn:E3; [discriminate|]. apply N.ltb_ge in E3.
  assert (Hi : len hs - (start + len hs - 1 - nn) - 1 < len hs) by lia.
  destruct (nthN_some hs _ Hi) as [x Hx]. rewrite Hx. cbn [bind]. destruct (ncp =? x); [|discriminate].
  destruct (len cached <? start - (cn + 1)) eqn:E4; [apply N.ltb_lt in E4; lia|].
  destruct (zip_differs _ _); discriminate.
Qed.

Theorem process_no_panic w start parent hs site : process w start parent hs <> Panic site.
Proof.
  unfold process. destruct (w_prove w) as [proved|]; [|discriminate].
  destruct ((start <=? w_fi w * w_interval w) && (w_ci w * w_interval w <? start) && (start <=? (w_ci w + 1) * w_interval w)) eqn:B.
  - apply andb_true_iff in B. destruct B as [B B3]. apply andb_true_iff in B. destruct B as [_ B2].
    apply N.ltb_lt in B2. apply N.leb_le in B3.
    pose proof (update_cached_no_panic (w_ci w * w_interval w) ((w_ci w + 1) * w_interval w) (w_ccp w) (w_ncp w) (w_cached w) start parent hs) as NP.
    destruct (update_cached _ _ _ _ _ _ _ _) as [[c|[cached' next]]|c|s]; cbn [bind]; try discriminate.
    exfalso. exact (NP s B2 B3 eq_refl).
  - destruct (w_fi w * w_interval w <? start); [|discriminate].
    pose proof (update_latest_no_panic proved (w_fi w * w_interval w) (w_fcp w) start parent hs (w_lat w)) as NP.
    destruct (update_latest _ _ _ _ _ _ _) as [[c|[inner' next]]|c|s]; cbn [bind]; try discriminate.
    exfalso. exact (NP s eq_refl).
Qed.

(* ---- what an accepted message can change (C06) ---- *)

(* the per-peer list only grows at its end: nothing accepted earlier is rewritten; a first batch is anchored at the
   finalized check point *)
Theorem update_latest_extends last_proved fin_number fcp start parent hs l inner' next :
  update_latest last_proved fin_number fcp start parent hs l = Ok (inr (inner', next)) ->
  (exists ext, inner' = l_inner l ++ ext) /\
  (l_inner l = [] -> (start <= fin_number /\ nthN hs (fin_number - start) = Some fcp) \/ (start = fin_number + 1 /\ parent = fcp)).
Proof.
  unfold update_latest. destruct hs as [|h0 hs0]; [discriminate|]. set (hs := h0 :: hs0).
  destruct (last_proved <=? fin_number); [discriminate|].
  destruct (negb (fin_number =? l_cp l)) eqn:E2; [discriminate|]. apply negb_false_iff, N.eqb_eq in E2.
  destruct (U64MAX <? start + (len hs - 1)); [discriminate|].
  destruct (start + (len hs - 1) <=? fin_number); [discriminate|].
  destruct (last_proved <? start); [discriminate|].
  destruct (l_cp l + len (l_inner l) + 1 <? start) eqn:E5; [discriminate|]. apply N.ltb_ge in E5.
  set (hs1 := if last_proved <? start + (len hs - 1) then takeN (len hs - (start + (len hs - 1) - last_proved)) hs else hs).
  assert (Hsub : forall i x, nthN hs1 i = Some x -> nthN hs i = Some x).
  { intros i x. unfold hs1. destruct (last_proved <? start + (len hs - 1)); [|auto].
    unfold nthN, takeN. apply nth_error_firstn_some. }
  destruct (start <=? fin_number) eqn:E7.
  - apply N.leb_le in E7. destruct (nthN hs1 (fin_number - start)) as [x|] eqn:Hx; [|discriminate].
    destruct (x =? fcp) eqn:Ex; cbn [bind]; [|discriminate]. apply N.eqb_eq in Ex. subst x.
    destruct (zip_differs _ _); [discriminate|]. intros H. inversion H; subst.
    split; [eexists; reflexivity|]. intros _. left. split; [exact E7 | apply Hsub; exact Hx].
  - destruct (start =? fin_number + 1) eqn:E8.
    + apply N.eqb_eq in E8. destruct (parent =? fcp) eqn:Ep; cbn [bind]; [|discriminate]. apply N.eqb_eq in Ep.
      destruct (zip_differs _ _); [discriminate|]. intros H. inversion H; subst.
      split; [eexists; reflexivity|]. intros _. right. split; reflexivity.
    + destruct (nthN (l_inner l) (start - fin_number - 2)) as [x|] eqn:Hx; [|discriminate].
      destruct (x =? parent); cbn [bind]; [|discriminate].
      destruct (zip_differs _ _); [discriminate|]. intros H. inversion H; subst.
      split; [eexists; reflexivity|]. intros Hnil. rewrite Hnil in Hx. unfold nthN in Hx. destruct (N.to_nat _); discriminate.
Qed.

Lemma nth_error_skipn' {A} : forall n (l : list A) i, nth_error (skipn n l) i = nth_error l (n + i).
Proof. induction n as [|n IH]; intros l i; [reflexivity|]. destruct l as [|a l]; [destruct i; reflexivity|]. cbn [skipn plus nth_error]. apply IH. Qed.

Lemma nth_error_firstn_lt {A} : forall n (l : list A) i, (i < n)%nat -> nth_error (firstn n l) i = nth_error l i.
Proof.
  induction n as [|n IH]; intros l i H; [lia|]. destruct l as [|a l]; [reflexivity|].
  destruct i as [|i]; [reflexivity|]. cbn [firstn nth_error]. apply IH. lia.
Qed.

Lemma zip_agree : forall a b i x, zip_differs a b = false -> nth_error a i = Some x -> (i < length b)%nat -> nth_error b i = Some x.
Proof.
  induction a as [|u a IH]; intros b i x H Ha Hb; [destruct i; discriminate|].
  destruct b as [|v b]; [cbn in Hb; lia|]. cbn [zip_differs] in H. destruct (u =? v) eqn:E; [|discriminate]. apply N.eqb_eq in E. subst v.
  destruct i as [|i]; [exact Ha|]. cbn [nth_error length] in *. apply (IH b i x H Ha). lia.
Qed.

(* the cached list only grows at its end; an accepted message makes it reach the upper check point exactly, and the hash
   stored for the check point block is the finalized check point: nothing between two check points is trusted on one
   peer's word *)
Theorem update_cached_extends cn nn ccp ncp cached start parent hs cached' next :
  cn < start -> start <= nn -> len cached <= nn - cn ->
  update_cached cn nn ccp ncp cached start parent hs = Ok (inr (cached', next)) ->
  (exists ext, cached' = cached ++ ext) /\ len cached' = nn - cn /\ nthN cached' (nn - cn - 1) = Some ncp /\
  (cached = [] -> start = cn + 1 /\ parent = ccp).
Proof.
  intros Hs1 Hs2 Hcl. unfold update_cached.
  destruct (cn + len cached + 1 <? start) eqn:E1; [discriminate|]. apply N.ltb_ge in E1.
  assert (Hanch : cached = [] -> start = cn + 1) by (intros ->; unfold len in E1; cbn in E1; lia).
  assert (Hpar : forall r, (if start =? cn + 1 then Ok (if ccp =? parent then inr tt else inl C_HASHES_UNEXPECTED)
                            else match nthN cached (start - cn - 2) with
                                 | None => Panic S_FH_CACHED_PARENT
                                 | Some h => Ok (if h =? parent then inr tt else inl 0) end) = Ok (inr r) ->
                           (cached = [] -> parent = ccp)).
  { intros r Hr Hc. specialize (Hanch Hc). apply N.eqb_eq in Hanch. rewrite Hanch in Hr.
    destruct (ccp =? parent) eqn:Ep; [apply N.eqb_eq in Ep; symmetry; exact Ep | discriminate]. }
  destruct (if start =? cn + 1 then _ else _) as [[c|[]]| |] eqn:Par; cbn [bind]; try discriminate.
  specialize (Hpar tt eq_refl).
  destruct (start + len hs - 1 <? nn) eqn:E3; [discriminate|]. apply N.ltb_ge in E3.
  destruct (nthN hs (len hs - (start + len hs - 1 - nn) - 1)) as [x|] eqn:Hx; [|discriminate]. cbn [bind].
  destruct (ncp =? x) eqn:Ex; [|discriminate]. apply N.eqb_eq in Ex. subst x.
  destruct (len cached <? start - (cn + 1)) eqn:E4; [discriminate|]. apply N.ltb_ge in E4.
  destruct (zip_differs (dropN (start - (cn + 1)) cached) hs) eqn:Z; [discriminate|].
  intros H. inversion H; subst cached' next. clear H.
  assert (Hidx : len hs - (start + len hs - 1 - nn) - 1 = nn - start) by lia. rewrite Hidx in Hx.
  set (offset := start - (cn + 1)) in *. set (k := len hs - (start + len hs - 1 - nn)) in *.
  assert (Hk : k = nn - start + 1) by (unfold k; lia).
  assert (Hlt : len (dropN offset cached) = len cached - offset) by apply len_dropN.
  assert (Hlf : len (dropN (len (dropN offset cached)) (takeN k hs)) = k - (len cached - offset)).
  { rewrite len_dropN, len_takeN, Hlt; [reflexivity | lia]. }
  split; [eexists; reflexivity|]. split; [|split; [|intros Hc; split; [apply Hanch; exact Hc | apply Hpar; exact Hc]]].
  - unfold len in *. rewrite app_length. unfold len in Hlf. lia.
  - (* the entry of the check point block *)
    unfold nthN in *. destruct (N.lt_ge_cases (nn - cn - 1) (len cached)) as [Hin|Hout].
    + (* already cached: it agrees with the message, which carries the check point there *)
      rewrite nth_error_app1 by (unfold len in Hin; lia).
      destruct (nth_error cached (N.to_nat (nn - cn - 1))) as [y|] eqn:Hy; [|apply nth_error_None in Hy; unfold len in Hin; lia].
      assert (Hy' : nth_error (dropN offset cached) (N.to_nat (nn - start)) = Some y).
      { unfold dropN. rewrite nth_error_skipn'. replace (N.to_nat offset + N.to_nat (nn - start))%nat with (N.to_nat (nn - cn - 1)) by (unfold offset; lia). exact Hy. }
      pose proof (zip_agree _ hs _ y Z Hy') as Hz. rewrite Hz in Hx; [exact Hx|]. unfold len in *. lia.
    + rewrite nth_error_app2 by (unfold len in Hout; lia).
      unfold dropN, takeN. rewrite nth_error_skipn'.
      replace (N.to_nat (len (skipn (N.to_nat offset) cached)) + (N.to_nat (nn - cn - 1) - length cached))%nat with (N.to_nat (nn - start)).
      * rewrite nth_error_firstn_lt; [exact Hx | lia].
      * unfold len. rewrite skipn_length. unfold len in Hout, E4. unfold offset in *. lia.
Qed.
