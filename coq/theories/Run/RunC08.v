From LC Require Export Val Crash.
Open Scope N_scope.

Fixpoint ins_n (x : N) (l : list N) : list N :=
  match l with [] => [x] | y :: tl => if x <=? y then x :: l else y :: ins_n x tl end.
Definition sortN (l : list N) : list N := fold_right ins_n [] l.
Fixpoint ins_rec (x : N * N * list N) (l : list (N * N * list N)) : list (N * N * list N) :=
  match l with [] => [x] | y :: tl => if fst (fst x) <=? fst (fst y) then x :: l else y :: ins_rec x tl end.

Definition cstate_val (st : cstate) : val :=
  VL [vlist (fun s => VL [VN (fst s); VN (snd s)]) (cs_scripts st); VN (cs_min st);
      vlist (fun r => VL [VN (fst (fst r)); VN (snd (fst r)); vlist VN (sortN (snd r))]) (fold_right ins_rec [] (cs_records st));
      vlist VN (sortN (cs_indexed st))].

Definition run_prefixes (st : cstate) (ws : list cwrite) : val := vlist cstate_val (prefix_states st ws).
