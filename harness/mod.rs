//! Verification harness for /verif (compiled into the crate's test build only with
//! `--features verif`; see /verif/DESIGN.md section 2.3).
//!
//! Entry point: the test `verif_entry`, selected with `--exact`, driven by environment:
//!   VERIF_OP    operation name (one per property / correspondence)
//!   VERIF_SEED  u64 seed of the single SplitMix64 generator
//!   VERIF_N     number of generated cases (on top of fixed grids / corpus)
//!   VERIF_OUT   output file (TSV, one case per line)
//!   VERIF_CASE  optional: replay only the case with this id
#![allow(dead_code, unused_imports, clippy::all)]

pub(crate) mod chain;
pub(crate) mod client;
pub(crate) mod ctx;
pub(crate) mod out;
pub(crate) mod prover;
pub(crate) mod prng;
pub(crate) mod world;

mod c01;
mod c02;
mod c03;
mod c05;
mod c06;
mod c07;
mod c08;
mod c10;
mod c13;
mod c14;
mod c15;
mod c17;
mod c18;
mod fh;
mod px;
mod sysop;

use std::env;

fn env_u64(name: &str, default: u64) -> u64 {
    env::var(name)
        .ok()
        .and_then(|s| s.parse().ok())
        .unwrap_or(default)
}

#[test]
fn verif_entry() {
    let op = match env::var("VERIF_OP") {
        Ok(op) => op,
        Err(_) => return, // nothing to do when run as part of the ordinary suite
    };
    let seed = env_u64("VERIF_SEED", 1);
    let n = env_u64("VERIF_N", 100);
    let path = env::var("VERIF_OUT").expect("VERIF_OUT");
    let mut out = out::Out::create(&path);
    // keep panic messages of caught panics out of the way, but remember the last one
    std::panic::set_hook(Box::new(|info| {
        if let Ok(mut g) = LAST_PANIC.lock() {
            *g = format!("{}", info);
        }
    }));
    let result = std::panic::catch_unwind(std::panic::AssertUnwindSafe(|| run_op(&op, seed, n, &mut out)));
    if result.is_err() {
        // the operation itself unwound outside any handler call: keep what was produced and say why
        let msg = LAST_PANIC.lock().map(|g| g.clone()).unwrap_or_default();
        out.stat("ABORT", &msg.replace('\n', " "));
    }
    out.finish();
}

lazy_static::lazy_static! {
    static ref LAST_PANIC: std::sync::Mutex<String> = std::sync::Mutex::new(String::new());
}

pub(crate) fn last_panic() -> String {
    LAST_PANIC.lock().map(|g| g.replace('\n', " ")).unwrap_or_default()
}

fn run_op(op: &str, seed: u64, n: u64, out: &mut out::Out) {
    match op {
        "c01" => c01::run(seed, n, out),
        "c02" => c02::run(seed, n, out),
        "c03" => c03::run(seed, n, out),
        "c05" => c05::run(seed, n, out),
        "c06" => c06::run(seed, n, out),
        "c07" => c07::run(seed, n, out),
        "c08" => c08::run(seed, n, out),
        "c10" => c10::run(seed, n, out),
        "c13" => c13::run(seed, n, out),
        "c14" => c14::run(seed, n, out),
        "c15" => c15::run(seed, n, out),
        "c17" => c17::run(seed, n, out),
        "c18" => c18::run(seed, n, out),
        "fh" => fh::run(seed, n, out),
        "px" => px::run(seed, n, out),
        "sys" => sysop::run(seed, n, out),
        other => panic!("unknown VERIF_OP {}", other),
    }
}
