//! Synthetic chains: headers built directly (no chain service), with per-epoch compact
//! targets, an MMR of header digests, and the chain root committed in each header's extension
//! exactly as RFC 44 prescribes.  Dummy PoW: any nonce is valid.
use ckb_merkle_mountain_range::{leaf_index_to_mmr_size, leaf_index_to_pos, util::MemStore, MMR};
use ckb_types::{
    core::{EpochNumberWithFraction, ExtraHashView, HeaderView},
    packed,
    prelude::*,
    utilities::{
        compact_to_difficulty, difficulty_to_compact, merkle_root,
        merkle_mountain_range::{HeaderDigest as _, MergeHeaderDigest, VerifiableHeader},
    },
    U256,
};

use super::prng::Rng;

pub(crate) const T0: u64 = 1_700_000_000_000; // the fake "now" of every run (ms)

pub(crate) type Store = MemStore<packed::HeaderDigest>;

/// one epoch of the layout: number of blocks and compact target
#[derive(Clone, Debug)]
pub(crate) struct EpochPlan {
    pub len: u64,
    pub compact: u32,
}

pub(crate) struct SynChain {
    pub headers: Vec<HeaderView>,
    /// roots[i] = parent chain root of block i (MMR over blocks 0..i-1); default for genesis
    pub roots: Vec<packed::HeaderDigest>,
    /// tds[i] = total difficulty up to and including block i
    pub tds: Vec<U256>,
    pub store: Store,
    pub plan: Vec<EpochPlan>,
    pub salt: u64,
    /// MMR activation epoch: headers up to and including the first block of this epoch carry no chain root
    pub act: u64,
    /// transactions of each block (empty for the header-only chains; then the transactions root is a salted placeholder)
    pub bodies: Vec<Vec<packed::Transaction>>,
}

/// the transactions root a header must commit to for this body
pub(crate) fn transactions_root(txs: &[packed::Transaction]) -> packed::Byte32 {
    let raw: Vec<packed::Byte32> = txs.iter().map(|t| t.calc_tx_hash()).collect();
    let wit: Vec<packed::Byte32> = txs.iter().map(|t| t.calc_witness_hash()).collect();
    merkle_root(&[merkle_root(&raw), merkle_root(&wit)])
}

/// A tau-legal epoch plan: epoch difficulty moves by at most a factor two per epoch.
pub(crate) fn legal_plan(rng: &mut Rng, epochs: usize, min_len: u64, max_len: u64, bits: u32) -> Vec<EpochPlan> {
    let mut plan: Vec<EpochPlan> = Vec::new();
    let mut d = rng.u256_bits(bits).saturating_add(&U256::from(16u64));
    for i in 0..epochs {
        let len = rng.range(min_len, max_len);
        if i > 0 {
            let prev = &plan[i - 1];
            let prev_bd = compact_to_difficulty(prev.compact);
            let prev_ed = &prev_bd * prev.len;
            // target epoch difficulty in [prev/2, prev*2], biased to the extremes
            let target = match rng.below(5) {
                0 => prev_ed.clone() * 2u32,
                1 => (&prev_ed + 1u32) / 2u32,
                2 => prev_ed.clone(),
                _ => {
                    let lo = (&prev_ed + 1u32) / 2u32;
                    let span = &prev_ed * 2u32 - &lo;
                    &lo + (rng.u256_bits(250) % (span + 1u32))
                }
            };
            d = &target / len;
            if d.is_zero() { d = U256::one(); }
            // round-trip through the compact encoding and repair legality by falling back
            let mut c = difficulty_to_compact(d.clone());
            let mut ok = false;
            for _ in 0..4 {
                let ed = compact_to_difficulty(c) * len;
                if ed <= &prev_ed * 2u32 && &ed * 2u32 >= prev_ed { ok = true; break; }
                // nudge towards the middle of the legal range
                d = &prev_ed / len;
                if d.is_zero() { d = U256::one(); }
                c = difficulty_to_compact(d.clone());
            }
            if !ok {
                plan.push(EpochPlan { len: prev.len, compact: prev.compact });
                continue;
            }
            plan.push(EpochPlan { len, compact: c });
        } else {
            plan.push(EpochPlan { len, compact: difficulty_to_compact(d.clone()) });
        }
    }
    plan
}

/// constant difficulty plan
pub(crate) fn flat_plan(epochs: usize, len: u64, difficulty: u64) -> Vec<EpochPlan> {
    (0..epochs).map(|_| EpochPlan { len, compact: difficulty_to_compact(U256::from(difficulty)) }).collect()
}

fn epoch_of(plan: &[EpochPlan], number: u64) -> (u64, u64, u64, u32) {
    // block `number` -> (epoch number, index, length, compact)
    let mut start = 0u64;
    for (i, e) in plan.iter().enumerate() {
        if number < start + e.len {
            return (i as u64, number - start, e.len, e.compact);
        }
        start += e.len;
    }
    // beyond the plan: repeat the last epoch
    let last = plan.last().expect("non-empty plan");
    let over = number - start;
    (plan.len() as u64 + over / last.len, over % last.len, last.len, last.compact)
}

pub(crate) fn plan_blocks(plan: &[EpochPlan]) -> u64 {
    plan.iter().map(|e| e.len).sum()
}

fn build_header(number: u64, epoch: (u64, u64, u64, u32), parent_hash: packed::Byte32, ext: Option<&packed::Bytes>, timestamp: u64, salt: u64, body: &[packed::Transaction]) -> HeaderView {
    let uncles_hash = packed::Byte32::zero();
    let extra_hash = ExtraHashView::new(uncles_hash, ext.map(|e| e.calc_raw_data_hash())).extra_hash();
    let ep = EpochNumberWithFraction::new_unchecked(epoch.0, epoch.1, epoch.2);
    let mut txroot = [0u8; 32];
    txroot[..8].copy_from_slice(&salt.to_le_bytes());
    txroot[8..16].copy_from_slice(&number.to_le_bytes());
    let txroot: packed::Byte32 = if body.is_empty() { txroot.pack() } else { transactions_root(body) };
    let raw = packed::RawHeader::new_builder()
        .compact_target(epoch.3.pack())
        .timestamp(timestamp.pack())
        .number(number.pack())
        .epoch(ep.full_value().pack())
        .parent_hash(parent_hash)
        .transactions_root(txroot)
        .extra_hash(extra_hash)
        .build();
    let header = packed::Header::new_builder().raw(raw).build();
    // PoW worlds: search a nonce the engine accepts - or, for the one block that is to be left unmined, one it rejects
    let mined = POW.with(|p| p.borrow().as_ref().map(|(verify, bad)| {
        let want = number != *bad;
        (0u128..200_000).map(|n| header.clone().as_builder().nonce(n.pack()).build()).find(|h| verify(h) == want).expect("a nonce within 200000 tries")
    }));
    mined.unwrap_or(header).into_view()
}

thread_local! {
    /// (the PoW engine's verdict, the block number to leave unmined) while a chain for a real PoW engine is generated
    pub(crate) static POW: std::cell::RefCell<Option<(Box<dyn Fn(&packed::Header) -> bool>, u64)>> = std::cell::RefCell::new(None);
}

impl SynChain {
    /// a chain of `len` blocks (numbers 0..len-1) following `plan`; `salt` distinguishes branches
    pub(crate) fn new(plan: Vec<EpochPlan>, len: u64, salt: u64) -> SynChain {
        Self::new_with_activation(plan, len, salt, 0)
    }

    pub(crate) fn new_with_activation(plan: Vec<EpochPlan>, len: u64, salt: u64, act: u64) -> SynChain {
        let mut c = SynChain { headers: Vec::new(), roots: Vec::new(), tds: Vec::new(), store: Store::default(), plan, salt, act, bodies: Vec::new() };
        c.grow(len, salt, 0);
        c
    }

    /// like `new`, every block (genesis excepted) carrying the transactions `gen` produces for it
    pub(crate) fn new_with_bodies(plan: Vec<EpochPlan>, len: u64, salt: u64, act: u64, gen: &mut dyn FnMut(u64) -> Vec<packed::Transaction>) -> SynChain {
        let mut c = SynChain { headers: Vec::new(), roots: Vec::new(), tds: Vec::new(), store: Store::default(), plan, salt, act, bodies: Vec::new() };
        c.grow_with(len, salt, 0, gen);
        c
    }

    /// does block `number` commit to its parent chain root (epoch strictly after (act, 0, 1))?
    pub(crate) fn has_root(&self, number: u64) -> bool {
        let ep = epoch_of(&self.plan, number);
        number > 0 && (ep.0 > self.act || (ep.0 == self.act && ep.1 > 0))
    }

    pub(crate) fn len(&self) -> u64 {
        self.headers.len() as u64
    }
    pub(crate) fn tip(&self) -> u64 {
        self.len() - 1
    }

    fn mmr(&self, leaves: u64) -> MMR<packed::HeaderDigest, MergeHeaderDigest, &Store> {
        let size = if leaves == 0 { 0 } else { leaf_index_to_mmr_size(leaves - 1) };
        MMR::new(size, &self.store)
    }

    /// append blocks until the chain has `len` blocks; the tip gets timestamp T0 - age_ms
    pub(crate) fn grow(&mut self, len: u64, salt: u64, tip_age_ms: u64) {
        self.grow_with(len, salt, tip_age_ms, &mut |_| Vec::new())
    }

    pub(crate) fn grow_with(&mut self, len: u64, salt: u64, tip_age_ms: u64, gen: &mut dyn FnMut(u64) -> Vec<packed::Transaction>) {
        let mut mmr_size = if self.headers.is_empty() { 0 } else { leaf_index_to_mmr_size(self.len() - 1) };
        while self.len() < len {
            let number = self.len();
            let ep = epoch_of(&self.plan, number);
            let (parent_hash, root) = if number == 0 {
                (packed::Byte32::zero(), packed::HeaderDigest::default())
            } else {
                let mmr: MMR<packed::HeaderDigest, MergeHeaderDigest, &Store> = MMR::new(mmr_size, &self.store);
                (self.headers[number as usize - 1].hash(), mmr.get_root().expect("root"))
            };
            let ext: Option<packed::Bytes> = if !self.has_root(number) { None } else { Some(root.calc_mmr_hash().as_bytes().pack()) };
            let timestamp = T0 - tip_age_ms - (len - 1 - number) * 8_000;
            let body = if number == 0 { Vec::new() } else { gen(number) };
            let header = build_header(number, ep, parent_hash, ext.as_ref(), timestamp, salt, &body);
            self.bodies.push(body);
            let bd = compact_to_difficulty(ep.3);
            let td = if number == 0 { bd } else { &self.tds[number as usize - 1] + bd };
            {
                let mut mmr: MMR<packed::HeaderDigest, MergeHeaderDigest, &Store> = MMR::new(mmr_size, &self.store);
                mmr.push(header.digest()).expect("push");
                mmr_size = mmr.mmr_size();
                mmr.commit().expect("commit");
            }
            self.headers.push(header);
            self.roots.push(root);
            self.tds.push(td);
        }
    }

    /// a new chain sharing blocks 0..=at with this one, then `extra` different blocks
    pub(crate) fn fork(&self, at: u64, extra: u64, salt: u64, plan: Option<Vec<EpochPlan>>) -> SynChain {
        self.fork_with(at, extra, salt, plan, &mut |_| Vec::new())
    }

    pub(crate) fn fork_with(&self, at: u64, extra: u64, salt: u64, plan: Option<Vec<EpochPlan>>, gen: &mut dyn FnMut(u64) -> Vec<packed::Transaction>) -> SynChain {
        let mut c = SynChain { headers: Vec::new(), roots: Vec::new(), tds: Vec::new(), store: Store::default(), plan: plan.unwrap_or_else(|| self.plan.clone()), salt, act: self.act, bodies: Vec::new() };
        let mut mmr_size = 0;
        for i in 0..=at as usize {
            let mut mmr: MMR<packed::HeaderDigest, MergeHeaderDigest, &Store> = MMR::new(mmr_size, &c.store);
            mmr.push(self.headers[i].digest()).expect("push");
            mmr_size = mmr.mmr_size();
            mmr.commit().expect("commit");
            c.headers.push(self.headers[i].clone());
            c.roots.push(self.roots[i].clone());
            c.tds.push(self.tds[i].clone());
            c.bodies.push(self.bodies[i].clone());
        }
        c.grow_with(at + 1 + extra, salt, 0, gen);
        c
    }

    pub(crate) fn extension(&self, number: u64) -> Option<packed::Bytes> {
        if !self.has_root(number) { None } else { Some(self.roots[number as usize].calc_mmr_hash().as_bytes().pack()) }
    }

    pub(crate) fn packed_vheader(&self, number: u64) -> packed::VerifiableHeader {
        packed::VerifiableHeader::new_builder()
            .header(self.headers[number as usize].data())
            .uncles_hash(packed::Byte32::zero())
            .extension(Pack::pack(&self.extension(number)))
            .parent_chain_root(self.roots[number as usize].clone())
            .build()
    }

    pub(crate) fn vheader(&self, number: u64) -> VerifiableHeader {
        self.packed_vheader(number).into()
    }

    /// MMR proof for `numbers` against the parent chain root of block `last`
    pub(crate) fn proof(&self, last: u64, numbers: &[u64]) -> packed::HeaderDigestVec {
        if numbers.is_empty() || last == 0 {
            return Default::default();
        }
        let positions: Vec<u64> = numbers.iter().map(|n| leaf_index_to_pos(*n)).collect();
        self.mmr(last)
            .gen_proof(positions)
            .expect("gen proof")
            .proof_items()
            .to_owned()
            .pack()
    }

    /// chain root and MMR proof of a forged history: leaf i (i < last) is `other`'s block where `from_other(i)`, this chain's
    /// block otherwise (no such chain exists - parent links break - but an MMR does not care)
    pub(crate) fn hybrid_root_and_proof(&self, other: &SynChain, last: u64, from_other: &dyn Fn(u64) -> bool, numbers: &[u64]) -> (packed::HeaderDigest, Vec<packed::HeaderDigest>) {
        let store = Store::default();
        let mut size = 0u64;
        for i in 0..last {
            let mut mmr: MMR<packed::HeaderDigest, MergeHeaderDigest, &Store> = MMR::new(size, &store);
            let h = if from_other(i) { &other.headers[i as usize] } else { &self.headers[i as usize] };
            mmr.push(h.digest()).expect("push");
            size = mmr.mmr_size();
            mmr.commit().expect("commit");
        }
        let mmr: MMR<packed::HeaderDigest, MergeHeaderDigest, &Store> = MMR::new(size, &store);
        let root = mmr.get_root().expect("root");
        let positions: Vec<u64> = numbers.iter().map(|n| leaf_index_to_pos(*n)).collect();
        let proof = if numbers.is_empty() { Vec::new() } else { mmr.gen_proof(positions).expect("gen proof").proof_items().to_owned() };
        (root, proof)
    }

    /// header + transactions of block `number`
    pub(crate) fn block(&self, number: u64) -> packed::Block {
        packed::Block::new_builder().header(self.headers[number as usize].data()).transactions(self.bodies[number as usize].clone().pack()).build()
    }

    pub(crate) fn genesis_block(&self) -> packed::Block {
        packed::Block::new_builder().header(self.headers[0].data()).build()
    }

    pub(crate) fn on_chain(&self, number: u64, hash: &packed::Byte32) -> bool {
        (number as usize) < self.headers.len() && &self.headers[number as usize].hash() == hash
    }

    pub(crate) fn number_of(&self, hash: &packed::Byte32) -> Option<u64> {
        self.headers.iter().position(|h| &h.hash() == hash).map(|p| p as u64)
    }
}
