(* C06 — Block filters are acted on only if authentic and attributed to the right block.
   Model: Model/Filters.v (BlockFiltersProcess::execute, check_filters_data).

   - [C06_progress_only_over_verified_filters]: whenever a BlockFilters message changes anything beyond a ban
     (filter progress, a pending record, the scripts' numbers), it came from a proven peer, starts right after the
     current progress, has as many hashes as filters, and the first [limit] filters, chained with
     calc_filter_hash from the parent hash, equal the expected hashes; progress advances by exactly
     [limit] = min(filters, expected hashes), never over an unverified filter.
   - [C06_expected_hashes_latest] / [C06_expected_hashes_cached]: parent and expected hashes are the suffix,
     positioned at [start], of (finalized check point :: hashes the required number of proven peers agree on)
     or of (stored check point :: cached hashes of that interval).
   - [C06_matched_blocks_attribution]: the recorded block hashes are exactly the hashes the message carries at
     the positions of verified filters that match a script registered below the end of the batch; the scripts'
     numbers are only raised when none matched and nothing is pending in memory.
   - [C06_progress_monotone].
   - [C06_latest_hashes_quorum]: the hashes trusted after the finalized check point are voted among the proven peers; each
     one, with all before it, is reported by at least the required number of them (Model/LatestHashes.v).
   What the model cannot show, because the code does not do it: that the block hash carried next to a matching
   filter is the hash of the proven-chain block at that height (known finding
   C06-substituted-block-hash-skips-activity, exhibited by the correspondence op). *)
From Coq Require Import NArith List.
From LC Require Import LatestHashes CheckPointsProofs Filters FiltersProofs.
From LC Require HashesUpdate HashesUpdateProofs.
Import ListNotations.
Open Scope N_scope.

Theorem C06_progress_only_over_verified_filters :
  forall w m o,
    execute w m = Ok o ->
    (o = nothing w) \/
    (o = mkFO 0 (fw_min w) (if fw_db_pending w then None else Some (fw_min w)) None false None /\ fw_min w + 1 <> m_start m) \/
    (exists code, o = banned w code) \/
    (exists tip parent expected,
       fw_scripts w <> [] /\ fw_peer w = Some (Some tip) /\
       fw_min w + 1 = m_start m /\ length (m_filters m) = length (m_hashes m) /\ m_filters m <> [] /\
       expected_hashes w (m_start m) = Ok (Some (parent, expected)) /\
       let limit := Nat.min (length (m_filters m)) (length expected) in
       firstn limit (chained (fw_htable w) parent (m_filters m)) = firstn limit expected /\
       let active := active_scripts w (m_start m + N.of_nat limit) in
       let matched := matched_hashes w active limit (m_filters m) (m_hashes m) in
       fo_ban o = 0 /\ fo_min o = fw_min w + N.of_nat limit /\
       fo_record o = match matched with [] => None | _ => Some (m_start m, N.of_nat limit, map (fun h => (h, h =? tip)) matched) end /\
       fo_bump o = match matched with [] => if fw_mem_empty w && negb (fw_db_pending w) then Some (fw_min w + N.of_nat limit) else None | _ => None end).
Proof. exact execute_cases. Qed.
Print Assumptions C06_progress_only_over_verified_filters.

Theorem C06_expected_hashes_latest :
  forall w start parent expected,
    fw_interval w * fw_fin_index w < start ->
    expected_hashes w start = Ok (Some (parent, expected)) ->
    parent :: expected = skipn (N.to_nat (start - fw_interval w * fw_fin_index w - 1)) (fw_fin_hash w :: fw_latest w).
Proof. exact expected_hashes_latest. Qed.
Print Assumptions C06_expected_hashes_latest.

Theorem C06_expected_hashes_cached :
  forall w start parent expected,
    start <= fw_interval w * fw_fin_index w ->
    expected_hashes w start = Ok (Some (parent, expected)) ->
    fw_interval w * fw_cached_index w < start /\ start <= fw_interval w * (fw_cached_index w + 1) /\
    exists cp, (start = fw_interval w * fw_cached_index w + 1 -> fw_cached_cp w = Some cp) /\
      parent :: expected = skipn (N.to_nat (start - fw_interval w * fw_cached_index w - 1)) (cp :: fw_cached w).
Proof. exact expected_hashes_cached. Qed.
Print Assumptions C06_expected_hashes_cached.

Theorem C06_matched_blocks_attribution :
  forall w active limit filters hashes h,
    In h (matched_hashes w active limit filters hashes) <->
    exists i f, (i < limit)%nat /\ nth_error filters i = Some f /\ nth_error hashes i = Some h /\ filter_matches w active f = true.
Proof. exact matched_hashes_spec. Qed.
Print Assumptions C06_matched_blocks_attribution.

Theorem C06_chain_check_exact :
  forall t filters expected parent,
    (exists p', chain_check t parent filters expected = Some p') <->
    firstn (Nat.min (length filters) (length expected)) (chained t parent filters) =
    firstn (Nat.min (length filters) (length expected)) expected.
Proof. intros. split; [intros [p' H]; eapply chain_check_spec; eauto | apply chain_check_complete]. Qed.
Print Assumptions C06_chain_check_exact.

Theorem C06_progress_monotone : forall w m o, execute w m = Ok o -> fw_min w <= fo_min o.
Proof. exact execute_min_monotone. Qed.
Print Assumptions C06_progress_monotone.

(* every hash the client trusts after the finalized check point, together with all trusted hashes before it, is reported by
   at least [required] proven peers *)
Theorem C06_latest_hashes_quorum :
  forall required peers chosen k,
    (k < length (fst (latest_hashes required peers chosen)))%nat ->
    (required <= length (filter (agrees_from 0 (firstn (S k) (fst (latest_hashes required peers chosen)))) peers))%nat.
Proof. exact latest_hashes_quorum. Qed.
Print Assumptions C06_latest_hashes_quorum.

(* the accepting case is inhabited: an authentic two-filter batch after the finalized check point, second filter matching *)
Example C06_accepts_authentic_batch :
  execute (mkFW [(2, 0)] (Some (Some 900)) 0 false true 10 0 100 0 [] (Some 100) [101; 102; 103]
                [(100, 7, 101); (101, 8, 102)] [(8, [2])])
          (mkMsg 1 [7; 8] [501; 502])
  = Ok (mkFO 0 2 None (Some (1, 2, [(502, false)])) true (Some 3)).
Proof. vm_compute. reflexivity. Qed.

(* where the expected filter hashes come from (BlockFilterHashes handler, Model/HashesUpdate.v): an accepted message only
   appends to a peer's list - nothing accepted earlier is rewritten - and a first batch is anchored at the finalized
   check point (by its parent hash or by containing the check point itself) *)
Theorem C06_peer_hashes_append_only_and_anchored :
  forall last_proved fin_number fcp start parent hs l inner' next,
    HashesUpdate.update_latest last_proved fin_number fcp start parent hs l = Ok (inr (inner', next)) ->
    (exists ext, inner' = HashesUpdate.l_inner l ++ ext) /\
    (HashesUpdate.l_inner l = [] -> (start <= fin_number /\ HashesUpdate.nthN hs (fin_number - start) = Some fcp) \/ (start = fin_number + 1 /\ parent = fcp)).
Proof. exact HashesUpdateProofs.update_latest_extends. Qed.
Print Assumptions C06_peer_hashes_append_only_and_anchored.

(* the hashes cached between two finalized check points: an accepted message only appends, makes the list reach the upper
   check point exactly, and the hash stored for the check point block IS the finalized check point (the gate added by
   the repair of the unanchored cached hashes).  The hashes BEFORE the check point block remain one peer's word: see the
   refutation below (known finding C06-cached-interior-hashes-unverified). *)
Theorem C06_cached_hashes_anchored_at_both_check_points :
  forall cn nn ccp ncp cached start parent hs cached' next,
    cn < start -> start <= nn -> HashesUpdate.len cached <= nn - cn ->
    HashesUpdate.update_cached cn nn ccp ncp cached start parent hs = Ok (inr (cached', next)) ->
    (exists ext, cached' = cached ++ ext) /\ HashesUpdate.len cached' = nn - cn /\
    HashesUpdate.nthN cached' (nn - cn - 1) = Some ncp /\ (cached = [] -> start = cn + 1 /\ parent = ccp).
Proof. exact HashesUpdateProofs.update_cached_extends. Qed.
Print Assumptions C06_cached_hashes_anchored_at_both_check_points.

(* KNOWN FINDING (KNOWN_FINDINGS.jsonl, class C06-cached-interior-hashes-unverified).  The statement "the cached filter
   hashes of a range between two finalized check points are determined by the check points" is FALSE of the faithful model:
   the handler can compare only the LAST hash of the range with the upper check point (the interior hashes could only be
   checked against the filters, which arrive later and are themselves checked against these hashes).  Two lists with
   different interiors and the genuine last hash are both accepted and cached from a single proven peer; block filters
   that chain to a forged interior then move the filter progress up to the block before the check point.
   Replayed on the implementation by op fh, case poison-0 (progress 0 -> 9 over forged filters). *)
Theorem C06_cached_interior_hashes_refuted :
  exists cn nn ccp ncp start parent hs hs' c c',
    HashesUpdate.update_cached cn nn ccp ncp [] start parent hs = Ok (inr (c, None)) /\
    HashesUpdate.update_cached cn nn ccp ncp [] start parent hs' = Ok (inr (c', None)) /\
    HashesUpdate.nthN c 0 <> HashesUpdate.nthN c' 0.
Proof.
  exists 0, 3, 100, 103, 1, 100, [101; 102; 103], [7; 8; 103], [101; 102; 103], [7; 8; 103].
  split; [vm_compute; reflexivity|]. split; [vm_compute; reflexivity|]. vm_compute. discriminate.
Qed.
Print Assumptions C06_cached_interior_hashes_refuted.
