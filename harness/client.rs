//! A light client instance (Storage + Peers + LightClientProtocol + recording context) on top of
//! a synthetic chain's genesis, plus readers that render its state as model terms.
use std::sync::Arc;

use ckb_chain_spec::consensus::Consensus;
use ckb_hash::blake2b_256;
use ckb_merkle_mountain_range::{leaf_index_to_mmr_size, leaf_index_to_pos};
use ckb_network::{CKBProtocolHandler, PeerIndex, SupportProtocols};
use ckb_types::{
    core::{EpochNumberWithFraction, ExtraHashView, HeaderView},
    packed,
    prelude::*,
    utilities::{
        compact_to_difficulty,
        merkle_mountain_range::{HeaderDigest as _, MMRProof, VerifiableHeader},
    },
    U256,
};

use super::chain::{SynChain, T0};
use super::ctx::{ban_code, drive, Ctx};
use super::out::{catch, coq_list, Val};
use crate::protocols::{LightClientProtocol, PeerState, Peers, ProveRequest, ProveState, CHECK_POINT_INTERVAL};
use crate::storage::Storage;
use crate::tests::{prelude::*, utils::{new_storage, MockChain}};

pub(crate) fn dummy_consensus() -> Consensus {
    MockChain::new_with_dummy_pow("verif-consensus").consensus().clone()
}

pub(crate) struct Client {
    pub storage: Storage,
    pub peers: Arc<Peers>,
    pub lc: LightClientProtocol,
    pub nc: Ctx,
    pub consensus: Consensus,
    pub mmr_activated_epoch: u64,
    pub genesis: packed::Block,
}

#[derive(Debug, Clone)]
pub(crate) struct Outcome {
    pub panicked: bool,
    pub ban: Option<u64>,
    pub disconnected: bool,
    pub sent: Vec<packed::LightClientMessage>,
    pub sent_to: Vec<(PeerIndex, packed::LightClientMessage)>,
    pub bans: Vec<(PeerIndex, u64)>,
    pub disconnects: Vec<PeerIndex>,
}

impl Client {
    pub(crate) fn new(chain: &SynChain, consensus: &Consensus, last_n: u64, max_outbound: u32) -> Client {
        let storage = new_storage("verif-client");
        storage.init_genesis_block(chain.genesis_block());
        let peers = Arc::new(Peers::new(max_outbound, CHECK_POINT_INTERVAL, storage.get_last_check_point()));
        let mut lc = LightClientProtocol::new(storage.clone(), peers.clone(), consensus.clone());
        lc.set_mmr_activated_epoch(chain.act);
        lc.set_last_n_blocks(last_n);
        Client { storage, peers, lc, nc: Ctx::new(SupportProtocols::LightClient), consensus: consensus.clone(), mmr_activated_epoch: chain.act, genesis: chain.genesis_block() }
    }

    fn collect(&self, panicked: bool, peer: PeerIndex) -> Outcome {
        let bans: Vec<(PeerIndex, u64)> = self.nc.take_banned().into_iter().map(|(p, r)| (p, ban_code(&r))).collect();
        let ban = bans.iter().filter(|(p, _)| *p == peer).map(|(_, c)| *c).next();
        let disconnects = self.nc.take_disconnected();
        let disconnected = disconnects.contains(&peer);
        let sent_to: Vec<(PeerIndex, packed::LightClientMessage)> = self
            .nc
            .take_sent()
            .into_iter()
            .filter_map(|(_, p, data)| packed::LightClientMessage::from_slice(&data).ok().map(|m| (p, m)))
            .collect();
        let sent = sent_to.iter().map(|(_, m)| m.clone()).collect();
        Outcome { panicked, ban, disconnected, sent, sent_to, bans, disconnects }
    }

    pub(crate) fn connect(&mut self, peer: PeerIndex) -> Outcome {
        let r = drive(self.lc.connected(self.nc.context(), peer, "2"));
        self.collect(r.is_err(), peer)
    }
    pub(crate) fn disconnect(&mut self, peer: PeerIndex) -> Outcome {
        let r = drive(self.lc.disconnected(self.nc.context(), peer));
        self.collect(r.is_err(), peer)
    }
    pub(crate) fn recv_bytes(&mut self, peer: PeerIndex, data: ckb_network::bytes::Bytes) -> Outcome {
        let r = drive(self.lc.received(self.nc.context(), peer, data));
        self.collect(r.is_err(), peer)
    }
    pub(crate) fn recv(&mut self, peer: PeerIndex, msg: &packed::LightClientMessage) -> Outcome {
        self.recv_bytes(peer, msg.as_bytes())
    }
    pub(crate) fn tick(&mut self, token: u64, peer: PeerIndex) -> Outcome {
        let r = drive(self.lc.notify(self.nc.context(), token));
        self.collect(r.is_err(), peer)
    }

    /// process restart: all in-memory state is rebuilt from the store
    pub(crate) fn restart(&mut self, last_n: u64, max_outbound: u32) {
        // the start-up sequence of subcmds.rs: init_genesis_block, then Peers from the stored check point
        self.storage.init_genesis_block(self.genesis.clone());
        let peers = Arc::new(Peers::new(max_outbound, CHECK_POINT_INTERVAL, self.storage.get_last_check_point()));
        let mut lc = LightClientProtocol::new(self.storage.clone(), peers.clone(), self.consensus.clone());
        lc.set_mmr_activated_epoch(self.mmr_activated_epoch);
        lc.set_last_n_blocks(last_n);
        self.peers = peers;
        self.lc = lc;
        self.nc = Ctx::new(SupportProtocols::LightClient);
    }

    pub(crate) fn state(&self, peer: PeerIndex) -> Option<PeerState> {
        self.peers.get_state(&peer)
    }
}

pub(crate) fn find_request(out: &Outcome) -> Option<packed::GetLastStateProof> {
    out.sent.iter().rev().find_map(|m| match m.to_enum() {
        packed::LightClientMessageUnion::GetLastStateProof(r) => Some(r),
        _ => None,
    })
}

// ---------------------------------------------------------------------------------------
// rendering for the model
// ---------------------------------------------------------------------------------------

thread_local! {
    /// when enabled, 32-byte hashes are rendered as small numbers (first-seen order): the model only
    /// compares them for equality, and short literals keep coqc's parser fast
    static INTERN: std::cell::RefCell<Option<std::collections::HashMap<Vec<u8>, u64>>> = std::cell::RefCell::new(None);
}

pub(crate) fn intern_reset(enabled: bool) {
    INTERN.with(|t| *t.borrow_mut() = if enabled { Some(Default::default()) } else { None });
}

fn intern(bytes: &[u8]) -> Option<u64> {
    INTERN.with(|t| {
        let mut t = t.borrow_mut();
        t.as_mut().map(|m| {
            let next = m.len() as u64 + 1000;
            *m.entry(bytes.to_vec()).or_insert(next)
        })
    })
}

pub(crate) fn hx(h: &packed::Byte32) -> String {
    if let Some(k) = intern(h.as_slice()) {
        return format!("{}", k);
    }
    let mut b = [0u8; 32];
    b.copy_from_slice(h.as_slice());
    format!("{:#x}", U256::from_le_bytes(&b))
}

/// the harness's own reading of "commits to its own parent chain root" (patched_is_valid)
pub(crate) fn root_ok(vh: &VerifiableHeader, mmr_activated_epoch: u64) -> bool {
    let header = vh.header();
    let activated = EpochNumberWithFraction::new(mmr_activated_epoch, 0, 1);
    if header.epoch() > activated {
        if header.number() == 0 {
            if vh.parent_chain_root().as_slice() != packed::HeaderDigest::default().as_slice() {
                return false;
            }
        } else {
            let root_hash = vh.parent_chain_root().calc_mmr_hash();
            match vh.extension() {
                Some(ext) => {
                    if !ext.raw_data().starts_with(root_hash.as_slice()) {
                        return false;
                    }
                }
                None => return false,
            }
        }
    }
    let ext_hash = vh.extension().map(|e| e.calc_raw_data_hash());
    ExtraHashView::new(vh.uncles_hash(), ext_hash).extra_hash() == header.extra_hash()
}

pub(crate) fn epoch_term(h: &HeaderView) -> String {
    let e = h.epoch();
    format!("(mkEpoch {} {} {})", e.number(), e.index(), e.length())
}

pub(crate) fn xid(vh: &VerifiableHeader) -> String {
    let mut data = vh.header().data().as_slice().to_vec();
    data.extend_from_slice(vh.uncles_hash().as_slice());
    match vh.extension() {
        Some(e) => { data.push(1); data.extend_from_slice(e.as_slice()); }
        None => data.push(0),
    }
    let h = blake2b_256(&data);
    if let Some(k) = intern(&h) {
        return format!("{}", k);
    }
    format!("{:#x}", U256::from_le_bytes(&h))
}

pub(crate) fn vh_term(vh: &VerifiableHeader, consensus: &Consensus, mmr_activated_epoch: u64) -> String {
    let h = vh.header();
    let ptd: U256 = vh.parent_chain_root().total_difficulty().unpack();
    format!(
        "(mkVH {} {} {} {:#x} {:#x} {} {} {} {} {} {})",
        hx(&h.hash()), xid(vh), h.number(), ptd, compact_to_difficulty(h.compact_target()), h.compact_target(),
        epoch_term(h), hx(&h.parent_hash()), Unpack::<u64>::unpack(&vh.parent_chain_root().end_number()),
        root_ok(vh, mmr_activated_epoch),
        consensus.pow_engine().verify(&h.data()),
    )
}

pub(crate) fn keys_term(hs: &[HeaderView]) -> String {
    coq_list(&hs.iter().map(|h| format!("({}, {})", h.number(), hx(&h.hash()))).collect::<Vec<_>>())
}

pub(crate) fn ps_term(ps: &ProveState, c: &Client) -> String {
    format!("(mkPS {} {} {})", vh_term(ps.get_last_header(), &c.consensus, c.mmr_activated_epoch),
        keys_term(ps.get_reorg_last_headers()), keys_term(ps.get_last_headers()))
}

pub(crate) fn opt_term(o: Option<String>) -> String {
    match o { Some(s) => format!("(Some {})", s), None => "None".to_string() }
}

pub(crate) fn request_term(rq: &ProveRequest, c: &Client) -> String {
    let content = rq.get_content();
    let start: u64 = content.start_number().unpack();
    let boundary: U256 = content.difficulty_boundary().unpack();
    let ds: Vec<String> = content.difficulties().into_iter().map(|d| { let d: U256 = d.unpack(); format!("{:#x}", d) }).collect();
    format!("(mkPR {} {} {:#x} {} {} {})", vh_term(rq.get_last_header(), &c.consensus, c.mmr_activated_epoch), start, boundary, coq_list(&ds),
        rq.if_skip_check_tau(), rq.if_long_fork_detected())
}

pub(crate) fn peer_term(c: &Client, peer: PeerIndex) -> String {
    match c.state(peer) {
        None => "PNone".to_string(),
        Some(st) => {
            let ps = opt_term(st.get_prove_state().map(|p| ps_term(p, c)));
            match st.get_prove_request() {
                Some(rq) => format!("(PRequested {} {})", ps, request_term(rq, c)),
                None => format!("(PNoRequest {})", ps),
            }
        }
    }
}

pub(crate) fn store_term(c: &Client) -> String {
    let (td, tip) = c.storage.get_last_state();
    let tip = tip.into_view();
    let lastn: Vec<String> = c.storage.get_last_n_headers().into_iter().map(|(n, h)| format!("({}, {})", n, hx(&h))).collect();
    format!("(mkStore {:#x} ({}, {}) {} {})", td, tip.number(), hx(&tip.hash()), coq_list(&lastn), coq_list(&matched_starts(c)))
}

pub(crate) fn matched_starts(c: &Client) -> Vec<String> {
    // only the earliest and the latest record are readable through the public API
    let mut v = Vec::new();
    if let Some((s, _, _)) = c.storage.get_latest_matched_blocks() { v.push(format!("{}", s)); }
    if let Some((s, _, _)) = c.storage.get_earliest_matched_blocks() { if v.first() != Some(&format!("{}", s)) { v.push(format!("{}", s)); } }
    v
}

/// MMR verdict computed with direct library calls: 0 verifies, 1 does not / error, 3 library panic
pub(crate) fn mmr_oracle(last: &VerifiableHeader, proof: &packed::HeaderDigestVec, headers: &[VerifiableHeader]) -> u64 {
    let r = catch(|| {
        let root = last.parent_chain_root();
        let end: u64 = root.end_number().unpack();
        // a chain root whose MMR size does not fit u64, or a leaf beyond it, cannot be proven
        if end >= u64::MAX / 2 || headers.iter().any(|h| h.header().number() > end) { return 1; }
        let size = leaf_index_to_mmr_size(end);
        let items: Vec<packed::HeaderDigest> = proof.clone().into_iter().collect();
        // digests that exceed the chain root cannot be part of a proof for it (and would overflow the library's merge)
        let root_td: ckb_types::U256 = root.total_difficulty().unpack();
        if root_td >= (ckb_types::U256::one() << 224) { return 1; }
        if items.iter().any(|d| { let td: ckb_types::U256 = d.total_difficulty().unpack(); let e: u64 = d.end_number().unpack(); td > root_td || e > end }) { return 1; }
        if headers.iter().any(|h| { let td: ckb_types::U256 = h.header().digest().total_difficulty().unpack(); td > root_td }) { return 1; }
        let p = MMRProof::new(size, items);
        let mut leaves = Vec::new();
        for h in headers {
            let d = h.header().digest();
            if d.verify().is_err() { return 1; }
            leaves.push((leaf_index_to_pos(h.header().number()), d));
        }
        match p.verify(root, leaves) { Ok(true) => 0, _ => 1 }
    });
    r.unwrap_or(3)
}

// ---- observation of the implementation, in the shape of RunC01.obs_effect ----

pub(crate) fn obs_keys(hs: &[HeaderView]) -> Val {
    Val::l(hs.iter().map(|h| Val::n(hx(&h.hash()))).collect())
}

pub(crate) fn obs_store(c: &Client) -> Val {
    let (td, tip) = c.storage.get_last_state();
    Val::l(vec![
        Val::n(format!("{:#x}", td)),
        Val::n(hx(&tip.calc_header_hash())),
        Val::l(c.storage.get_last_n_headers().into_iter().map(|(_, h)| Val::n(hx(&h))).collect()),
        Val::l(matched_starts(c).into_iter().map(Val::n).collect()),
    ])
}

pub(crate) fn obs_prove(st: &Option<PeerState>) -> Val {
    Val::opt(st.as_ref().and_then(|s| s.get_prove_state()).map(|p| {
        Val::l(vec![Val::n(xid(p.get_last_header())), obs_keys(p.get_reorg_last_headers()), obs_keys(p.get_last_headers())])
    }))
}

pub(crate) fn last_state_xid(st: &Option<PeerState>) -> Option<String> {
    // is_same_as also compares the total difficulty, which the (header, uncles, extension) identifier does not cover
    st.as_ref().and_then(|s| s.get_last_state()).map(|l| {
        let ptd: U256 = l.as_ref().parent_chain_root().total_difficulty().unpack();
        format!("{}/{:#x}", xid(l.as_ref()), ptd)
    })
}
