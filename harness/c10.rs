//! C10: no message can terminate the client.  Light-client protocol: every union variant, boundary
//! values on every numeric field, vectors of many lengths, compatible-but-garbage extra fields,
//! truncations, bit flips and random bytes, delivered in each reachable peer state.
//! The observation is "returned" / "panicked"; modelled predictions of panics live in the ops of
//! C01 / C14 / the event system, this op is the wide net.
use std::rc::Rc;

use ckb_network::{bytes::Bytes, PeerIndex};
use ckb_types::{core::ExtraHashView, packed, prelude::*, U256};

use super::c01::{setup, Scn};
use super::chain::{flat_plan, legal_plan, plan_blocks, SynChain, T0};
use super::client::*;
use super::out::{Out, Val};
use super::prng::Rng;
use super::prover;
use crate::protocols::light_client::constant::REFRESH_PEERS_TOKEN;

const U64S: [u64; 7] = [0, 1, 2, u32::MAX as u64, (1 << 63) - 1, 1 << 63, u64::MAX];

fn u256s(rng: &mut Rng) -> U256 {
    match rng.below(5) { 0 => U256::zero(), 1 => U256::one(), 2 => U256::max_value(), 3 => U256::max_value() - 1u32, _ => rng.u256_bits(256) }
}

fn digest(rng: &mut Rng) -> packed::HeaderDigest {
    packed::HeaderDigest::new_builder()
        .children_hash(rng.bytes32().pack())
        .total_difficulty(u256s(rng).pack())
        .start_number(rng.pick(&U64S).pack())
        .end_number(rng.pick(&U64S).pack())
        .start_epoch(rng.pick(&U64S).pack())
        .end_epoch(rng.pick(&U64S).pack())
        .start_timestamp(rng.pick(&U64S).pack())
        .end_timestamp(rng.pick(&U64S).pack())
        .start_compact_target((*rng.pick(&[0u32, 1, 0x2001_0000, u32::MAX])).pack())
        .end_compact_target((*rng.pick(&[0u32, 1, 0x2001_0000, u32::MAX])).pack())
        .build()
}

/// a verifiable header with boundary-valued fields; `consistent` makes extension / extra hash commit to the chain root
fn crafted(rng: &mut Rng, consistent: bool, number: Option<u64>, parent: Option<packed::Byte32>) -> packed::VerifiableHeader {
    let root = digest(rng);
    let ext: Option<packed::Bytes> = match rng.below(4) {
        0 if !consistent => None,
        1 if !consistent => Some(vec![1u8; rng.range(0, 40) as usize].pack()),
        _ => Some(root.calc_mmr_hash().as_bytes().pack()),
    };
    let uncles = if consistent { packed::Byte32::zero() } else { rng.bytes32().pack() };
    let extra_hash = if consistent || rng.chance(1, 2) {
        ExtraHashView::new(uncles.clone(), ext.as_ref().map(|e| e.calc_raw_data_hash())).extra_hash()
    } else { rng.bytes32().pack() };
    let epoch = match rng.below(4) { 0 => 0, 1 => u64::MAX, 2 => rng.next(), _ => (10u64 << 40) | (3 << 24) | rng.range(0, 5) };
    let raw = packed::RawHeader::new_builder()
        .version((rng.below(2) as u32).pack())
        .compact_target((*rng.pick(&[0u32, 1, 0x1d00_ffff, 0x2001_0000, 0x2100_0001, u32::MAX])).pack())
        .timestamp((*rng.pick(&[0u64, T0 - 1000, T0, u64::MAX])).pack())
        .number(number.unwrap_or_else(|| *rng.pick(&U64S)).pack())
        .epoch(epoch.pack())
        .parent_hash(parent.unwrap_or_else(|| rng.bytes32().pack()))
        .extra_hash(extra_hash)
        .build();
    let header = packed::Header::new_builder().raw(raw).nonce((rng.next() as u128).pack()).build();
    packed::VerifiableHeader::new_builder().header(header).uncles_hash(uncles).extension(Pack::pack(&ext)).parent_chain_root(root).build()
}

fn lc(msg: impl Into<packed::LightClientMessageUnion>) -> Bytes {
    packed::LightClientMessage::new_builder().set(msg).build().as_bytes()
}

/// append `n` extra molecule fields (raw bytes) to a table, keeping the header consistent
fn with_extra_fields(table: &[u8], fields: &[Vec<u8>]) -> Vec<u8> {
    // molecule table: total size (u32) | offsets (u32 each) | field data
    let total = u32::from_le_bytes([table[0], table[1], table[2], table[3]]) as usize;
    if total < 8 || table.len() < total { return table.to_vec(); }
    let first_off = u32::from_le_bytes([table[4], table[5], table[6], table[7]]) as usize;
    let count = first_off / 4 - 1;
    let mut offsets: Vec<usize> = (0..count).map(|i| u32::from_le_bytes([table[4 + i * 4], table[5 + i * 4], table[6 + i * 4], table[7 + i * 4]]) as usize).collect();
    let data = &table[first_off..total];
    let shift = fields.len() * 4;
    for o in offsets.iter_mut() { *o += shift; }
    let mut body = data.to_vec();
    let mut cursor = first_off + shift + data.len();
    for f in fields { offsets.push(cursor); body.extend_from_slice(f); cursor += f.len(); }
    let mut out = Vec::new();
    out.extend_from_slice(&(cursor as u32).to_le_bytes());
    for o in &offsets { out.extend_from_slice(&(*o as u32).to_le_bytes()); }
    out.extend_from_slice(&body);
    out
}

fn wrap_union(item_id: u32, inner: &[u8]) -> Bytes {
    let mut v = item_id.to_le_bytes().to_vec();
    v.extend_from_slice(inner);
    Bytes::from(v)
}

struct Prepared {
    c: Client,
    chain: Rc<SynChain>,
    name: &'static str,
}

/// pending fetch requests on a proved peer (every response clears them, so they are re-armed per message)
fn arm_fetches(c: &Client, chain: &SynChain, peer: PeerIndex) {
    let tip_hash = c.storage.get_tip_header().calc_header_hash();
    let hashes: Vec<packed::Byte32> = (1..4).map(|i| chain.headers[i].hash()).collect();
    let content = packed::GetBlocksProof::new_builder().last_hash(tip_hash.clone()).block_hashes(hashes.clone().pack()).build();
    c.peers.update_blocks_proof_request(peer, Some(content), false);
    for h in &hashes { c.peers.add_fetch_header(h.clone(), T0); }
    let txs: Vec<packed::Byte32> = (0..3u8).map(|i| [i + 1; 32].pack()).collect();
    let content = packed::GetTransactionsProof::new_builder().last_hash(tip_hash).tx_hashes(txs.clone().pack()).build();
    c.peers.update_txs_proof_request(peer, Some(content));
    for h in &txs { c.peers.add_fetch_tx(h.clone(), T0); }
}

fn prepare(kind: u64, rng: &mut Rng, consensus: &ckb_chain_spec::consensus::Consensus, peer: PeerIndex) -> Option<Prepared> {
    let last_n = *rng.pick(&[1u64, 3, 10]);
    let plan = if rng.chance(1, 2) { legal_plan(rng, 8, 2, 8, 16) } else { flat_plan(8, 6, 9) };
    let total = plan_blocks(&plan);
    let chain = Rc::new(SynChain::new(plan, total, 4));
    let tip = total - 3;
    match kind {
        0 => { let c = Client::new(&chain, consensus, last_n, 1); Some(Prepared { c, chain, name: "no-peer" }) }
        1 => { let mut c = Client::new(&chain, consensus, last_n, 1); c.connect(peer); Some(Prepared { c, chain, name: "requested-last-state" }) }
        2 => { let scn = Scn { chain: chain.clone(), last_n, first: None, tip }; setup(&scn, consensus, peer).ok().map(|(c, _)| Prepared { c, chain, name: "requested-first-proof" }) }
        3 | 4 | 5 => {
            let scn = Scn { chain: chain.clone(), last_n, first: None, tip: tip - 6 };
            let (mut c, req) = setup(&scn, consensus, peer).ok()?;
            let resp = prover::respond(&chain, &req)?;
            let o = c.recv(peer, &packed::LightClientMessage::new_builder().set(resp).build());
            if o.ban.is_some() || o.panicked { return None; }
            if let Some(r2) = find_request(&o) {
                let resp = prover::respond(&chain, &r2)?;
                c.recv(peer, &packed::LightClientMessage::new_builder().set(resp).build());
            }
            if kind == 3 { return Some(Prepared { c, chain, name: "proved" }); }
            if kind == 4 {
                arm_fetches(&c, &chain, peer);
                return Some(Prepared { c, chain, name: "proved-with-pending-fetches" });
            }
            c.recv(peer, &prover::last_state_message(&chain, tip));
            c.tick(REFRESH_PEERS_TOKEN, peer);
            Some(Prepared { c, chain, name: "requested-new-proof" })
        }
        _ => None,
    }
}

fn messages(rng: &mut Rng, p: &Prepared, peer: PeerIndex) -> Vec<(String, Bytes)> {
    let mut v: Vec<(String, Bytes)> = Vec::new();
    let chain = &p.chain;
    let st = p.c.state(peer);
    let requested_last: Option<packed::VerifiableHeader> = st.as_ref().and_then(|s| s.get_prove_request()).map(|r| {
        let n = r.get_last_header().header().number();
        chain.packed_vheader(n)
    });
    // (a) every union variant with default content
    v.push(("default-GetLastState".into(), lc(packed::GetLastState::default())));
    v.push(("default-SendLastState".into(), lc(packed::SendLastState::default())));
    v.push(("default-GetLastStateProof".into(), lc(packed::GetLastStateProof::default())));
    v.push(("default-SendLastStateProof".into(), lc(packed::SendLastStateProof::default())));
    v.push(("default-GetBlocksProof".into(), lc(packed::GetBlocksProof::default())));
    v.push(("default-SendBlocksProof".into(), lc(packed::SendBlocksProof::default())));
    v.push(("default-GetTransactionsProof".into(), lc(packed::GetTransactionsProof::default())));
    v.push(("default-SendTransactionsProof".into(), lc(packed::SendTransactionsProof::default())));
    // (b) crafted SendLastState
    for k in 0..6 {
        let consistent = k % 2 == 0;
        v.push((format!("SendLastState-crafted-{}", if consistent { "consistent" } else { "loose" }), lc(packed::SendLastState::new_builder().last_header(crafted(rng, consistent, None, None)).build())));
    }
    // child of the proven header with boundary chain roots
    if let Some(ps) = st.as_ref().and_then(|s| s.get_prove_state()) {
        let h = ps.get_last_header().header();
        for _ in 0..3 {
            v.push(("SendLastState-crafted-child".into(), lc(packed::SendLastState::new_builder().last_header(crafted(rng, true, Some(h.number() + 1), Some(h.hash()))).build())));
        }
    }
    // (c) crafted SendLastStateProof: last header = the requested one (passes is_same_as) or crafted
    for k in 0..10 {
        let last = match (&requested_last, k % 3) { (Some(l), 0) | (Some(l), 1) => l.clone(), _ => crafted(rng, true, None, None) };
        let n_headers = *rng.pick(&[0usize, 1, 2, 3, 11]);
        let base: u64 = *rng.pick(&[0u64, 1, 5, u64::MAX - 3]);
        let mut hs = Vec::new();
        let mut parent: Option<packed::Byte32> = None;
        for j in 0..n_headers {
            let num = if rng.chance(3, 4) { Some(base.wrapping_add(j as u64)) } else { None };
            let cons = rng.chance(2, 3);
            let h = if rng.chance(1, 3) && (j as u64 + 1) < chain.len() { chain.packed_vheader(j as u64 + 1) } else { crafted(rng, cons, num, parent.clone()) };
            parent = Some(h.header().calc_header_hash());
            hs.push(h);
        }
        let proof: Vec<packed::HeaderDigest> = (0..rng.range(0, 3)).map(|_| digest(rng)).collect();
        let content = packed::SendLastStateProof::new_builder().last_header(last)
            .headers(packed::VerifiableHeaderVec::new_builder().set(hs).build())
            .proof(packed::HeaderDigestVec::new_builder().set(proof).build()).build();
        v.push(("SendLastStateProof-crafted".into(), lc(content)));
    }
    // only reorg headers below the start of a restarted client (valid headers, valid proof)
    if let (Some(l), Some(rq)) = (&requested_last, st.as_ref().and_then(|s| s.get_prove_request())) {
        let start: u64 = rq.get_content().start_number().unpack();
        let last_no: u64 = l.header().raw().number().unpack();
        if start > 1 {
            let nums: Vec<u64> = (1.max(start.saturating_sub(3))..start).collect();
            let content = prover::build_message(chain, last_no, &nums);
            v.push(("SendLastStateProof-only-reorg-section".into(), lc(content)));
        }
    }
    // (d) blocks proof / transactions proof, v0 and v1 with sane and garbage extra fields
    let tip_vh = {
        let tip = p.c.storage.get_tip_header().into_view();
        if chain.on_chain(tip.number(), &tip.hash()) { chain.packed_vheader(tip.number()) } else { crafted(rng, true, None, None) }
    };
    for k in 0..8 {
        let last = if k % 2 == 0 { tip_vh.clone() } else { crafted(rng, true, None, None) };
        let n = rng.range(0, 3) as usize;
        let headers: Vec<packed::Header> = (0..n).map(|j| if rng.chance(1, 2) { chain.headers[j + 1].data() } else { crafted(rng, false, None, None).header() }).collect();
        let missing: Vec<packed::Byte32> = (0..rng.range(0, 3)).map(|j| if rng.chance(1, 2) { chain.headers[(3 - j.min(2)) as usize].hash() } else { rng.bytes32().pack() }).collect();
        let content = packed::SendBlocksProof::new_builder().last_header(last.clone())
            .headers(headers.clone().pack()).missing_block_hashes(missing.clone().pack())
            .proof(packed::HeaderDigestVec::new_builder().set((0..rng.range(0, 2)).map(|_| digest(rng)).collect::<Vec<_>>()).build()).build();
        v.push(("SendBlocksProof-crafted".into(), lc(content.clone())));
        // the same table with two extra fields: well-formed (v1) and garbage
        let uncles: Vec<packed::Byte32> = headers.iter().map(|_| packed::Byte32::zero()).collect();
        let exts: Vec<packed::BytesOpt> = headers.iter().map(|_| packed::BytesOpt::default()).collect();
        let good = with_extra_fields(content.as_slice(), &[uncles.pack().as_slice().to_vec(), packed::BytesOptVec::new_builder().set(exts).build().as_slice().to_vec()]);
        v.push(("SendBlocksProofV1-wellformed-extra".into(), wrap_union(5, &good)));
        let garbage: Vec<Vec<u8>> = (0..rng.range(2, 3)).map(|_| (0..rng.range(0, 40)).map(|_| rng.next() as u8).collect()).collect();
        v.push(("SendBlocksProofV1-garbage-extra".into(), wrap_union(5, &with_extra_fields(content.as_slice(), &garbage))));
        let txc = packed::SendTransactionsProof::new_builder().last_header(last)
            .missing_tx_hashes(missing.pack()).build();
        v.push(("SendTransactionsProof-crafted".into(), lc(txc.clone())));
        let garbage: Vec<Vec<u8>> = (0..2).map(|_| (0..rng.range(0, 40)).map(|_| rng.next() as u8).collect()).collect();
        v.push(("SendTransactionsProofV1-garbage-extra".into(), wrap_union(7, &with_extra_fields(txc.as_slice(), &garbage))));
    }
    // exact answers to the pending blocks-proof request (reach the V1 decoding), with 0, 1, 2, 3 extra fields
    if let Some(peer_data) = p.c.peers.get_peer(&peer) {
        if let Some(req) = peer_data.get_blocks_proof_request() {
            let hashes = req.block_hashes();
            let headers: Vec<packed::Header> = hashes.iter().filter_map(|h| chain.number_of(&h.pack())).map(|n| chain.headers[n as usize].data()).collect();
            if headers.len() == hashes.len() && !headers.is_empty() {
                let numbers: Vec<u64> = headers.iter().map(|h| Unpack::<u64>::unpack(&h.raw().number())).collect();
                let tip_no: u64 = tip_vh.header().raw().number().unpack();
                let content = packed::SendBlocksProof::new_builder().last_header(tip_vh.clone()).headers(headers.clone().pack())
                    .proof(chain.proof(tip_no, &numbers)).build();
                v.push(("SendBlocksProof-exact-answer".into(), lc(content.clone())));
                let uncles: Vec<packed::Byte32> = headers.iter().map(|_| packed::Byte32::zero()).collect();
                let exts: Vec<packed::BytesOpt> = numbers.iter().map(|n| Pack::pack(&chain.extension(*n))).collect();
                let f1 = uncles.pack().as_slice().to_vec();
                let f2 = packed::BytesOptVec::new_builder().set(exts).build().as_slice().to_vec();
                v.push(("SendBlocksProofV1-exact-answer".into(), wrap_union(5, &with_extra_fields(content.as_slice(), &[f1.clone(), f2.clone()]))));
                v.push(("SendBlocksProof-exact-answer-one-extra-field".into(), wrap_union(5, &with_extra_fields(content.as_slice(), &[f1.clone()]))));
                v.push(("SendBlocksProofV1-exact-answer-three-extra-fields".into(), wrap_union(5, &with_extra_fields(content.as_slice(), &[f1.clone(), f2.clone(), vec![1, 2, 3]]))));
                for _ in 0..3 {
                    let garbage: Vec<Vec<u8>> = (0..2).map(|_| (0..rng.range(0, 40)).map(|_| rng.next() as u8).collect()).collect();
                    v.push(("SendBlocksProofV1-exact-answer-garbage-extra".into(), wrap_union(5, &with_extra_fields(content.as_slice(), &garbage))));
                }
                v.push(("SendBlocksProofV1-exact-answer-swapped-extra".into(), wrap_union(5, &with_extra_fields(content.as_slice(), &[f2, f1]))));
            }
        }
    }
    // (e) truncations, bit flips, random bytes
    let seeds: Vec<Bytes> = v.iter().map(|x| x.1.clone()).collect();
    for _ in 0..20 {
        let s = rng.pick(&seeds).clone();
        if s.is_empty() { continue; }
        match rng.below(3) {
            0 => { let cut = rng.below(s.len() as u64) as usize; v.push(("truncated".into(), s.slice(0..cut))); }
            1 => { let mut b = s.to_vec(); let k = rng.below(b.len() as u64) as usize; b[k] ^= 1 << rng.below(8); v.push(("bit-flip".into(), Bytes::from(b))); }
            _ => { let mut b = s.to_vec(); for _ in 0..4 { let k = rng.below(b.len() as u64) as usize; b[k] = rng.next() as u8; } v.push(("byte-noise".into(), Bytes::from(b))); }
        }
    }
    for _ in 0..6 {
        let len = rng.range(0, 300) as usize;
        v.push(("random-bytes".into(), Bytes::from((0..len).map(|_| rng.next() as u8).collect::<Vec<u8>>())));
    }
    v
}

pub(crate) fn run(seed: u64, n: u64, out: &mut Out) {
    let guard = ckb_systemtime::faketime();
    guard.set_faketime(T0);
    let mut rng = Rng::new(seed);
    let consensus = dummy_consensus();
    let peer = PeerIndex::new(2);
    let rounds = (n / 60).max(1);
    let mut idx = 0u64;
    for _ in 0..rounds {
        for kind in 0..6u64 {
            let mut p = match prepare(kind, &mut rng, &consensus, peer) { Some(p) => p, None => continue };
            let msgs = messages(&mut rng, &p, peer);
            for (what, data) in msgs {
                if p.name == "proved-with-pending-fetches" { arm_fetches(&p.c, &p.chain, peer); }
                let o = p.c.recv_bytes(peer, data.clone());
                let v = Val::l(vec![Val::n(if o.panicked { 3 } else { 0 })]);
                let oracle = if o.panicked { Err(format!("[C10-light-client-panic] {} in state {} made the handler panic: {}", what, p.name, super::last_panic())) } else { Ok(()) };
                let hex: String = data.iter().take(64).map(|b| format!("{:02x}", b)).collect();
                out.case(&format!("lc-{}", idx), &["light-client", p.name, &what], "(VL [VN 0])", &v, oracle,
                    &format!("{} ({} bytes: {}...) delivered to a peer in state {}", what, data.len(), hex, p.name));
                idx += 1;
                if o.panicked {
                    // locks may be poisoned: start over
                    p = match prepare(kind, &mut rng, &consensus, peer) { Some(p) => p, None => break };
                }
            }
        }
    }
}
