(* Lemmas about Model/System.v (C11, C12). *)
From Coq Require Import NArith Lia List Bool.
From LC Require Import System LastStateProofProofs.
Import ListNotations.
Open Scope N_scope.
Open Scope bool_scope.
Arguments N.add : simpl never.
Arguments N.sub : simpl never.
Arguments N.eqb : simpl never.
Arguments N.ltb : simpl never.
Arguments N.leb : simpl never.

(* ------------------------------------------------------------------------------------ *)
(* the documented diagram, as a relation on states (data may change along an edge) *)

Inductive edge : pst -> pst -> Prop :=
| e_refl s : edge s s
| e_send_get_last_state w : edge Initialized (ReqFirstLS w)
| e_first_last_state w ls : edge (ReqFirstLS w) (OnlyLS ls)
| e_only_update ls ls' : edge (OnlyLS ls) (OnlyLS ls')
| e_first_request ls rq w : edge (OnlyLS ls) (ReqFirstProof ls rq w)
| e_first_request_update ls ls' rq rq' w w' : edge (ReqFirstProof ls rq w) (ReqFirstProof ls' rq' w')
| e_first_proof ls rq w ps : edge (ReqFirstProof ls rq w) (Ready ls ps)
| e_only_copy ls ps : edge (OnlyLS ls) (Ready ls ps)              (* copy from another peer *)
| e_ready_update ls ls' ps ps' : edge (Ready ls ps) (Ready ls' ps') (* new last state / child fast path / copy *)
| e_new_get_last_state ls ps w : edge (Ready ls ps) (ReqNewLS ls ps w)
| e_new_last_state ls ls' ps w : edge (ReqNewLS ls ps w) (Ready ls' ps)
| e_new_request ls ps rq w : edge (Ready ls ps) (ReqNewProof ls ps rq w)
| e_new_request_update ls ls' ps rq rq' w w' : edge (ReqNewProof ls ps rq w) (ReqNewProof ls' ps rq' w')
| e_new_proof ls ps rq w ps' : edge (ReqNewProof ls ps rq w) (Ready ls ps').

Inductive path : pst -> pst -> Prop :=
| p_nil s : path s s
| p_cons a b c : edge a b -> path b c -> path a c.

Lemma path_one a b : edge a b -> path a b.
Proof. intros. econstructor; [eassumption | constructor]. Qed.

Lemma path_trans a b c : path a b -> path b c -> path a c.
Proof. induction 1; intros; [assumption | econstructor; eauto]. Qed.

Lemma t_request_last_state_edge s now s' : t_request_last_state s now = Some s' -> edge s s'.
Proof. destruct s; cbn; intros E; inversion E; subst; constructor. Qed.

Lemma t_receive_last_state_edge s nls s' : t_receive_last_state s nls = Some s' -> edge s s'.
Proof. destruct s; cbn; intros E; inversion E; subst; constructor. Qed.

Lemma t_request_proof_edge s rq now s' : t_request_proof s rq now = Some s' -> edge s s'.
Proof. destruct s; cbn; intros E; inversion E; subst; constructor. Qed.

Lemma t_receive_proof_edge s nps s' : t_receive_proof s nps = Some s' -> edge s s'.
Proof. destruct s; cbn; intros E; inversion E; subst; constructor. Qed.

(* a last-state update never discards a proof; a new proof needs no request to be dropped silently *)
Lemma t_receive_last_state_keeps_proof s nls s' :
  t_receive_last_state s nls = Some s' -> get_ps s' = get_ps s.
Proof. destruct s; cbn; intros E; inversion E; subst; reflexivity. Qed.

Lemma t_request_last_state_keeps_proof s now s' :
  t_request_last_state s now = Some s' -> get_ps s' = get_ps s.
Proof. destruct s; cbn; intros E; inversion E; subst; reflexivity. Qed.

Lemma t_request_proof_keeps_proof s rq now s' :
  t_request_proof s rq now = Some s' -> get_ps s' = get_ps s.
Proof. destruct s; cbn; intros E; inversion E; subst; reflexivity. Qed.

Lemma t_receive_proof_sets s nps s' : t_receive_proof s nps = Some s' -> get_ps s' = Some nps.
Proof. destruct s; cbn; intros E; inversion E; subst; reflexivity. Qed.

(* ------------------------------------------------------------------------------------ *)
(* peer table *)

Lemma find_set_same p s l : find_peer p (set_peer p s l) = Some s.
Proof.
  induction l as [|[q s0] tl IH]; cbn [set_peer find_peer].
  - rewrite N.eqb_refl. reflexivity.
  - destruct (N.eqb_spec q p) as [->|Hne]; cbn [find_peer].
    + rewrite N.eqb_refl. reflexivity.
    + destruct (N.eqb_spec q p); [contradiction | exact IH].
Qed.

Lemma find_set_other p q s l : p <> q -> find_peer q (set_peer p s l) = find_peer q l.
Proof.
  intros Hne. induction l as [|[r s0] tl IH]; cbn [set_peer find_peer].
  - destruct (N.eqb_spec p q); [contradiction | reflexivity].
  - destruct (N.eqb_spec r p) as [->|Hrp]; cbn [find_peer].
    + destruct (N.eqb_spec p q); [contradiction | reflexivity].
    + destruct (N.eqb_spec r q); [reflexivity | exact IH].
Qed.

Definition keys (l : list (pid * pst)) : list pid := map fst l.

Lemma set_peer_keys_in p s l q : In q (keys (set_peer p s l)) <-> q = p \/ In q (keys l).
Proof.
  unfold keys. induction l as [|[r s0] tl IH]; cbn [set_peer map fst In].
  - intuition.
  - destruct (N.eqb_spec r p) as [->|Hne]; cbn [map fst In]; [intuition|]. rewrite IH. intuition.
Qed.

Lemma set_peer_nodup p s l : NoDup (keys l) -> NoDup (keys (set_peer p s l)).
Proof.
  unfold keys. induction l as [|[r s0] tl IH]; cbn [set_peer map fst]; intros H.
  - constructor; [intros [] | constructor].
  - inversion H as [|? ? Hnin Hnd]; subst.
    destruct (N.eqb_spec r p) as [->|Hne]; cbn [map fst].
    + constructor; assumption.
    + constructor; [|apply IH; assumption].
      intros Hin. apply (set_peer_keys_in p s tl r) in Hin. destruct Hin as [->|Hin]; [contradiction | exact (Hnin Hin)].
Qed.

Lemma find_not_in p l : ~ In p (keys l) -> find_peer p l = None.
Proof.
  unfold keys. induction l as [|[q s] tl IH]; cbn [find_peer map fst In]; intros H; [reflexivity|].
  destruct (N.eqb_spec q p) as [->|Hne]; [exfalso; apply H; left; reflexivity|].
  apply IH. intros Hin. apply H. right. exact Hin.
Qed.

Lemma find_del_same p l : NoDup (keys l) -> find_peer p (del_peer p l) = None.
Proof.
  unfold keys. induction l as [|[q s] tl IH]; cbn [del_peer find_peer map fst]; intros H; [reflexivity|].
  inversion H as [|? ? Hnin Hnd]; subst.
  destruct (N.eqb_spec q p) as [->|Hne].
  - apply find_not_in. exact Hnin.
  - cbn [find_peer]. destruct (N.eqb_spec q p); [contradiction | apply IH; assumption].
Qed.

Lemma del_peer_nodup p l : NoDup (keys l) -> NoDup (keys (del_peer p l)).
Proof.
  unfold keys. induction l as [|[q s] tl IH]; cbn [del_peer map fst]; intros H; [constructor|].
  inversion H as [|? ? Hnin Hnd]; subst.
  destruct (N.eqb_spec q p); [assumption|]. cbn [map fst]. constructor; [|apply IH; assumption].
  intros Hin. apply Hnin. clear - Hin. induction tl as [|[r s1] tl IH]; cbn [del_peer map fst In] in *; [contradiction|].
  destruct (N.eqb_spec r p); [right; exact Hin|]. cbn [map fst In] in Hin. destruct Hin; [left; assumption | right; apply IH; assumption].
Qed.

(* ------------------------------------------------------------------------------------ *)
(* C11: timeouts lead to disconnection on the next refresh *)

Lemma fold_peers_keeps f ps sy acc a :
  In a acc -> In a (snd (fold_peers f ps sy acc)).
Proof.
  revert sy acc; induction ps as [|p tl IH]; intros sy acc Hin; cbn [fold_peers]; [exact Hin|].
  destruct (f sy p) as [sy' a']. apply IH. apply in_or_app. left; exact Hin.
Qed.

Lemma tick_disconnects_timeouts sy now cts p s :
  In (p, s) (peers sy) -> timed_out s now = true ->
  In (A_disconnect p) (snd (on_tick sy now cts)).
Proof.
  intros Hin Hto. unfold on_tick.
  set (acts0 := map A_disconnect (ids_where (fun s0 => timed_out s0 now) sy)).
  assert (H0 : In (A_disconnect p) acts0).
  { unfold acts0, ids_where. apply in_map. change p with (fst (p, s)). apply in_map.
    apply filter_In. split; [exact Hin | exact Hto]. }
  destruct (fold_peers _ (ids_where (fun s0 => require_new_last_state s0 (now - REFRESH_MS)) sy) sy acts0) as [sy1 acts1] eqn:F1.
  assert (H1 : In (A_disconnect p) acts1).
  { change acts1 with (snd (sy1, acts1)). rewrite <- F1. apply fold_peers_keeps. exact H0. }
  apply fold_peers_keeps. exact H1.
Qed.

(* C11: a disconnected peer leaves no state behind *)
Lemma disconnect_removes sy now tau p sy' acts :
  NoDup (keys (peers sy)) ->
  step sy now tau (EvDisconnect p) = Ok (sy', acts) ->
  find_peer p (peers sy') = None /\ acts = [] /\ sstore sy' = sstore sy /\
  forall q, q <> p -> find_peer q (peers sy') = find_peer q (peers sy).
Proof.
  intros Hnd E. cbn in E. inversion E; subst; cbn. repeat split.
  - apply find_del_same. exact Hnd.
  - intros q Hq. clear - Hq. induction (peers sy) as [|[r s] tl IH]; cbn [del_peer find_peer]; [reflexivity|].
    destruct (N.eqb_spec r p) as [->|Hrp].
    + destruct (N.eqb_spec p q); [exfalso; apply Hq; symmetry; assumption | reflexivity].
    + cbn [find_peer]. destruct (N.eqb_spec r q); [reflexivity | exact IH].
Qed.

(* ------------------------------------------------------------------------------------ *)
(* C11 / C12: the last-state handler *)

Lemma get_last_state_proof_peer sy p now cts sy' acts :
  get_last_state_proof sy p now cts = inl (sy', acts) ->
  sstore sy' = sstore sy /\
  (forall q, q <> p -> find_peer q (peers sy') = find_peer q (peers sy)) /\
  forall s, find_peer p (peers sy) = Some s ->
    exists s', find_peer p (peers sy') = Some s' /\ path s s' /\
      (get_ps s' = get_ps s \/
       exists ls ps, get_ls s = Some ls /\ find_proved (ls_h ls) (peers sy) = Some ps /\ get_ps s' = Some ps).
Proof.
  unfold get_last_state_proof.
  destruct (find_peer p (peers sy)) as [s|] eqn:F.
  2: { intros E; inversion E; subst. repeat split; auto. intros s0 E0; discriminate. }
  assert (Hsame : forall sy0 acts0, @inl (sys * list action) N (sy, @nil action) = inl (sy0, acts0) ->
            sstore sy0 = sstore sy /\
            (forall q, q <> p -> find_peer q (peers sy0) = find_peer q (peers sy)) /\
            forall s0, Some s = Some s0 -> exists s', find_peer p (peers sy0) = Some s' /\ path s0 s' /\
              (get_ps s' = get_ps s0 \/ exists ls ps, get_ls s0 = Some ls /\ find_proved (ls_h ls) (peers sy) = Some ps /\ get_ps s' = Some ps)).
  { intros sy0 acts0 E; inversion E; subst. repeat split; auto.
    intros s0 E0; inversion E0; subst. exists s0. split; [exact F|]. split; [constructor | left; reflexivity]. }
  destruct (get_ls s) as [ls|] eqn:L; [|apply Hsame].
  destruct (match get_ps s with Some ps => same_h (ps_last ps) (ls_h ls) | None => false end); [apply Hsame|].
  destruct (match get_rq s with Some rq => same_h (pr_last rq) (ls_h ls) | None => false end); [apply Hsame|].
  destruct (find_proved (ls_h ls) (peers sy)) as [ps|] eqn:FP.
  - destruct (t_receive_proof s ps) as [s'|] eqn:T; [|discriminate].
    intros E; inversion E; subst; cbn. repeat split; auto.
    + intros q Hq. apply find_set_other. auto.
    + intros s0 E0; inversion E0; subst. exists s'. split; [apply find_set_same|]. split.
      * apply path_one. eapply t_receive_proof_edge; eauto.
      * right. exists ls, ps. repeat split; auto. eapply t_receive_proof_sets; eauto.
  - destruct (can_build s (sstore sy) (ls_h ls)); [|apply Hsame].
    destruct (find_content p cts) as [c|].
    + destruct (t_request_proof s _ now) as [s'|] eqn:T; [|discriminate].
      intros E; inversion E; subst; cbn. repeat split; auto.
      * intros q Hq. apply find_set_other. auto.
      * intros s0 E0; inversion E0; subst. exists s'. split; [apply find_set_same|]. split.
        -- apply path_one. eapply t_request_proof_edge; eauto.
        -- left. eapply t_request_proof_keeps_proof; eauto.
    + intros E; inversion E; subst. repeat split; auto.
      intros s0 E0; inversion E0; subst. exists s0. split; [exact F|]. split; [constructor | left; reflexivity].
Qed.

(* a last-state announcement never discards an existing proof *)
Lemma on_last_state_keeps_proof sy now p h fresh cts sy' acts s ps :
  on_last_state sy now p h fresh cts = Ok (sy', acts) ->
  find_peer p (peers sy) = Some s -> get_ps s = Some ps ->
  exists s' ps', find_peer p (peers sy') = Some s' /\ get_ps s' = Some ps'.
Proof.
  intros E F P. unfold on_last_state in E. rewrite F in E.
  destruct (is_ok (vtd h)); cbn [negb] in E; [|inversion E; subst; eauto].
  destruct (v_pow_ok h); cbn [negb] in E; [|inversion E; subst; eauto].
  destruct (v_root_ok h); cbn [negb] in E; [|inversion E; subst; eauto].
  destruct fresh; cbn [negb] in E; [|inversion E; subst; eauto].
  destruct (get_ls s) as [prev|] eqn:L.
  - destruct (same_vheader h (ls_h prev)) as [same| |]; cbn [bind] in E; try discriminate.
    destruct same; [inversion E; subst; eauto|].
    destruct (t_receive_last_state s (mkLS h now)) as [s1|] eqn:T1; [|inversion E; subst; eauto].
    pose proof (t_receive_last_state_keeps_proof _ _ _ T1) as K1. rewrite P in K1.
    assert (Hs1 : exists s' ps', find_peer p (peers (mkSys (set_peer p s1 (peers sy)) (sstore sy) (last_n_cfg sy))) = Some s' /\ get_ps s' = Some ps')
      by (exists s1, ps; split; [apply find_set_same | exact K1]).
    destruct (vtd (ls_h prev)) as [ptd| |]; cbn [bind] in E; try discriminate.
    destruct (vtd h) as [ntd| |]; cbn [bind] in E; try discriminate.
    destruct (ptd <? ntd); [|inversion E; subst; exact Hs1].
    rewrite P in E.
    destruct (is_parent_of (ps_last ps) h) as [par0| |]; cbn [bind] in E; try discriminate.
    destruct (vtd (ps_last ps)) as [partd| |]; cbn [bind] in E; try discriminate.
    destruct (par0 && _ && _); [|inversion E; subst; exact Hs1].
    destruct (t_receive_proof s1 _) as [s2|] eqn:T2.
    + inversion E; subst; cbn. exists s2. eexists. split; [apply find_set_same | eapply t_receive_proof_sets; eauto].
    + inversion E; subst; cbn. exists s1, ps. split; [apply find_set_same | exact K1].
  - (* a state with a proof always has a last state *)
    destruct s; cbn in L, P; discriminate.
Qed.

(* C12: the stored tip moves only to a strictly heavier total difficulty *)
Definition store_mono (st st' : store) : Prop := st' = st \/ st_td st < st_td st'.

Lemma on_last_state_store sy now p h fresh cts sy' acts :
  on_last_state sy now p h fresh cts = Ok (sy', acts) -> store_mono (sstore sy) (sstore sy').
Proof.
  intros E. unfold on_last_state in E.
  destruct (find_peer p (peers sy)) as [s|]; [|inversion E; subst; left; reflexivity].
  destruct (is_ok (vtd h)); cbn [negb] in E; [|inversion E; subst; left; reflexivity].
  destruct (v_pow_ok h); cbn [negb] in E; [|inversion E; subst; left; reflexivity].
  destruct (v_root_ok h); cbn [negb] in E; [|inversion E; subst; left; reflexivity].
  destruct fresh; cbn [negb] in E; [|inversion E; subst; left; reflexivity].
  destruct (get_ls s) as [prev|].
  - destruct (same_vheader h (ls_h prev)) as [same| |]; cbn [bind] in E; try discriminate.
    destruct same; [inversion E; subst; left; reflexivity|].
    destruct (t_receive_last_state s (mkLS h now)) as [s1|]; [|inversion E; subst; left; reflexivity].
    destruct (vtd (ls_h prev)) as [ptd| |]; cbn [bind] in E; try discriminate.
    destruct (vtd h) as [ntd| |]; cbn [bind] in E; try discriminate.
    destruct (ptd <? ntd); [|inversion E; subst; left; reflexivity].
    destruct (get_ps s) as [ps|]; [|inversion E; subst; left; reflexivity].
    destruct (is_parent_of (ps_last ps) h) as [par0| |]; cbn [bind] in E; try discriminate.
    destruct (vtd (ps_last ps)) as [partd| |]; cbn [bind] in E; try discriminate.
    destruct (par0 && _ && _); [|inversion E; subst; left; reflexivity].
    assert (M : store_mono (sstore sy)
                  (if st_td (sstore sy) <? ntd
                   then mkStore ntd (key_of h) (ps_lasts (new_child ps h (last_n_cfg sy))) (st_matched (sstore sy))
                   else sstore sy)).
    { destruct (N.ltb_spec (st_td (sstore sy)) ntd); [right; cbn; assumption | left; reflexivity]. }
    destruct (t_receive_proof s1 _); inversion E; subst; cbn; exact M.
  - destruct (t_receive_last_state s (mkLS h now)) as [s1|]; [|inversion E; subst; left; reflexivity].
    unfold lift in E.
    destruct (get_last_state_proof _ p now cts) as [[sy2 acts2]|code] eqn:G.
    + inversion E; subst. apply get_last_state_proof_peer in G. destruct G as [G _]. cbn in G. left. rewrite G. reflexivity.
    + inversion E; subst. left; reflexivity.
Qed.

(* C12: on the fast path the stored difficulty extends the proven parent's by the child's own block difficulty *)
Lemma on_last_state_child_truthful sy now p h fresh cts sy' acts :
  on_last_state sy now p h fresh cts = Ok (sy', acts) ->
  sstore sy' <> sstore sy ->
  exists s ps partd,
    find_peer p (peers sy) = Some s /\ get_ps s = Some ps /\
    is_parent_of (ps_last ps) h = Ok true /\
    vtd (ps_last ps) = Ok partd /\ v_ptd h = partd /\ v_rend h = v_num (ps_last ps) /\
    st_td (sstore sy') = partd + v_bd h /\ st_tip (sstore sy') = key_of h /\
    v_pow_ok h = true /\ v_root_ok h = true.
Proof.
  intros E Hne. unfold on_last_state in E.
  destruct (find_peer p (peers sy)) as [s|] eqn:F; [|inversion E; subst; contradiction].
  destruct (is_ok (vtd h)); cbn [negb] in E; [|inversion E; subst; contradiction].
  destruct (v_pow_ok h) eqn:PW; cbn [negb] in E; [|inversion E; subst; contradiction].
  destruct (v_root_ok h) eqn:RT; cbn [negb] in E; [|inversion E; subst; contradiction].
  destruct fresh; cbn [negb] in E; [|inversion E; subst; contradiction].
  destruct (get_ls s) as [prev|].
  - destruct (same_vheader h (ls_h prev)) as [same| |]; cbn [bind] in E; try discriminate.
    destruct same; [inversion E; subst; contradiction|].
    destruct (t_receive_last_state s (mkLS h now)) as [s1|]; [|inversion E; subst; contradiction].
    destruct (vtd (ls_h prev)) as [ptd| |]; cbn [bind] in E; try discriminate.
    destruct (vtd h) as [ntd| |] eqn:NT; cbn [bind] in E; try discriminate.
    destruct (ptd <? ntd); [|inversion E; subst; contradiction].
    destruct (get_ps s) as [ps|] eqn:P; [|inversion E; subst; contradiction].
    destruct (is_parent_of (ps_last ps) h) as [par0| |] eqn:IP; cbn [bind] in E; try discriminate.
    destruct (vtd (ps_last ps)) as [partd| |] eqn:PT; cbn [bind] in E; try discriminate.
    destruct (par0 && (v_rend h =? v_num (ps_last ps)) && (v_ptd h =? partd)) eqn:C; [|inversion E; subst; contradiction].
    apply andb_true_iff in C. destruct C as [C C3]. apply andb_true_iff in C. destruct C as [C1 C2].
    apply N.eqb_eq in C2. apply N.eqb_eq in C3. subst par0.
    assert (Hst : sstore sy' = if st_td (sstore sy) <? ntd
                   then mkStore ntd (key_of h) (ps_lasts (new_child ps h (last_n_cfg sy))) (st_matched (sstore sy))
                   else sstore sy)
      by (destruct (t_receive_proof s1 _); inversion E; subst; reflexivity).
    destruct (st_td (sstore sy) <? ntd); [|rewrite Hst in Hne; contradiction].
    exists s, ps, partd. rewrite Hst. cbn.
    unfold vtd, td, mh in NT; cbn in NT. unfold add256, add_chk in NT.
    destruct (_ <=? U256MAX); [|discriminate]. inversion NT; subst.
    repeat split; auto.
  - destruct (t_receive_last_state s (mkLS h now)) as [s1|]; [|inversion E; subst; contradiction].
    unfold lift in E.
    destruct (get_last_state_proof _ p now cts) as [[sy2 acts2]|code] eqn:G.
    + inversion E; subst. apply get_last_state_proof_peer in G. destruct G as [G _]. cbn in G. rewrite G in Hne. contradiction.
    + inversion E; subst. contradiction.
Qed.

(* ------------------------------------------------------------------------------------ *)
(* the proof handler inside the system *)

Lemma execute_store_mono last_n tau peer st msg_last pe hs mmr rb rg e :
  execute last_n tau peer st msg_last pe hs mmr rb rg = Ok e -> store_mono st (ef_store e).
Proof.
  intros E. destruct peer as [|ps|ps rq].
  - cbn in E. inversion E; subst. left; reflexivity.
  - cbn in E. inversion E; subst. left; reflexivity.
  - apply execute_outcome in E. destruct E; try (left; reflexivity).
    match goal with H : commit _ _ = Ok (true, _, _) |- _ => apply commit_store in H; destruct H as [->|[ntd [_ [Hlt [Htd _]]]]] end.
    + left; reflexivity.
    + right. cbn. rewrite Htd. exact Hlt.
Qed.

Lemma lift_store p sy0 r pre sy' acts :
  lift p sy0 r pre = Ok (sy', acts) ->
  (forall sy1 a1, r = inl (sy1, a1) -> sstore sy1 = sstore sy0) ->
  sstore sy' = sstore sy0.
Proof.
  unfold lift. destruct r as [[sy1 a1]|code]; intros E H; inversion E; subst; [eapply H; reflexivity | reflexivity].
Qed.

Lemma on_proof_store sy now tau p ml pe hs mmr cts sy' acts :
  on_proof sy now tau p ml pe hs mmr cts = Ok (sy', acts) -> store_mono (sstore sy) (sstore sy').
Proof.
  intros E. unfold on_proof in E.
  destruct (find_peer p (peers sy)) as [s|]; [|inversion E; subst; left; reflexivity].
  destruct (execute _ _ _ _ _ _ _ _ _ _) as [e| |] eqn:X; cbn [bind] in E; try discriminate.
  pose proof (execute_store_mono _ _ _ _ _ _ _ _ _ _ _ X) as M.
  destruct (ef_last_state_updated e).
  - destruct (t_receive_last_state s _) as [s1|]; [|inversion E; subst; left; reflexivity].
    left. eapply lift_store in E; [exact E|].
    intros sy1 a1 G. apply get_last_state_proof_peer in G. destruct G as [G _]. exact G.
  - destruct (get_rq s) as [rq|]; [destruct (ef_request e) as [[skip lf]|]|].
    + destruct (ef_new_request e).
      * destruct (find_content p cts); [destruct (t_request_proof s _ now)|]; inversion E; subst; exact M.
      * inversion E; subst; exact M.
    + destruct (ef_prove e); [destruct (t_receive_proof s _)|]; inversion E; subst; exact M.
    + destruct (ef_prove e); inversion E; subst; exact M.
Qed.

Lemma fold_peers_store f ps sy acc :
  (forall sy0 p, sstore (fst (f sy0 p)) = sstore sy0) ->
  sstore (fst (fold_peers f ps sy acc)) = sstore sy.
Proof.
  intros Hf. revert sy acc; induction ps as [|p tl IH]; intros sy acc; cbn [fold_peers]; [reflexivity|].
  destruct (f sy p) as [sy' a] eqn:F. rewrite IH. specialize (Hf sy p). rewrite F in Hf. exact Hf.
Qed.

Lemma get_last_state_store sy p now sy' acts :
  get_last_state sy p now = inl (sy', acts) -> sstore sy' = sstore sy.
Proof.
  unfold get_last_state. destruct (find_peer p (peers sy)) as [s|]; [destruct (t_request_last_state s now)|];
    intros E; inversion E; subst; reflexivity.
Qed.

Lemma on_tick_store sy now cts : sstore (fst (on_tick sy now cts)) = sstore sy.
Proof.
  unfold on_tick.
  destruct (fold_peers _ (ids_where (fun s => require_new_last_state s (now - REFRESH_MS)) sy) sy _) as [sy1 acts1] eqn:F1.
  assert (S1 : sstore sy1 = sstore sy).
  { change sy1 with (fst (sy1, acts1)). rewrite <- F1. apply fold_peers_store.
    intros sy0 p. destruct (get_last_state sy0 p now) as [[sy2 a2]|c] eqn:G; [|reflexivity].
    cbn. eapply get_last_state_store; eauto. }
  transitivity (sstore sy1); [|exact S1]. apply fold_peers_store.
  intros sy0 p. destruct (get_last_state_proof sy0 p now cts) as [[sy2 a2]|c] eqn:G; [|reflexivity].
  cbn. apply get_last_state_proof_peer in G. destruct G as [G _]. exact G.
Qed.

(* C12: every step of the system moves the store only to a strictly heavier total difficulty *)
Lemma step_store_mono sy now tau ev sy' acts :
  step sy now tau ev = Ok (sy', acts) -> store_mono (sstore sy) (sstore sy').
Proof.
  destruct ev as [p|p|p h fresh cts|p ml pe hs mmr cts|cts|]; cbn [step]; intros E.
  - left. eapply lift_store in E; [exact E|]. intros sy1 a1 G. apply get_last_state_store in G. exact G.
  - inversion E; subst. left; reflexivity.
  - eapply on_last_state_store; eauto.
  - eapply on_proof_store; eauto.
  - inversion E; subst. left. pose proof (on_tick_store sy now cts) as T. rewrite H0 in T. exact T.
  - inversion E; subst. left; reflexivity.
Qed.

Lemma run_store_mono tau evs : forall sy k sy' acts,
  nth_error (run sy tau evs) k = Some (Ok (sy', acts)) ->
  sstore sy' = sstore sy \/ st_td (sstore sy) < st_td (sstore sy').
Proof.
  induction evs as [|[now ev] tl IH]; intros sy k sy' acts; cbn [run]; [destruct k; discriminate|].
  destruct (step sy now tau ev) as [[sy1 a1]| |] eqn:S.
  - pose proof (step_store_mono _ _ _ _ _ _ S) as M1. destruct k as [|k]; cbn [nth_error].
    + intros E; inversion E; subst. exact M1.
    + intros E. specialize (IH _ _ _ _ E). unfold store_mono in M1.
      destruct M1 as [M1|M1]; destruct IH as [IH|IH].
      * left. congruence.
      * right. rewrite M1 in IH. exact IH.
      * right. rewrite IH. exact M1.
      * right. lia.
  - destruct k as [|[|k]]; discriminate.
  - destruct k as [|[|k]]; discriminate.
Qed.

(* C11: a proof is accepted only while a request for that same last state is outstanding;
   the only other way a prove state appears in this handler is a copy of an identical proven header *)
Lemma on_proof_needs_request sy now tau p ml pe hs mmr cts sy' acts s s' :
  on_proof sy now tau p ml pe hs mmr cts = Ok (sy', acts) ->
  find_peer p (peers sy) = Some s -> find_peer p (peers sy') = Some s' ->
  get_ps s' <> get_ps s ->
  (exists rq r sc l lasts,
      get_rq s = Some rq /\ same_vheader (pr_last rq) ml = Ok true /\
      gates (last_n_cfg sy) tau (get_ps s) rq ml hs mmr r sc l false /\
      get_ps s' = Some (mkPS (pr_last rq) (map key_of (firstn (N.to_nat r) hs)) lasts))
  \/ (exists ps others, find_proved ml others = Some ps /\ get_ps s' = Some ps).
Proof.
  intros E F F' Hch. unfold on_proof in E. rewrite F in E.
  destruct (execute _ _ _ _ _ _ _ _ _ _) as [e| |] eqn:X; cbn [bind] in E; try discriminate.
  destruct (ef_last_state_updated e) eqn:LU.
  - destruct (t_receive_last_state s (mkLS ml now)) as [s1|] eqn:T1.
    2: { inversion E; subst. rewrite F in F'. inversion F'; subst. contradiction. }
    pose proof (t_receive_last_state_keeps_proof _ _ _ T1) as K1.
    unfold lift in E. destruct (get_last_state_proof _ p now cts) as [[sy2 a2]|code] eqn:G.
    + inversion E; subst. apply get_last_state_proof_peer in G. destruct G as [_ [_ G]].
      cbn in G. destruct (G s1 (find_set_same _ _ _)) as [s2 [F2 [_ [Hsame|[ls [ps [L [FP P]]]]]]]].
      * rewrite F' in F2. inversion F2; subst. rewrite Hsame, K1 in Hch. contradiction.
      * rewrite F' in F2. inversion F2; subst. right.
        assert (ls = mkLS ml now) by (destruct s; cbn in T1; inversion T1; subst; cbn in L; inversion L; reflexivity).
        subst ls. cbn in FP. eauto.
    + inversion E; subst. cbn in F'. rewrite find_set_same in F'. inversion F'; subst. rewrite K1 in Hch. contradiction.
  - (* the execute outcome decides *)
    unfold to_pstate in X.
    destruct (get_rq s) as [rq|] eqn:RQ.
    + pose proof (execute_outcome _ _ _ _ _ _ _ _ _ _ _ _ X) as O.
      destruct O as [code| | r sc l Hs Hg | r sc l lasts Hs Hg Ha Hc | r sc l lasts st' rbk Hs Hg Ha Hl Hc]; cbn in E, LU.
      * (* unchanged *)
        inversion E; subst. cbn in F'. rewrite F in F'. inversion F'; subst. contradiction.
      * discriminate.
      * destruct (find_content p cts); [destruct (t_request_proof s _ now) as [s2|] eqn:T|]; inversion E; subst; cbn in F'.
        -- rewrite find_set_same in F'. inversion F'; subst. rewrite (t_request_proof_keeps_proof _ _ _ _ T) in Hch. contradiction.
        -- rewrite F in F'. inversion F'; subst. contradiction.
        -- rewrite F in F'. inversion F'; subst. contradiction.
      * destruct (find_content p cts); [destruct (t_request_proof s _ now) as [s2|] eqn:T|]; inversion E; subst; cbn in F'.
        -- rewrite find_set_same in F'. inversion F'; subst. rewrite (t_request_proof_keeps_proof _ _ _ _ T) in Hch. contradiction.
        -- rewrite F in F'. inversion F'; subst. contradiction.
        -- rewrite F in F'. inversion F'; subst. contradiction.
      * destruct (t_receive_proof s _) as [s2|] eqn:T; inversion E; subst; cbn in F'.
        -- rewrite find_set_same in F'. inversion F'; subst. left.
           exists rq. do 4 eexists. split; [reflexivity|]. split; [exact Hs|]. split; [exact Hg|].
           eapply t_receive_proof_sets; eauto.
        -- rewrite F in F'. inversion F'; subst. contradiction.
    + cbn in X. inversion X; subst e. cbn in E.
      assert (E' : sy' = mkSys (peers sy) (sstore sy) (last_n_cfg sy)) by (destruct (get_ps s); inversion E; reflexivity).
      subst sy'. cbn in F'. rewrite F in F'. inversion F'; subst. contradiction.
Qed.
