From LC Require Import LastStateProof.
Open Scope N_scope.
Theorem C01_placeholder : forall last_n tau st m pe hs mmr r rg,
  execute last_n tau PNone st m pe hs mmr r rg = Ok (unchanged E_PEER_NOT_FOUND None None st).
Proof. reflexivity. Qed.
Print Assumptions C01_placeholder.
