From LC Require Export Val Fetch.
Open Scope N_scope.

(* one client: fetch tables, what the store holds, and each peer's outstanding requests *)
Record peer_req := mkPQ { pq_id : N; pq_blocks : option bp_request; pq_txs : option (hash * list hash) }.
Record mstate := mkMS {
  ms_th : tbl; ms_tt : tbl;
  ms_sh : list hash;                (* fetched headers in the store *)
  ms_st : list (hash * hash);       (* fetched transactions with their block *)
  ms_peers : list peer_req
}.

Inductive fev :=
| FE_fetch_header (h : hash) (now : N)
| FE_fetch_tx (t : hash) (now : N)
| FE_tick (now : N) (last : hash) (peer_h peer_t : option N)     (* which idle best peer the tick picked, if it sent *)
| FE_blocks_proof (p : N) (m : bp_msg)
| FE_txs_proof (p : N) (m : tp_msg)
| FE_connect (p : N)
| FE_disconnect (p : N).

Fixpoint find_peer (p : N) (l : list peer_req) : option peer_req :=
  match l with [] => None | x :: tl => if pq_id x =? p then Some x else find_peer p tl end.
Definition set_peer (x : peer_req) (l : list peer_req) : list peer_req :=
  map (fun y => if pq_id y =? pq_id x then x else y) l.

Fixpoint ins_n (x : N) (l : list N) : list N :=
  match l with [] => [x] | y :: tl => if x <=? y then x :: l else y :: ins_n x tl end.
Definition sortN (l : list N) : list N := fold_right ins_n [] l.

Definition status_val (s : fstatus) : val :=
  match s with
  | St_fetched => VL [VN 0]
  | St_added ts => VL [VN 1; VN ts]
  | St_fetching fs => VL [VN 2; VN fs]
  | St_not_found => VL [VN 3]
  end.

(* the fetch tick: everything a tick would ask for goes to the idle best peer the implementation picked *)
Definition tick_h (now : N) (last : hash) (ph : option N) (th : tbl) (peers : list peer_req) : tbl * list peer_req * list N :=
  match to_fetch th, ph with
  | _ :: _, Some p =>
      match find_peer p peers with
      | Some x => match pq_blocks x with
                  | None => (mark_sent (to_fetch th) now th, set_peer (mkPQ p (Some (mkBR last (to_fetch th) false)) (pq_txs x)) peers, sortN (to_fetch th))
                  | Some _ => (th, peers, [99999])      (* the implementation picked a busy peer: flagged *)
                  end
      | None => (th, peers, [99999])
      end
  | _, _ => (th, peers, [])
  end.
Definition tick_t (now : N) (last : hash) (pt : option N) (tt : tbl) (peers : list peer_req) : tbl * list peer_req * list N :=
  match to_fetch tt, pt with
  | _ :: _, Some p =>
      match find_peer p peers with
      | Some x => match pq_txs x with
                  | None => (mark_sent (to_fetch tt) now tt, set_peer (mkPQ p (pq_blocks x) (Some (last, to_fetch tt))) peers, sortN (to_fetch tt))
                  | Some _ => (tt, peers, [99999])
                  end
      | None => (tt, peers, [99999])
      end
  | _, _ => (tt, peers, [])
  end.

Definition step (s : mstate) (e : fev) : mstate * val :=
  match e with
  | FE_fetch_header h now =>
      let '(st, th') := rpc_fetch (has h (ms_sh s)) h now (ms_th s) in
      (mkMS th' (ms_tt s) (ms_sh s) (ms_st s) (ms_peers s), status_val st)
  | FE_fetch_tx t now =>
      let '(st, tt') := rpc_fetch (has t (map fst (ms_st s))) t now (ms_tt s) in
      (mkMS (ms_th s) tt' (ms_sh s) (ms_st s) (ms_peers s), status_val st)
  | FE_tick now last ph pt =>
      let '(th', peers1, sent_h) := tick_h now last ph (ms_th s) (ms_peers s) in
      let '(tt', peers2, sent_t) := tick_t now last pt (ms_tt s) peers1 in
      (mkMS th' tt' (ms_sh s) (ms_st s) peers2, VL [vlist VN sent_h; vlist VN sent_t])
  | FE_blocks_proof p m =>
      match find_peer p (ms_peers s) with
      | None => (s, VL [VN 411])
      | Some x =>
          let o := blocks_proof (pq_blocks x) m (ms_th s) in
          (mkMS (bo_headers o) (ms_tt s) (bo_stored o ++ ms_sh s) (ms_st s) (set_peer (mkPQ p None (pq_txs x)) (ms_peers s)),
           VL [VN (bo_code o)])
      end
  | FE_txs_proof p m =>
      match find_peer p (ms_peers s) with
      | None => (s, VL [VN 411])
      | Some x =>
          let o := txs_proof (pq_txs x) m (ms_tt s) (ms_th s) in
          (mkMS (to_headers o) (to_txs o) (map snd (to_stored o) ++ ms_sh s) (to_stored o ++ ms_st s) (set_peer (mkPQ p (pq_blocks x) None) (ms_peers s)),
           VL [VN (to_code o)])
      end
  | FE_connect p => (mkMS (ms_th s) (ms_tt s) (ms_sh s) (ms_st s) (ms_peers s ++ [mkPQ p None None]), VL [])
  | FE_disconnect p =>
      match find_peer p (ms_peers s) with
      | None => (s, VL [])
      | Some x =>
          let th' := match pq_blocks x with Some r => mark_timeout (br_hashes r) (ms_th s) | None => ms_th s end in
          let tt' := match pq_txs x with Some r => mark_timeout (snd r) (ms_tt s) | None => ms_tt s end in
          (mkMS th' tt' (ms_sh s) (ms_st s) (filter (fun y => negb (pq_id y =? p)) (ms_peers s)), VL [])
      end
  end.

(* the fetch tables as the harness can see them: (hash, added, first sent, missing, would a tick ask for it), sorted by hash *)
Fixpoint ins_row (x : N * val) (l : list (N * val)) : list (N * val) :=
  match l with [] => [x] | y :: tl => if fst x <=? fst y then x :: l else y :: ins_row x tl end.
Definition dump_tbl (t : tbl) : val :=
  VL (map snd (fold_right ins_row []
    (map (fun kv => (fst kv, VL [VN (fst kv); VN (f_added (snd kv)); VN (f_first_sent (snd kv)); vbool (f_missing (snd kv));
                                 vbool ((f_first_sent (snd kv) =? 0) || f_timeout (snd kv))])) t))).

Definition dedup_sorted (l : list N) : list N :=
  fold_right (fun x acc => match acc with y :: _ => if x =? y then acc else x :: acc | [] => [x] end) [] l.

Fixpoint dedup_pairs (l : list (hash * hash)) : list (hash * hash) :=
  match l with
  | [] => []
  | p :: tl => if existsb (fun q => (fst q =? fst p) && (snd q =? snd p)) tl then dedup_pairs tl else p :: dedup_pairs tl
  end.

Definition observe (s : mstate) : val :=
  VL [dump_tbl (ms_th s); dump_tbl (ms_tt s); vlist VN (dedup_sorted (sortN (ms_sh s)));
      VL (map snd (fold_right ins_row [] (map (fun p => (fst p, VL [VN (fst p); VN (snd p)])) (dedup_pairs (ms_st s)))))].

Fixpoint run_events (s : mstate) (evs : list fev) : list val :=
  match evs with
  | [] => []
  | e :: tl => let '(s', v) := step s e in VL [v; observe s'] :: run_events s' tl
  end.

Definition run_fetch (evs : list fev) : val := VL (run_events (mkMS [] [] [] [] []) evs).

Definition run_accept_block (matched : list (hash * bool)) (h : hash) (body_ok : bool) : val :=
  vbool (accept_block matched h body_ok).
