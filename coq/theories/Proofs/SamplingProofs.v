(* Lemmas about Model/Sampling.v (C15). *)
From Coq Require Import NArith ZArith Lia List Bool Sorted.
From LC Require Import Sampling.
Import ListNotations.
Open Scope N_scope.

Ltac Zify.zify_post_hook ::= Z.div_mod_to_equations.

Lemma SCALE_val : SCALE = 1000000000. Proof. reflexivity. Qed.
Lemma MOD256_max : MOD256 = U256MAX + 1. Proof. reflexivity. Qed.

(* ---- estimate_samples_count ---- *)
Lemma estimate_small bc l m : bc <= l -> estimate_samples_count bc l m = 0.
Proof. intros H. unfold estimate_samples_count. rewrite (proj2 (N.leb_le _ _) H). reflexivity. Qed.

Lemma estimate_large bc l m :
  l < bc ->
  let c := estimate_samples_count bc l m in
  1 <= c /\ c <= bc - l /\ N.min m bc <= c + l.
Proof.
  intros H. cbv zeta. unfold estimate_samples_count.
  destruct (N.leb_spec bc l); [lia|].
  destruct (N.leb_spec m l); [lia|].
  destruct (N.ltb_spec bc m); lia.
Qed.

(* ---- multiply ---- *)
Lemma multiply_pos u num : 1 <= multiply u num.
Proof.
  unfold multiply. generalize ((u * num / SCALE) mod MOD256). intros r.
  destruct (N.eqb_spec r 0); lia.
Qed.

Lemma multiply_le u num : 1 <= u -> u <= U256MAX -> num <= SCALE -> multiply u num <= u.
Proof.
  intros Hu Hmax Hn. unfold multiply.
  assert (Hq : u * num / SCALE <= u).
  { apply N.div_le_upper_bound; [rewrite SCALE_val; lia | nia]. }
  rewrite N.mod_small by (rewrite MOD256_max; lia).
  revert Hq. generalize (u * num / SCALE). intros q Hq.
  destruct (N.eqb_spec q 0); lia.
Qed.

(* ---- random_sample ---- *)
Lemma random_sample_range start range boundary num d :
  start + 1 <= boundary ->
  random_sample start range boundary num = Ok d ->
  start <= d /\ d < boundary /\ (start + 2 <= boundary -> start < d).
Proof.
  intros Hb. unfold random_sample, add256, add_chk.
  pose proof (multiply_pos range num) as Hm.
  destruct (_ <=? U256MAX); cbn [bind]; [|discriminate].
  destruct (N.leb_spec boundary (start + multiply range num)).
  - unfold sub_chk. destruct (N.leb_spec 1 boundary); [|discriminate].
    intros E; inversion E; subst. lia.
  - intros E; inversion E; subst. lia.
Qed.

Lemma random_sample_no_panic start range boundary num :
  1 <= range -> start + range <= U256MAX -> range <= U256MAX -> num <= SCALE -> 1 <= boundary ->
  is_panic (random_sample start range boundary num) = false.
Proof.
  intros Hr Hs Hr2 Hn Hb. unfold random_sample, add256, add_chk.
  pose proof (multiply_le range num Hr Hr2 Hn) as Hm.
  destruct (N.leb_spec (start + multiply range num) U256MAX); [|lia]. cbn [bind].
  destruct (_ <=? _); [|reflexivity].
  unfold sub_chk. destruct (N.leb_spec 1 boundary); [reflexivity | lia].
Qed.

(* ---- sort_uniq ---- *)
Lemma insert_uniq_in x l y : In y (insert_uniq x l) <-> y = x \/ In y l.
Proof.
  induction l as [|z l IH]; cbn [insert_uniq].
  - cbn. intuition.
  - destruct (N.ltb_spec x z); [cbn; intuition|].
    destruct (N.eqb_spec x z).
    + subst. cbn. intuition.
    + cbn [In]. rewrite IH. intuition.
Qed.

Lemma insert_uniq_sorted x l :
  StronglySorted N.lt l -> StronglySorted N.lt (insert_uniq x l).
Proof.
  induction l as [|z l IH]; intros H; cbn [insert_uniq].
  - repeat constructor.
  - inversion H as [|? ? Hs Hf]; subst.
    destruct (N.ltb_spec x z) as [Hlt|Hge].
    + constructor; [exact H|]. constructor; [exact Hlt|].
      rewrite Forall_forall in *. intros y Hy. specialize (Hf y Hy). lia.
    + destruct (N.eqb_spec x z); [exact H|].
      constructor; [apply IH; exact Hs|].
      rewrite Forall_forall in *. intros y Hy. apply insert_uniq_in in Hy.
      destruct Hy as [->|Hy]; [lia | apply Hf; exact Hy].
Qed.

Lemma sort_uniq_sorted l : StronglySorted N.lt (sort_uniq l).
Proof.
  induction l as [|x l IH]; cbn; [constructor | apply insert_uniq_sorted; exact IH].
Qed.

Lemma sort_uniq_in l y : In y (sort_uniq l) <-> In y l.
Proof.
  induction l as [|x l IH]; cbn [sort_uniq fold_right]; [reflexivity|].
  rewrite insert_uniq_in. fold (sort_uniq l). rewrite IH. cbn. intuition.
Qed.

Lemma insert_uniq_length x l : (length (insert_uniq x l) <= S (length l))%nat.
Proof.
  induction l as [|z l IH]; cbn [insert_uniq]; [cbn; lia|].
  destruct (x <? z); [cbn; lia|]. destruct (x =? z); cbn in *; lia.
Qed.

Lemma sort_uniq_length l : (length (sort_uniq l) <= length l)%nat.
Proof.
  induction l as [|x l IH]; cbn [sort_uniq fold_right length]; [lia|].
  fold (sort_uniq l). pose proof (insert_uniq_length x (sort_uniq l)). lia.
Qed.

Lemma sort_uniq_nonempty l : l <> [] -> sort_uniq l <> [].
Proof.
  destruct l as [|x l]; [congruence|]. intros _ E.
  assert (In x (sort_uniq (x :: l))) by (apply sort_uniq_in; left; reflexivity).
  rewrite E in H. contradiction.
Qed.

(* ---- map_res ---- *)
Lemma map_res_ok {A B} (f : A -> res B) l bs :
  map_res f l = Ok bs -> length bs = length l /\ forall b, In b bs -> exists a, In a l /\ f a = Ok b.
Proof.
  revert bs; induction l as [|a l IH]; intros bs; cbn [map_res].
  - intros E; inversion E; subst. split; [reflexivity | intros b []].
  - destruct (f a) as [b0| |] eqn:Fa; cbn [bind]; try discriminate.
    destruct (map_res f l) as [bs0| |]; cbn [bind]; try discriminate.
    intros E; inversion E; subst. destruct (IH bs0 eq_refl) as [L I].
    split; [cbn; lia|]. intros b [->|Hb].
    + exists a. split; [left; reflexivity | exact Fa].
    + destruct (I b Hb) as [a' [Ha' Fa']]. exists a'. split; [right; exact Ha' | exact Fa'].
Qed.

Lemma map_res_no_panic {A B} (f : A -> res B) l :
  (forall a, In a l -> is_panic (f a) = false) ->
  (forall a c, f a <> Err c) ->
  is_panic (map_res f l) = false.
Proof.
  intros Hp He. induction l as [|a l IH]; [reflexivity|].
  cbn [map_res]. pose proof (Hp a (or_introl eq_refl)) as Pa.
  destruct (f a) as [b|c|s] eqn:Fa; cbn [bind]; [|reflexivity|discriminate].
  assert (IH' : is_panic (map_res f l) = false) by (apply IH; intros; apply Hp; right; assumption).
  destruct (map_res f l); cbn [bind]; [reflexivity | reflexivity | exact IH'].
Qed.

(* ---- sample_blocks ---- *)
Definition samples_ok (start_d boundary : N) (ds : list N) : Prop :=
  StronglySorted N.lt ds /\
  forall d, In d ds -> start_d <= d /\ d < boundary /\ (start_d + 2 <= boundary -> start_d < d).

Lemma sample_blocks_spec sn sd ln ld last_n m num_b nums c b ds :
  sd < ld -> ld <= U256MAX -> num_b <= SCALE ->
  sample_blocks sn sd ln ld last_n m num_b nums = Ok (c, b, ds) ->
  sn <= ln /\ c = estimate_samples_count (ln - sn) last_n m /\
  sd < b /\ b <= ld /\ samples_ok sd b ds /\
  (length ds <= length nums)%nat /\ (nums <> [] -> ds <> []).
Proof.
  intros Hlt Hmax Hnb. unfold sample_blocks.
  unfold sub_chk at 1. destruct (N.leb_spec sn ln) as [Hsn|]; [|discriminate]. cbn [bind].
  unfold sub_chk at 1. destruct (N.leb_spec sd ld) as [_|]; [|discriminate]. cbn [bind].
  assert (Hr : 1 <= ld - sd) by lia.
  pose proof (multiply_le (ld - sd) num_b Hr ltac:(lia) Hnb) as Hm.
  pose proof (multiply_pos (ld - sd) num_b) as Hm1.
  unfold add256, add_chk. destruct (N.leb_spec (sd + multiply (ld - sd) num_b) U256MAX); [|lia]. cbn [bind].
  set (bd := sd + multiply (ld - sd) num_b) in *.
  destruct (map_res (random_sample sd (ld - sd) bd) nums) as [raw| |] eqn:MR; cbn [bind]; try discriminate.
  intros E; inversion E; subst c b ds.
  destruct (map_res_ok _ _ _ MR) as [Len Hin].
  assert (Hds : forall d, In d (sort_uniq raw) -> sd <= d /\ d < bd /\ (sd + 2 <= bd -> sd < d)).
  { intros d Hd. apply (proj1 (sort_uniq_in _ _)) in Hd. destruct (Hin d Hd) as [num [_ Fd]].
    apply random_sample_range in Fd; [exact Fd | lia]. }
  split; [exact Hsn|]. split; [reflexivity|]. split; [lia|]. split; [lia|].
  split; [split; [apply sort_uniq_sorted | exact Hds]|].
  split.
  - pose proof (sort_uniq_length raw). lia.
  - intros Hne. apply sort_uniq_nonempty. destruct raw; [destruct nums; [congruence | cbn in Len; lia] | congruence].
Qed.

Lemma sample_blocks_no_panic sn sd ln ld last_n m num_b nums :
  sn <= ln -> sd < ld -> ld <= U256MAX -> num_b <= SCALE ->
  (forall x, In x nums -> x <= SCALE) ->
  is_panic (sample_blocks sn sd ln ld last_n m num_b nums) = false.
Proof.
  intros Hsn Hlt Hmax Hnb Hnums. unfold sample_blocks.
  unfold sub_chk at 1. destruct (N.leb_spec sn ln); [|lia]. cbn [bind].
  unfold sub_chk at 1. destruct (N.leb_spec sd ld); [|lia]. cbn [bind].
  assert (Hr : 1 <= ld - sd) by lia.
  pose proof (multiply_le (ld - sd) num_b Hr ltac:(lia) Hnb) as Hm.
  unfold add256, add_chk. destruct (N.leb_spec (sd + multiply (ld - sd) num_b) U256MAX); [|lia]. cbn [bind].
  assert (MP : is_panic (map_res (random_sample sd (ld - sd) (sd + multiply (ld - sd) num_b)) nums) = false).
  { apply map_res_no_panic.
    - intros x Hx. pose proof (multiply_pos (ld - sd) num_b).
      apply random_sample_no_panic; try lia. apply Hnums; exact Hx.
    - intros x c. unfold random_sample, add256, add_chk, sub_chk.
      destruct (_ <=? U256MAX); cbn [bind]; [|discriminate].
      destruct (_ <=? _); [|discriminate]. destruct (_ <=? _); discriminate. }
  destruct (map_res _ nums); cbn [bind]; [reflexivity | reflexivity | exact MP].
Qed.

(* ---- build_request ---- *)
Lemma find_rebase_spec hs sn ln last_n num h :
  find_rebase hs sn ln last_n = Some (num, h) ->
  In (num, h) hs /\ num < sn /\ ln <= num + last_n.
Proof.
  induction hs as [|[n0 h0] tl IH]; cbn [find_rebase]; [discriminate|].
  destruct (andb _ _) eqn:C.
  - intros E; inversion E; subst. apply andb_true_iff in C. destruct C as [C1 C2].
    apply N.ltb_lt in C1. apply N.leb_le in C2. repeat split; [left; reflexivity | lia | lia].
  - intros E. destruct (IH E) as [I1 I2]. split; [right; exact I1 | exact I2].
Qed.

Definition request_ok (last_n last_number last_td start_number start_td : N) (r : request) : Prop :=
  rq_start_number r < last_number /\
  start_td <= last_td /\
  start_td <= rq_boundary r /\ rq_boundary r <= last_td /\
  samples_ok start_td (rq_boundary r) (rq_difficulties r) /\
  (last_number - start_number <= last_n ->
     rq_difficulties r = [] /\ rq_start_number r <= start_number /\ last_number <= rq_start_number r + last_n) /\
  (last_n < last_number - start_number ->
     rq_start_number r = start_number /\ start_td < rq_boundary r).

Lemma build_request_spec last_n ln ltd sh sn std stored m num_b nums r :
  ltd <= U256MAX -> num_b <= SCALE ->
  (* every block carries at least one unit of difficulty *)
  (last_n < ln - sn -> std < ltd) ->
  build_request last_n ln ltd sh sn std stored m num_b nums = Ok (Some r) ->
  request_ok last_n ln ltd sn std r /\
  (last_n < ln - sn -> nums <> [] -> rq_difficulties r <> []) /\
  (last_n < ln - sn -> rq_start_hash r = sh).
Proof.
  intros Hmax Hnb Hdiff. unfold build_request.
  destruct (orb _ _) eqn:G; [discriminate|].
  apply orb_false_iff in G. destruct G as [G1 G2]. apply N.ltb_ge in G1. apply N.leb_gt in G2.
  destruct (N.leb_spec (ln - sn) last_n) as [Hsmall|Hlarge].
  - destruct (find_rebase stored sn ln last_n) as [[n' h']|] eqn:F.
    + apply find_rebase_spec in F. destruct F as [_ [F1 F2]].
      intros E; inversion E; subst r. unfold request_ok, samples_ok; cbn.
      repeat split; try lia; try constructor; try contradiction.
    + intros E; inversion E; subst r. unfold request_ok, samples_ok; cbn.
      repeat split; try lia; try constructor; try contradiction.
  - specialize (Hdiff Hlarge).
    destruct (sample_blocks sn std ln ltd last_n m num_b nums) as [[[c b] ds]| |] eqn:SB; cbn [bind]; try discriminate.
    intros E; inversion E; subst r.
    destruct (sample_blocks_spec _ _ _ _ _ _ _ _ _ _ _ Hdiff Hmax Hnb SB) as [S1 [S2 [S3 [S4 [S5 [S6 S7]]]]]].
    split; [|split].
    + unfold request_ok; cbn [rq_start_number rq_boundary rq_difficulties rq_start_hash].
      split; [lia|]. split; [lia|]. split; [lia|]. split; [lia|]. split; [exact S5|].
      split; [intros; lia | intros; split; [reflexivity | lia]].
    + intros _ Hne. cbn [rq_difficulties]. apply S7. exact Hne.
    + intros _. reflexivity.
Qed.

Lemma build_request_none last_n ln ltd sh sn std stored m num_b nums :
  build_request last_n ln ltd sh sn std stored m num_b nums = Ok None <-> (ltd < std \/ ln <= sn).
Proof.
  unfold build_request. destruct (orb _ _) eqn:G.
  - apply orb_true_iff in G. split; [intros _|reflexivity].
    destruct G as [G|G]; [left; apply N.ltb_lt; exact G | right; apply N.leb_le; exact G].
  - apply orb_false_iff in G. destruct G as [G1 G2]. apply N.ltb_ge in G1. apply N.leb_gt in G2.
    split; [|lia].
    destruct (_ <=? last_n).
    + destruct (find_rebase _ _ _ _) as [[? ?]|]; discriminate.
    + destruct (sample_blocks _ _ _ _ _ _ _ _) as [[[? ?] ?]| |]; cbn [bind]; discriminate.
Qed.
