(* Lemmas about Model/Fetch.v (C02, C16). *)
From Coq Require Import NArith Lia List Bool Arith.
From LC Require Import Fetch.
Import ListNotations.
Open Scope N_scope.
Open Scope bool_scope.

Lemma has_In h l : has h l = true <-> In h l.
Proof.
  unfold has. rewrite existsb_exists. split.
  - intros (x & Hx & E). apply N.eqb_eq in E. subst. exact Hx.
  - intros H. exists h. split; [exact H | apply N.eqb_refl].
Qed.

(* ------------------------------------------------------------------------------------ *)
(* C02: what gets stored *)

Lemma blocks_proof_stored req m t h :
  In h (bo_stored (blocks_proof req m t)) ->
  exists r, req = Some r /\ br_last r = bm_last m /\ same_hashes (br_hashes r) (bm_headers m) (bm_missing m) = true /\
            In h (bm_headers m) /\ t_get h t <> None /\
            bm_pow_ok m = true /\ bm_mmr_ok m = true /\ bm_extra m <> 2 /\ bm_extra m <> 3 /\
            bo_code (blocks_proof req m t) = 200.
Proof.
  unfold blocks_proof. destruct req as [r|]; [|intros []]. intros H. exists r. split; [reflexivity|].
  destruct (N.eqb_spec (br_last r) (bm_last m)) as [E|E]; cbn [negb] in H.
  2: { destruct (_ && _ && _); [destruct (_ =? 200)|]; destruct H. }
  destruct (same_hashes _ _ _) eqn:SH; cbn [negb] in H; [|destruct H].
  destruct (bm_headers m) as [|h0 hs] eqn:HS; [destruct (negb _); destruct H|]. rewrite <- HS in *.
  destruct (bm_pow_ok m) eqn:Pw; cbn [negb] in H; [|destruct H].
  destruct (N.eqb_spec (bm_extra m) 3) as [X3|X3]; [destruct H|].
  destruct (N.eqb_spec (bm_extra m) 2) as [X2|X2]; [destruct H|].
  destruct (bm_mmr_ok m) eqn:Mm; cbn [negb] in H; [|destruct H].
  cbn [bo_stored] in H. apply filter_In in H. destruct H as [Hin Hg].
  split; [exact E|]. split; [reflexivity|]. split; [exact Hin|]. split; [intros Z; rewrite Z in Hg; discriminate|].
  split; [reflexivity|]. split; [reflexivity|]. split; [exact X2|]. split; [exact X3|]. reflexivity.
Qed.

Lemma blocks_proof_rejected req m t :
  bo_code (blocks_proof req m t) <> 200 ->
  bo_stored (blocks_proof req m t) = [] /\ bo_proved (blocks_proof req m t) = [].
Proof.
  unfold blocks_proof. destruct req as [r|]; [|intros _; split; reflexivity].
  destruct (negb (br_last r =? bm_last m)).
  - destruct (_ && _ && _); [destruct (_ =? 200)|]; intros _; split; reflexivity.
  - destruct (negb (same_hashes _ _ _)); [intros _; split; reflexivity|].
    destruct (bm_headers m); [destruct (negb _); intros _; split; reflexivity|].
    destruct (negb (bm_pow_ok m)); [intros _; split; reflexivity|].
    destruct (bm_extra m =? 3); [intros _; split; reflexivity|]. destruct (bm_extra m =? 2); [intros _; split; reflexivity|].
    destruct (negb (bm_mmr_ok m)); [intros _; split; reflexivity|]. cbn [bo_code]. intros H. contradiction.
Qed.

(* with a duplicate-free request the answer carries exactly the requested hashes *)
Lemma same_hashes_exact req recv missing :
  NoDup req -> same_hashes req recv missing = true ->
  forall h, In h (recv ++ missing) -> In h req.
Proof.
  intros ND H. unfold same_hashes in H. apply andb_prop in H. destruct H as [Hl Hf].
  apply Nat.eqb_eq in Hl. rewrite forallb_forall in Hf.
  assert (Hincl : incl req (recv ++ missing)).
  { intros x Hx. specialize (Hf x Hx). apply orb_prop in Hf. apply in_or_app. destruct Hf as [Hf|Hf]; apply has_In in Hf; auto. }
  assert (Hrev : incl (recv ++ missing) req) by (apply NoDup_length_incl; [exact ND | rewrite app_length; lia | exact Hincl]).
  intros h Hh. exact (Hrev h Hh).
Qed.

Lemma txs_proof_stored req m tt th t b :
  In (t, b) (to_stored (txs_proof req m tt th)) ->
  exists last hashes, req = Some (last, hashes) /\ last = tm_last m /\
     same_hashes hashes (flat_map snd (tm_blocks m)) (tm_missing m) = true /\
     (exists txs, In (b, txs) (tm_blocks m) /\ In t txs) /\ t_get t tt <> None /\
     tm_pow_ok m = true /\ tm_mmr_ok m = true /\ tm_merkle_ok m = true /\ tm_extra m <> 2 /\ tm_extra m <> 3.
Proof.
  unfold txs_proof. destruct req as [[last hashes]|]; [|intros []]. intros H. exists last, hashes. split; [reflexivity|].
  destruct (N.eqb_spec last (tm_last m)) as [E|E]; cbn [negb] in H.
  2: { destruct (_ && _ && _); [destruct (_ =? 200)|]; destruct H. }
  destruct (same_hashes _ _ _) eqn:SH; cbn [negb] in H; [|destruct H].
  destruct (tm_blocks m) as [|b0 bs] eqn:BS; [destruct (negb _); destruct H|]. rewrite <- BS in *.
  destruct (tm_pow_ok m) eqn:Pw; cbn [negb] in H; [|destruct H].
  destruct (N.eqb_spec (tm_extra m) 3) as [X3|X3]; [destruct H|].
  destruct (N.eqb_spec (tm_extra m) 2) as [X2|X2]; [destruct H|].
  destruct (tm_mmr_ok m) eqn:Mm; cbn [negb] in H; [|destruct H].
  destruct (tm_merkle_ok m) eqn:Mk; cbn [negb] in H; [|destruct H].
  split; [exact E|]. split; [reflexivity|].
  (* the fold only ever stores pairs of the message whose transaction is in the table at that moment *)
  set (pairs := flat_map (fun b1 : hash * list hash => map (fun x => (x, fst b1)) (snd b1)) (tm_blocks m)) in *.
  set (step := fun (acc : tbl * tbl * list (hash * hash)) (p : hash * hash) =>
                 let '(tt0, th0, st) := acc in
                 match t_get (fst p) tt0 with
                 | Some _ => (t_del (fst p) tt0, t_del (snd p) th0, st ++ [p])
                 | None => acc
                 end) in *.
  assert (G : forall ps tt0 th0 st0,
             (forall x, t_get x tt0 <> None -> t_get x tt <> None) ->
             forall tt1 th1 st1, fold_left step ps (tt0, th0, st0) = (tt1, th1, st1) ->
             forall q, In q st1 -> In q st0 \/ (In q ps /\ t_get (fst q) tt <> None)).
  { induction ps as [|p ps IH]; intros tt0 th0 st0 Hsub tt1 th1 st1 F q Hq.
    - cbn in F. inversion F; subst. left; exact Hq.
    - cbn [fold_left] in F. unfold step at 2 in F. destruct (t_get (fst p) tt0) as [i|] eqn:G0.
      + eapply IH in F; [| |exact Hq].
        * destruct F as [F|[F1 F2]]; [|right; split; [right; exact F1 | exact F2]].
          apply in_app_or in F. destruct F as [F|[F|[]]]; [left; exact F|]. subst q. right. split; [left; reflexivity|].
          apply Hsub. rewrite G0. discriminate.
        * intros x Hx. apply Hsub. clear - Hx. induction tt0 as [|[k v] tl IH]; [exact Hx|]. cbn [t_del t_get] in *.
          destruct (N.eqb_spec k (fst p)) as [K|K].
          -- destruct (N.eqb_spec k x); [discriminate | apply IH; exact Hx].
          -- cbn [t_get] in Hx. destruct (N.eqb_spec k x); [discriminate | apply IH; exact Hx].
      + eapply IH in F; [| exact Hsub | exact Hq]. destruct F as [F|[F1 F2]]; [left; exact F | right; split; [right; exact F1 | exact F2]]. }
  destruct (fold_left step pairs (tt, th, [])) as [[tt1 th1] st1] eqn:F. cbn [to_stored] in H.
  destruct (G pairs tt th [] (fun x Hx => Hx) tt1 th1 st1 F (t, b) H) as [[]|[Hp Hg]].
  unfold pairs in Hp. apply in_flat_map in Hp. destruct Hp as ([b1 txs] & Hb & Hm). apply in_map_iff in Hm.
  destruct Hm as (x & Ex & Hx). inversion Ex; subst. cbn [fst snd] in *.
  split; [exists txs; split; assumption|]. repeat split; try assumption; reflexivity.
Qed.

Lemma accept_block_spec matched h body_ok :
  accept_block matched h body_ok = true -> body_ok = true /\ exists e, In e matched /\ fst e = h /\ snd e = true.
Proof.
  unfold accept_block, hash in *. intros H.
  destruct (find (fun e : N * bool => fst e =? h) matched) as [[k p]|] eqn:F; [|discriminate H].
  apply andb_prop in H. destruct H as [Hp Hb]. split; [exact Hb|]. apply find_some in F. destruct F as [Hin E]. apply N.eqb_eq in E.
  exists (k, p). repeat split; auto.
Qed.

(* ------------------------------------------------------------------------------------ *)
(* C16: no fetch request is ever lost *)
From LC Require Import RunC02.

(* an entry nobody is working on must be one the next tick will send, or one reported missing *)
Definition idle_ok (i : finfo) : bool := (f_first_sent i =? 0) || f_timeout i || f_missing i.

Definition inflight_h (peers : list peer_req) (h : hash) : Prop :=
  exists x r, In x peers /\ pq_blocks x = Some r /\ In h (br_hashes r).
Definition inflight_t (peers : list peer_req) (t : hash) : Prop :=
  exists x r, In x peers /\ pq_txs x = Some r /\ In t (snd r).

Definition Inv (s : mstate) : Prop :=
  NoDup (map pq_id (ms_peers s)) /\
  (forall h i, In (h, i) (ms_th s) -> idle_ok i = true \/ inflight_h (ms_peers s) h) /\
  (forall t i, In (t, i) (ms_tt s) -> idle_ok i = true \/ inflight_t (ms_peers s) t).

(* connecting a peer that is already connected is not part of the histories considered (the network layer never does it) *)
Definition wf_ev (s : mstate) (e : fev) : Prop :=
  match e with FE_connect p => find_peer p (ms_peers s) = None | _ => True end.

Lemma t_upd_in f hs t h i' :
  In (h, i') (t_upd f hs t) -> exists i, In (h, i) t /\ ((has h hs = true /\ i' = f i) \/ (has h hs = false /\ i' = i)).
Proof.
  unfold t_upd. intros H. apply in_map_iff in H. destruct H as ([k v] & E & Hin). cbn [fst snd] in E.
  fold (has k hs) in E. destruct (has k hs) eqn:Hk; inversion E; subst.
  - eexists. split; [exact Hin|]. left. split; [exact Hk | reflexivity].
  - eexists. split; [exact Hin|]. right. split; [exact Hk | reflexivity].
Qed.

Lemma t_del_in k t h i : In (h, i) (t_del k t) -> In (h, i) t /\ h <> k.
Proof.
  induction t as [|[k0 v0] tl IH]; [intros []|]. cbn [t_del]. destruct (N.eqb_spec k0 k) as [E|E].
  - intros H. destruct (IH H). split; [right|]; assumption.
  - intros [H|H]; [inversion H; subst; split; [left; reflexivity | exact E] | destruct (IH H); split; [right|]; assumption].
Qed.

Lemma t_put_in k v t h i : In (h, i) (t_put k v t) -> (h = k /\ i = v) \/ In (h, i) t.
Proof. unfold t_put. intros [H|H]; [inversion H; left; auto | right; apply (t_del_in _ _ _ _ H)]. Qed.

Lemma fold_del_in ks : forall t h i, In (h, i) (fold_left (fun acc k => t_del k acc) ks t) -> In (h, i) t /\ ~ In h ks.
Proof.
  induction ks as [|k ks IH]; intros t h i H; [split; [exact H | intros []]|]. cbn [fold_left] in H.
  destruct (IH _ _ _ H) as [H1 H2]. apply t_del_in in H1. destruct H1 as [H1 H3]. split; [exact H1|].
  intros [E|E]; [subst; contradiction | contradiction].
Qed.

Lemma find_peer_some p l x : find_peer p l = Some x -> In x l /\ pq_id x = p.
Proof.
  induction l as [|y l IH]; [discriminate|]. cbn [find_peer]. destruct (N.eqb_spec (pq_id y) p) as [E|E].
  - intros H; inversion H; subst. split; [left; reflexivity | reflexivity].
  - intros H. destruct (IH H). split; [right|]; assumption.
Qed.

Lemma find_peer_none p l : find_peer p l = None -> forall y, In y l -> pq_id y <> p.
Proof.
  induction l as [|z l IH]; [intros _ y []|]. cbn [find_peer]. destruct (N.eqb_spec (pq_id z) p) as [E|E]; [discriminate|].
  intros H y [->|Hy]; [exact E | exact (IH H y Hy)].
Qed.

Lemma nodup_ids_unique l : NoDup (map pq_id l) -> forall x y, In x l -> In y l -> pq_id x = pq_id y -> x = y.
Proof.
  induction l as [|z l IH]; [intros _ x y []|]. cbn [map]. intros ND x y Hx Hy E. inversion ND as [|? ? Hn ND']; subst.
  destruct Hx as [->|Hx]; destruct Hy as [->|Hy]; auto.
  - exfalso. apply Hn. rewrite E. apply in_map. exact Hy.
  - exfalso. apply Hn. rewrite <- E. apply in_map. exact Hx.
Qed.

Lemma set_peer_ids x l : map pq_id (set_peer x l) = map pq_id l.
Proof.
  unfold set_peer. rewrite map_map. apply map_ext_in. intros y _. destruct (N.eqb_spec (pq_id y) (pq_id x)) as [E|E]; [symmetry; exact E | reflexivity].
Qed.

Lemma set_peer_in x l y : In y (set_peer x l) -> y = x \/ (In y l /\ pq_id y <> pq_id x).
Proof.
  unfold set_peer. intros H. apply in_map_iff in H. destruct H as (z & E & Hz).
  destruct (N.eqb_spec (pq_id z) (pq_id x)) as [K|K]; [left; symmetry; exact E | right; subst; auto].
Qed.

Lemma set_peer_keeps x l y : In y l -> pq_id y <> pq_id x -> In y (set_peer x l).
Proof.
  unfold set_peer. intros Hy Hn. apply in_map_iff. exists y. destruct (N.eqb_spec (pq_id y) (pq_id x)); [contradiction | auto].
Qed.

Lemma set_peer_has x l x0 : In x0 l -> pq_id x0 = pq_id x -> In x (set_peer x l).
Proof.
  unfold set_peer. intros Hy E. apply in_map_iff. exists x0. rewrite E, N.eqb_refl. auto.
Qed.

(* requests of other peers are untouched when one peer's record is replaced *)
Lemma inflight_h_other l x0 x h :
  NoDup (map pq_id l) -> In x0 l -> pq_id x = pq_id x0 ->
  inflight_h l h -> (forall r, pq_blocks x0 = Some r -> In h (br_hashes r) -> exists r', pq_blocks x = Some r' /\ In h (br_hashes r')) ->
  inflight_h (set_peer x l) h.
Proof.
  intros ND H0 E (y & r & Hy & Hr & Hh) Hsame.
  destruct (N.eqb_spec (pq_id y) (pq_id x)) as [K|K].
  - assert (y = x0) by (apply (nodup_ids_unique l ND); [exact Hy | exact H0 | congruence]). subst y.
    destruct (Hsame r Hr Hh) as (r' & Hr' & Hh'). exists x, r'. split; [eapply set_peer_has; eauto | auto].
  - exists y, r. split; [apply set_peer_keeps; assumption | auto].
Qed.

Lemma inflight_t_other l x0 x t :
  NoDup (map pq_id l) -> In x0 l -> pq_id x = pq_id x0 ->
  inflight_t l t -> (forall r, pq_txs x0 = Some r -> In t (snd r) -> exists r', pq_txs x = Some r' /\ In t (snd r')) ->
  inflight_t (set_peer x l) t.
Proof.
  intros ND H0 E (y & r & Hy & Hr & Hh) Hsame.
  destruct (N.eqb_spec (pq_id y) (pq_id x)) as [K|K].
  - assert (y = x0) by (apply (nodup_ids_unique l ND); [exact Hy | exact H0 | congruence]). subst y.
    destruct (Hsame r Hr Hh) as (r' & Hr' & Hh'). exists x, r'. split; [eapply set_peer_has; eauto | auto].
  - exists y, r. split; [apply set_peer_keeps; assumption | auto].
Qed.

Lemma idle_timeout i : idle_ok (mkFI (f_added i) (f_first_sent i) true (f_missing i)) = true.
Proof. unfold idle_ok. cbn. rewrite orb_true_r. reflexivity. Qed.
Lemma idle_missing i : idle_ok (mkFI (f_added i) (f_first_sent i) (f_timeout i) true) = true.
Proof. unfold idle_ok. cbn. apply orb_true_r. Qed.

Lemma to_fetch_in t h i : In (h, i) t -> (f_first_sent i =? 0) || f_timeout i = true -> In h (to_fetch t).
Proof. intros H E. unfold to_fetch. apply in_map_iff. exists (h, i). split; [reflexivity|]. apply filter_In. split; assumption. Qed.

Definition th_part (th : tbl) (peers : list peer_req) : Prop :=
  forall h i, In (h, i) th -> idle_ok i = true \/ inflight_h peers h.
Definition tt_part (tt : tbl) (peers : list peer_req) : Prop :=
  forall t i, In (t, i) tt -> idle_ok i = true \/ inflight_t peers t.

(* one peer's blocks request is cleared: fine if every hash of that request ends up idle (or gone) *)
Lemma th_part_clear peers th th' x x' :
  NoDup (map pq_id peers) -> In x peers -> pq_id x' = pq_id x -> pq_blocks x' = None ->
  th_part th peers ->
  (forall h i', In (h, i') th' -> exists i, In (h, i) th /\
       (forall r, pq_blocks x = Some r -> In h (br_hashes r) -> idle_ok i' = true) /\ (idle_ok i = true -> idle_ok i' = true)) ->
  th_part th' (set_peer x' peers).
Proof.
  intros ND Hx E Hnone Hold Hsrc h i' Hin. destruct (Hsrc h i' Hin) as (i & Hi & H1 & H2).
  destruct (Hold h i Hi) as [Hidle|(y & r & Hy & Hr & Hh)]; [left; exact (H2 Hidle)|].
  destruct (N.eqb_spec (pq_id y) (pq_id x)) as [K|K].
  - assert (y = x) by (apply (nodup_ids_unique peers ND); assumption). subst y. left. exact (H1 r Hr Hh).
  - right. exists y, r. split; [apply set_peer_keeps; [exact Hy | congruence] | auto].
Qed.

Lemma tt_part_clear peers tt tt' x x' :
  NoDup (map pq_id peers) -> In x peers -> pq_id x' = pq_id x -> pq_txs x' = None ->
  tt_part tt peers ->
  (forall t i', In (t, i') tt' -> exists i, In (t, i) tt /\
       (forall r, pq_txs x = Some r -> In t (snd r) -> idle_ok i' = true) /\ (idle_ok i = true -> idle_ok i' = true)) ->
  tt_part tt' (set_peer x' peers).
Proof.
  intros ND Hx E Hnone Hold Hsrc t i' Hin. destruct (Hsrc t i' Hin) as (i & Hi & H1 & H2).
  destruct (Hold t i Hi) as [Hidle|(y & r & Hy & Hr & Hh)]; [left; exact (H2 Hidle)|].
  destruct (N.eqb_spec (pq_id y) (pq_id x)) as [K|K].
  - assert (y = x) by (apply (nodup_ids_unique peers ND); assumption). subst y. left. exact (H1 r Hr Hh).
  - right. exists y, r. split; [apply set_peer_keeps; [exact Hy | congruence] | auto].
Qed.

(* a peer's record is replaced but its blocks (txs) request is kept: the other table's part is untouched *)
Lemma th_part_keep peers th th' x x' :
  NoDup (map pq_id peers) -> In x peers -> pq_id x' = pq_id x -> pq_blocks x' = pq_blocks x ->
  th_part th peers -> (forall h i, In (h, i) th' -> In (h, i) th) -> th_part th' (set_peer x' peers).
Proof.
  intros ND Hx E Hsame Hold Hsub h i Hin. destruct (Hold h i (Hsub h i Hin)) as [Hidle|Hfl]; [left; exact Hidle|]. right.
  eapply inflight_h_other; eauto. intros r Hr Hh. exists r. rewrite Hsame. auto.
Qed.

Lemma tt_part_keep peers tt tt' x x' :
  NoDup (map pq_id peers) -> In x peers -> pq_id x' = pq_id x -> pq_txs x' = pq_txs x ->
  tt_part tt peers -> (forall t i, In (t, i) tt' -> In (t, i) tt) -> tt_part tt' (set_peer x' peers).
Proof.
  intros ND Hx E Hsame Hold Hsub t i Hin. destruct (Hold t i (Hsub t i Hin)) as [Hidle|Hfl]; [left; exact Hidle|]. right.
  eapply inflight_t_other; eauto. intros r Hr Hh. exists r. rewrite Hsame. auto.
Qed.

Lemma rpc_fetch_entries stored h now t k i :
  In (k, i) (snd (rpc_fetch stored h now t)) -> In (k, i) t \/ idle_ok i = true.
Proof.
  unfold rpc_fetch. destruct stored; [left; assumption|]. destruct (t_get h t) as [i0|].
  - destruct (f_missing i0); cbn [snd]; [|destruct (0 <? f_first_sent i0); left; assumption].
    intros H. apply t_put_in in H. destruct H as [[_ ->]|H]; [right; reflexivity | left; exact H].
  - cbn [snd]. intros H. apply t_put_in in H. destruct H as [[_ ->]|H]; [right; reflexivity | left; exact H].
Qed.

Lemma same_hashes_covers req recv missing h : same_hashes req recv missing = true -> In h req -> In h recv \/ In h missing.
Proof.
  unfold same_hashes. intros H Hin. apply andb_prop in H. destruct H as [_ Hf]. rewrite forallb_forall in Hf.
  specialize (Hf h Hin). apply orb_prop in Hf. destruct Hf as [Hf|Hf]; apply has_In in Hf; auto.
Qed.

Lemma mark_timeout_src hs t h i' :
  In (h, i') (mark_timeout hs t) -> exists i, In (h, i) t /\ (In h hs -> idle_ok i' = true) /\ (idle_ok i = true -> idle_ok i' = true).
Proof.
  unfold mark_timeout. intros H. apply t_upd_in in H. destruct H as (i & Hi & [[Hh ->]|[Hh ->]]); exists i; split; try exact Hi.
  - split; intros _; apply idle_timeout.
  - split; [intros Hin; apply has_In in Hin; congruence | auto].
Qed.

Lemma mark_missing_src hs t h i' :
  In (h, i') (mark_missing hs t) -> exists i, In (h, i) t /\ (In h hs -> idle_ok i' = true) /\ (idle_ok i = true -> idle_ok i' = true).
Proof.
  unfold mark_missing. intros H. apply t_upd_in in H. destruct H as (i & Hi & [[Hh ->]|[Hh ->]]); exists i; split; try exact Hi.
  - split; intros _; apply idle_missing.
  - split; [intros Hin; apply has_In in Hin; congruence | auto].
Qed.

Lemma blocks_proof_src r m t h i' :
  In (h, i') (bo_headers (blocks_proof (Some r) m t)) ->
  exists i, In (h, i) t /\ (In h (br_hashes r) -> idle_ok i' = true) /\ (idle_ok i = true -> idle_ok i' = true).
Proof.
  unfold blocks_proof.
  destruct (negb (br_last r =? bm_last m)).
  { destruct (_ && _ && _); [destruct (_ =? 200)|]; cbn [bo_headers]; apply mark_timeout_src. }
  destruct (same_hashes _ _ _) eqn:SH; cbn [negb]; [|cbn [bo_headers]; apply mark_timeout_src].
  destruct (bm_headers m) as [|h0 hs] eqn:HS.
  { destruct (negb (bm_proof_empty m)); cbn [bo_headers]; [apply mark_timeout_src|].
    intros H. apply mark_missing_src in H. destruct H as (i & Hi & H1 & H2). exists i. split; [exact Hi|]. split; [|exact H2].
    intros Hin. apply H1. destruct (same_hashes_covers _ _ _ _ SH Hin) as [[]|Hm]. exact Hm. }
  rewrite <- HS in *.
  destruct (negb (bm_pow_ok m)); [cbn [bo_headers]; apply mark_timeout_src|].
  destruct (bm_extra m =? 3); [cbn [bo_headers]; apply mark_timeout_src|].
  destruct (bm_extra m =? 2); [cbn [bo_headers]; apply mark_timeout_src|].
  destruct (negb (bm_mmr_ok m)); [cbn [bo_headers]; apply mark_timeout_src|].
  cbn [bo_headers]. intros H. apply mark_missing_src in H. destruct H as (i1 & Hi1 & H1 & H2).
  apply fold_del_in in Hi1. destruct Hi1 as [Hi Hnot]. exists i1. split; [exact Hi|]. split; [|exact H2].
  intros Hin. apply H1. destruct (same_hashes_covers _ _ _ _ SH Hin) as [Hr|Hm]; [contradiction | exact Hm].
Qed.

Lemma t_get_in t : forall k i, In (k, i) t -> t_get k t <> None.
Proof.
  induction t as [|[k0 v0] tl IH]; intros k i H; [destruct H|]. cbn [t_get]. destruct (N.eqb_spec k0 k); [discriminate|].
  destruct H as [H|H]; [inversion H; subst; contradiction | eapply IH; eauto].
Qed.

(* the deletion fold of an accepted transactions proof: what survives was there and is not among the received transactions *)
Lemma txs_fold_survivors (pairs : list (hash * hash)) : forall tt0 th0 st0 tt1 th1 st1,
  fold_left (fun (acc : tbl * tbl * list (hash * hash)) (p : hash * hash) =>
               let '(tta, tha, st) := acc in
               match t_get (fst p) tta with
               | Some _ => (t_del (fst p) tta, t_del (snd p) tha, st ++ [p])
               | None => acc
               end) pairs (tt0, th0, st0) = (tt1, th1, st1) ->
  (forall t i, In (t, i) tt1 -> In (t, i) tt0 /\ ~ In t (map fst pairs)) /\
  (forall h i, In (h, i) th1 -> In (h, i) th0).
Proof.
  induction pairs as [|p ps IH]; intros tt0 th0 st0 tt1 th1 st1 F.
  - cbn in F. inversion F; subst. split; [intros t i H; split; [exact H | intros []] | auto].
  - cbn [fold_left] in F. destruct (t_get (fst p) tt0) as [i0|] eqn:G.
    + apply IH in F. destruct F as [F1 F2]. split.
      * intros t i H. destruct (F1 t i H) as [Ha Hb]. apply t_del_in in Ha. destruct Ha as [Ha Hne].
        split; [exact Ha|]. cbn [map]. intros [E|E]; [congruence | contradiction].
      * intros h i H. apply F2 in H. apply t_del_in in H. exact (proj1 H).
    + apply IH in F. destruct F as [F1 F2]. split; [|exact F2].
      intros t i H. destruct (F1 t i H) as [Ha Hb]. split; [exact Ha|]. cbn [map]. intros [E|E]; [|contradiction].
      apply (t_get_in _ _ _ Ha). rewrite <- E. exact G.
Qed.

Lemma pairs_fst (blocks : list (hash * list hash)) :
  map fst (flat_map (fun b : hash * list hash => map (fun x => (x, fst b)) (snd b)) blocks) = flat_map snd blocks.
Proof.
  induction blocks as [|b bs IH]; [reflexivity|]. cbn [flat_map]. rewrite map_app, IH. f_equal.
  rewrite map_map. cbn [fst]. apply map_id.
Qed.

Lemma txs_proof_src last hashes m tt th :
  (forall t i', In (t, i') (to_txs (txs_proof (Some (last, hashes)) m tt th)) ->
     exists i, In (t, i) tt /\ (In t hashes -> idle_ok i' = true) /\ (idle_ok i = true -> idle_ok i' = true)) /\
  (forall h i, In (h, i) (to_headers (txs_proof (Some (last, hashes)) m tt th)) -> In (h, i) th).
Proof.
  unfold txs_proof.
  destruct (negb (last =? tm_last m)).
  { destruct (_ && _ && _); [destruct (_ =? 200)|]; cbn [to_txs to_headers]; (split; [intros t i'; apply mark_timeout_src | auto]). }
  destruct (same_hashes _ _ _) eqn:SH; cbn [negb]; [|cbn [to_txs to_headers]; split; [intros t i'; apply mark_timeout_src | auto]].
  destruct (tm_blocks m) as [|b0 bs] eqn:BS.
  { destruct (negb (tm_proof_empty m)); cbn [to_txs to_headers]; (split; [|auto]); [intros t i'; apply mark_timeout_src|].
    intros t i' H. apply mark_missing_src in H. destruct H as (i & Hi & H1 & H2). exists i. split; [exact Hi|]. split; [|exact H2].
    intros Hin. apply H1. destruct (same_hashes_covers _ _ _ _ SH Hin) as [[]|Hm]. exact Hm. }
  rewrite <- BS in *.
  destruct (negb (tm_pow_ok m)); [cbn [to_txs to_headers]; split; [intros t i'; apply mark_timeout_src | auto]|].
  destruct (tm_extra m =? 3); [cbn [to_txs to_headers]; split; [intros t i'; apply mark_timeout_src | auto]|].
  destruct (tm_extra m =? 2); [cbn [to_txs to_headers]; split; [intros t i'; apply mark_timeout_src | auto]|].
  destruct (negb (tm_mmr_ok m)); [cbn [to_txs to_headers]; split; [intros t i'; apply mark_timeout_src | auto]|].
  destruct (negb (tm_merkle_ok m)); [cbn [to_txs to_headers]; split; [intros t i'; apply mark_timeout_src | auto]|].
  destruct (fold_left _ _ (tt, th, [])) as [[tt1 th1] st1] eqn:F. cbn [to_txs to_headers].
  apply txs_fold_survivors in F. destruct F as [F1 F2]. split; [|exact F2].
  intros t i' H. apply mark_missing_src in H. destruct H as (i1 & Hi1 & H1 & H2).
  destruct (F1 t i1 Hi1) as [Hi Hnot]. exists i1. split; [exact Hi|]. split; [|exact H2].
  intros Hin. apply H1. rewrite pairs_fst in Hnot. destruct (same_hashes_covers _ _ _ _ SH Hin) as [Hr|Hm]; [contradiction | exact Hm].
Qed.

Lemma mark_sent_src hs now t h i' :
  In (h, i') (mark_sent hs now t) -> exists i, In (h, i) t /\ (has h hs = false -> i' = i).
Proof.
  unfold mark_sent. intros H. apply t_upd_in in H. destruct H as (i & Hi & [[Hh ->]|[Hh ->]]); exists i; split; auto. congruence.
Qed.

Lemma tick_h_inv now last ph th tt peers th' peers' sent :
  NoDup (map pq_id peers) -> th_part th peers -> tt_part tt peers ->
  tick_h now last ph th peers = (th', peers', sent) ->
  NoDup (map pq_id peers') /\ th_part th' peers' /\ tt_part tt peers'.
Proof.
  intros ND Hth Htt H. unfold tick_h in H.
  destruct (to_fetch th) as [|w ws] eqn:W; [inversion H; subst; auto|]. rewrite <- W in *.
  destruct ph as [p|]; [|inversion H; subst; auto].
  destruct (find_peer p peers) as [x|] eqn:F; [|inversion H; subst; auto].
  destruct (pq_blocks x) as [r0|] eqn:B; [inversion H; subst; auto|].
  inversion H; subst; clear H. apply find_peer_some in F. destruct F as [Hx Hid]. subst p.
  set (x' := mkPQ (pq_id x) (Some (mkBR last (to_fetch th) false)) (pq_txs x)).
  split; [rewrite set_peer_ids; exact ND|]. split.
  - intros h i' Hin. apply mark_sent_src in Hin. destruct Hin as (i & Hi & Hsame).
    destruct (has h (to_fetch th)) eqn:Hh.
    + right. exists x', (mkBR last (to_fetch th) false). split; [eapply set_peer_has; [exact Hx | reflexivity]|]. split; [reflexivity|].
      cbn [br_hashes]. apply has_In. exact Hh.
    + rewrite (Hsame eq_refl). destruct (Hth h i Hi) as [Hidle|Hfl]; [left; exact Hidle|]. right.
      eapply inflight_h_other; eauto. intros r Hr. rewrite B in Hr. discriminate.
  - eapply (tt_part_keep peers tt tt x x'); eauto.
Qed.

Lemma tick_t_inv now last pt th tt peers tt' peers' sent :
  NoDup (map pq_id peers) -> th_part th peers -> tt_part tt peers ->
  tick_t now last pt tt peers = (tt', peers', sent) ->
  NoDup (map pq_id peers') /\ th_part th peers' /\ tt_part tt' peers'.
Proof.
  intros ND Hth Htt H. unfold tick_t in H.
  destruct (to_fetch tt) as [|w ws] eqn:W; [inversion H; subst; auto|]. rewrite <- W in *.
  destruct pt as [p|]; [|inversion H; subst; auto].
  destruct (find_peer p peers) as [x|] eqn:F; [|inversion H; subst; auto].
  destruct (pq_txs x) as [r0|] eqn:B; [inversion H; subst; auto|].
  inversion H; subst; clear H. apply find_peer_some in F. destruct F as [Hx Hid]. subst p.
  set (x' := mkPQ (pq_id x) (pq_blocks x) (Some (last, to_fetch tt))).
  split; [rewrite set_peer_ids; exact ND|]. split.
  - eapply (th_part_keep peers th th x x'); eauto.
  - intros t i' Hin. apply mark_sent_src in Hin. destruct Hin as (i & Hi & Hsame).
    destruct (has t (to_fetch tt)) eqn:Hh.
    + right. exists x', (last, to_fetch tt). split; [eapply set_peer_has; [exact Hx | reflexivity]|]. split; [reflexivity|].
      cbn [snd]. apply has_In. exact Hh.
    + rewrite (Hsame eq_refl). destruct (Htt t i Hi) as [Hidle|Hfl]; [left; exact Hidle|]. right.
      eapply inflight_t_other; eauto. intros r Hr. rewrite B in Hr. discriminate.
Qed.

Lemma nodup_map_filter {A B} (f : A -> B) (g : A -> bool) l : NoDup (map f l) -> NoDup (map f (filter g l)).
Proof.
  induction l as [|a l IH]; [auto|]. cbn [map filter]. intros ND. inversion ND as [|? ? Hn ND']; subst.
  destruct (g a); [|apply IH; exact ND']. cbn [map]. constructor; [|apply IH; exact ND'].
  intros Hin. apply Hn. apply in_map_iff in Hin. destruct Hin as (x & E & Hx). apply filter_In in Hx. apply in_map_iff. exists x. tauto.
Qed.

Lemma nodup_snoc {A} (l : list A) a : NoDup l -> ~ In a l -> NoDup (l ++ [a]).
Proof.
  induction l as [|b l IH]; intros ND Hn; [constructor; [intros []|constructor]|].
  inversion ND as [|? ? Hb ND']; subst. cbn [app]. constructor.
  - intros Hin. apply in_app_or in Hin. destruct Hin as [Hin|[E|[]]]; [contradiction | subst; apply Hn; left; reflexivity].
  - apply IH; [exact ND' | intros Hin; apply Hn; right; exact Hin].
Qed.

Theorem step_inv s e : Inv s -> wf_ev s e -> Inv (fst (step s e)).
Proof.
  intros (ND & Hth & Htt) Hwf. fold (th_part (ms_th s) (ms_peers s)) in Hth. fold (tt_part (ms_tt s) (ms_peers s)) in Htt.
  unfold Inv. destruct e as [h now|t now|now last ph pt|p m|p m|p|p]; cbn [step].
  - (* fetch_header *)
    destruct (rpc_fetch _ h now (ms_th s)) as [st th'] eqn:R. cbn [fst ms_peers ms_th ms_tt]. split; [exact ND|]. split; [|exact Htt].
    intros k i Hin. replace th' with (snd (rpc_fetch (has h (ms_sh s)) h now (ms_th s))) in Hin by (rewrite R; reflexivity).
    apply rpc_fetch_entries in Hin. destruct Hin as [Hin|Hin]; [exact (Hth k i Hin) | left; exact Hin].
  - (* fetch_transaction *)
    destruct (rpc_fetch _ t now (ms_tt s)) as [st tt'] eqn:R. cbn [fst ms_peers ms_th ms_tt]. split; [exact ND|]. split; [exact Hth|].
    intros k i Hin. replace tt' with (snd (rpc_fetch (has t (map fst (ms_st s))) t now (ms_tt s))) in Hin by (rewrite R; reflexivity).
    apply rpc_fetch_entries in Hin. destruct Hin as [Hin|Hin]; [exact (Htt k i Hin) | left; exact Hin].
  - (* tick *)
    destruct (tick_h now last ph (ms_th s) (ms_peers s)) as [[th' peers1] sh] eqn:T1.
    destruct (tick_t now last pt (ms_tt s) peers1) as [[tt' peers2] st] eqn:T2. cbn [fst ms_peers ms_th ms_tt].
    destruct (tick_h_inv _ _ _ _ (ms_tt s) _ _ _ _ ND Hth Htt T1) as (ND1 & Hth1 & Htt1).
    exact (tick_t_inv _ _ _ _ _ _ _ _ _ ND1 Hth1 Htt1 T2).
  - (* SendBlocksProof *)
    destruct (find_peer p (ms_peers s)) as [x|] eqn:F; [|cbn [fst]; repeat split; assumption].
    cbn [fst ms_peers ms_th ms_tt]. apply find_peer_some in F. destruct F as [Hx Hid]. subst p.
    split; [rewrite set_peer_ids; exact ND|]. split.
    + eapply (th_part_clear (ms_peers s) (ms_th s) _ x); eauto.
      intros h i' Hin. destruct (pq_blocks x) as [r|] eqn:B.
      * destruct (blocks_proof_src r m (ms_th s) h i' Hin) as (i & Hi & H1 & H2). exists i. split; [exact Hi|]. split; [|exact H2].
        intros r0 Hr0. inversion Hr0; subst. exact H1.
      * cbn [blocks_proof bo_headers] in Hin. exists i'. split; [exact Hin|]. split; [intros r Hr; discriminate | auto].
    + eapply (tt_part_keep (ms_peers s) (ms_tt s) (ms_tt s) x); eauto.
  - (* SendTransactionsProof *)
    destruct (find_peer p (ms_peers s)) as [x|] eqn:F; [|cbn [fst]; repeat split; assumption].
    cbn [fst ms_peers ms_th ms_tt]. apply find_peer_some in F. destruct F as [Hx Hid]. subst p.
    split; [rewrite set_peer_ids; exact ND|].
    destruct (pq_txs x) as [[last hashes]|] eqn:B.
    + destruct (txs_proof_src last hashes m (ms_tt s) (ms_th s)) as [S1 S2]. split.
      * eapply (th_part_keep (ms_peers s) (ms_th s) _ x); eauto.
      * eapply (tt_part_clear (ms_peers s) (ms_tt s) _ x); eauto.
        intros t i' Hin. destruct (S1 t i' Hin) as (i & Hi & H1 & H2). exists i. split; [exact Hi|]. split; [|exact H2].
        intros r0 Hr0. rewrite B in Hr0. inversion Hr0; subst. exact H1.
    + cbn [txs_proof to_txs to_headers]. split.
      * eapply (th_part_keep (ms_peers s) (ms_th s) _ x); eauto.
      * eapply (tt_part_clear (ms_peers s) (ms_tt s) _ x); eauto.
        intros t i' Hin. exists i'. split; [exact Hin|]. split; [intros r Hr; rewrite B in Hr; discriminate | auto].
  - (* connect *)
    cbn [fst ms_peers ms_th ms_tt]. cbn [wf_ev] in Hwf. split.
    + rewrite map_app. cbn [map pq_id]. apply nodup_snoc; [exact ND|].
      intros Hin. apply in_map_iff in Hin. destruct Hin as (y & E & Hy). exact (find_peer_none _ _ Hwf y Hy E).
    + split.
      * intros h i Hin. destruct (Hth h i Hin) as [H|(y & r & Hy & Hr)]; [left; exact H | right; exists y, r; split; [apply in_or_app; left; exact Hy | exact Hr]].
      * intros t i Hin. destruct (Htt t i Hin) as [H|(y & r & Hy & Hr)]; [left; exact H | right; exists y, r; split; [apply in_or_app; left; exact Hy | exact Hr]].
  - (* disconnect *)
    destruct (find_peer p (ms_peers s)) as [x|] eqn:F; [|cbn [fst]; repeat split; assumption].
    cbn [fst ms_peers ms_th ms_tt]. apply find_peer_some in F. destruct F as [Hx Hid]. subst p.
    split; [apply nodup_map_filter; exact ND|]. split.
    + intros h i' Hin.
      assert (Hsrc : exists i, In (h, i) (ms_th s) /\ (forall r, pq_blocks x = Some r -> In h (br_hashes r) -> idle_ok i' = true) /\ (idle_ok i = true -> idle_ok i' = true)).
      { destruct (pq_blocks x) as [r|].
        - apply mark_timeout_src in Hin. destruct Hin as (i & Hi & H1 & H2). exists i. split; [exact Hi|]. split; [|exact H2]. intros r0 Hr0; inversion Hr0; subst; exact H1.
        - exists i'. split; [exact Hin|]. split; [intros r Hr; discriminate | auto]. }
      destruct Hsrc as (i & Hi & H1 & H2). destruct (Hth h i Hi) as [Hidle|(y & r & Hy & Hr & Hh)]; [left; exact (H2 Hidle)|].
      destruct (N.eqb_spec (pq_id y) (pq_id x)) as [K|K].
      * assert (y = x) by (apply (nodup_ids_unique _ ND); assumption). subst y. left. exact (H1 r Hr Hh).
      * right. exists y, r. split; [apply filter_In; split; [exact Hy | apply negb_true_iff; apply N.eqb_neq; exact K] | auto].
    + intros t i' Hin.
      assert (Hsrc : exists i, In (t, i) (ms_tt s) /\ (forall r, pq_txs x = Some r -> In t (snd r) -> idle_ok i' = true) /\ (idle_ok i = true -> idle_ok i' = true)).
      { destruct (pq_txs x) as [r|].
        - apply mark_timeout_src in Hin. destruct Hin as (i & Hi & H1 & H2). exists i. split; [exact Hi|]. split; [|exact H2]. intros r0 Hr0; inversion Hr0; subst; exact H1.
        - exists i'. split; [exact Hin|]. split; [intros r Hr; discriminate | auto]. }
      destruct Hsrc as (i & Hi & H1 & H2). destruct (Htt t i Hi) as [Hidle|(y & r & Hy & Hr & Hh)]; [left; exact (H2 Hidle)|].
      destruct (N.eqb_spec (pq_id y) (pq_id x)) as [K|K].
      * assert (y = x) by (apply (nodup_ids_unique _ ND); assumption). subst y. left. exact (H1 r Hr Hh).
      * right. exists y, r. split; [apply filter_In; split; [exact Hy | apply negb_true_iff; apply N.eqb_neq; exact K] | auto].
Qed.

(* ---- whole histories ---- *)
Fixpoint final (s : mstate) (evs : list fev) : mstate :=
  match evs with [] => s | e :: tl => final (fst (step s e)) tl end.

Fixpoint wf_run (s : mstate) (evs : list fev) : Prop :=
  match evs with [] => True | e :: tl => wf_ev s e /\ wf_run (fst (step s e)) tl end.

Lemma inv_init : Inv (mkMS [] [] [] [] []).
Proof. split; [constructor|]. split; intros ? ? []. Qed.

Theorem run_inv evs : forall s, Inv s -> wf_run s evs -> Inv (final s evs).
Proof.
  induction evs as [|e tl IH]; intros s HI Hwf; [exact HI|]. destruct Hwf as [H1 H2]. cbn [final].
  apply IH; [apply step_inv; assumption | exact H2].
Qed.

(* when no peer holds a request, every entry is either reported missing or will be sent by the next tick *)
Corollary idle_means_retried s :
  Inv s -> (forall x, In x (ms_peers s) -> pq_blocks x = None /\ pq_txs x = None) ->
  (forall h i, In (h, i) (ms_th s) -> f_missing i = true \/ In h (to_fetch (ms_th s))) /\
  (forall t i, In (t, i) (ms_tt s) -> f_missing i = true \/ In t (to_fetch (ms_tt s))).
Proof.
  intros (ND & Hth & Htt) Hidle. split.
  - intros h i Hin. destruct (Hth h i Hin) as [H|(x & r & Hx & Hr & _)]; [|destruct (Hidle x Hx) as [E _]; congruence].
    unfold idle_ok in H. destruct (f_missing i); [left; reflexivity|]. right. rewrite orb_false_r in H. eapply to_fetch_in; eauto.
  - intros t i Hin. destruct (Htt t i Hin) as [H|(x & r & Hx & Hr & _)]; [|destruct (Hidle x Hx) as [_ E]; congruence].
    unfold idle_ok in H. destruct (f_missing i); [left; reflexivity|]. right. rewrite orb_false_r in H. eapply to_fetch_in; eauto.
Qed.

(* ---- the status the RPC reports ---- *)
Lemma rpc_fetched_iff stored h now t : fst (rpc_fetch stored h now t) = St_fetched <-> stored = true.
Proof.
  unfold rpc_fetch. destruct stored; [split; reflexivity|]. split; [|discriminate].
  destruct (t_get h t) as [i|]; [destruct (f_missing i); [discriminate | destruct (0 <? f_first_sent i); discriminate] | discriminate].
Qed.

Lemma t_get_put h v t : t_get h (t_put h v t) = Some v.
Proof. unfold t_put. cbn [t_get]. rewrite N.eqb_refl. reflexivity. Qed.

Lemma rpc_not_found stored h now t :
  fst (rpc_fetch stored h now t) = St_not_found ->
  (exists i, t_get h t = Some i /\ f_missing i = true) /\
  t_get h (snd (rpc_fetch stored h now t)) = Some (mkFI now 0 false false).
Proof.
  unfold rpc_fetch. destruct stored; [discriminate|]. destruct (t_get h t) as [i|] eqn:G; [|discriminate].
  destruct (f_missing i) eqn:M; [|destruct (0 <? f_first_sent i); discriminate]. intros _. split; [exists i; auto|].
  cbn [snd]. apply t_get_put.
Qed.

(* the missing flag is only ever set by an accepted answer (code 200, matching the outstanding request) that lists the hash as missing *)
Lemma t_upd_get f hs : forall t h, t_get h (t_upd f hs t) = match t_get h t with Some i => Some (if has h hs then f i else i) | None => None end.
Proof.
  induction t as [|[k v] tl IH]; intros h; [reflexivity|]. cbn [t_upd map fst snd t_get]. fold (has k hs). fold (t_upd f hs tl).
  destruct (has k hs) eqn:Hk; cbn [fst t_get]; destruct (N.eqb_spec k h) as [E|E]; try apply IH; subst; rewrite Hk; reflexivity.
Qed.

Lemma t_del_get k : forall t h, t_get h (t_del k t) = if k =? h then None else t_get h t.
Proof.
  induction t as [|[k0 v0] tl IH]; intros h; [destruct (k =? h); reflexivity|]. cbn [t_del t_get].
  destruct (N.eqb_spec k0 k) as [E|E].
  - rewrite IH. subst. destruct (N.eqb_spec k h); reflexivity.
  - cbn [t_get]. rewrite IH. destruct (N.eqb_spec k0 h) as [E2|E2]; [|reflexivity]. subst. destruct (N.eqb_spec k h); [congruence | reflexivity].
Qed.

Lemma fold_del_get ks : forall t h, t_get h (fold_left (fun acc k => t_del k acc) ks t) = if has h ks then None else t_get h t.
Proof.
  induction ks as [|k ks IH]; intros t h; [reflexivity|]. cbn [fold_left]. rewrite IH, t_del_get. unfold has. cbn [existsb].
  fold (has h ks). rewrite (N.eqb_sym h k). destruct (has h ks); [destruct (k =? h); reflexivity|]. rewrite orb_false_r. reflexivity.
Qed.

Lemma blocks_proof_missing_only_if_reported req m t h i' :
  t_get h (bo_headers (blocks_proof req m t)) = Some i' -> f_missing i' = true ->
  (exists i, t_get h t = Some i /\ f_missing i = true) \/
  (bo_code (blocks_proof req m t) = 200 /\ In h (bm_missing m) /\ exists r, req = Some r /\ br_last r = bm_last m).
Proof.
  unfold blocks_proof. destruct req as [r|]; [|cbn [bo_headers]; intros G M; left; exists i'; auto].
  assert (TO : forall hs, t_get h (mark_timeout hs t) = Some i' -> f_missing i' = true -> exists i, t_get h t = Some i /\ f_missing i = true).
  { intros hs G M. unfold mark_timeout in G. rewrite t_upd_get in G. destruct (t_get h t) as [i|]; [|discriminate]. exists i. split; [reflexivity|].
    inversion G; subst. destruct (has h hs); exact M. }
  destruct (N.eqb_spec (br_last r) (bm_last m)) as [E|E]; cbn [negb].
  2: { destruct (_ && _ && _); [destruct (_ =? 200)|]; cbn [bo_headers]; intros G M; left; eapply TO; eauto. }
  destruct (negb (same_hashes _ _ _)); [cbn [bo_headers]; intros G M; left; eapply TO; eauto|].
  assert (MI : forall t0, (forall i0, t_get h t0 = Some i0 -> t_get h t = Some i0) -> t_get h (mark_missing (bm_missing m) t0) = Some i' -> f_missing i' = true ->
               (exists i, t_get h t = Some i /\ f_missing i = true) \/ In h (bm_missing m)).
  { intros t0 Hsub G M. unfold mark_missing in G. rewrite t_upd_get in G. destruct (t_get h t0) as [i|] eqn:G0; [|discriminate].
    destruct (has h (bm_missing m)) eqn:Hh; [right; apply has_In; exact Hh|]. inversion G; subst. left. exists i'. split; [apply Hsub; reflexivity | exact M]. }
  destruct (bm_headers m) as [|h0 hs] eqn:HS.
  { destruct (negb (bm_proof_empty m)); cbn [bo_headers bo_code]; intros G M; [left; eapply TO; eauto|].
    destruct (MI t (fun _ H => H) G M) as [H|H]; [left; exact H | right; split; [reflexivity|]; split; [exact H|]; exists r; auto]. }
  rewrite <- HS.
  destruct (negb (bm_pow_ok m)); [cbn [bo_headers]; intros G M; left; eapply TO; eauto|].
  destruct (bm_extra m =? 3); [cbn [bo_headers]; intros G M; left; eapply TO; eauto|].
  destruct (bm_extra m =? 2); [cbn [bo_headers]; intros G M; left; eapply TO; eauto|].
  destruct (negb (bm_mmr_ok m)); [cbn [bo_headers]; intros G M; left; eapply TO; eauto|].
  cbn [bo_headers bo_code]. intros G M.
  destruct (MI (fold_left (fun acc k => t_del k acc) (bm_headers m) t)) as [H|H]; [| exact G | exact M | left; exact H | right; split; [reflexivity|]; split; [exact H|]; exists r; auto].
  intros i0 G0. rewrite fold_del_get in G0. destruct (has h (bm_headers m)); [discriminate | exact G0].
Qed.
