(* Universal observation value used by the correspondence check: the Rust harness prints
   the implementation's observation as a [val] term, the model computes its own, and the
   two are compared by [val_eqb] inside Coq (so nothing depends on Coq's pretty-printer). *)
From Coq Require Export List NArith Bool.
Export ListNotations.
Open Scope N_scope.

Inductive val : Type :=
| VN (n : N)
| VL (l : list val).

Fixpoint val_eqb (a b : val) {struct a} : bool :=
  match a, b with
  | VN x, VN y => N.eqb x y
  | VL xs, VL ys =>
      (fix go (xs ys : list val) {struct xs} : bool :=
         match xs, ys with
         | [], [] => true
         | x :: xs', y :: ys' => val_eqb x y && go xs' ys'
         | _, _ => false
         end) xs ys
  | _, _ => false
  end.

Definition vbool (b : bool) : val := VN (if b then 1 else 0).
Definition vopt {A} (f : A -> val) (o : option A) : val :=
  match o with None => VL [] | Some a => VL [f a] end.
Definition vlist {A} (f : A -> val) (l : list A) : val := VL (map f l).
Definition vpair (a b : val) : val := VL [a; b].

(* [mismatches cases]: indices (from 0) of the cases whose model value differs from the
   implementation's value.  cases = list of (model value, implementation value). *)
Fixpoint mismatches_from (i : N) (cases : list (val * val)) : list N :=
  match cases with
  | [] => []
  | (m, x) :: tl =>
      if val_eqb m x then mismatches_from (i + 1) tl else i :: mismatches_from (i + 1) tl
  end.
Definition mismatches := mismatches_from 0.
