(* BlockFiltersProcess::execute once more, this time with every machine operation of the Rust code written as what it
   is: a checked u64 / u32 / usize operation that unwinds outside its range (overflow-checks = true in every profile),
   the `as u32` truncation of calc_cached_check_point_index_when_sync_at, the two `expect`s and the slice index.
   Model/Filters.v is the same function over unbounded N; Proofs/FiltersPanicProofs.v shows that the two agree whenever
   the local state is within range, and that this one never yields Panic there (C10 for the BlockFilters message).

   Line references: src/protocols/filter/components/block_filters_process.rs (execute), src/protocols/filter/
   block_filter.rs (check_filters_data, update_min_filtered_block_number), src/protocols/light_client/peers.rs
   (calc_check_point_number 1166, calc_cached_check_point_index_when_sync_at 1170, update_min_filtered_block_number 1647,
   could_request_more_block_filters 1839). *)
From LC Require Export Filters.
Open Scope N_scope.
Open Scope bool_scope.

Definition S_BF_MIN1 : N := 620.       (* min_filtered_block_number + 1                       (process.rs 79) *)
Definition S_BF_FIN_NUM : N := 621.    (* calc_check_point_number(finalized index)            (peers.rs 1167) *)
Definition S_BF_CACHED_NUM : N := 622. (* calc_check_point_number(cached index)                (peers.rs 1167) *)
Definition S_BF_NEXT_IDX : N := 623.   (* cached_check_point_index + 1   (u32)                 (process.rs 119) *)
Definition S_BF_NEXT_NUM : N := 624.   (* calc_check_point_number(cached index + 1)            (peers.rs 1167) *)
Definition S_BF_CACHED_P1 : N := 625.  (* cached_check_point_number + 1                       (process.rs 144) *)
Definition S_BF_CACHED_SUB : N := 626. (* (start - cached number) as usize - 2                 (process.rs 153) *)
Definition S_BF_FIN_P1 : N := 627.     (* finalized_check_point_number + 1                    (process.rs 175) *)
Definition S_BF_FIN_SUB : N := 628.    (* (start - finalized number) as usize - 2              (process.rs 178) *)
Definition S_BF_SCRIPTS_AT : N := 629. (* start_number + limit as BlockNumber                  (block_filter.rs 49) *)
Definition S_BF_FILTERED : N := 630.   (* start_number - 1 + actual_blocks_count               (process.rs 226) *)
Definition S_BF_SYNC_AT : N := 631.    (* min_filtered_block_number + 1                        (peers.rs 1649, 1845) *)
Definition S_BF_DIV0 : N := 632.       (* ... / check_point_interval                           (peers.rs 1177) *)
Definition S_BF_LATEST_END : N := 633. (* finalized number + latest hashes count               (peers.rs 1852) *)

Definition S_BF_NEXT_START : N := 634. (* filtered_block_number + 1                            (process.rs 292) *)

Definition mul64_at (site a b : N) : res N := mul64 site a b.
Definition add32 (site a b : N) : res N := add_chk U32MAX site a b.

(* calc_cached_check_point_index_when_sync_at(min_filtered + 1): the addition is checked, the division unwinds on a zero
   interval, the cast keeps the low 32 bits *)
Definition cached_index_at (w : fworld) (min_filtered : N) : res N :=
  let* n := add64 S_BF_SYNC_AT min_filtered 1 in
  if fw_interval w =? 0 then Panic S_BF_DIV0
  else Ok (((n - 1) / fw_interval w) mod 2 ^ 32).

Definition expected_hashes_chk (w : fworld) (start : N) : res (option (hash * list hash)) :=
  let* fin_number := mul64_at S_BF_FIN_NUM (fw_interval w) (fw_fin_index w) in
  if start <=? fin_number then
    let* cached_number := mul64_at S_BF_CACHED_NUM (fw_interval w) (fw_cached_index w) in
    let* next_index := add32 S_BF_NEXT_IDX (fw_cached_index w) 1 in
    let* next_number := mul64_at S_BF_NEXT_NUM (fw_interval w) next_index in
    if (start <=? cached_number) || (next_number <? start) then Ok None
    else match fw_cached w with
         | [] => Ok None
         | _ =>
           let* c1 := add64 S_BF_CACHED_P1 cached_number 1 in
           if start =? c1 then
             match fw_cached_cp w with
             | Some cp => Ok (Some (cp, fw_cached w))
             | None => Panic S_CACHED_CP
             end
           else
             let* d := sub_chk S_BF_CACHED_SUB start cached_number in
             let* i := sub_chk S_BF_CACHED_SUB d 2 in
             let idx := N.to_nat i in
             match nth_error (fw_cached w) idx with
             | Some p => Ok (Some (p, skipn (S idx) (fw_cached w)))
             | None => Ok None
             end
         end
  else
    let* f1 := add64 S_BF_FIN_P1 fin_number 1 in
    if start =? f1 then Ok (Some (fw_fin_hash w, fw_latest w))
    else
      let* d := sub_chk S_BF_FIN_SUB start fin_number in
      let* i := sub_chk S_BF_FIN_SUB d 2 in
      let idx := N.to_nat i in
      match nth_error (fw_latest w) idx with
      | Some p => Ok (Some (p, skipn (S idx) (fw_latest w)))
      | None => Ok None
      end.

Definition could_request_more_chk (w : fworld) (cached_index cached_len min_filtered : N) : res bool :=
  let* should := cached_index_at w min_filtered in
  if fw_fin_index w <=? should then
    let* fin_number := mul64_at S_BF_FIN_NUM (fw_interval w) (fw_fin_index w) in
    let* e := add64 S_BF_LATEST_END fin_number (lenN (fw_latest w)) in
    let* n := add64 S_BF_SYNC_AT min_filtered 1 in
    Ok (n <=? e)
  else Ok ((should =? cached_index) && (cached_len =? fw_interval w)).

Definition execute_chk (w : fworld) (m : bf_msg) : res fout :=
  match fw_scripts w with
  | [] => Ok (nothing w)
  | _ =>
    match fw_peer w with
    | None | Some None => Ok (nothing w)
    | Some (Some tip) =>
      let* m1 := add64 S_BF_MIN1 (fw_min w) 1 in
      if negb (m1 =? m_start m) then
        Ok (mkFO 0 (fw_min w) (if fw_db_pending w then None else Some (fw_min w)) None false None)
      else if negb (lenN (m_filters m) =? lenN (m_hashes m)) then Ok (banned w E_MALFORMED)
      else if lenN (m_filters m) =? 0 then Ok (nothing w)
      else
        let* e := expected_hashes_chk w (m_start m) in
        match e with
        | None => Ok (nothing w)
        | Some (parent, expected) =>
          let limit := Nat.min (length (m_filters m)) (length expected) in
          match chain_check (fw_htable w) parent (firstn limit (m_filters m)) expected with
          | None => Ok (banned w E_FILTER_DATA)
          | Some _ =>
            let limitN := N.of_nat limit in
            let* bound := add64 S_BF_SCRIPTS_AT (m_start m) limitN in
            let active := active_scripts w bound in
            let matched := matched_hashes w active limit (m_filters m) (m_hashes m) in
            let* s1 := sub_chk S_BF_FILTERED (m_start m) 1 in
            let* filtered := add64 S_BF_FILTERED s1 limitN in
            let record := match matched with
                          | [] => None
                          | _ => Some (m_start m, limitN, map (fun h => (h, h =? tip)) matched)
                          end in
            let bump := match matched with [] => if fw_mem_empty w && negb (fw_db_pending w) then Some filtered else None | _ => None end in
            let load := match matched with [] => false | _ => fw_mem_empty w end in
            let* should := cached_index_at w filtered in
            let cached_len := if should =? fw_cached_index w then lenN (fw_cached w) else 0 in
            let* more := could_request_more_chk w should cached_len filtered in
            let* next := if more then (let* n := add64 S_BF_NEXT_START filtered 1 in Ok (Some n)) else Ok None in
            Ok (mkFO 0 filtered bump record load next)
          end
        end
    end
  end.
