(* Lemmas about Model/Store.v (C03, C04, C09). *)
From Coq Require Import NArith Lia List Bool.
From LC Require Import Store.
Import ListNotations.
Open Scope N_scope.
Open Scope bool_scope.

(* ------------------------------------------------------------------------------------ *)
(* association lists *)
Section AssocLemmas.
  Context {K V : Type} (eqb : K -> K -> bool).
  Hypothesis eqb_spec : forall a b, eqb a b = true <-> a = b.

  Lemma a_del_in (k k' : K) (v : V) (l : list (K * V)) : In (k', v) (a_del eqb k l) <-> In (k', v) l /\ k' <> k.
  Proof.
    induction l as [|[k0 v0] l IH]; cbn [a_del In]; [tauto|].
    destruct (eqb k k0) eqn:E.
    - apply eqb_spec in E. subst k0. rewrite IH. split.
      + intros [H1 H2]. split; [right; exact H1 | exact H2].
      + intros [[H|H] H2]; [inversion H; subst; contradiction | split; assumption].
    - cbn [In]. rewrite IH. split.
      + intros [H|[H1 H2]]; [inversion H; subst; split; [left; reflexivity|] | split; [right; exact H1 | exact H2]].
        intros ->. assert (eqb k k = true) by (apply eqb_spec; reflexivity). congruence.
      + intros [[H|H] H2]; [left; exact H | right; split; assumption].
  Qed.

  Lemma a_put_in (k : K) (v : V) (k' : K) (v' : V) (l : list (K * V)) : In (k', v') (a_put eqb k v l) <-> (k' = k /\ v' = v) \/ (In (k', v') l /\ k' <> k).
  Proof.
    unfold a_put. cbn [In]. rewrite a_del_in. split.
    - intros [H|H]; [inversion H; subst; left; auto | right; exact H].
    - intros [[-> ->]|H]; [left; reflexivity | right; exact H].
  Qed.
End AssocLemmas.

Lemma ckey_eqb_spec a b : ckey_eqb a b = true <-> a = b.
Proof.
  destruct a as [[[[a1 a2] a3] a4] a5], b as [[[[b1 b2] b3] b4] b5]. unfold ckey_eqb.
  rewrite !andb_true_iff, !N.eqb_eq. split.
  - intros [[[[-> ->] ->] ->] ->]. reflexivity.
  - intros H; inversion H; subst. repeat split.
Qed.

Lemma hkey_eqb_spec a b : hkey_eqb a b = true <-> a = b.
Proof.
  destruct a as [[[[[a1 a2] a3] a4] a5] a6], b as [[[[[b1 b2] b3] b4] b5] b6]. unfold hkey_eqb.
  rewrite !andb_true_iff, !N.eqb_eq. split.
  - intros [[[[[-> ->] ->] ->] ->] ->]. reflexivity.
  - intros H; inversion H; subst. repeat split.
Qed.

(* ------------------------------------------------------------------------------------ *)
(* the effect of a write batch, component by component *)

Definition cells_step (c : list (ckey * txid)) (op : wop) : list (ckey * txid) :=
  match op with
  | W_del_cell k => a_del ckey_eqb k c
  | W_put_cell k t => a_put ckey_eqb k t c
  | _ => c
  end.
Definition hist_step (h : list (hkey * txid)) (op : wop) : list (hkey * txid) :=
  match op with
  | W_del_hist k => a_del hkey_eqb k h
  | W_put_hist k t => a_put hkey_eqb k t h
  | _ => h
  end.

Lemma commit_cells ops : forall st, cells (commit st ops) = fold_left cells_step ops (cells st).
Proof. induction ops as [|op ops IH]; intros st; [reflexivity|]. cbn [commit fold_left]. unfold commit in IH. rewrite IH. destruct op; reflexivity. Qed.

Lemma commit_history ops : forall st, history (commit st ops) = fold_left hist_step ops (history st).
Proof. induction ops as [|op ops IH]; intros st; [reflexivity|]. cbn [commit fold_left]. unfold commit in IH. rewrite IH. destruct op; reflexivity. Qed.

Lemma commit_matched ops : forall st, matched (commit st ops) = matched st.
Proof. induction ops as [|op ops IH]; intros st; [reflexivity|]. cbn [commit fold_left]. unfold commit in IH. rewrite IH. destruct op; reflexivity. Qed.

(* no phantom cells: whatever a batch leaves in the cell index was there before or is put by the batch *)
Lemma cells_after_batch ops : forall c k t,
  In (k, t) (fold_left cells_step ops c) -> In (k, t) c \/ In (W_put_cell k t) ops.
Proof.
  induction ops as [|op ops IH]; intros c k t H; [left; exact H|].
  cbn [fold_left] in H. destruct (IH _ _ _ H) as [H1|H1]; [|right; right; exact H1].
  destruct op; cbn [cells_step] in H1; try (left; exact H1).
  - apply (a_del_in ckey_eqb ckey_eqb_spec) in H1. left. tauto.
  - apply (a_put_in ckey_eqb ckey_eqb_spec) in H1. destruct H1 as [[-> ->]|[H1 _]]; [right; left; reflexivity | left; exact H1].
Qed.

(* a deleted key that is not put again afterwards is absent *)
Lemma cells_deleted ops1 ops2 c k t :
  (forall t', ~ In (W_put_cell k t') ops2) ->
  ~ In (k, t) (fold_left cells_step (ops1 ++ W_del_cell k :: ops2) c).
Proof.
  intros Hno H. rewrite fold_left_app in H. cbn [fold_left cells_step] in H.
  apply cells_after_batch in H. destruct H as [H|H]; [|exact (Hno _ H)].
  apply (a_del_in ckey_eqb ckey_eqb_spec) in H. destruct H as [_ H]. apply H. reflexivity.
Qed.

(* ------------------------------------------------------------------------------------ *)
(* filter_block *)

Lemma filter_block_cells st b :
  cells (filter_block st b) =
  fold_left cells_step (block_ops st (b_number b) (indexed 0 (b_txs b)) []) (cells st).
Proof.
  unfold filter_block. rewrite commit_cells, fold_left_app.
  destruct (block_ops st (b_number b) (indexed 0 (b_txs b)) []); reflexivity.
Qed.

(* every put of filter_block concerns an output of this block paying a registered script *)
Lemma output_ops_put st bn ti t oi o k tid' :
  In (W_put_cell k tid') (output_ops st bn ti t oi o) ->
  tid' = t_id t /\
  ((k = (0, o_lock o, bn, ti, oi) /\ registered st 0 (o_lock o) = true) \/
   (exists s, o_type o = Some s /\ k = (1, s, bn, ti, oi) /\ registered st 1 s = true)).
Proof.
  unfold output_ops. intros H. apply in_app_or in H. destruct H as [H|H].
  - destruct (registered st 0 (o_lock o)) eqn:R; [|contradiction].
    cbn in H. destruct H as [H|[H|[H|[]]]]; inversion H; subst. split; [reflexivity | left; auto].
  - destruct (o_type o) as [s|] eqn:T; [|contradiction]. destruct (registered st 1 s) eqn:R; [|contradiction].
    cbn in H. destruct H as [H|[H|[H|[]]]]; inversion H; subst. split; [reflexivity | right; exists s; auto].
Qed.

Lemma input_ops_no_put st bn ti t local ii inp k tid' :
  ~ In (W_put_cell k tid') (input_ops st bn ti t local ii inp).
Proof.
  unfold input_ops. destruct (find_prev st bn local (fst inp)) as [[[gbn gti] ptx]|]; [|intros []].
  destruct (nth_error (t_outputs ptx) (N.to_nat (snd inp))) as [po|]; [|intros []].
  intros H. apply in_app_or in H. destruct H as [H|H].
  - destruct (registered st 0 (o_lock po)); [|contradiction]. cbn in H. destruct H as [H|[H|[H|[]]]]; discriminate.
  - destruct (o_type po) as [s|]; [|contradiction]. destruct (registered st 1 s); [|contradiction].
    cbn in H. destruct H as [H|[H|[H|[]]]]; discriminate.
Qed.

Lemma indexed_in {A} (l : list A) : forall i j a, In (j, a) (indexed i l) -> nth_error l (N.to_nat (j - i)) = Some a /\ i <= j.
Proof.
  induction l as [|x l IH]; intros i j a H; [contradiction|]. cbn [indexed In] in H. destruct H as [H|H].
  - inversion H; subst. rewrite N.sub_diag. split; [reflexivity | lia].
  - destruct (IH _ _ _ H) as [H1 H2]. split; [|lia].
    replace (N.to_nat (j - i)) with (S (N.to_nat (j - (i + 1)))) by lia. exact H1.
Qed.

(* C03, no phantom cells: a cell in the index after filter_block was there before, or is an output of this
   block whose lock / type script is registered, stored under exactly (script, block number, tx index, output index) *)
Lemma filter_block_no_phantom st b k tid' :
  In (k, tid') (cells (filter_block st b)) ->
  In (k, tid') (cells st) \/
  exists ti t oi o,
    nth_error (b_txs b) (N.to_nat ti) = Some t /\ nth_error (t_outputs t) (N.to_nat oi) = Some o /\ tid' = t_id t /\
    ((k = (0, o_lock o, b_number b, ti, oi) /\ registered st 0 (o_lock o) = true) \/
     (exists s, o_type o = Some s /\ k = (1, s, b_number b, ti, oi) /\ registered st 1 s = true)).
Proof.
  rewrite filter_block_cells. intros H. apply cells_after_batch in H. destruct H as [H|H]; [left; exact H|]. right.
  assert (G : forall l local, In (W_put_cell k tid') (block_ops st (b_number b) l local) ->
              exists ti t oi o, In (ti, t) l /\ In (oi, o) (indexed 0 (t_outputs t)) /\
                                In (W_put_cell k tid') (output_ops st (b_number b) ti t oi o)).
  { induction l as [|[ti t] l IH]; intros local Hin; [contradiction|].
    cbn [block_ops] in Hin. apply in_app_or in Hin. destruct Hin as [Hin|Hin].
    - unfold tx_ops in Hin. apply in_app_or in Hin. destruct Hin as [Hin|Hin].
      + apply in_flat_map in Hin. destruct Hin as [[ii inp] [_ Hin]]. exfalso. eapply input_ops_no_put; eauto.
      + apply in_flat_map in Hin. destruct Hin as [[oi o] [Ho Hin]]. exists ti, t, oi, o. cbn [fst snd] in *. split; [left; reflexivity | split; assumption].
    - destruct (IH _ Hin) as [ti' [t' [oi [o [H1 [H2 H3]]]]]]. exists ti', t', oi, o. split; [right; exact H1 | split; assumption]. }
  destruct (G _ _ H) as [ti [t [oi [o [H1 [H2 H3]]]]]].
  apply indexed_in in H1. apply indexed_in in H2. rewrite N.sub_0_r in *.
  apply output_ops_put in H3. destruct H3 as [-> H3].
  exists ti, t, oi, o. repeat split; try tauto.
Qed.

(* ------------------------------------------------------------------------------------ *)
(* C09: set_scripts *)

Fixpoint lookup_script (l : list script_status) (s : sid) (ty : N) : option N :=
  match l with
  | [] => None
  | x :: tl => if (ss_script x =? s) && (ss_type x =? ty) then Some (ss_number x) else lookup_script tl s ty
  end.

Lemma update_filter_scripts_discards_pending st new cmd :
  (cmd = 0 \/ new <> []) -> matched (fst (update_filter_scripts st new cmd)) = [].
Proof.
  intros H. unfold update_filter_scripts.
  destruct (cmd =? 0) eqn:C0; [reflexivity|].
  assert (Hnew : new <> []) by (destruct H as [->|H]; [discriminate | exact H]).
  destruct (cmd =? 1); destruct new; try contradiction; reflexivity.
Qed.

Lemma min_list_le l m x : min_list l = Some m -> In x l -> m <= x.
Proof.
  destruct l as [|a l]; [discriminate|]. cbn [min_list]. intros H Hin. inversion H; subst; clear H.
  revert a Hin. induction l as [|b l IH]; intros a Hin; cbn [fold_right].
  - destruct Hin as [->|[]]. lia.
  - destruct Hin as [->|[->|Hin]].
    + specialize (IH x (or_introl eq_refl)). lia.
    + assert (fold_right N.min x l <= x) by (clear; induction l; cbn; lia). lia.
    + specialize (IH a (or_intror Hin)). pose proof (IH). clear IH.
      assert (fold_right N.min a l <= x).
      { clear - Hin. revert a. induction l as [|c l IH]; intros a; [contradiction|]. cbn. destruct Hin as [->|Hin]; [lia | specialize (IH Hin a); lia]. }
      lia.
Qed.

Ltac crush_ifs :=
  repeat match goal with |- context [if ?c then _ else _] => destruct c eqn:? end;
  repeat match goal with
         | H : (_ <? _) = true |- _ => apply N.ltb_lt in H
         | H : (_ <? _) = false |- _ => apply N.ltb_ge in H
         end.

(* partial / delete with pending matched records: filter syncing is rewound below the earliest record *)
Lemma update_filter_scripts_rewinds st new cmd start :
  cmd <> 0 -> new <> [] -> In start (matched st) ->
  min_filtered (fst (update_filter_scripts st new cmd)) <= start - 1.
Proof.
  intros Hc Hn Hin. unfold update_filter_scripts.
  destruct (N.eqb_spec cmd 0); [contradiction|].
  destruct (min_list (matched st)) as [m|] eqn:M.
  2: { destruct (matched st); [contradiction | discriminate]. }
  pose proof (min_list_le _ _ _ M Hin) as Hm.
  destruct (cmd =? 1); destruct new as [|n0 new']; try contradiction; cbv zeta; cbn [fst min_filtered].
  - destruct (scripts st); cbn [option_map];
      destruct (min_list (map ss_number (n0 :: new'))) as [ms|]; cbn [option_map]; crush_ifs; lia.
  - crush_ifs; lia.
Qed.

(* ... and, when scripts are kept, never moved forward *)
Lemma update_filter_scripts_never_forward st new cmd :
  cmd <> 0 -> scripts st <> [] ->
  min_filtered (fst (update_filter_scripts st new cmd)) <= min_filtered st.
Proof.
  intros Hc Hs. unfold update_filter_scripts.
  destruct (N.eqb_spec cmd 0); [contradiction|].
  destruct (cmd =? 1); destruct new as [|n0 new']; cbv zeta; cbn [fst min_filtered]; try lia.
  - destruct (scripts st) as [|s0 sl]; [contradiction|]. cbn [option_map].
    destruct (min_list (map ss_number (n0 :: new'))) as [ms|]; cbn [option_map];
      destruct (min_list (matched st)) as [m|]; crush_ifs; lia.
  - destruct (min_list (matched st)) as [m|]; crush_ifs; lia.
Qed.

(* the script set: delete removes exactly the named (script, type) pairs and keeps the others with their numbers *)
Lemma remove_scripts_lookup del l s ty :
  lookup_script (remove_scripts del l) s ty =
  if existsb (fun d => (ss_script d =? s) && (ss_type d =? ty)) del then
    (* a removed pair is gone even if it was registered twice *)
    lookup_script (remove_scripts del l) s ty
  else lookup_script l s ty.
Proof.
  destruct (existsb _ del) eqn:E; [reflexivity|].
  unfold remove_scripts. induction l as [|x l IH]; [reflexivity|]. cbn [filter lookup_script].
  destruct ((ss_script x =? s) && (ss_type x =? ty)) eqn:X.
  - apply andb_true_iff in X. destruct X as [X1 X2]. apply N.eqb_eq in X1, X2. subst.
    rewrite E. cbn [negb lookup_script]. rewrite !N.eqb_refl. reflexivity.
  - destruct (negb _); [cbn [lookup_script]; rewrite X|]; exact IH.
Qed.

Lemma remove_scripts_gone del l s ty :
  existsb (fun d => (ss_script d =? s) && (ss_type d =? ty)) del = true ->
  lookup_script (remove_scripts del l) s ty = None.
Proof.
  intros E. unfold remove_scripts. induction l as [|x l IH]; [reflexivity|]. cbn [filter].
  destruct (negb _) eqn:Ng; [|exact IH]. cbn [lookup_script].
  destruct ((ss_script x =? s) && (ss_type x =? ty)) eqn:X; [|exact IH].
  apply andb_true_iff in X. destruct X as [X1 X2]. apply N.eqb_eq in X1, X2. subst.
  rewrite E in Ng. discriminate.
Qed.

(* ------------------------------------------------------------------------------------ *)
(* C04: rollback_to_block *)

Definition no_hist_put (ops : list wop) : Prop := forall k t, ~ In (W_put_hist k t) ops.

Lemma hist_after_batch ops : forall h k t,
  no_hist_put ops -> In (k, t) (fold_left hist_step ops h) -> In (k, t) h /\ ~ In (W_del_hist k) ops.
Proof.
  induction ops as [|op ops IH]; intros h k t Hno H; [split; [exact H | intros []]|].
  cbn [fold_left] in H.
  assert (Hno' : no_hist_put ops) by (intros k0 t0 Hin; apply (Hno k0 t0); right; exact Hin).
  destruct (IH _ _ _ Hno' H) as [H1 H2].
  destruct op; cbn [hist_step] in H1; try (split; [exact H1 | intros [Hd|Hd]; [discriminate | exact (H2 Hd)]]).
  - exfalso. apply (Hno k0 t0). left; reflexivity.
  - apply (a_del_in hkey_eqb hkey_eqb_spec) in H1. destruct H1 as [H1 Hne]. split; [exact H1|].
    intros [Hd|Hd]; [inversion Hd; subst; contradiction | exact (H2 Hd)].
Qed.

Lemma insert_desc_in x l y : In y (insert_desc x l) <-> y = x \/ In y l.
Proof.
  induction l as [|a l IH]; cbn [insert_desc]; [cbn; split; intros [H|[]]; left; congruence|].
  destruct (hkey_le_desc x a); cbn [In]; [split; intros [H|H]; auto; left; congruence|]. rewrite IH. tauto.
Qed.

Lemma script_history_desc_in st ty s to e :
  In e (script_history_desc st ty s to) <->
  In e (history st) /\ (let '((a1, a2, a3, _, _, _), _) := e in (a1 =? ty) && (a2 =? s) && (to <=? a3)) = true.
Proof.
  unfold script_history_desc.
  set (p := fun e0 : hkey * txid => let '((a1, a2, a3, _, _, _), _) := e0 in (a1 =? ty) && (a2 =? s) && (to <=? a3)).
  assert (G : forall l, In e (fold_right insert_desc [] l) <-> In e l).
  { induction l as [|a l IH]; cbn [fold_right]; [tauto|]. rewrite insert_desc_in, IH. cbn [In]. split; intros [H|H]; auto. }
  rewrite G, filter_In. reflexivity.
Qed.

Lemma rollback_entry_ops_shape st ty s e ops :
  rollback_entry_ops st ty s e = Ok ops ->
  (forall k t, ~ In (W_put_hist k t) ops) /\
  (let '((_, _, bn, ti, ci, io), _) := e in In (W_del_hist (ty, s, bn, ti, ci, io)) ops \/ (io <> 0 /\ io <> 1)).
Proof.
  destruct e as [[[[[[a1 a2] bn] ti] ci] io] t]. unfold rollback_entry_ops.
  destruct (N.eqb_spec io 0) as [->|Hio].
  - destruct (a_get N.eqb t (txs st)) as [[[? ?] tr]|]; [|discriminate].
    destruct (nth_error (t_inputs tr) (N.to_nat ci)) as [inp|]; [|discriminate].
    intros H; inversion H; subst; clear H. split.
    + intros k t0 Hin. apply in_app_or in Hin. destruct Hin as [Hin|[Hin|[]]]; [|discriminate].
      destruct (a_get N.eqb (fst inp) (txs st)) as [[[? ?] ?]|]; [destruct Hin as [Hin|[]]; discriminate | contradiction].
    + left. apply in_or_app. right. left. reflexivity.
  - intros H; inversion H; subst; clear H. split.
    + intros k t0 [Hin|[Hin|[]]]; discriminate.
    + destruct (N.eqb_spec io 1) as [->|H1]; [left; right; left; reflexivity | right; split; assumption].
Qed.

Lemma map_res_ops_in f l ops e eops :
  map_res_ops f l = Ok ops -> In e l -> f e = Ok eops -> forall op, In op eops -> In op ops.
Proof.
  revert ops; induction l as [|a l IH]; intros ops H Hin Hf op Hop; [contradiction|].
  cbn [map_res_ops] in H. destruct (f a) as [aops| |] eqn:Fa; cbn [bind] in H; try discriminate.
  destruct (map_res_ops f l) as [lops| |] eqn:Fl; cbn [bind] in H; try discriminate.
  inversion H; subst; clear H. apply in_or_app. destruct Hin as [->|Hin].
  - left. rewrite Hf in Fa. inversion Fa; subst. exact Hop.
  - right. eapply IH; eauto.
Qed.

Lemma map_res_ops_all_ok f l ops e : map_res_ops f l = Ok ops -> In e l -> exists eops, f e = Ok eops.
Proof.
  revert ops; induction l as [|a l IH]; intros ops H Hin; [contradiction|].
  cbn [map_res_ops] in H. destruct (f a) as [aops| |] eqn:Fa; cbn [bind] in H; try discriminate.
  destruct (map_res_ops f l) as [lops| |] eqn:Fl; cbn [bind] in H; try discriminate.
  destruct Hin as [->|Hin]; [eauto | eapply IH; eauto].
Qed.

Lemma map_res_ops_no_put f l ops :
  (forall e eops, In e l -> f e = Ok eops -> forall k t, ~ In (W_put_hist k t) eops) ->
  map_res_ops f l = Ok ops -> forall k t, ~ In (W_put_hist k t) ops.
Proof.
  revert ops; induction l as [|a l IH]; intros ops Hf H k t Hin.
  - inversion H; subst. contradiction.
  - cbn [map_res_ops] in H. destruct (f a) as [aops| |] eqn:Fa; cbn [bind] in H; try discriminate.
    destruct (map_res_ops f l) as [lops| |] eqn:Fl; cbn [bind] in H; try discriminate.
    inversion H; subst; clear H. apply in_app_or in Hin. destruct Hin as [Hin|Hin].
    + eapply (Hf a aops (or_introl eq_refl) Fa); eauto.
    + eapply (IH lops); eauto. intros e eops He. apply Hf. right; exact He.
Qed.

Lemma rollback_scripts_shape st to : forall l ops,
  rollback_scripts st to l = Ok ops ->
  (forall k t, ~ In (W_put_hist k t) ops) /\
  (forall ss e, In ss l ->
     In e (script_history_desc st (ss_type ss) (ss_script ss) to) ->
     let '((_, _, bn, ti, ci, io), _) := e in In (W_del_hist (ss_type ss, ss_script ss, bn, ti, ci, io)) ops \/ (io <> 0 /\ io <> 1)).
Proof.
  induction l as [|x l IH]; intros ops H.
  - inversion H; subst. split; [intros ? ? [] | intros ? ? []].
  - cbn [rollback_scripts] in H.
    destruct (map_res_ops _ _) as [a| |] eqn:A; cbn [bind] in H; try discriminate.
    destruct (rollback_scripts st to l) as [b| |] eqn:B; cbn [bind] in H; try discriminate.
    inversion H; subst; clear H. destruct (IH b eq_refl) as [I1 I2]. split.
    + intros k t Hin. apply in_app_or in Hin. destruct Hin as [Hin|Hin].
      * eapply map_res_ops_no_put; [|exact A|exact Hin].
        intros e eops _ He. apply (rollback_entry_ops_shape _ _ _ _ _ He).
      * apply in_app_or in Hin. destruct Hin as [Hin|Hin]; [|exact (I1 _ _ Hin)].
        destruct (to <=? ss_number x); [destruct Hin as [Hin|[]]; discriminate | destruct Hin].
    + intros ss e [->|Hin] He.
      * destruct (map_res_ops_all_ok _ _ _ _ A He) as [eops Fe].
        pose proof (rollback_entry_ops_shape _ _ _ _ _ Fe) as [_ S2].
        destruct e as [[[[[[a1 a2] bn] ti] ci] io] t]. destruct S2 as [S2|S2]; [|right; exact S2].
        left. apply in_or_app. left. eapply map_res_ops_in; eauto.
      * specialize (I2 ss e Hin He). destruct e as [[[[[[a1 a2] bn] ti] ci] io] t].
        destruct I2 as [I2|I2]; [left | right; exact I2]. apply in_or_app. right. apply in_or_app. right. exact I2.
Qed.

(* after a rollback to [to], no history entry of a registered script at or above [to] remains - whatever block number is
   recorded for the script (index entries of a block are written before the numbers are raised): everything the
   abandoned blocks recorded is gone *)
Lemma rollback_history_gone st to st' ss bn ti ci io t :
  rollback_to_block st to = Ok st' ->
  In ss (scripts st) -> to <= bn -> (io = 0 \/ io = 1) ->
  ~ In ((ss_type ss, ss_script ss, bn, ti, ci, io), t) (history st').
Proof.
  unfold rollback_to_block. intros H Hss Hbn Hio Hin.
  destruct (rollback_scripts st to (scripts st)) as [ops| |] eqn:R; cbn [bind] in H; try discriminate.
  inversion H; subst; clear H. rewrite commit_history in Hin.
  destruct (rollback_scripts_shape st to _ _ R) as [S1 S2].
  set (tail := if to <=? min_filtered st then [W_set_min (to - 1)] else []) in *.
  assert (Hno : no_hist_put (ops ++ tail)).
  { intros k0 t0 Hp. apply in_app_or in Hp. destruct Hp as [Hp|Hp]; [exact (S1 _ _ Hp)|].
    unfold tail in Hp. destruct (to <=? min_filtered st); [destruct Hp as [Hp|[]]; discriminate | contradiction]. }
  destruct (hist_after_batch _ _ _ _ Hno Hin) as [H1 H2].
  assert (He : In ((ss_type ss, ss_script ss, bn, ti, ci, io), t) (script_history_desc st (ss_type ss) (ss_script ss) to)).
  { apply script_history_desc_in. split; [exact H1|]. rewrite !N.eqb_refl. cbn [andb]. apply N.leb_le. exact Hbn. }
  specialize (S2 ss _ Hss He). cbn in S2. destruct S2 as [S2|[S2 S3]]; [|destruct Hio; contradiction].
  apply H2. apply in_or_app. left. exact S2.
Qed.

Lemma commit_min_filtered_no_set ops : forall st,
  (forall n, ~ In (W_set_min n) ops) -> min_filtered (commit st ops) = min_filtered st.
Proof.
  induction ops as [|op ops IH]; intros st H; [reflexivity|]. cbn [commit fold_left]. unfold commit in IH.
  rewrite IH by (intros n Hn; apply (H n); right; exact Hn).
  destruct op; try reflexivity. exfalso. apply (H n). left; reflexivity.
Qed.

Lemma rollback_entry_no_set_min st ty s e ops n : rollback_entry_ops st ty s e = Ok ops -> ~ In (W_set_min n) ops.
Proof.
  destruct e as [[[[[[a1 a2] bn] ti] ci] io] t]. unfold rollback_entry_ops.
  destruct (io =? 0).
  - destruct (a_get N.eqb t (txs st)) as [[[? ?] tr]|]; [|discriminate].
    destruct (nth_error (t_inputs tr) (N.to_nat ci)) as [inp|]; [|discriminate].
    intros H; inversion H; subst. intros Hin. apply in_app_or in Hin. destruct Hin as [Hin|[Hin|[]]]; [|discriminate].
    destruct (a_get N.eqb (fst inp) (txs st)) as [[[? ?] ?]|]; [destruct Hin as [Hin|[]]; discriminate | contradiction].
  - intros H; inversion H; subst. intros [Hin|[Hin|[]]]; discriminate.
Qed.

Lemma rollback_scripts_no_set_min st to : forall l ops n, rollback_scripts st to l = Ok ops -> ~ In (W_set_min n) ops.
Proof.
  induction l as [|x l IH]; intros ops n H; [inversion H; subst; intros []|].
  cbn [rollback_scripts] in H.
  destruct (map_res_ops _ _) as [a| |] eqn:A; cbn [bind] in H; try discriminate.
  destruct (rollback_scripts st to l) as [b| |] eqn:B; cbn [bind] in H; try discriminate.
  inversion H; subst; clear H. intros Hin. apply in_app_or in Hin. destruct Hin as [Hin|Hin].
  2:{ apply in_app_or in Hin. destruct Hin as [Hin|Hin]; [|exact (IH _ _ eq_refl Hin)].
      destruct (to <=? ss_number x); [destruct Hin as [Hin|[]]; discriminate | destruct Hin]. }
  clear - A Hin. revert a A Hin. generalize (script_history_desc st (ss_type x) (ss_script x) to). intros l0.
  induction l0 as [|e l0 IH]; intros a A Hin; [inversion A; subst; contradiction|].
  cbn [map_res_ops] in A. destruct (rollback_entry_ops st (ss_type x) (ss_script x) e) as [eo| |] eqn:E; cbn [bind] in A; try discriminate.
  destruct (map_res_ops _ l0) as [lo| |] eqn:L; cbn [bind] in A; try discriminate.
  inversion A; subst. apply in_app_or in Hin. destruct Hin as [Hin|Hin]; [exact (rollback_entry_no_set_min _ _ _ _ _ _ E Hin) | eapply IH; eauto].
Qed.

(* filter syncing is resumed below the rollback point *)
Lemma rollback_min_filtered st to st' :
  rollback_to_block st to = Ok st' ->
  min_filtered st' = if to <=? min_filtered st then to - 1 else min_filtered st.
Proof.
  unfold rollback_to_block. intros H.
  destruct (rollback_scripts st to (scripts st)) as [ops| |] eqn:R; cbn [bind] in H; try discriminate.
  inversion H; subst; clear H. unfold commit. rewrite fold_left_app. fold (commit st ops).
  destruct (to <=? min_filtered st).
  - cbn [fold_left apply_op min_filtered]. reflexivity.
  - cbn [fold_left]. apply commit_min_filtered_no_set. intros n. eapply rollback_scripts_no_set_min; eauto.
Qed.

(* ------------------------------------------------------------------------------------ *)
(* C09: the script set after set_scripts, and the rewind of filter syncing *)

Definition same_script (s : sid) (ty : N) (x : script_status) : bool := (ss_script x =? s) && (ss_type x =? ty).

Lemma lookup_script_app l1 l2 s ty :
  lookup_script (l1 ++ l2) s ty = match lookup_script l1 s ty with Some n => Some n | None => lookup_script l2 s ty end.
Proof. induction l1 as [|x l1 IH]; [reflexivity|]. cbn [app lookup_script]. destruct (_ && _); [reflexivity | exact IH]. Qed.

Lemma registered_lookup l s ty : registered (mkSt l [] [] [] [] 0 []) ty s = match lookup_script l s ty with Some _ => true | None => false end.
Proof.
  unfold registered. cbn [scripts]. induction l as [|x l IH]; [reflexivity|]. cbn [existsb lookup_script].
  destruct (_ && _); [reflexivity | exact IH].
Qed.

Lemma set_script_lookup s0 ty0 n l s ty :
  lookup_script (set_script s0 ty0 n l) s ty =
  if (s0 =? s) && (ty0 =? ty) then match lookup_script l s ty with Some _ => Some n | None => None end
  else lookup_script l s ty.
Proof.
  unfold set_script. induction l as [|x l IH]; [destruct (_ && _); reflexivity|]. cbn [map lookup_script].
  destruct ((s0 =? s) && (ty0 =? ty)) eqn:T.
  - apply andb_prop in T. destruct T as [T1 T2]. apply N.eqb_eq in T1. apply N.eqb_eq in T2. subst s ty.
    destruct ((ss_script x =? s0) && (ss_type x =? ty0)) eqn:X.
    + cbn [ss_script ss_type ss_number]. rewrite !N.eqb_refl. reflexivity.
    + rewrite X. exact IH.
  - destruct ((ss_script x =? s0) && (ss_type x =? ty0)) eqn:X.
    + cbn [ss_script ss_type ss_number]. rewrite T.
      apply andb_prop in X. destruct X as [X1 X2]. apply N.eqb_eq in X1. apply N.eqb_eq in X2. rewrite X1, X2, T. exact IH.
    + destruct ((ss_script x =? s) && (ss_type x =? ty)); [reflexivity | exact IH].
Qed.

(* upsert: for every (script, type) the number given last in the argument wins; pairs not named keep theirs *)
Lemma upsert_scripts_lookup new : forall l s ty,
  lookup_script (upsert_scripts new l) s ty =
  match lookup_script (rev new) s ty with Some n => Some n | None => lookup_script l s ty end.
Proof.
  induction new as [|x new IH]; intros l s ty; [reflexivity|]. cbn [upsert_scripts rev].
  rewrite IH, lookup_script_app. destruct (lookup_script (rev new) s ty) as [n|]; [reflexivity|].
  cbn [lookup_script]. rewrite registered_lookup.
  destruct (lookup_script l (ss_script x) (ss_type x)) as [m|] eqn:L.
  - rewrite set_script_lookup. destruct ((ss_script x =? s) && (ss_type x =? ty)) eqn:X; [|reflexivity].
    apply andb_prop in X. destruct X as [X1 X2]. apply N.eqb_eq in X1. apply N.eqb_eq in X2. subst. rewrite L. reflexivity.
  - rewrite lookup_script_app. cbn [lookup_script]. destruct ((ss_script x =? s) && (ss_type x =? ty)) eqn:X.
    + apply andb_prop in X. destruct X as [X1 X2]. apply N.eqb_eq in X1. apply N.eqb_eq in X2. subst. rewrite L. reflexivity.
    + destruct (lookup_script l s ty); reflexivity.
Qed.

(* the three commands leave exactly the documented script set *)
Lemma update_filter_scripts_set st new cmd s ty :
  lookup_script (scripts (fst (update_filter_scripts st new cmd))) s ty =
  if cmd =? 0 then lookup_script (rev new) s ty
  else if cmd =? 1 then match lookup_script (rev new) s ty with Some n => Some n | None => lookup_script (scripts st) s ty end
  else if existsb (same_script s ty) new then None else lookup_script (scripts st) s ty.
Proof.
  unfold update_filter_scripts. destruct (cmd =? 0).
  - cbn [fst scripts]. rewrite upsert_scripts_lookup. destruct (lookup_script (rev new) s ty); reflexivity.
  - destruct (cmd =? 1).
    + destruct new as [|n0 new']; [reflexivity|]. cbn [fst scripts]. apply upsert_scripts_lookup.
    + destruct new as [|n0 new']; [reflexivity|]. cbn [fst scripts].
      destruct (existsb (same_script s ty) (n0 :: new')) eqn:E.
      * apply remove_scripts_gone. exact E.
      * rewrite remove_scripts_lookup. unfold same_script in E. rewrite E. reflexivity.
Qed.

(* every script's recorded number is at or above the point filter syncing will resume from:
   the stored progress, or the block before the earliest pending matched record *)
Definition resume_point (st : store) : N :=
  match min_list (matched st) with
  | Some start => N.min (min_filtered st) (start - 1)
  | None => min_filtered st
  end.

Definition progress_inv (st : store) : Prop := forall x, In x (scripts st) -> resume_point st <= ss_number x.

Lemma min_list_in l m : min_list l = Some m -> In m l.
Proof.
  destruct l as [|a l]; [discriminate|]. cbn [min_list]. intros H; inversion H; subst; clear H.
  induction l as [|b l IH]; [left; reflexivity|]. cbn [fold_right].
  destruct (N.min_spec b (fold_right N.min a l)) as [[_ ->]|[_ ->]]; [right; left; reflexivity|].
  destruct IH as [IH|IH]; [left; exact IH | right; right; exact IH].
Qed.

Lemma upsert_scripts_numbers new : forall l x,
  In x (upsert_scripts new l) ->
  (exists y, In y l /\ ss_number x = ss_number y) \/ (exists y, In y new /\ ss_number x = ss_number y).
Proof.
  induction new as [|a new IH]; intros l x H; [left; exists x; auto|]. cbn [upsert_scripts] in H.
  apply IH in H. destruct H as [(y & Hy & E)|(y & Hy & E)]; [|right; exists y; split; [right; exact Hy | exact E]].
  destruct (registered _ _ _).
  - unfold set_script in Hy. apply in_map_iff in Hy. destruct Hy as (z & Hz & Hin).
    destruct (_ && _); subst y; [right; exists a; split; [left; reflexivity | exact E] | left; exists z; auto].
  - apply in_app_or in Hy. destruct Hy as [Hy|[<-|[]]]; [left; exists y; auto | right; exists a; split; [left; reflexivity | exact E]].
Qed.

Lemma min_list_map_le (l : list script_status) m y : min_list (map ss_number l) = Some m -> In y l -> m <= ss_number y.
Proof. intros H Hin. eapply min_list_le; [exact H|]. apply in_map. exact Hin. Qed.

(* after any set_scripts command that changes something, nothing is pending and filter syncing resumes at
   or below every registered script's recorded number: no block after a script's number is skipped *)
Lemma update_filter_scripts_progress st new cmd :
  progress_inv st -> progress_inv (fst (update_filter_scripts st new cmd)).
Proof.
  intros Inv. unfold update_filter_scripts.
  destruct (N.eqb_spec cmd 0) as [C0|C0].
  - (* all *)
    intros x Hx. unfold resume_point. cbn [fst scripts matched min_filtered min_list] in *.
    apply upsert_scripts_numbers in Hx. destruct Hx as [(y & [] & _)|(y & Hy & E)].
    destruct (min_list (map ss_number new)) as [m|] eqn:M; [rewrite E; eapply min_list_map_le; eauto|].
    destruct new; [contradiction | discriminate].
  - destruct (N.eqb_spec cmd 1) as [C1|C1].
    + destruct new as [|n0 new']; [exact Inv|]. set (new := n0 :: new') in *.
      intros x Hx. unfold resume_point, progress_inv, resume_point in *. cbn [fst scripts matched min_filtered] in *.
      cbn [min_list] in *.
      apply upsert_scripts_numbers in Hx.
      destruct (min_list (map ss_number new)) as [m|] eqn:M; [|discriminate].
      assert (Hnew : forall y, In y new -> m <= ss_number y) by (intros; eapply min_list_map_le; eauto).
      destruct Hx as [(y & Hy & E)|(y & Hy & E)]; rewrite E.
      * specialize (Inv y Hy). destruct (scripts st) as [|s0 ss] eqn:S; [contradiction|]. cbn [option_map].
        destruct (min_list (matched st)) as [start|]; [|lia].
        destruct (N.ltb_spec (start - 1) (N.min m (min_filtered st))); lia.
      * specialize (Hnew y Hy). destruct (scripts st) as [|s0 ss]; cbn [option_map].
        -- destruct (min_list (matched st)) as [start|]; [|lia]. destruct (N.ltb_spec (start - 1) m); lia.
        -- destruct (min_list (matched st)) as [start|]; [|lia]. destruct (N.ltb_spec (start - 1) (N.min m (min_filtered st))); lia.
    + destruct new as [|n0 new']; [exact Inv|].
      intros x Hx. unfold resume_point, progress_inv, resume_point in *. cbn [fst scripts matched min_filtered min_list] in *.
      unfold remove_scripts in Hx. apply filter_In in Hx. destruct Hx as [Hx _]. specialize (Inv x Hx).
      destruct (min_list (matched st)) as [start|]; [|lia]. destruct (N.ltb_spec (start - 1) (min_filtered st)); lia.
Qed.

Lemma update_filter_scripts_resume st new cmd :
  (cmd = 0 \/ new <> []) -> progress_inv st ->
  forall x, In x (scripts (fst (update_filter_scripts st new cmd))) ->
    min_filtered (fst (update_filter_scripts st new cmd)) <= ss_number x.
Proof.
  intros H Inv x Hx. pose proof (update_filter_scripts_progress st new cmd Inv x Hx) as P.
  unfold resume_point in P. rewrite (update_filter_scripts_discards_pending st new cmd H) in P. exact P.
Qed.

(* the invariant is kept by the other index operations the sync performs *)
Lemma update_block_number_progress st n :
  progress_inv st -> progress_inv (update_block_number st n).
Proof.
  intros Inv x Hx. unfold update_block_number in Hx. cbn [scripts] in Hx. apply in_map_iff in Hx.
  destruct Hx as (y & E & Hy). specialize (Inv y Hy). unfold resume_point in *. cbn [matched min_filtered update_block_number] in *.
  destruct (N.ltb_spec (ss_number y) n); subst x; cbn [ss_number]; destruct (min_list (matched st)); lia.
Qed.

(* ------------------------------------------------------------------------------------ *)
(* C03: no missing activity *)

Lemma hist_key_survives ops : forall h k,
  (forall k', ~ In (W_del_hist k') ops) ->
  ((exists v, In (k, v) h) \/ (exists v, In (W_put_hist k v) ops)) ->
  exists v, In (k, v) (fold_left hist_step ops h).
Proof.
  induction ops as [|op ops IH]; intros h k Hnd H.
  - destruct H as [H|[v []]]. exact H.
  - cbn [fold_left]. apply IH; [intros k' Hin; apply (Hnd k'); right; exact Hin|].
    destruct H as [[v H]|[v [H|H]]].
    + destruct op; cbn [hist_step]; try (left; exists v; exact H).
      * destruct (hkey_eqb k0 k) eqn:E.
        -- apply hkey_eqb_spec in E. subst. left. exists t. apply (a_put_in hkey_eqb hkey_eqb_spec). left; auto.
        -- left. exists v. apply (a_put_in hkey_eqb hkey_eqb_spec). right. split; [exact H|]. intros ->.
           assert (hkey_eqb k0 k0 = true) by (apply hkey_eqb_spec; reflexivity). congruence.
      * exfalso. apply (Hnd k0). left; reflexivity.
    + subst op. cbn [hist_step]. left. exists v. apply (a_put_in hkey_eqb hkey_eqb_spec). left; auto.
    + right. exists v. exact H.
Qed.

Lemma input_ops_no_del_hist st bn ti t local ii inp k : ~ In (W_del_hist k) (input_ops st bn ti t local ii inp).
Proof.
  unfold input_ops. destruct (find_prev st bn local (fst inp)) as [[[gbn gti] ptx]|]; [|intros []].
  destruct (nth_error (t_outputs ptx) (N.to_nat (snd inp))) as [po|]; [|intros []].
  intros H. apply in_app_or in H. destruct H as [H|H].
  - destruct (registered st 0 (o_lock po)); [|contradiction]. cbn in H. destruct H as [H|[H|[H|[]]]]; discriminate.
  - destruct (o_type po) as [s|]; [|contradiction]. destruct (registered st 1 s); [|contradiction].
    cbn in H. destruct H as [H|[H|[H|[]]]]; discriminate.
Qed.

Lemma output_ops_no_del_hist st bn ti t oi o k : ~ In (W_del_hist k) (output_ops st bn ti t oi o).
Proof.
  unfold output_ops. intros H. apply in_app_or in H. destruct H as [H|H].
  - destruct (registered st 0 (o_lock o)); [|contradiction]. cbn in H. destruct H as [H|[H|[H|[]]]]; discriminate.
  - destruct (o_type o) as [s|]; [|contradiction]. destruct (registered st 1 s); [|contradiction].
    cbn in H. destruct H as [H|[H|[H|[]]]]; discriminate.
Qed.

Lemma block_ops_no_del_hist st bn : forall l local k, ~ In (W_del_hist k) (block_ops st bn l local).
Proof.
  induction l as [|[ti t] l IH]; intros local k H; [contradiction|]. cbn [block_ops] in H.
  apply in_app_or in H. destruct H as [H|H]; [|exact (IH _ _ H)].
  unfold tx_ops in H. apply in_app_or in H. destruct H as [H|H]; apply in_flat_map in H; destruct H as (p & _ & H).
  - exact (input_ops_no_del_hist _ _ _ _ _ _ _ _ H).
  - exact (output_ops_no_del_hist _ _ _ _ _ _ _ H).
Qed.

Lemma indexed_nth {A} (l : list A) : forall i n a, nth_error l n = Some a -> In (i + N.of_nat n, a) (indexed i l).
Proof.
  induction l as [|x l IH]; intros i n a H; [destruct n; discriminate|]. destruct n as [|n].
  - inversion H; subst. left. f_equal. lia.
  - right. replace (i + N.of_nat (S n)) with ((i + 1) + N.of_nat n) by lia. apply IH. exact H.
Qed.

Lemma block_ops_contains_outputs st bn : forall l local ti t oi o op,
  In (ti, t) l -> In (oi, o) (indexed 0 (t_outputs t)) -> In op (output_ops st bn ti t oi o) ->
  In op (block_ops st bn l local).
Proof.
  induction l as [|[ti0 t0] l IH]; intros local ti t oi o op Hin Ho Hop; [contradiction|]. cbn [block_ops].
  apply in_or_app. destruct Hin as [Hin|Hin].
  - inversion Hin; subst. left. unfold tx_ops. apply in_or_app. right. apply in_flat_map. exists (oi, o). split; [exact Ho | exact Hop].
  - right. eapply IH; eauto.
Qed.

Lemma filter_block_history st b :
  history (filter_block st b) = fold_left hist_step (block_ops st (b_number b) (indexed 0 (b_txs b)) []) (history st).
Proof.
  unfold filter_block. rewrite commit_history, fold_left_app.
  destruct (block_ops st (b_number b) (indexed 0 (b_txs b)) []); reflexivity.
Qed.

(* every output of the block that carries a registered script is recorded in that script's history *)
Lemma filter_block_records_outputs st b ti t oi o :
  nth_error (b_txs b) ti = Some t -> nth_error (t_outputs t) oi = Some o ->
  (registered st 0 (o_lock o) = true ->
     exists v, In ((0, o_lock o, b_number b, N.of_nat ti, N.of_nat oi, 1), v) (history (filter_block st b))) /\
  (forall s, o_type o = Some s -> registered st 1 s = true ->
     exists v, In ((1, s, b_number b, N.of_nat ti, N.of_nat oi, 1), v) (history (filter_block st b))).
Proof.
  intros Ht Ho. rewrite filter_block_history.
  pose proof (indexed_nth _ 0 _ _ Ht) as It. pose proof (indexed_nth _ 0 _ _ Ho) as Io. rewrite N.add_0_l in It, Io.
  split.
  - intros R. apply hist_key_survives; [intros k'; apply block_ops_no_del_hist|]. right. exists (t_id t).
    eapply block_ops_contains_outputs; eauto. unfold output_ops. rewrite R. apply in_or_app. left. right. left. reflexivity.
  - intros s Hs R. apply hist_key_survives; [intros k'; apply block_ops_no_del_hist|]. right. exists (t_id t).
    eapply block_ops_contains_outputs; eauto. unfold output_ops. rewrite Hs, R. apply in_or_app. right. right. left. reflexivity.
Qed.

(* history that was there stays: filtering a block never loses recorded activity *)
Lemma filter_block_keeps_history st b k v :
  In (k, v) (history st) -> exists v', In (k, v') (history (filter_block st b)).
Proof.
  intros H. rewrite filter_block_history. apply hist_key_survives; [intros k'; apply block_ops_no_del_hist|]. left. exists v. exact H.
Qed.

(* fetch_transaction / fetch_header cannot disturb the index: cells and history are untouched and a
   transaction the index already stores keeps its position *)
Lemma add_fetched_tx_frame st t bn :
  cells (add_fetched_tx st t bn) = cells st /\ history (add_fetched_tx st t bn) = history st /\
  scripts (add_fetched_tx st t bn) = scripts st /\ min_filtered (add_fetched_tx st t bn) = min_filtered st /\
  matched (add_fetched_tx st t bn) = matched st /\
  (forall v, a_get N.eqb (t_id t) (txs st) = Some v -> txs (add_fetched_tx st t bn) = txs st).
Proof.
  unfold add_fetched_tx. destruct (a_get N.eqb (t_id t) (txs st)) as [v0|]; cbn; repeat split; intros; congruence.
Qed.
