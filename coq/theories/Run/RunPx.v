From LC Require Export Val TxPairing.
Import ListNotations.
Open Scope N_scope.

(* after every operation: the block hash reported for each transaction of the pool *)
Definition obs_px (pool : list txid) (st : pstore) : val :=
  VL (map (fun t => match reported_block st t with Some bh => VL [VN bh] | None => VL [] end) pool).

Fixpoint run_px_from (pool : list txid) (st : pstore) (ops : list pop) : list val :=
  match ops with
  | [] => []
  | o :: tl => let st' := pstep st o in obs_px pool st' :: run_px_from pool st' tl
  end.

Definition run_px (pool : list txid) (ops : list pop) : val := VL (run_px_from pool (mkPS [] []) ops).
