"""Per-property configuration of the checks."""

TRUSTED_BASE_COMMON = [
    "Coq 8.16.1 kernel (coqc); vm_compute used for Examples, *_refuted witnesses and for running the model; no native_compute",
    "Print Assumptions of every property theorem: 'Closed under the global context' (no axioms); grep for Admitted/admit/Axiom/Parameter/Conjecture on every run",
    "hand-written Gallina model tied to the code by the correspondence check (Rust harness compiled into the crate's test build with --features verif, /verif/harness; Python driver /verif/driver)",
    "external crates are oracles, not verified: ckb-types (compact_to_difficulty, molecule), ckb-pow, ckb-merkle-mountain-range, golomb-coded-set, ckb-verification/ckb-script, RocksDB, numext U256",
]

PROPS = {
    "C14": {
        "op": "c14",
        "run_module": "RunC14",
        "n": {"quick": 300, "thorough": 6000},
        "rule": "cases = fixed corpus witnesses + random verify_tau calls + random trend-method calls + generated tau-legal "
                "epoch histories with total/compact mutations + fully random (ill-formed) inputs + exhaustive small grid "
                "(start epoch difficulty <= 8, end <= 16, 2..4 switches (5 in thorough), min/mid/max reachable totals from a DP oracle); "
                "distinct = distinct model input expression; all are non-trivial (every case calls the function under test)",
        "assumptions": [
            "compact_to_difficulty (ckb-types) is an oracle: the model receives the block difficulty computed by the library",
            "tau > 0 (the constant TAU = 2 is the only value the handlers pass)",
        ],
        "trusted_base": ["modelled: verify_tau, verify_total_difficulty, EpochDifficultyTrend::* (send_last_state_proof.rs 353-660, 951-1076)"],
    },
    "C15": {
        "op": "c15",
        "run_module": "RunC15",
        "n": {"quick": 250, "thorough": 4000},
        "rule": "cases = direct calls of multiply (ratio strata 0, ~1, 1/x, 1-1/x, random) + estimate_samples_count over a grid of "
                "(last_n, gap) around gap = last_n, last_n+1 and up to 2^63 + sample_blocks on random (start,last) numbers/difficulties "
                "(1-bit .. 255-bit ranges, numbers near 2^64) with each returned difficulty inverted to its u32 draw + "
                "build_prove_request_content on a real LightClientProtocol/Storage/Peers with and without a prove state and stored last-N headers; "
                "distinct = distinct model input expression; all non-trivial",
        "assumptions": [
            "f64 ln/powf/ceil are oracle values: recomputed by the harness with its own copy of the formulas and passed to the model",
            "thread_rng draws are not observable: each returned difficulty is inverted to a u32 numerator, the model must reproduce the set from them",
        ],
        "trusted_base": ["modelled: sampling.rs (multiply, estimate_samples_count, random_sample, sampling, sample_blocks), LightClientProtocol::build_prove_request_content"],
    },
    "C01": {
        "op": "c01",
        "run_module": "RunC01",
        "n": {"quick": 200, "thorough": 3000},
        "rule": "part A: check_if_response_is_matched called directly on honest-shaped header lists (reorg / sampled / last-N sections derived from a "
                "ground-truth difficulty table) and 3 mutations each (drop, duplicate, swap, number, parent total difficulty, compact, boundary, "
                "difficulties, start, last number, append, empty, reorg section, extra header); part B: the whole handler through received() on "
                "synthetic variable-difficulty chains (fresh client / previous proof with small gap / sampled gap), the client's own request, the "
                "honest prover's answer and 3 mutations of it from a 16-operator grid (header field forgeries incl. chain root, fork header "
                "substitution, proof item drop/duplicate/alter, other last header); distinct = distinct model input expression",
        "assumptions": [
            "oracle verdicts are computed by the harness through direct library calls: PoW engine verify, the harness's own reading of patched_is_valid, MMRProof::verify",
            "single peer (the copy-from-another-peer route is exercised under C11/C12)",
        ],
        "trusted_base": ["modelled: check_if_response_is_matched, SendLastStateProofProcess::execute, commit_prove_state, check_continuous_headers, is_parent_of"],
    },
    "C11": {
        "ops": [("sys", "RunSys", {"quick": 120, "thorough": 2000})],
        "rule": "event histories (6..30 events, plus closing rounds in the honest stratum) over 1-3 peers on a variable-difficulty main chain and a fork: "
                "connect, disconnect, refresh ticks with clock jumps around the 8 s / 60 s thresholds, last-state announcements (honest growth by 0, 1, "
                "<= last-N+1, many blocks; stale; other chain; forged child; bad chain root), proofs (honest, 16-operator mutations, unsolicited); "
                "one case = one whole history, compared step by step with Model/System.v; distinct = distinct history",
        "assumptions": ["request contents (random samples) are event inputs taken from what the implementation sent"],
        "trusted_base": ["modelled: PeerState transitions, Peers add/remove/get_peers_which_*, SendLastStateProcess, get_last_state(_proof), refresh_all_peers, update_prove_state_to_child"],
    },
    "C12": {
        "ops": [("sys", "RunSys", {"quick": 120, "thorough": 2000})],
        "rule": "the event histories of C11 (incl. forged-child announcements of the header a peer has proven, competing chains, restarts) compared step by "
                "step with Model/System.v, plus raw-byte cases of the LAST_STATE / LAST_N_HEADERS values compared with Model/StoreCodec.v; oracles: stored "
                "total difficulty never decreases, stored tip is some peer's proven header, equals the cumulative difficulty of the generated chain, last-N "
                "are its ancestors, values read back as written; distinct = distinct history / codec input",
        "assumptions": ["restart = all in-memory state dropped, same RocksDB handle (durability of a completed put is RocksDB's contract)"],
        "trusted_base": ["modelled: commit_prove_state, update_prove_state_to_child, SendLastStateProcess, Storage::{update,get}_last_state, {update,get}_last_n_headers"],
    },
}
