(* C15 — Every proof request the client builds is well-formed and samples enough.
   Model: Model/Sampling.v (sampling.rs + build_prove_request_content).  The f64 results are
   oracle inputs (m, num_b, nums); every theorem quantifies over ALL their values in range, so
   it holds whatever the floating-point unit and the random generator return.

   Not proved here (stated in DESIGN, C15): that the f64 value m is the real number
   ceil(lambda / log_{1/2}(1 - 1/k)); the harness measures it against an independent
   formulation with a tolerance of one draw. *)
From Coq Require Import NArith List Sorted.
From LC Require Import Sampling SamplingProofs.
Import ListNotations.
Open Scope N_scope.

(* request_ok (SamplingProofs.v) spells out the statement:
   start number < last number, start difficulty <= last difficulty,
   start <= boundary <= last total difficulty,
   difficulties strictly increasing, each in [start, boundary) and > start unless the interval
   (start, boundary) contains no integer,
   gap <= last-N: no samples and the (rebased) start covers all missing blocks within last-N,
   gap > last-N: start is the proven / stored tip and start < boundary. *)
Theorem C15_request_well_formed :
  forall last_n ln ltd sh sn std stored m num_b nums r,
    ltd <= U256MAX -> num_b <= SCALE ->
    (last_n < ln - sn -> std < ltd) ->
    build_request last_n ln ltd sh sn std stored m num_b nums = Ok (Some r) ->
    request_ok last_n ln ltd sn std r /\
    (last_n < ln - sn -> nums <> [] -> rq_difficulties r <> []) /\
    (last_n < ln - sn -> rq_start_hash r = sh).
Proof. exact build_request_spec. Qed.
Print Assumptions C15_request_well_formed.

Theorem C15_no_request_iff_not_ahead :
  forall last_n ln ltd sh sn std stored m num_b nums,
    build_request last_n ln ltd sh sn std stored m num_b nums = Ok None <-> (ltd < std \/ ln <= sn).
Proof. exact build_request_none. Qed.
Print Assumptions C15_no_request_iff_not_ahead.

Theorem C15_sample_blocks :
  forall sn sd ln ld last_n m num_b nums c b ds,
    sd < ld -> ld <= U256MAX -> num_b <= SCALE ->
    sample_blocks sn sd ln ld last_n m num_b nums = Ok (c, b, ds) ->
    sn <= ln /\ c = estimate_samples_count (ln - sn) last_n m /\
    sd < b /\ b <= ld /\ samples_ok sd b ds /\
    (length ds <= length nums)%nat /\ (nums <> [] -> ds <> []).
Proof. exact sample_blocks_spec. Qed.
Print Assumptions C15_sample_blocks.

(* number of draws: none when at most last-N blocks are missing, otherwise at least one and
   at least min(m, gap) - last-N  (the FlyClient count m after discounting last-N) *)
Theorem C15_count_small_gap :
  forall bc l m, bc <= l -> estimate_samples_count bc l m = 0.
Proof. exact estimate_small. Qed.
Print Assumptions C15_count_small_gap.

Theorem C15_count_large_gap :
  forall bc l m, l < bc ->
    let c := estimate_samples_count bc l m in
    1 <= c /\ c <= bc - l /\ N.min m bc <= c + l.
Proof. exact estimate_large. Qed.
Print Assumptions C15_count_large_gap.

Theorem C15_no_panic :
  forall sn sd ln ld last_n m num_b nums,
    sn <= ln -> sd < ld -> ld <= U256MAX -> num_b <= SCALE ->
    (forall x, In x nums -> x <= SCALE) ->
    is_panic (sample_blocks sn sd ln ld last_n m num_b nums) = false.
Proof. exact sample_blocks_no_panic. Qed.
Print Assumptions C15_no_panic.

(* non-vacuity: a concrete request of each kind *)
Example C15_example_sampled :
  exists r, build_request 2 100 5000 77 10 1000 [] 40 900000000 [100000000; 500000000; 100000000] = Ok (Some r)
            /\ rq_difficulties r = [1400; 3000] /\ rq_boundary r = 4600.
Proof. eexists. split; [vm_compute; reflexivity | split; reflexivity]. Qed.

Example C15_example_rebased :
  exists r, build_request 10 105 5000 77 100 1000 [(94, 1); (97, 2); (99, 3)] 0 0 [] = Ok (Some r)
            /\ rq_start_number r = 97 /\ rq_difficulties r = [].
Proof. eexists. split; [vm_compute; reflexivity | split; reflexivity]. Qed.
