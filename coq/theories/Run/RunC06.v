From LC Require Export Val LatestHashes Filters FiltersChecked.
Open Scope N_scope.

Definition run_filters (w : fworld) (m : bf_msg) : val :=
  match execute_chk w m with
  | Ok o =>
      let scripts' := match fo_bump o with
                      | Some n => map (fun s => (fst s, if snd s <? n then n else snd s)) (fw_scripts w)
                      | None => fw_scripts w
                      end in
      VL [VN 0; VN (fo_ban o); VN (fo_min o);
          vlist (fun s => VL [VN (fst s); VN (snd s)]) scripts';
          vopt (fun r => VL [VN (fst (fst r)); VN (snd (fst r)); vlist (fun b => VL [VN (fst b); vbool (snd b)]) (snd r)]) (fo_record o);
          vbool (if fo_load o then false else fw_mem_empty w);
          vopt VN (fo_next o)]
  | Err c => VL [VN 1; VN c]
  | Panic _ => VL [VN 3]
  end.

Definition run_latest (required : N) (peers : list (N * list hash)) (chosen : list hash) : val :=
  let '(written, ok) := latest_hashes (N.to_nat required) peers chosen in VL [vlist VN written; vbool ok].
