(* C03 — Script index equals the chain: no phantom or spent cells, no missing activity.
   Model: Model/Store.v — the RocksDB key spaces as association lists, write batches applied in order.
   What is proved here is per operation; the end-to-end statement "after any history the index equals
   the ground-truth UTXO set" is checked by the correspondence op c03 against an independent
   ground-truth index, not proved (level: partial).

   - [C03_no_phantom]: a cell in the index after filter_block was there before or is an output of this
     block carrying a registered script, under the right key (script, block, tx index, output index)
     and the right transaction.
   - [C03_spent_cell_removed]: a cell whose deletion is in the batch and that is not re-created later
     in the batch is gone.
   - [C03_outputs_recorded] / [C03_history_kept]: every output touching a registered script gets a
     history entry, and filtering never loses recorded activity.
   - [C03_fetch_does_not_disturb_index]: add_fetched_tx leaves cells, history, scripts and progress
     alone and never moves a transaction the index stores (the defect repaired by dd74d43). *)
From Coq Require Import NArith List.
From LC Require Import Store StoreProofs.
Import ListNotations.
Open Scope N_scope.

Theorem C03_no_phantom :
  forall st b k tid',
    In (k, tid') (cells (filter_block st b)) ->
    In (k, tid') (cells st) \/
    exists ti t oi o,
      nth_error (b_txs b) (N.to_nat ti) = Some t /\ nth_error (t_outputs t) (N.to_nat oi) = Some o /\ tid' = t_id t /\
      ((k = (0, o_lock o, b_number b, ti, oi) /\ registered st 0 (o_lock o) = true) \/
       (exists s, o_type o = Some s /\ k = (1, s, b_number b, ti, oi) /\ registered st 1 s = true)).
Proof. exact filter_block_no_phantom. Qed.
Print Assumptions C03_no_phantom.

Theorem C03_spent_cell_removed :
  forall ops1 ops2 c k t,
    (forall t', ~ In (W_put_cell k t') ops2) ->
    ~ In (k, t) (fold_left cells_step (ops1 ++ W_del_cell k :: ops2) c).
Proof. exact cells_deleted. Qed.
Print Assumptions C03_spent_cell_removed.

Theorem C03_outputs_recorded :
  forall st b ti t oi o,
    nth_error (b_txs b) ti = Some t -> nth_error (t_outputs t) oi = Some o ->
    (registered st 0 (o_lock o) = true ->
       exists v, In ((0, o_lock o, b_number b, N.of_nat ti, N.of_nat oi, 1), v) (history (filter_block st b))) /\
    (forall s, o_type o = Some s -> registered st 1 s = true ->
       exists v, In ((1, s, b_number b, N.of_nat ti, N.of_nat oi, 1), v) (history (filter_block st b))).
Proof. exact filter_block_records_outputs. Qed.
Print Assumptions C03_outputs_recorded.

Theorem C03_history_kept :
  forall st b k v, In (k, v) (history st) -> exists v', In (k, v') (history (filter_block st b)).
Proof. exact filter_block_keeps_history. Qed.
Print Assumptions C03_history_kept.

Theorem C03_fetch_does_not_disturb_index :
  forall st t bn,
    cells (add_fetched_tx st t bn) = cells st /\ history (add_fetched_tx st t bn) = history st /\
    scripts (add_fetched_tx st t bn) = scripts st /\ min_filtered (add_fetched_tx st t bn) = min_filtered st /\
    matched (add_fetched_tx st t bn) = matched st /\
    (forall v, a_get N.eqb (t_id t) (txs st) = Some v -> txs (add_fetched_tx st t bn) = txs st).
Proof. exact add_fetched_tx_frame. Qed.
Print Assumptions C03_fetch_does_not_disturb_index.
