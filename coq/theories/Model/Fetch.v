(* Model of the fetch_header / fetch_transaction life cycle and of the handlers that complete it:
   - service.rs fetch_header / fetch_transaction (status from FetchInfo),
   - Peers::{add_fetch_*, fetching_idle_*, mark_fetching_*_{missing,timeout}, remove_fetching_*, get_*_to_fetch, remove_peer},
   - LightClientProtocol::fetch_headers_txs (one request per idle best peer),
   - SendBlocksProofProcess::execute and SendTransactionsProofProcess::execute,
   - SyncProtocol SendBlock + Peers::add_block (acceptance of a block body).
   Library verdicts are oracle inputs of each message, computed by the harness with direct library calls:
   PoW, extra hash (V1 fields), MMR proof against the message's last header, transactions Merkle proof. *)
From LC Require Export U.
From Coq Require Export List Bool.
Export ListNotations.
Open Scope N_scope.
Open Scope bool_scope.

Definition hash := N.

Record finfo := mkFI { f_added : N; f_first_sent : N; f_timeout : bool; f_missing : bool }.

Definition tbl := list (hash * finfo).

Fixpoint t_get (h : hash) (t : tbl) : option finfo :=
  match t with [] => None | (k, v) :: tl => if k =? h then Some v else t_get h tl end.
Fixpoint t_del (h : hash) (t : tbl) : tbl :=
  match t with [] => [] | (k, v) :: tl => if k =? h then t_del h tl else (k, v) :: t_del h tl end.
Definition t_put (h : hash) (v : finfo) (t : tbl) : tbl := (h, v) :: t_del h t.
Definition t_upd (f : finfo -> finfo) (hs : list hash) (t : tbl) : tbl :=
  map (fun kv => if existsb (N.eqb (fst kv)) hs then (fst kv, f (snd kv)) else kv) t.
Definition has (h : hash) (l : list hash) : bool := existsb (N.eqb h) l.

(* ---- RPC status ---- *)
Inductive fstatus := St_fetched | St_added (ts : N) | St_fetching (first_sent : N) | St_not_found.

(* returns the status and the table (a missing entry is re-added on the spot) *)
Definition rpc_fetch (stored : bool) (h : hash) (now : N) (t : tbl) : fstatus * tbl :=
  if stored then (St_fetched, t)
  else match t_get h t with
       | Some i =>
           if f_missing i then (St_not_found, t_put h (mkFI now 0 false false) t)
           else if 0 <? f_first_sent i then (St_fetching (f_first_sent i), t)
           else (St_added (f_added i), t)
       | None => (St_added now, t_put h (mkFI now 0 false false) t)
       end.

(* hashes a tick would ask for: never sent, or the request timed out *)
Definition to_fetch (t : tbl) : list hash :=
  map fst (filter (fun kv => (f_first_sent (snd kv) =? 0) || f_timeout (snd kv)) t).

Definition mark_sent (hs : list hash) (now : N) (t : tbl) : tbl :=
  t_upd (fun i => mkFI (f_added i) (if f_first_sent i =? 0 then now else f_first_sent i) false (f_missing i)) hs t.
Definition mark_timeout (hs : list hash) (t : tbl) : tbl :=
  t_upd (fun i => mkFI (f_added i) (f_first_sent i) true (f_missing i)) hs t.
Definition mark_missing (hs : list hash) (t : tbl) : tbl :=
  t_upd (fun i => mkFI (f_added i) (f_first_sent i) (f_timeout i) true) hs t.

(* ---- SendBlocksProof ---- *)
Record bp_request := mkBR { br_last : hash; br_hashes : list hash; br_get_blocks : bool }.

Record bp_msg := mkBM {
  bm_last : hash;                      (* hash of the message's last header *)
  bm_last_code : N;                    (* 200, or the status process_last_state answers for this header (new last state branch) *)
  bm_proof_empty : bool;
  bm_headers : list hash;
  bm_missing : list hash;
  bm_pow_ok : bool; bm_extra : N;      (* 0: v0 message, 1: v1 fields consistent, 2: extra hash mismatch, 3: v1 fields malformed *)
  bm_mmr_ok : bool
}.

Definition E_NOT_ON_PROCESS : N := 421.
Definition E_UNEXPECTED_RESPONSE : N := 422.
Definition E_MALFORMED : N := 400.
Definition E_INVALID_NONCE : N := 432.
Definition E_INVALID_PROOF : N := 439.

Definition same_hashes (req recv missing : list hash) : bool :=
  Nat.eqb (length req) (length recv + length missing) && forallb (fun h => has h recv || has h missing) req.

Record bp_out := mkBO {
  bo_code : N;                         (* 200 or the status code *)
  bo_headers : tbl;                    (* fetching headers afterwards *)
  bo_stored : list hash;               (* headers handed to add_fetched_header *)
  bo_proved : list hash;               (* matched blocks marked proved (and asked for with GetBlocks) *)
  bo_new_last_state : bool             (* the message only carried a newer last state *)
}.

(* [fix_timeout]: commit of the C16 repair — a rejected answer releases the request's hashes for re-sending *)
Definition blocks_proof (req : option bp_request) (m : bp_msg) (t : tbl) : bp_out :=
  match req with
  | None => mkBO E_NOT_ON_PROCESS t [] [] false
  | Some r =>
      let reject code := mkBO code (mark_timeout (br_hashes r) t) [] [] false in
      if negb (br_last r =? bm_last m) then
        if bm_proof_empty m && Nat.eqb (length (bm_headers m)) 0 && Nat.eqb (length (bm_missing m)) 0 then
          if bm_last_code m =? 200 then mkBO 200 (mark_timeout (br_hashes r) t) [] [] true
          else reject (bm_last_code m)
        else reject E_UNEXPECTED_RESPONSE
      else if negb (same_hashes (br_hashes r) (bm_headers m) (bm_missing m)) then reject E_UNEXPECTED_RESPONSE
      else match bm_headers m with
           | [] => if negb (bm_proof_empty m) then reject E_UNEXPECTED_RESPONSE
                   else mkBO 200 (mark_missing (bm_missing m) t) [] [] false
           | _ =>
             if negb (bm_pow_ok m) then reject E_INVALID_NONCE
             else if bm_extra m =? 3 then reject E_MALFORMED
             else if bm_extra m =? 2 then reject E_INVALID_PROOF
             else if negb (bm_mmr_ok m) then reject E_INVALID_PROOF
             else
               let stored := filter (fun h => match t_get h t with Some _ => true | None => false end) (bm_headers m) in
               let t' := fold_left (fun acc h => t_del h acc) (bm_headers m) t in
               mkBO 200 (mark_missing (bm_missing m) t') stored (if br_get_blocks r then bm_headers m else []) false
           end
  end.

(* ---- SendTransactionsProof ---- *)
Record tp_msg := mkTM {
  tm_last : hash; tm_last_code : N; tm_proof_empty : bool;
  tm_blocks : list (hash * list hash);        (* filtered blocks: header hash, transaction hashes *)
  tm_missing : list hash;
  tm_pow_ok : bool; tm_extra : N; tm_mmr_ok : bool;
  tm_merkle_ok : bool                          (* every filtered block's Merkle proof yields its header's transactions root *)
}.

Record tp_out := mkTO {
  to_code : N; to_txs : tbl; to_headers : tbl;
  to_stored : list (hash * hash);              (* (transaction, block) handed to add_fetched_tx *)
  to_new_last_state : bool
}.

Definition txs_proof (req : option (hash * list hash)) (m : tp_msg) (tt th : tbl) : tp_out :=
  match req with
  | None => mkTO E_NOT_ON_PROCESS tt th [] false
  | Some (last, hashes) =>
      let reject code := mkTO code (mark_timeout hashes tt) th [] false in
      let received := flat_map snd (tm_blocks m) in
      if negb (last =? tm_last m) then
        if tm_proof_empty m && Nat.eqb (length (tm_blocks m)) 0 && Nat.eqb (length (tm_missing m)) 0 then
          if tm_last_code m =? 200 then mkTO 200 (mark_timeout hashes tt) th [] true else reject (tm_last_code m)
        else reject E_UNEXPECTED_RESPONSE
      else if negb (same_hashes hashes received (tm_missing m)) then reject E_UNEXPECTED_RESPONSE
      else match tm_blocks m with
           | [] => if negb (tm_proof_empty m) then reject E_UNEXPECTED_RESPONSE
                   else mkTO 200 (mark_missing (tm_missing m) tt) th [] false
           | _ =>
             if negb (tm_pow_ok m) then reject E_INVALID_NONCE
             else if tm_extra m =? 3 then reject E_MALFORMED
             else if tm_extra m =? 2 then reject E_INVALID_PROOF
             else if negb (tm_mmr_ok m) then reject E_INVALID_PROOF
             else if negb (tm_merkle_ok m) then reject E_INVALID_PROOF
             else
               let pairs := flat_map (fun b => map (fun x => (x, fst b)) (snd b)) (tm_blocks m) in
               (* remove_fetching_transaction: in message order; a transaction no longer fetched is skipped *)
               let step (acc : tbl * tbl * list (hash * hash)) (p : hash * hash) :=
                 let '(tt0, th0, st) := acc in
                 match t_get (fst p) tt0 with
                 | Some _ => (t_del (fst p) tt0, t_del (snd p) th0, st ++ [p])
                 | None => acc
                 end in
               let '(tt', th', stored) := fold_left step pairs (tt, th, []) in
               mkTO 200 (mark_missing (tm_missing m) tt') th' stored false
           end
  end.

(* ---- SendBlock ---- *)
(* matched: the in-memory map hash -> (proved, downloaded?) ; body_ok: the transactions hash to the header's root *)
Definition accept_block (matched : list (hash * bool)) (h : hash) (body_ok : bool) : bool :=
  match find (fun e => fst e =? h) matched with
  | Some (_, proved) => proved && body_ok
  | None => false
  end.
