(* C16 — Fetch statuses and get_transaction answers are truthful; no fetch request is ever lost.
   Model: Model/Fetch.v and the event machine of Run/RunC02.v (RPC calls, fetch ticks, answers, connects, disconnects).

   - [C16_fetched_iff_stored]: the RPC says fetched exactly when the data is in the store.
   - [C16_not_found_means_reported_missing_and_retried]: not_found is only answered for an entry carrying the
     missing flag, and the same call re-adds the hash so that the next tick asks again.
   - [C16_missing_only_if_a_peer_reported_it]: the missing flag is only set by an accepted (code 200) answer to
     this peer's outstanding request for the same last header that lists the hash as missing.
   - [C16_never_lost] (invariant over every history): each fetch entry is, at all times, either one the next
     tick will send (never sent, or timed out), or reported missing, or part of a request some connected
     peer still holds.  [C16_idle_means_retried]: so when no peer holds a request, everything not reported
     missing is sent by the next tick — rejections, timeouts and disconnects cannot strand a request
     (before commit 05c8fd3 a rejected answer did).
   Hypothesis [wf_run]: a peer is connected only while it is not already connected (what the network layer does).
   Not covered by a theorem: the pairing of a stored transaction with its block by height after a fork switch
   (see DESIGN.md, C16). *)
From Coq Require Import NArith List.
From LC Require Import Fetch RunC02 FetchProofs.
From LC Require Import Store TxPairing TxPairingProofs.
Import ListNotations.
Open Scope N_scope.

Theorem C16_fetched_iff_stored :
  forall stored h now t, fst (rpc_fetch stored h now t) = St_fetched <-> stored = true.
Proof. exact rpc_fetched_iff. Qed.
Print Assumptions C16_fetched_iff_stored.

Theorem C16_not_found_means_reported_missing_and_retried :
  forall stored h now t,
    fst (rpc_fetch stored h now t) = St_not_found ->
    (exists i, t_get h t = Some i /\ f_missing i = true) /\
    t_get h (snd (rpc_fetch stored h now t)) = Some (mkFI now 0 false false).
Proof. exact rpc_not_found. Qed.
Print Assumptions C16_not_found_means_reported_missing_and_retried.

Theorem C16_missing_only_if_a_peer_reported_it :
  forall req m t h i',
    t_get h (bo_headers (blocks_proof req m t)) = Some i' -> f_missing i' = true ->
    (exists i, t_get h t = Some i /\ f_missing i = true) \/
    (bo_code (blocks_proof req m t) = 200 /\ In h (bm_missing m) /\ exists r, req = Some r /\ br_last r = bm_last m).
Proof. exact blocks_proof_missing_only_if_reported. Qed.
Print Assumptions C16_missing_only_if_a_peer_reported_it.

Theorem C16_never_lost :
  forall evs, wf_run (mkMS [] [] [] [] []) evs -> Inv (final (mkMS [] [] [] [] []) evs).
Proof. intros evs H. apply run_inv; [exact inv_init | exact H]. Qed.
Print Assumptions C16_never_lost.

Theorem C16_idle_means_retried :
  forall s,
    Inv s -> (forall x, In x (ms_peers s) -> pq_blocks x = None /\ pq_txs x = None) ->
    (forall h i, In (h, i) (ms_th s) -> f_missing i = true \/ In h (to_fetch (ms_th s))) /\
    (forall t i, In (t, i) (ms_tt s) -> f_missing i = true \/ In t (to_fetch (ms_tt s))).
Proof. exact idle_means_retried. Qed.
Print Assumptions C16_idle_means_retried.

Theorem C16_step_keeps_invariant : forall s e, Inv s -> wf_ev s e -> Inv (fst (step s e)).
Proof. exact step_inv. Qed.
Print Assumptions C16_step_keeps_invariant.

(* a history in which a rejected answer would have stranded the request: the invariant has content *)
Example C16_rejected_answer_releases_request :
  let s := final (mkMS [] [] [] [] [])
             [FE_connect 1; FE_fetch_header 7 100; FE_tick 110 9 (Some 1) None;
              FE_blocks_proof 1 (mkBM 9 200 false [8] [] true 0 true)] in
  to_fetch (ms_th s) = [7].
Proof. vm_compute. reflexivity. Qed.

(* ---- "committed in block X" (second sentence of C16) ----
   Model/TxPairing.v: the two maps get_transaction_with_header goes through (TxHash -> block NUMBER, BlockNumber -> block
   hash), written by filter_block and the fetch handlers, untouched by rollback_to_block.
   - [C16_pairing_truthful_without_height_reuse]: as long as no block number is written twice, the block reported for a
     transaction is a block that was stored with that transaction.
   - [C16_pairing_refuted] (KNOWN FINDING C16-transaction-paired-with-wrong-block): after a fork switch the new branch's
     block is written under a number the abandoned branch's block already used; the abandoned block's transaction is then
     reported as committed in the new block, which does not contain it.  Replayed on the implementation by the oracle of
     op c08 (class C16-transaction-paired-with-wrong-block). *)
Theorem C16_pairing_truthful_without_height_reuse :
  forall hist t bh,
    NoDup (numbers hist) ->
    reported_block (run_index hist) t = Some bh ->
    exists bn ts, In (bh, bn, ts) hist /\ In t ts.
Proof. exact pairing_truthful. Qed.
Print Assumptions C16_pairing_truthful_without_height_reuse.

Theorem C16_pairing_refuted :
  exists hist t bh, reported_block (run_index hist) t = Some bh /\ forall bn ts, In (bh, bn, ts) hist -> ~ In t ts.
Proof.
  exists [(1001, 30, [7]); (2001, 30, [8])], 7, 2001. split; [vm_compute; reflexivity|].
  intros bn ts [H|[H|[]]]; inversion H; subst; intros [E|[]]; discriminate.
Qed.
Print Assumptions C16_pairing_refuted.

(* Every writer of the two maps (Model/TxPairing.v, pstep: filter_block, add_fetched_tx - which never overwrites a recorded
   transaction -, add_fetched_header, and rollback_to_block which writes none), tied to the real Storage by op px after every
   operation.  [consistent]: no height is written with two different block hashes; storing the same header again, by any
   writer and in any order, is allowed. *)
Theorem C16_pairing_truthful_for_every_writer :
  forall ops t bh,
    consistent (records ops) ->
    reported_block (prun ops) t = Some bh ->
    exists bn ts, In (bh, bn, ts) (records ops) /\ In t ts.
Proof. exact pairing_truthful_ops. Qed.
Print Assumptions C16_pairing_truthful_for_every_writer.

(* the hypothesis is met by a history with repeated writes of one header, and the conclusion has content there *)
Example C16_pairing_every_writer_nonvacuous :
  let ops := [PX_fetched_header 1001 30; PX_fetched_tx 1001 30 7; PX_filter 1002 31 [8; 9]; PX_rollback 31; PX_fetched_tx 1002 31 7] in
  consistent (records ops) /\ reported_block (prun ops) 7 = Some 1001 /\ reported_block (prun ops) 9 = Some 1002.
Proof.
  split; [|split; vm_compute; reflexivity].
  intros bh bh' bn ts ts' H H'. cbn in H, H'.
  repeat match goal with
         | H : _ \/ _ |- _ => destruct H as [H|H]
         | H : False |- _ => destruct H
         | H : (_, _, _) = (_, _, _) |- _ => inversion H; clear H; subst
         end; try reflexivity; discriminate.
Qed.

(* the flip: a height re-pointed to a sibling and the first header never written again (KNOWN FINDING, same class) *)
Theorem C16_pairing_every_writer_refuted :
  exists ops t bh, reported_block (prun ops) t = Some bh /\ forall bn ts, In (bh, bn, ts) (records ops) -> ~ In t ts.
Proof.
  exists [PX_fetched_tx 1001 30 7; PX_fetched_header 2001 30], 7, 2001. split; [vm_compute; reflexivity|].
  intros bn ts Hin. cbn in Hin. destruct Hin as [H|[H|[]]]; inversion H; subst; intros Hx; destruct Hx.
Qed.
Print Assumptions C16_pairing_every_writer_refuted.

(* a recorded transaction always has a block to be reported with: the `expect`s of get_transaction_with_header on the
   number -> hash entry cannot fail after any history of the writers (op px reports a panic there as a disagreement) *)
Theorem C16_recorded_transaction_has_a_block :
  forall ops t bn,
    a_get N.eqb t (p_txs (prun ops)) = Some bn -> exists bh, a_get N.eqb bn (p_num (prun ops)) = Some bh.
Proof. exact pairing_total. Qed.
Print Assumptions C16_recorded_transaction_has_a_block.
