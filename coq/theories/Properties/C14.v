(* C14 — difficulty checks. Property theorems only; proofs live in Proofs/DifficultyProofs.v *)
From LC Require Import Difficulty.
Open Scope N_scope.

Theorem C14_sound_decrease :
  forall se sbd std ee ebd etd tau,
    etd < std -> verify_total_difficulty se sbd std ee ebd etd tau = Err E_DECREASED.
Proof.
  intros se sbd std ee ebd etd tau H. unfold verify_total_difficulty.
  destruct (N.ltb_spec etd std) as [_|Hge]; [reflexivity | lia].
Qed.
Print Assumptions C14_sound_decrease.
