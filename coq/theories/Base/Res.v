(* Result of a modelled Rust computation: a value, a handled error (status / Err), or a
   panic (unwinding: arithmetic overflow, index out of range, explicit panic!, expect). *)
From Coq Require Export NArith.
Open Scope N_scope.

Inductive res (A : Type) : Type :=
| Ok (a : A)
| Err (code : N)
| Panic (site : N).
Arguments Ok {A} a.
Arguments Err {A} code.
Arguments Panic {A} site.

Definition bind {A B} (r : res A) (f : A -> res B) : res B :=
  match r with
  | Ok a => f a
  | Err c => Err c
  | Panic s => Panic s
  end.
Notation "'let*' x ':=' r 'in' k" := (bind r (fun x => k))
  (at level 200, x pattern, r at level 100, k at level 200, right associativity).

Definition is_panic {A} (r : res A) : bool := match r with Panic _ => true | _ => false end.
Definition is_ok {A} (r : res A) : bool := match r with Ok _ => true | _ => false end.
Definition is_err {A} (r : res A) : bool := match r with Err _ => true | _ => false end.
