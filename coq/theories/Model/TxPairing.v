(* How get_transaction / fetch_transaction pair a stored transaction with a block (C16, second sentence):
   Storage::get_transaction_with_header (storage.rs) reads TxHash -> (block NUMBER, index, tx), then
   BlockNumber(number) -> block hash, then BlockHash(hash) -> header.  Both maps are written by filter_block for a
   matched block and by add_fetched_tx / add_fetched_header; rollback_to_block touches neither.
   The model keeps exactly these two maps; a history is the list of (block hash, block number, recorded transactions)
   in the order they were written. *)
From LC Require Export Store.
Open Scope N_scope.

Record pstore := mkPS { p_txs : list (txid * N); p_num : list (N * N) }.

Definition index_block (st : pstore) (b : N * N * list txid) : pstore :=
  let '(bh, bn, ts) := b in
  mkPS (fold_left (fun m t => a_put N.eqb t bn m) ts (p_txs st)) (a_put N.eqb bn bh (p_num st)).

Definition run_index (hist : list (N * N * list txid)) : pstore := fold_left index_block hist (mkPS [] []).

(* the block hash get_transaction reports for a transaction *)
Definition reported_block (st : pstore) (t : txid) : option N :=
  match a_get N.eqb t (p_txs st) with
  | Some bn => a_get N.eqb bn (p_num st)
  | None => None
  end.

(* ---- every writer of the two maps (op px runs these against the real Storage) ----
   filter_block writes the header maps only when some transaction matched (ts = the matched transactions, in block order);
   add_fetched_tx always writes the header maps and records the transaction only when it is not recorded yet;
   add_fetched_header writes the header maps; rollback_to_block writes none of the three. *)
Inductive pop :=
| PX_filter (bh bn : N) (ts : list txid)
| PX_fetched_tx (bh bn : N) (t : txid)
| PX_fetched_header (bh bn : N)
| PX_rollback (to : N).

Definition pstep (st : pstore) (o : pop) : pstore :=
  match o with
  | PX_filter bh bn ts => match ts with [] => st | _ :: _ => index_block st (bh, bn, ts) end
  | PX_fetched_tx bh bn t =>
      mkPS (match a_get N.eqb t (p_txs st) with Some _ => p_txs st | None => a_put N.eqb t bn (p_txs st) end)
           (a_put N.eqb bn bh (p_num st))
  | PX_fetched_header bh bn => mkPS (p_txs st) (a_put N.eqb bn bh (p_num st))
  | PX_rollback _ => st
  end.

Definition prun (ops : list pop) : pstore := fold_left pstep ops (mkPS [] []).

(* what an operation records: (block hash, block number, transactions stored with that block) *)
Definition record_of (o : pop) : list (N * N * list txid) :=
  match o with
  | PX_filter bh bn ts => match ts with [] => [] | _ :: _ => [(bh, bn, ts)] end
  | PX_fetched_tx bh bn t => [(bh, bn, [t])]
  | PX_fetched_header bh bn => [(bh, bn, [])]
  | PX_rollback _ => []
  end.
Definition records (ops : list pop) : list (N * N * list txid) := concat (map record_of ops).
