(* Entry point for event histories of the whole light-client protocol (C11, C12, C05). *)
From LC Require Export Val System RunC01.
Open Scope N_scope.

Definition obs_ls (l : last_state) : val := VL [VN (v_xid (ls_h l)); VN (ls_ts l)].
Definition obs_rq (r : prove_request) : val :=
  VL [VN (v_xid (pr_last r)); VN (pr_start_number r); vbool (pr_skip_tau r); vbool (pr_long_fork r)].

Definition kind (s : pst) : N :=
  match s with
  | Initialized => 0 | ReqFirstLS _ => 1 | OnlyLS _ => 2 | ReqFirstProof _ _ _ => 3
  | Ready _ _ => 4 | ReqNewLS _ _ _ => 5 | ReqNewProof _ _ _ _ => 6
  end.

Definition obs_peer (x : pid * pst) : val :=
  let '(p, s) := x in
  VL [VN p; VN (kind s); vopt obs_ls (get_ls s); vopt obs_ps (get_ps s); vopt obs_rq (get_rq s)].

(* peers sorted by id (insertion sort) so the observation does not depend on map order *)
Fixpoint ins_peer (x : pid * pst) (l : list (pid * pst)) : list (pid * pst) :=
  match l with
  | [] => [x]
  | y :: tl => if fst x <=? fst y then x :: l else y :: ins_peer x tl
  end.
Definition sort_peers (l : list (pid * pst)) : list (pid * pst) := fold_right ins_peer [] l.

Definition act_key (a : action) : N * N * N :=
  match a with
  | A_send_get_last_state p => (1, p, 0)
  | A_send_get_proof p => (2, p, 0)
  | A_ban p c => (3, p, c)
  | A_disconnect p => (4, p, 0)
  | A_missing_content p => (9, p, 0)
  end.
Definition key_le (a b : N * N * N) : bool :=
  let '(a1, a2, a3) := a in let '(b1, b2, b3) := b in
  (a1 <? b1) || ((a1 =? b1) && ((a2 <? b2) || ((a2 =? b2) && (a3 <=? b3)))).
Fixpoint ins_key (x : N * N * N) (l : list (N * N * N)) : list (N * N * N) :=
  match l with
  | [] => [x]
  | y :: tl => if key_le x y then x :: l else y :: ins_key x tl
  end.
Definition obs_actions (l : list action) : val :=
  vlist (fun k : N * N * N => let '(a, b, c) := k in VL [VN a; VN b; VN c])
        (fold_right ins_key [] (map act_key l)).

Definition obs_step (r : res (sys * list action)) : val :=
  match r with
  | Ok (sy, acts) => VL [VN 0; obs_actions acts; vlist obs_peer (sort_peers (peers sy)); obs_store (sstore sy)]
  | Err c => VL [VN 1; VN c]
  | Panic _ => VL [VN 3]
  end.

Definition run_history (last_n tau : N) (st0 : store) (evs : list (N * event)) : val :=
  vlist obs_step (run (mkSys [] st0 last_n) tau evs).

From LC Require Export StoreCodec.
Definition run_codec (td : N) (header : list N) (lastn : list (N * list N)) : val :=
  VL [vlist VN (enc_last_state td header);
      vlist VN (enc_last_n lastn);
      match dec_last_state (enc_last_state td header) with
      | Some (t, h) => VL [VN t; vlist VN h]
      | None => VL []
      end;
      vlist (fun e : N * list N => VL [VN (fst e); vlist VN (snd e)]) (dec_last_n (length lastn) (enc_last_n lastn))].

From LC Require Export HonestProver.
Definition run_honest (c : chain) (on_chain : bool) (last_n start last boundary : N) (ds : list N) : val :=
  let p := plan_response c on_chain last_n start last boundary ds in
  VL [vlist VN (pl_reorg p); vlist VN (pl_sampled p); vlist VN (pl_last_n p);
      match matched last_n start boundary ds (response_headers c p) last with
      | Ok (r, s, l) => VL [VN 0; VN r; VN s; VN l]
      | Err code => VL [VN 1; VN code]
      | Panic _ => VL [VN 3]
      end].
