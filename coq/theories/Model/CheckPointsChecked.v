(* CheckPoints::add_check_points (peers.rs 557-609, reached from BlockFilterCheckPointsProcess::execute for a proven peer)
   with every machine operation of the Rust code as the checked operation it is: `%` unwinds on a zero interval, the u64
   multiplications / additions / the `count - 1` on overflow, `self.inner[len - 1]` and `check_points[0]` on an empty vector.
   Model/CheckPoints.v is the same function over unbounded N; Proofs/CheckPointsPanicProofs.v shows that the two agree when the
   peer's own vector is within range, and that this one never yields Panic there, whatever the message (C10). *)
From LC Require Export CheckPoints.
Open Scope N_scope.
Open Scope bool_scope.

Definition S_CP_REM0 : N := 640.     (* start_number % check_point_interval            (peers.rs 566) *)
Definition S_CP_FIRST : N := 641.    (* interval * index_of_first_check_point          (peers.rs 540) *)
Definition S_CP_COUNT : N := 642.    (* count - 1                                      (peers.rs 546) *)
Definition S_CP_LAST : N := 643.     (* first + interval * (count - 1)                 (peers.rs 546) *)
Definition S_CP_INDEX : N := 644.    (* self.inner[self.inner.len() - 1]               (peers.rs 581) *)
Definition S_CP_END : N := 645.      (* start_number + interval * check_points_len     (peers.rs 598) *)
Definition S_CP_NEXT2 : N := 646.    (* next + interval * 2                            (peers.rs 555) *)

Definition last_number_chk (interval : N) (c : cps) : res N :=
  let* first := mul64 S_CP_FIRST interval (cp_first c) in
  let* cnt := sub_chk S_CP_COUNT (lenN (cp_list c)) 1 in
  let* span := mul64 S_CP_LAST interval cnt in
  add64 S_CP_LAST first span.

Definition add_check_points_chk (interval : N) (c : cps) (last_proved start : N) (new : list hash)
  : res (cps * option N) :=
  match new with
  | [] => Err E_CP_EMPTY
  | first_new :: _ =>
    if interval =? 0 then Panic S_CP_REM0 else
    if negb (start mod interval =? 0) then Err E_CP_UNALIGNED else
    let* next := last_number_chk interval c in
    if negb (start =? next) then Err E_CP_UNEXPECTED else
    match rev (cp_list c) with
    | [] => Panic S_CP_INDEX
    | prev_last :: _ =>
      if negb (prev_last =? first_new) then Err E_CP_UNEXPECTED else
      if lenN new <? 2 then Err E_CP_UNEXPECTED else
      let* span := mul64 S_CP_END interval (lenN new) in
      let* end_ := add64 S_CP_END start span in
      let ext :=
        if end_ <=? last_proved then tl new
        else if 2 <? lenN new then removelast (tl new)
        else [] in
      let c' := mkCps (cp_first c) (cp_list c ++ ext) in
      let* next' := last_number_chk interval c' in
      let* two := mul64 S_CP_NEXT2 interval 2 in
      let* lim := add64 S_CP_NEXT2 next' two in
      Ok (c', if lim <=? last_proved then Some next' else None)
    end
  end.
