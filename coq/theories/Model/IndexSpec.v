(* The abstract cell index (C03): the specification the script index of Model/Store.v is proved to refine.
   No store, no transaction table, no write batches: a map from cell keys to the transaction that created the cell,
   updated transaction by transaction in chain order -
     an input (tx, index) removes every entry created by that transaction at that output index,
     an output paying a registered script adds an entry under (script type, script, block, tx index, output index). *)
From LC Require Export Store.
Open Scope N_scope.
Open Scope bool_scope.

Definition cmap := ckey -> option txid.
Definition empty_cmap : cmap := fun _ => None.

Definition k_oi (k : ckey) : N := let '(_, _, _, _, oi) := k in oi.

Definition kill (E : cmap) (inp : txid * N) : cmap :=
  fun k => match E k with
           | Some t => if (t =? fst inp) && (k_oi k =? snd inp) then None else Some t
           | None => None
           end.

Definition upd (E : cmap) (k0 : ckey) (v : txid) : cmap := fun k => if ckey_eqb k k0 then Some v else E k.

Definition create (reg : N -> sid -> bool) (bn ti : N) (t : tx) (E : cmap) (p : N * output) : cmap :=
  let E1 := if reg 0 (o_lock (snd p)) then upd E (0, o_lock (snd p), bn, ti, fst p) (t_id t) else E in
  match o_type (snd p) with
  | Some s => if reg 1 s then upd E1 (1, s, bn, ti, fst p) (t_id t) else E1
  | None => E1
  end.

Definition spec_tx (reg : N -> sid -> bool) (bn : N) (E : cmap) (p : N * tx) : cmap :=
  fold_left (create reg bn (fst p) (snd p)) (indexed 0 (t_outputs (snd p))) (fold_left kill (t_inputs (snd p)) E).

Definition spec_block (reg : N -> sid -> bool) (E : cmap) (b : block) : cmap :=
  fold_left (spec_tx reg (b_number b)) (indexed 0 (b_txs b)) E.

Definition spec_chain (reg : N -> sid -> bool) (bs : list block) : cmap := fold_left (spec_block reg) bs empty_cmap.

(* the store a chain is indexed into: the given scripts, nothing else *)
Definition fresh_store (regs : list script_status) : store := mkSt regs [] [] [] [] 0 [].

(* all transactions of a chain with their positions, in chain order *)
Definition block_txs (b : block) : list (N * N * tx) := map (fun p => (b_number b, fst p, snd p)) (indexed 0 (b_txs b)).
Definition chain_txs (bs : list block) : list (N * N * tx) := flat_map block_txs bs.
