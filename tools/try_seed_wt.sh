#!/bin/sh
# usage: tools/try_seed_wt.sh <scratch worktree of /repo> <seed dir with patch.diff> <property id>...
# applies the patch to the scratch worktree (never to /repo), runs the quick checks against it with their work /
# replay / evidence files under <worktree>/.vp-scratch, reverts the patch.  Several of these can run side by side.
wt=$1; d=$2; shift 2
cd "$wt" || exit 2
git checkout -q -- . && git clean -fdq src
git apply "$d/patch.diff" || { echo "patch does not apply"; exit 2; }
mkdir -p "$wt/.vp-scratch"
for p in "$@"; do
  (cd ${VERIF_SNAP:-/verif} && VERIF_REPO="$wt" VERIF_SCRATCH="$wt/.vp-scratch" ./vp check "$p" 2>&1 | grep -E "VIOLATION|tier=" | cut -c1-400 | head -8)
done
git checkout -q -- . && git clean -fdq src
