(* Model of SendLastStateProofProcess::execute (send_last_state_proof.rs 44-351) together with
   LightClientProtocol::commit_prove_state (light_client/mod.rs 335-410), check_continuous_headers,
   HeaderUtils::is_parent_of and the PeerState transitions it triggers.

   A verifiable header is abstracted to the fields the code reads plus three oracle verdicts
   computed by the harness through direct library calls (never through the repo function under
   test): [v_root_ok] = patched_is_valid, [v_pow_ok] = pow_engine.verify, and, per message,
   [mmr] = the verdict of MMRProof::verify against the last header's parent chain root.
   [v_id] is the header hash, [v_xid] identifies (header, uncles hash, extension); is_same_as compares
   those first and only then the two total difficulties (short-circuit &&). *)
From LC Require Export U Difficulty Matching.
From Coq Require Export List Bool.
Export ListNotations.
Open Scope N_scope.
Open Scope bool_scope.

Record vhdr := mkVH {
  v_id : N; v_xid : N; v_num : N; v_ptd : N; v_bd : N; v_ct : N;
  v_ep : epoch; v_parent : N; v_rend : N; v_root_ok : bool; v_pow_ok : bool
}.

Definition mh (h : vhdr) : mhdr := mkMH (v_num h) (v_ptd h) (v_bd h).
Definition vtd (h : vhdr) : res N := td (mh h).

(* (number, hash) is all later code reads of remembered headers *)
Definition hkey : Type := N * N.
Definition key_of (h : vhdr) : hkey := (v_num h, v_id h).

Record prove_state := mkPS { ps_last : vhdr; ps_reorg : list hkey; ps_lasts : list hkey }.

Record prove_request := mkPR {
  pr_last : vhdr;             (* the last state the request was built for *)
  pr_start_number : N; pr_boundary : N; pr_difficulties : list N;
  pr_skip_tau : bool; pr_long_fork : bool
}.

(* the peer-state kinds that matter to this handler *)
Inductive pstate :=
| PNone                                   (* peer unknown *)
| PNoRequest (ps : option prove_state)    (* any state without an outstanding proof request *)
| PRequested (ps : option prove_state) (rq : prove_request).

Record store := mkStore { st_td : N; st_tip : hkey; st_lastn : list hkey; st_matched : list N (* start numbers, descending *) }.

Definition E_PEER_NOT_FOUND : N := 411.
Definition E_INVALID_CHAIN_ROOT : N := 431.
Definition E_INVALID_NONCE : N := 432.
Definition E_INVALID_COMPACT_TARGET : N := 433.
Definition E_INVALID_TOTAL_DIFFICULTY : N := 434.
Definition E_INVALID_PARENT_BLOCK : N := 435.
Definition E_INVALID_PROOF : N := 439.
Definition C_OK : N := 200.
Definition C_RECHECK : N := 201.

Definition S_PARENT_ADD : N := 39.     (* prelude.rs: self.number() + 1 *)
Definition S_SLICE : N := 253.         (* headers[(reorg_count - 1)..=reorg_count] *)
Definition S_LONG_FORK : N := 311.     (* the documented panic!("long fork detected") *)
Definition S_MMR_LIB : N := 1120.      (* leaf_index_to_mmr_size / library panic *)

Definition is_successor_of (c p : epoch) : bool :=
  if e_idx p + 1 =? e_len p then (e_num c =? e_num p + 1) && (e_idx c =? 0)
  else (e_num c =? e_num p) && (e_idx c =? e_idx p + 1) && (e_len c =? e_len p).

Definition is_parent_of (p c : vhdr) : res bool :=
  let* n1 := add64 S_PARENT_ADD (v_num p) 1 in
  Ok ((n1 =? v_num c)
      && ((v_num p =? 0) || is_successor_of (v_ep c) (v_ep p))
      && (v_id p =? v_parent c)).

Fixpoint continuous (hs : list vhdr) : res bool :=
  match hs with
  | a :: ((b :: _) as tl) =>
      let* ok := is_parent_of a b in
      if ok then continuous tl else Ok false
  | _ => Ok true
  end.

Definition last_hdr (hs : list vhdr) : option vhdr := match rev hs with [] => None | a :: _ => Some a end.
Definition ends_at_parent (hs : list vhdr) (msg_last : vhdr) : res bool :=
  match last_hdr hs with
  | Some p => if v_num msg_last <=? v_num p then Ok false else is_parent_of p msg_last
  | None => Ok true
  end.

Fixpoint find_not {A} (p : A -> bool) (l : list A) : bool :=
  match l with [] => false | a :: tl => if p a then find_not p tl else true end.

(* what the handler does to the world *)
Record effect := mkEff {
  ef_code : N;                               (* 200, 201 or the ban status code *)
  ef_prove : option prove_state;             (* peer's prove state afterwards *)
  ef_request : option (bool * bool);         (* outstanding request afterwards: (skip_tau, long_fork); None = none / unknown new one *)
  ef_new_request : bool;                     (* a fresh GetLastStateProof was sent *)
  ef_last_state_updated : bool;              (* the peer's last state was replaced by the message's *)
  ef_store : store;
  ef_rollback : option N                     (* rollback_to_block argument *)
}.

Definition unchanged (code : N) (ps : option prove_state) (rq : option prove_request) (st : store) : effect :=
  mkEff code ps (option_map (fun r => (pr_skip_tau r, pr_long_fork r)) rq) false false st None.

(* fork search: reorg_last_headers.iter().rev().find_map(...) over the stored (number -> hash) map *)
Fixpoint lookup (n : N) (l : list hkey) : option N :=
  match l with
  | [] => None
  | (k, h) :: tl => match lookup n tl with Some x => Some x | None => if k =? n then Some h else None end
  end.
(* HashMap built by collect(): a later duplicate number overwrites an earlier one *)

Fixpoint find_fork (rev_reorg : list hkey) (stored : list hkey) : option N :=
  match rev_reorg with
  | [] => None
  | (n, h) :: tl =>
      match lookup n stored with
      | Some h' => if h =? h' then Some n else find_fork tl stored
      | None => find_fork tl stored
      end
  end.

(* remove matched records above the fork point; return (kept records, first kept start) *)
Fixpoint sweep_matched (to : N) (records : list N) : list N * option N :=
  match records with
  | [] => ([], None)
  | s :: tl => if to <? s then sweep_matched to tl else (records, Some s)
  end.

Definition skip_to_last {A} (required : N) (l : list A) : list A :=
  skipn (N.to_nat (lenN l - required)) l.

(* commit_prove_state: returns (committed?, store', rollback) ; committed = false means long fork *)
Definition commit (st : store) (new_ps : prove_state) : res (bool * store * option N) :=
  let* new_td := vtd (ps_last new_ps) in
  if st_td st <? new_td then
    match ps_reorg new_ps with
    | [] =>
        let st' := mkStore new_td (key_of (ps_last new_ps)) (ps_lasts new_ps)
                           (if fst (st_tip st) =? 1 then filter (fun s => s =? 0) (st_matched st) else st_matched st) in
        Ok (true, st', if fst (st_tip st) =? 1 then Some 1 else None)
    | _ =>
        match find_fork (rev (ps_reorg new_ps)) (st_lastn st) with
        | Some to =>
            let '(kept, first_kept) := sweep_matched to (st_matched st) in
            let rb := match first_kept with Some s => s + 1 | None => to + 1 end in
            Ok (true, mkStore new_td (key_of (ps_last new_ps)) (ps_lasts new_ps) kept, Some rb)
        | None => Ok (false, st, None)
        end
    end
  else Ok (true, st, None).

(* if_verifiable_headers_are_same: header, uncles hash, extension, then total difficulty *)
Definition same_vheader (a b : vhdr) : res bool :=
  if v_xid a =? v_xid b then
    let* ta := vtd a in let* tb := vtd b in Ok (ta =? tb)
  else Ok false.

Definition headers_ok (p : vhdr -> bool) (hs : list vhdr) : bool := negb (find_not p hs).

(* ---- the verification gates, in the order the handler applies them ----
   [mmr] : 0 = proof verifies, 1 = does not verify / library error, 3 = library panic.
   Result: inl code = rejected with that status; inr (r, s, l, failed_tau) = every gate passed. *)
Definition tau_gate (rq : prove_request) (tau : N) (hs : list vhdr) (r s l : N) : res (N + bool) :=
  if pr_skip_tau rq then Ok (inr false)
  else if negb (s =? 0) then
    match nth_error hs (N.to_nat r), nth_error hs (N.to_nat (r + s + l - 1)) with
    | Some sh, Some eh =>
        match verify_tau (v_ep sh) (v_ct sh) (v_bd sh) (v_ep eh) (v_ct eh) (v_bd eh) tau with
        | Ok b => Ok (inr (negb b))
        | Err _ => Ok (inl E_INVALID_COMPACT_TARGET)
        | Panic p => Panic p
        end
    | _, _ => Panic S_M_INDEX
    end
  else Ok (inr false).

Definition td_gate (ps : option prove_state) (tau : N) (msg_last : vhdr) (s : N) : res bool :=
  if negb (s =? 0) then
    match ps with
    | Some old =>
        let* otd := vtd (ps_last old) in
        let* ntd := vtd msg_last in
        match verify_total_difficulty (v_ep (ps_last old)) (v_bd (ps_last old)) otd
                                      (v_ep msg_last) (v_bd msg_last) ntd tau with
        | Ok _ => Ok true
        | Err _ => Ok false
        | Panic p => Panic p
        end
    | None => Ok true
    end
  else Ok true.

Definition verify_all (last_n tau : N) (ps : option prove_state) (rq : prove_request)
                      (msg_last : vhdr) (hs : list vhdr) (mmr : N) : res (N + (N * N * N * bool)) :=
  match matched last_n (pr_start_number rq) (pr_boundary rq) (pr_difficulties rq) (map mh hs) (v_num msg_last) with
  | Panic s => Panic s
  | Err c => Ok (inl c)
  | Ok (r, s, l) =>
    if negb (headers_ok v_root_ok hs) then Ok (inl E_INVALID_CHAIN_ROOT) else
    if negb (headers_ok v_pow_ok hs) then Ok (inl E_INVALID_NONCE) else
    let* tg := tau_gate rq tau hs r s l in
    match tg with
    | inl c => Ok (inl c)
    | inr failed_tau =>
      let* c1 := if r =? 0 then Ok true else continuous (firstn (N.to_nat r) hs) in
      if negb c1 then Ok (inl E_INVALID_PARENT_BLOCK) else
      let* c2 := continuous (skipn (N.to_nat (r + s)) hs) in
      if negb c2 then Ok (inl E_INVALID_PARENT_BLOCK) else
      (* the last returned header is the parent of the proved header (number compared first: no overflow) *)
      let* c3 := ends_at_parent hs msg_last in
      if negb c3 then Ok (inl E_INVALID_PARENT_BLOCK) else
      if negb (v_root_ok msg_last) then Ok (inl E_INVALID_PROOF) else
      if mmr =? 3 then Panic S_MMR_LIB else
      if negb (mmr =? 0) then Ok (inl E_INVALID_PROOF) else
      let* td_ok := td_gate ps tau msg_last s in
      if negb td_ok then Ok (inl E_INVALID_TOTAL_DIFFICULTY) else
      Ok (inr (r, s, l, failed_tau))
    end
  end.

(* the four branches that assemble the remembered last-N headers; None = rejected (452) *)
Definition assemble (last_n : N) (ps : option prove_state) (hs : list vhdr) (r s l : N)
  : res (option (list hkey)) :=
  let reorg_hs := firstn (N.to_nat r) hs in
  let new_last := map key_of (skipn (length hs - N.to_nat l) hs) in
  if l =? last_n then Ok (Some new_last)
  else if last_n <? l then Ok (Some (skipn (N.to_nat (l - last_n)) new_last))
  else
    match ps with
    | Some old =>
        let old_l := if r =? 0 then ps_lasts old else map key_of reorg_hs in
        match old_l with
        | [] => Ok (Some new_last)
        | _ => Ok (Some (skip_to_last (last_n - l) old_l ++ new_last))
        end
    | None =>
        if r =? 0 then Ok (Some new_last)
        else if s =? 0 then
          match nth_error hs (N.to_nat (r - 1)), nth_error hs (N.to_nat r) with
          | Some a, Some b =>
              let* ok := is_parent_of a b in
              if ok then Ok (Some (skip_to_last (last_n - l) (map key_of reorg_hs) ++ new_last))
              else Ok None
          | _, _ => Ok None   (* fix commit 155667d: reorg_count < headers.len() is checked first *)
          end
        else Ok None
    end.

(* [rebuild] : oracle for build_prove_request_content{,_from_genesis}: does it return Some? *)
Definition execute
  (last_n tau : N) (peer : pstate) (st : store)
  (msg_last : vhdr) (proof_empty : bool) (hs : list vhdr) (mmr : N)
  (rebuild rebuild_genesis : bool) : res effect :=
  match peer with
  | PNone => Ok (unchanged E_PEER_NOT_FOUND None None st)
  | PNoRequest ps => Ok (unchanged C_OK ps None st)
  | PRequested ps rq =>
      (* fix commit a11000d: headers whose total difficulty overflows are rejected up front *)
      if negb (is_ok (vtd msg_last)) then Ok (unchanged E_INVALID_CHAIN_ROOT ps (Some rq) st) else
      let* same := same_vheader (pr_last rq) msg_last in
      if negb same then
        if proof_empty then
          if negb (v_pow_ok msg_last) then Ok (unchanged E_INVALID_NONCE ps (Some rq) st)
          else if negb (v_root_ok msg_last) then Ok (unchanged E_INVALID_CHAIN_ROOT ps (Some rq) st)
          else Ok (mkEff C_OK ps None false true st None) (* last state replaced; follow-up request not modelled *)
        else Ok (unchanged C_OK ps (Some rq) st)
      else
      if negb (headers_ok (fun h => is_ok (vtd h)) hs) then Ok (unchanged E_INVALID_CHAIN_ROOT ps (Some rq) st) else
      let* v := verify_all last_n tau ps rq msg_last hs mmr in
      match v with
      | inl code => Ok (unchanged code ps (Some rq) st)
      | inr (r, s, l, failed_tau) =>
          if failed_tau then
            if rebuild then Ok (mkEff C_RECHECK ps (Some (true, false)) true false st None)
            else Ok (unchanged C_OK ps (Some rq) st)
          else
            let* lasts := assemble last_n ps hs r s l in
            match lasts with
            | None => Ok (unchanged E_INVALID_REORG ps (Some rq) st)
            | Some last_headers =>
                let new_ps := mkPS (pr_last rq) (map key_of (firstn (N.to_nat r) hs)) last_headers in
                if pr_long_fork rq then Panic S_LONG_FORK else
                let* cm := commit st new_ps in
                let '(committed, st', rb) := cm in
                if committed then
                  Ok (mkEff C_OK (Some new_ps) None false false st' rb)
                else if rebuild_genesis then
                  Ok (mkEff C_RECHECK ps (Some (false, true)) true false st None)
                else Ok (unchanged C_OK ps (Some rq) st)
            end
      end
  end.
