(* Model of Peers::get_latest_block_filter_hashes (light_client/peers.rs 1755-1823): the filter hashes after the
   finalized check point that the client trusts are voted index by index among the proven peers whose hash list
   starts at that check point.  Same loop as the check point vote (Model/CheckPoints.v, [fin_loop]): at every
   index the most frequent value wins if at least [required] peers report it, the peers that disagree are
   dropped, and the loop stops at the first index without such a value.  Which of two equally frequent values
   wins is the iteration order of a HashMap: the value the implementation chose is an input ([chosen]) and the
   model checks that it is one the code can produce. *)
From LC Require Export CheckPoints.
Open Scope N_scope.

Definition latest_hashes (required : nat) (peers : list (N * list hash)) (chosen : list hash) : list hash * bool :=
  if Nat.ltb (length peers) required then ([], match chosen with [] => true | _ => false end)
  else
    let sizes := sort_nat (map (fun p => length (snd p)) peers) in
    let length_max := nth (required - 1) sizes 0%nat in
    let '(written, ok) := fin_loop required length_max 0 peers chosen in
    (written, ok && Nat.eqb (length written) (length chosen)).
