From LC Require Export Val Pending.
Open Scope N_scope.

Fixpoint ins_n (x : N) (l : list N) : list N :=
  match l with [] => [x] | y :: tl => if x <=? y then x :: l else y :: ins_n x tl end.
Definition sortN (l : list N) : list N := fold_right ins_n [] l.

(* what the harness can see of the pool: for each known hash, in the given order: present?, cycles, peers (sorted) *)
Definition probe (known : list N) (l : pool) : val :=
  vlist (fun h => match p_find h l with
                  | Some e => VL [VN h; VN (pe_cycles e); vlist VN (sortN (pe_peers e))]
                  | None => VL [VN h]
                  end) known.

Fixpoint run_pool_events (limit : nat) (known : list N) (l : pool) (evs : list pev) : list val :=
  match evs with
  | [] => []
  | e :: tl =>
      let '(l', out) := pstep limit l e in
      let v := match e with
               | PE_send _ v => VL [vbool (match v with Some _ => true | None => false end)]
               | PE_connect _ => VL [vlist (fun a => VN (snd a)) out]
               | PE_get hs => VL [vlist (fun a => VL [VN (fst a); VN (snd a)]) (relay_get hs l)]
               | PE_disconnect _ => VL []
               end in
      VL [v; probe known l'] :: run_pool_events limit known l' tl
  end.

Definition run_pool (limit : N) (known : list N) (evs : list pev) : val :=
  VL (run_pool_events (N.to_nat limit) known [] evs).

(* per-event results, then one probe of the final pool *)
Fixpoint step_vals (limit : nat) (l : pool) (evs : list pev) : list val * pool :=
  match evs with
  | [] => ([], l)
  | e :: tl =>
      let '(l', out) := pstep limit l e in
      let v := match e with
               | PE_send _ v => VL [vbool (match v with Some _ => true | None => false end)]
               | PE_connect _ => VL [vlist (fun a => VN (snd a)) out]
               | PE_get hs => VL [vlist (fun a => VL [VN (fst a); VN (snd a)]) (relay_get hs l)]
               | PE_disconnect _ => VL []
               end in
      let '(vs, lf) := step_vals limit l' tl in (v :: vs, lf)
  end.

Definition run_pool_summary (limit : N) (known : list N) (evs : list pev) : val :=
  let '(vs, lf) := step_vals (N.to_nat limit) [] evs in VL [VL vs; probe known lf].
