#!/bin/sh
# usage: tools/confirm_seed.sh <worktree> <seed dir>   -- confirms a seeded change in a scratch worktree
wt=$1; d=$2
cd "$wt" || exit 2
git checkout -q -- . && git clean -fdq src
t=$(python3 -c "import json,sys; print(json.load(open('$d/meta.json'))['demo_test'])")
git apply "$d/demo.diff" || { echo "demo does not apply"; exit 2; }
a=$(cargo test --offline $FEATURES "$t" 2>&1 | grep -E "^test result" | grep -v " 0 passed; 0 failed" | head -1)
git apply "$d/patch.diff" || { echo "patch does not apply"; exit 2; }
b=$(cargo test --offline $FEATURES "$t" 2>&1 | grep -E "^test result" | grep -v " 0 passed; 0 failed" | head -1)
git checkout -q -- . && git clean -fdq src
git apply "$d/patch.diff"
c=$(cargo test --offline 2>&1 | grep -E "^test result" | head -1)
git checkout -q -- . && git clean -fdq src
find /tmp -maxdepth 1 -name ".tmp*" -mmin +2 -exec rm -rf {} + 2>/dev/null
echo "$d | demo on original: $a | demo with patch: $b | suite with patch: $c"
