(* Entry point for histories of storage-level events (C03, C04, C09). *)
From LC Require Export Val Store.
Open Scope N_scope.

Inductive sev :=
| SE_init (genesis : block)
| SE_set_scripts (l : list script_status) (cmd : N) (genesis : block)
| SE_filter_block (b : block)
| SE_update_block_number (n : N)
| SE_rollback (n : N)
| SE_fetched_tx (t : tx) (bn : N)
| SE_set_min (n : N)
| SE_add_matched (start : N)
| SE_remove_matched (start : N).

Definition sstep (st : store) (e : sev) : res store :=
  match e with
  | SE_init g => Ok (commit st [W_put_header (b_number g)])
  | SE_set_scripts l cmd g =>
      let '(st', refilter) := update_filter_scripts st l cmd in
      Ok (if refilter then filter_block st' g else st')
  | SE_filter_block b => Ok (filter_block st b)
  | SE_update_block_number n => Ok (update_block_number st n)
  | SE_rollback n => rollback_to_block st n
  | SE_fetched_tx t bn => Ok (add_fetched_tx st t bn)
  | SE_set_min n => Ok (commit st [W_set_min n])
  | SE_add_matched s => Ok (mkSt (scripts st) (cells st) (history st) (txs st) (headers st) (min_filtered st)
                                 (if existsb (N.eqb s) (matched st) then matched st else s :: matched st))
  | SE_remove_matched s => Ok (mkSt (scripts st) (cells st) (history st) (txs st) (headers st) (min_filtered st)
                                    (filter (fun x => negb (x =? s)) (matched st)))
  end.

(* canonical order: lexicographic on lists of numbers *)
Fixpoint nums_leb (a b : list N) : bool :=
  match a, b with
  | [], _ => true
  | _, [] => false
  | x :: a', y :: b' => (x <? y) || ((x =? y) && nums_leb a' b')
  end.
Fixpoint ins_nums (x : list N) (l : list (list N)) : list (list N) :=
  match l with [] => [x] | y :: tl => if nums_leb x y then x :: l else y :: ins_nums x tl end.
Definition sort_nums (l : list (list N)) : list (list N) := fold_right ins_nums [] l.
Definition obs_nums (l : list (list N)) : val := vlist (fun r => vlist VN r) (sort_nums l).

Definition obs_store (st : store) : val :=
  VL [obs_nums (map (fun s => [ss_script s; ss_type s; ss_number s]) (scripts st));
      obs_nums (map (fun e => let '((a, b, c, d, f), t) := e in [a; b; c; d; f; t]) (cells st));
      obs_nums (map (fun e => let '((a, b, c, d, f, g), t) := e in [a; b; c; d; f; g; t]) (history st));
      obs_nums (map (fun e => let '(t, (bn, ti, _)) := e in [t; bn; ti]) (txs st));
      obs_nums (map (fun n => [n]) (headers st));
      VN (min_filtered st);
      obs_nums (map (fun n => [n]) (matched st))].

Fixpoint run_events (st : store) (evs : list sev) : list val :=
  match evs with
  | [] => []
  | e :: tl =>
      match sstep st e with
      | Ok st' => obs_store st' :: run_events st' tl
      | Err c => [VL [VN 1; VN c]]
      | Panic _ => [VL [VN 3]]
      end
  end.

Definition empty_store : store := mkSt [] [] [] [] [] 0 [].
Definition run_store (init : list sev) (evs : list sev) : val :=
  (* [init] brings the model to the state the real store starts from (genesis), unobserved *)
  let st0 := fold_left (fun st e => match sstep st e with Ok s => s | _ => st end) init empty_store in
  VL (run_events st0 evs).
