//! SplitMix64: the only source of randomness of the harness.
use ckb_types::U256;

pub(crate) struct Rng(pub u64);

impl Rng {
    pub(crate) fn new(seed: u64) -> Self {
        Rng(seed ^ 0x9E37_79B9_7F4A_7C15)
    }
    pub(crate) fn next(&mut self) -> u64 {
        self.0 = self.0.wrapping_add(0x9E37_79B9_7F4A_7C15);
        let mut z = self.0;
        z = (z ^ (z >> 30)).wrapping_mul(0xBF58_476D_1CE4_E5B9);
        z = (z ^ (z >> 27)).wrapping_mul(0x94D0_49BB_1331_11EB);
        z ^ (z >> 31)
    }
    /// uniform in [0, n)  (n > 0)
    pub(crate) fn below(&mut self, n: u64) -> u64 {
        self.next() % n
    }
    /// uniform in [lo, hi]
    pub(crate) fn range(&mut self, lo: u64, hi: u64) -> u64 {
        lo + self.below(hi - lo + 1)
    }
    pub(crate) fn chance(&mut self, num: u64, den: u64) -> bool {
        self.below(den) < num
    }
    pub(crate) fn pick<'a, T>(&mut self, xs: &'a [T]) -> &'a T {
        &xs[self.below(xs.len() as u64) as usize]
    }
    /// a value with a uniformly chosen bit length in [0, bits]
    pub(crate) fn bits(&mut self, bits: u32) -> u64 {
        let b = self.range(0, bits as u64) as u32;
        if b == 0 {
            0
        } else if b == 64 {
            self.next()
        } else {
            self.next() & ((1u64 << b) - 1)
        }
    }
    pub(crate) fn u256_bits(&mut self, bits: u32) -> U256 {
        let b = self.range(0, bits as u64) as u32;
        let mut bytes = [0u8; 32];
        for i in 0..32 {
            bytes[i] = self.next() as u8;
        }
        let v = U256::from_le_bytes(&bytes);
        if b == 0 {
            U256::zero()
        } else if b >= 256 {
            v
        } else {
            v >> (256 - b)
        }
    }
    pub(crate) fn bytes32(&mut self) -> [u8; 32] {
        let mut b = [0u8; 32];
        for i in 0..4 {
            b[i * 8..(i + 1) * 8].copy_from_slice(&self.next().to_le_bytes());
        }
        b
    }
}
