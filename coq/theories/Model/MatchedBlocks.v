(* The pending matched blocks: the records in the store (MATCHED_BLOCKS keys: start number -> block hashes) and the in-memory
   download table (Peers.matched_blocks), and every operation that touches them:
     - BlockFiltersProcess::execute (a batch with matches adds a record; an empty table is loaded from the EARLIEST record),
     - SyncProtocol::received / SendBlock (a body is stored in the table; when every entry has its body the table is taken,
       the EARLIEST record is read, `assert_eq!(blocks.len(), db_blocks.len())` and `assert!(db_blocks.contains(..))` are
       evaluated, the record is removed and the table is loaded from the next earliest record),
     - FilterProtocol timer (an empty table is loaded from the earliest record),
     - set_scripts (all records and the table are cleared), the fork rollback of commit_prove_state (records above the fork
       point are removed, the table is cleared), a restart (the table is empty).
   Block hashes are numbers; a table entry carries whether its body has arrived. *)
From LC Require Export U.
From Coq Require Export List Bool.
Export ListNotations.
Open Scope N_scope.
Open Scope bool_scope.

Definition S_SB_NO_RECORD : N := 660.   (* .expect("get matched blocks from storage")         (synchronizer.rs) *)
Definition S_SB_COUNT : N := 661.       (* assert_eq!(blocks.len(), db_blocks.len())             (synchronizer.rs) *)
Definition S_SB_FOREIGN : N := 662.     (* assert!(db_blocks.contains(&block hash))              (synchronizer.rs) *)

Record mb := mkMB {
  m_records : list (N * list N);        (* ascending by start number: the first one is the earliest *)
  m_table : list (N * bool)             (* hash, body arrived *)
}.

Definition load (hs : list N) : list (N * bool) := map (fun h => (h, false)) hs.

Definition reload (recs : list (N * list N)) : list (N * bool) :=
  match recs with [] => [] | (_, hs) :: _ => load hs end.

Fixpoint insert_record (r : N * list N) (l : list (N * list N)) : list (N * list N) :=
  match l with
  | [] => [r]
  | x :: tl => if fst r <? fst x then r :: l else if fst r =? fst x then r :: tl else x :: insert_record r tl
  end.

Inductive mev :=
| M_batch (start : N) (hs : list N)     (* a verified batch; hs = the matched hashes (a batch without match adds nothing) *)
| M_block (h : N)                       (* SendBlock with a proved, matched hash *)
| M_timer
| M_set_scripts
| M_rollback (to : N)                   (* records starting above [to] are removed *)
| M_restart.

Fixpoint mark (h : N) (t : list (N * bool)) : list (N * bool) :=
  match t with [] => [] | (x, b) :: tl => if x =? h then (x, true) :: tl else (x, b) :: mark h tl end.

Definition all_arrived (t : list (N * bool)) : bool := forallb snd t.

Definition mstep (s : mb) (e : mev) : res mb :=
  match e with
  | M_batch start hs =>
      match hs with
      | [] => Ok s
      | _ =>
        let recs := insert_record (start, hs) (m_records s) in
        Ok (mkMB recs (match m_table s with [] => reload recs | t => t end))
      end
  | M_block h =>
      let t := mark h (m_table s) in
      match t with
      | [] => Ok s
      | _ =>
        if all_arrived t then
          match m_records s with
          | [] => Panic S_SB_NO_RECORD
          | (_, hs) :: rest =>
              if negb (Nat.eqb (length t) (length hs)) then Panic S_SB_COUNT
              else if negb (forallb (fun x => existsb (N.eqb (fst x)) hs) t) then Panic S_SB_FOREIGN
              else Ok (mkMB rest (reload rest))
          end
        else Ok (mkMB (m_records s) t)
      end
  | M_timer => Ok (mkMB (m_records s) (match m_table s with [] => reload (m_records s) | t => t end))
  | M_set_scripts => Ok (mkMB [] [])
  | M_rollback to => Ok (mkMB (filter (fun r => fst r <=? to) (m_records s)) [])
  | M_restart => Ok (mkMB (m_records s) [])
  end.

Fixpoint mrun (s : mb) (evs : list mev) : res mb :=
  match evs with [] => Ok s | e :: tl => let* s' := mstep s e in mrun s' tl end.
