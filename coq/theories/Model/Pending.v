(* Model of the pending-transaction pool and its relay (C18):
   relayer.rs PendingTxs::{push, get, fetch_transaction_hashes_for_broadcast} (a LinkedHashMap with a size limit:
   insertion order, re-insertion moves to the back, pop_front evicts the oldest),
   service.rs send_transaction (verify_tx, then push) and RelayProtocol::connected / GetRelayTransactions.
   verify_tx (ckb-verification, ckb-script, ckb-vm) is an oracle: its verdict is an input of every submission. *)
From LC Require Export U.
From Coq Require Export List Bool.
Export ListNotations.
Open Scope N_scope.
Open Scope bool_scope.

Record pentry := mkPE { pe_hash : N; pe_cycles : N; pe_peers : list N }.
Definition pool := list pentry.   (* oldest first *)

Definition hasN (x : N) (l : list N) : bool := existsb (N.eqb x) l.

Fixpoint p_find (h : N) (l : pool) : option pentry :=
  match l with [] => None | e :: tl => if pe_hash e =? h then Some e else p_find h tl end.
Definition p_remove (h : N) (l : pool) : pool := filter (fun e => negb (pe_hash e =? h)) l.

(* push: a re-submitted transaction moves to the back and keeps the set of peers it was announced to
   (fix commit: before it, the set was reset and the hash announced again) *)
Definition push (limit : nat) (h c : N) (l : pool) : pool :=
  let kept := match p_find h l with Some e => pe_peers e | None => [] end in
  let l1 := p_remove h l ++ [mkPE h c kept] in
  if Nat.ltb limit (length l1) then tl l1 else l1.

(* hashes not yet announced to [p], in pool order; afterwards every entry remembers [p] *)
Definition broadcast (p : N) (l : pool) : list N * pool :=
  (map pe_hash (filter (fun e => negb (hasN p (pe_peers e))) l),
   map (fun e => if hasN p (pe_peers e) then e else mkPE (pe_hash e) (pe_cycles e) (p :: pe_peers e)) l).

(* send_transaction: the verdict of verify_tx decides; a rejected transaction leaves the pool alone *)
Definition send (limit : nat) (verdict : option N) (h : N) (l : pool) : pool :=
  match verdict with Some c => push limit h c l | None => l end.

(* GetRelayTransactions: the requested hashes that are in the pool, in request order *)
Definition relay_get (hs : list N) (l : pool) : list (N * N) :=
  flat_map (fun h => match p_find h l with Some e => [(h, pe_cycles e)] | None => [] end) hs.

Inductive pev :=
| PE_send (h : N) (verdict : option N)
| PE_connect (p : N)                 (* a peer opens the relay protocol: everything not yet announced to it is announced *)
| PE_get (hs : list N)
| PE_disconnect (p : N).            (* a peer closes the relay protocol (RelayProtocol::disconnected): the pool, and who was told what, stay *)

Definition pstep (limit : nat) (l : pool) (e : pev) : pool * list (N * N) :=
  match e with
  | PE_send h v => (send limit v h l, [])
  | PE_connect p => let '(hs, l') := broadcast p l in (l', map (fun h => (p, h)) hs)
  | PE_get _ => (l, [])
  | PE_disconnect _ => (l, [])
  end.

(* all announcements (peer, hash) of a history, in order *)
Fixpoint announcements (limit : nat) (l : pool) (evs : list pev) : list (N * N) :=
  match evs with
  | [] => []
  | e :: tl => let '(l', out) := pstep limit l e in out ++ announcements limit l' tl
  end.

Fixpoint pfinal (limit : nat) (l : pool) (evs : list pev) : pool :=
  match evs with [] => l | e :: tl => pfinal limit (fst (pstep limit l e)) tl end.
