#!/usr/bin/env python3
"""usage: tools/save_seed.py <seed name under /tmp/seed-out> <caught by check(s)> <how it shows up> [confirm log line]"""
import json, os, shutil, sys
name, caught, how = sys.argv[1], sys.argv[2], sys.argv[3]
src = "/tmp/seed-out/" + name
dst = "/verif/seeded/" + name
os.makedirs(dst, exist_ok=True)
for f in ("patch.diff", "demo.diff"):
    shutil.copy(os.path.join(src, f), os.path.join(dst, f))
meta = json.load(open(os.path.join(src, "meta.json")))
confirm = ""
for log in ("/tmp/seed-out/confirm1.log", "/tmp/seed-out/confirm2.log", "/tmp/seed-out/confirm3.log"):
    if os.path.exists(log):
        for line in open(log):
            if line.startswith(src + " "):
                confirm = line.strip()
out = {
    "breaks_property": meta.get("property"),
    "summary": meta.get("summary"),
    "needs_to_manifest": meta.get("needs"),
    "demonstration_test": meta.get("demo_test"),
    "produced_by": "independent sub-agent given only the property text and a scratch worktree",
    "confirmed_in_scratch_worktree": confirm or "pending",
    "ran_against_checks": "tools/try_seed.sh (git -C /repo apply patch.diff; ./vp check <id>; git checkout)",
    "caught_by": caught,
    "how_it_shows_up": how,
}
json.dump(out, open(os.path.join(dst, "meta.json"), "w"), indent=1)
print("saved", dst)
