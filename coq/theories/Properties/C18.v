(* C18 — send_transaction admits only verifiable transactions; relays once per peer.
   Model: Model/Pending.v — the pending pool (PendingTxs), admission by send_transaction and the relay
   announcements.  verify_tx (ckb-verification, ckb-script, ckb-vm: structure, capacity, since, scripts, cycles)
   is an oracle of the model; the correspondence op runs it for real on valid and mutated transactions and
   compares the verdicts with what each mutation must produce (level: partial for the first sentence of the property).

   - [C18_pool_bounded]: after any history the pool holds at most [limit] transactions.
   - [C18_oldest_evicted_first]: a new transaction pushed into a full pool drops exactly the oldest entry.
   - [C18_rejected_never_stored]: a rejected submission leaves the pool unchanged.
   - [C18_announces_only_fresh]: what a step announces to a peer is in the pool and had not been announced to that
     peer; afterwards it counts as announced.
   - [C18_announced_stays_announced]: no step forgets an announcement of a transaction that stays in the pool —
     in particular a re-submission keeps it (the defect repaired by commit 5d5978e).  Together: a pending hash is
     announced to a given peer at most once for as long as it stays pending.
   - [C18_only_admitted_in_pool]. *)
From Coq Require Import NArith List.
From LC Require Import Pending PendingProofs.
Import ListNotations.
Open Scope N_scope.

Theorem C18_pool_bounded :
  forall limit evs l, (length l <= limit)%nat -> (length (pfinal limit l evs) <= limit)%nat.
Proof. exact pool_bounded. Qed.
Print Assumptions C18_pool_bounded.

Theorem C18_oldest_evicted_first :
  forall limit h c e0 l,
    p_find h (e0 :: l) = None -> length (e0 :: l) = limit ->
    push limit h c (e0 :: l) = l ++ [mkPE h c []].
Proof. exact push_evicts_oldest. Qed.
Print Assumptions C18_oldest_evicted_first.

Theorem C18_rejected_never_stored : forall limit h l, send limit None h l = l.
Proof. exact send_rejected. Qed.
Print Assumptions C18_rejected_never_stored.

Theorem C18_announces_only_fresh :
  forall limit l e p h,
    distinct l -> In (p, h) (snd (pstep limit l e)) ->
    in_pool l h /\ ~ announced l p h /\ announced (fst (pstep limit l e)) p h.
Proof. exact pstep_announces_fresh. Qed.
Print Assumptions C18_announces_only_fresh.

Theorem C18_announced_stays_announced :
  forall limit l e p k,
    distinct l -> announced l p k -> in_pool (fst (pstep limit l e)) k -> announced (fst (pstep limit l e)) p k.
Proof. exact pstep_keeps_announced. Qed.
Print Assumptions C18_announced_stays_announced.

Theorem C18_distinct_kept : forall limit l e, distinct l -> distinct (fst (pstep limit l e)).
Proof. exact pstep_distinct. Qed.
Print Assumptions C18_distinct_kept.

Theorem C18_only_admitted_in_pool :
  forall limit h c l k, in_pool (push limit h c l) k -> k = h \/ in_pool l k.
Proof. exact push_in_pool. Qed.
Print Assumptions C18_only_admitted_in_pool.

(* a re-submission between two openings of the relay protocol: the second opening announces nothing *)
Example C18_resubmission_is_not_reannounced :
  announcements 3 [] [PE_send 7 (Some 500); PE_connect 1; PE_send 7 (Some 500); PE_connect 1] = [(1, 7)].
Proof. vm_compute. reflexivity. Qed.
