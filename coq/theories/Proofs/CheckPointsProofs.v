(* Lemmas about Model/CheckPoints.v (C07). *)
From Coq Require Import NArith Lia List Bool Arith.
From LC Require Import CheckPoints.
Import ListNotations.
Open Scope N_scope.
Open Scope bool_scope.

(* p reports the values ws at indices index, index+1, ... *)
Fixpoint agrees_from (index : nat) (ws : list hash) (p : N * list hash) : bool :=
  match ws with
  | [] => true
  | w :: tl => at_index index w p && agrees_from (S index) tl p
  end.

Lemma count_at_filter index v vs : count_at index v vs = length (filter (at_index index v) vs).
Proof. reflexivity. Qed.

Lemma filter_filter_length {A} (p q : A -> bool) l :
  length (filter q (filter p l)) = length (filter (fun x => p x && q x) l).
Proof.
  induction l as [|a l IH]; [reflexivity|]. cbn [filter]. destruct (p a); cbn [filter andb]; [destruct (q a); cbn [length]; lia | exact IH].
Qed.

Lemma filter_len_le {A} (p : A -> bool) l : (length (filter p l) <= length l)%nat.
Proof. induction l as [|a l IH]; [cbn; lia|]. cbn [filter]. destruct (p a); cbn [length]; lia. Qed.

Lemma filter_all_length {A} (p : A -> bool) l : length (filter p l) = length l -> forall x, In x l -> p x = true.
Proof.
  induction l as [|a l IH]; intros H x Hin; [contradiction|]. cbn [filter length] in H.
  destruct (p a) eqn:Pa.
  - cbn [length] in H. destruct Hin as [->|Hin]; [exact Pa | apply IH; [lia | exact Hin]].
  - pose proof (filter_len_le p l). lia.
Qed.

Lemma filter_ext_in_length {A} (p q : A -> bool) l :
  (forall x, In x l -> p x = true -> q x = true) -> (length (filter p l) <= length (filter q l))%nat.
Proof.
  induction l as [|a l IH]; intros H; [cbn; lia|]. cbn [filter].
  assert (IH' : (length (filter p l) <= length (filter q l))%nat) by (apply IH; intros; apply H; [right|]; assumption).
  destruct (p a) eqn:Pa.
  - rewrite (H a (or_introl eq_refl) Pa). cbn [length]. lia.
  - destruct (q a); cbn [length]; lia.
Qed.

(* quorum: every finalized value, together with all values finalized before it in this tick, is reported
   by at least [required] of the peers the vote started with *)
Lemma fin_loop_quorum required : forall fuel index vs chosen written ok,
  fin_loop required fuel index vs chosen = (written, ok) ->
  forall k, (k < length written)%nat ->
    (required <= length (filter (agrees_from index (firstn (S k) written)) vs))%nat.
Proof.
  induction fuel as [|fuel IH]; intros index vs chosen written ok H k Hk.
  - cbn in H. inversion H; subst. cbn in Hk. lia.
  - cbn [fin_loop] in H.
    destruct (Nat.leb_spec required (count_max index vs)) as [Hq|Hq].
    2: { inversion H; subst. cbn in Hk. lia. }
    destruct chosen as [|cp chosen']; [inversion H; subst; cbn in Hk; lia|].
    destruct (Nat.eqb_spec (count_at index cp vs) (count_max index vs)) as [Hc|Hc].
    2: { inversion H; subst. cbn in Hk. lia. }
    set (vs' := if Nat.eqb (count_max index vs) (length vs) then vs else filter (at_index index cp) vs) in *.
    destruct (fin_loop required fuel (S index) vs' chosen') as [more ok'] eqn:R.
    injection H as Hw Hok. rewrite <- Hw in *. clear Hw.
    destruct k as [|k].
    + cbn [firstn].
      assert (E : forall x, agrees_from index [cp] x = at_index index cp x) by (intros; cbn; apply andb_true_r).
      rewrite (filter_ext _ _ E). rewrite <- count_at_filter. lia.
    + cbn [length] in Hk. assert (Hk' : (k < length more)%nat) by lia.
      specialize (IH (S index) vs' chosen' more ok' R k Hk').
      cbn [firstn].
      assert (E : forall x, agrees_from index (cp :: firstn (S k) more) x = at_index index cp x && agrees_from (S index) (firstn (S k) more) x) by reflexivity.
      rewrite (filter_ext _ _ E).
      eapply Nat.le_trans; [exact IH|].
      unfold vs'. destruct (Nat.eqb_spec (count_max index vs) (length vs)) as [Hall|Hnall].
      * (* every peer reports cp at this index *)
        apply filter_ext_in_length. intros x Hx Hag.
        assert (at_index index cp x = true).
        { apply (filter_all_length (at_index index cp) vs); [rewrite <- count_at_filter; lia | exact Hx]. }
        rewrite H. exact Hag.
      * rewrite filter_filter_length. apply Nat.eq_le_incl. reflexivity.
Qed.

(* the peers the vote starts with: proven peers that report the final check point at the final index *)
Definition kept_of (last_idx : N) (last_cp : hash) (peers : list peer_cps) : list (N * list hash) :=
  flat_map (fun x => match snd x with C_keep _ rest => [(fst x, rest)] | _ => [] end)
           (map (fun p => (pc_id p, clean_one last_idx last_cp p)) peers).

Lemma finalize_quorum required peers last_idx last_cp chosen :
  forall k, (k < length (fo_written (finalize required peers last_idx last_cp chosen)))%nat ->
    (required <= length (filter (agrees_from 1 (firstn (S k) (fo_written (finalize required peers last_idx last_cp chosen))))
                                (kept_of last_idx last_cp peers)))%nat.
Proof.
  intros k. unfold finalize.
  destruct (Nat.ltb (length peers) required); [cbn; lia|].
  fold (kept_of last_idx last_cp peers).
  destruct (Nat.ltb (length (kept_of last_idx last_cp peers)) required); [cbn; lia|].
  destruct (fin_loop required _ 1 (kept_of last_idx last_cp peers) chosen) as [written ok] eqn:R.
  cbn [fo_written]. intros Hk. eapply fin_loop_quorum; eauto.
Qed.

(* kept peers really report the final check point at the final index *)
Lemma clean_keep_spec last_idx last_cp p t rest :
  clean_one last_idx last_cp p = C_keep t rest ->
  pc_start p <= last_idx /\ t = last_idx - pc_start p /\
  nth_error (pc_cps p) (N.to_nat t) = Some last_cp /\ rest = skipn (N.to_nat t) (pc_cps p).
Proof.
  unfold clean_one. destruct (N.ltb_spec last_idx (pc_start p)) as [Hlt|Hge]; [discriminate|].
  destruct (nth_error (pc_cps p) (N.to_nat (last_idx - pc_start p))) as [v|] eqn:E; [|discriminate].
  destruct (N.eqb_spec v last_cp) as [Hv|Hv]; [|discriminate]. intros HK; inversion HK; subst. repeat split; auto.
Qed.

(* a peer contradicting the final check point is banned whenever finalization runs *)
Lemma clean_ban_spec last_idx last_cp p :
  clean_one last_idx last_cp p = C_ban <->
  (last_idx < pc_start p \/
   exists v, nth_error (pc_cps p) (N.to_nat (last_idx - pc_start p)) = Some v /\ v <> last_cp).
Proof.
  unfold clean_one. destruct (N.ltb_spec last_idx (pc_start p)) as [Hlt|Hge].
  - split; [intros _; left; exact Hlt | reflexivity].
  - destruct (nth_error (pc_cps p) (N.to_nat (last_idx - pc_start p))) as [v|] eqn:E.
    + destruct (N.eqb_spec v last_cp) as [->|Hne].
      * split; [discriminate|]. intros [H|[v' [Hv Hn]]]; [lia|]. inversion Hv; subst. contradiction.
      * split; [intros _; right; exists v; auto | reflexivity].
    + split; [discriminate|]. intros [H|[v' [Hv _]]]; [lia | discriminate].
Qed.

Lemma finalize_bans required peers last_idx last_cp chosen p :
  (required <= length peers)%nat -> In p peers ->
  clean_one last_idx last_cp p = C_ban ->
  In (pc_id p) (fo_bans (finalize required peers last_idx last_cp chosen)).
Proof.
  intros Hn Hin Hban. unfold finalize.
  destruct (Nat.ltb_spec (length peers) required); [lia|].
  assert (Hb : In (pc_id p)
     (flat_map (fun x : N * cleaned => match snd x with C_ban => [fst x] | _ => [] end)
               (map (fun p0 => (pc_id p0, clean_one last_idx last_cp p0)) peers))).
  { apply in_flat_map. exists (pc_id p, clean_one last_idx last_cp p). split.
    - apply in_map_iff. exists p. split; [reflexivity | exact Hin].
    - cbn [snd fst]. rewrite Hban. left; reflexivity. }
  destruct (Nat.ltb _ required); [exact Hb|].
  destruct (fin_loop _ _ _ _ _) as [w ok]. exact Hb.
Qed.

(* final check points are never rewritten and the final index never decreases: the write starts right
   after the previous final index *)
Lemma finalize_monotone required peers last_idx last_cp chosen :
  let o := finalize required peers last_idx last_cp chosen in
  fo_new_max o = last_idx + lenN (fo_written o) /\ last_idx <= fo_new_max o.
Proof.
  cbv zeta. unfold finalize.
  destruct (Nat.ltb (length peers) required); [cbn; unfold lenN; cbn; lia|].
  destruct (Nat.ltb _ required); [cbn; unfold lenN; cbn; lia|].
  destruct (fin_loop _ _ _ _ _) as [w ok]. cbn. lia.
Qed.

(* a peer's own vector only grows: accepted check points are appended, never rewritten *)
Lemma add_check_points_appends interval c lp start new c' next :
  add_check_points interval c lp start new = Ok (c', next) ->
  cp_first c' = cp_first c /\ exists ext, cp_list c' = cp_list c ++ ext /\ (length ext <= length new - 1)%nat.
Proof.
  unfold add_check_points. destruct new as [|f rest0]; [discriminate|].
  destruct (negb _); [discriminate|]. destruct (negb _); [discriminate|]. destruct (negb _); [discriminate|].
  destruct (lenN (f :: rest0) <? 2); [discriminate|].
  intros H; inversion H; subst; clear H. split; [reflexivity|].
  eexists. split; [reflexivity|].
  destruct (_ <=? lp); [cbn; lia|]. destruct (2 <? _); [|cbn; lia].
  cbn [tl length]. destruct rest0 as [|a tl0]; [cbn; lia|].
  pose proof (removelast_firstn_len (a :: tl0)) as R. rewrite R, firstn_length. cbn [length]. lia.
Qed.
