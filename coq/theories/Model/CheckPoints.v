(* Model of the filter check point logic:
   CheckPoints::{add_check_points, remove_first_n_check_points} (peers.rs 510-607) and
   LightClientProtocol::finalize_check_points (light_client/mod.rs 531-692).
   HashMap iteration order is not modelled: wherever the code picks "a" value with the maximal count,
   the model takes the value the implementation finalized as an input ([chosen]) and checks that it is
   one of the values the code could have picked; every theorem quantifies over all such choices. *)
From LC Require Export U.
From Coq Require Export List Bool.
Export ListNotations.
Open Scope N_scope.
Open Scope bool_scope.

Definition hash := N.

(* ---- per-peer check point vector ---- *)
Record cps := mkCps { cp_first : N; cp_list : list hash }.   (* index of the first entry; never empty *)

Definition E_CP_EMPTY : N := 471.
Definition E_CP_UNALIGNED : N := 472.
Definition E_CP_UNEXPECTED : N := 473.

Definition lenN {A} (l : list A) : N := N.of_nat (length l).
Definition last_number (interval : N) (c : cps) : N := interval * cp_first c + interval * (lenN (cp_list c) - 1).

Definition add_check_points (interval : N) (c : cps) (last_proved start : N) (new : list hash)
  : res (cps * option N) :=
  match new with
  | [] => Err E_CP_EMPTY
  | first_new :: _ =>
    if negb (start mod interval =? 0) then Err E_CP_UNALIGNED else
    let next := last_number interval c in
    if negb (start =? next) then Err E_CP_UNEXPECTED else
    if negb (last (cp_list c) 0 =? first_new) then Err E_CP_UNEXPECTED else
    if lenN new <? 2 then Err E_CP_UNEXPECTED else
    let ext :=
      if start + interval * lenN new <=? last_proved then tl new
      else if 2 <? lenN new then removelast (tl new)
      else [] in
    let c' := mkCps (cp_first c) (cp_list c ++ ext) in
    let next' := last_number interval c' in
    Ok (c', if next' + interval * 2 <=? last_proved then Some next' else None)
  end.

(* ---- finalization ---- *)
Record peer_cps := mkPC { pc_id : N; pc_start : N; pc_cps : list hash }.

Inductive cleaned :=
| C_ban                       (* contradicts the final check point, or starts after it *)
| C_skip                      (* too short: does not reach the final check point *)
| C_keep (trim : N) (rest : list hash).   (* rest[0] is the final check point *)

Definition clean_one (last_idx : N) (last_cp : hash) (p : peer_cps) : cleaned :=
  if last_idx <? pc_start p then C_ban
  else
    let index := last_idx - pc_start p in
    match nth_error (pc_cps p) (N.to_nat index) with
    | None => C_skip
    | Some v => if v =? last_cp then C_keep index (skipn (N.to_nat index) (pc_cps p)) else C_ban
    end.

Definition at_index (index : nat) (v : hash) (p : N * list hash) : bool :=
  match nth_error (snd p) index with Some x => x =? v | None => false end.

Definition count_at (index : nat) (v : hash) (vs : list (N * list hash)) : nat :=
  length (filter (at_index index v) vs).

Definition has_at (index : nat) (p : N * list hash) : bool :=
  match nth_error (snd p) index with Some _ => true | None => false end.

(* maximal count of any value at [index] *)
Definition count_max (index : nat) (vs : list (N * list hash)) : nat :=
  fold_right Nat.max 0%nat
    (map (fun p => match nth_error (snd p) index with Some x => count_at index x vs | None => 0%nat end) vs).

Fixpoint insert_nat (x : nat) (l : list nat) : list nat :=
  match l with [] => [x] | y :: tl => if Nat.leb x y then x :: l else y :: insert_nat x tl end.
Definition sort_nat (l : list nat) : list nat := fold_right insert_nat [] l.

(* the loop "for index in 1..length_max": returns the finalized values and whether every choice was legal *)
Fixpoint fin_loop (required : nat) (fuel : nat) (index : nat) (vs : list (N * list hash)) (chosen : list hash)
  : list hash * bool :=
  match fuel with
  | O => ([], true)
  | S fuel' =>
      let cm := count_max index vs in
      if Nat.leb required cm then
        match chosen with
        | [] => ([], false)      (* the implementation finalized fewer values than the code must *)
        | cp :: chosen' =>
            if Nat.eqb (count_at index cp vs) cm then
              let vs' := if Nat.eqb cm (length vs) then vs
                         else filter (at_index index cp) vs in
              let '(more, ok) := fin_loop required fuel' (S index) vs' chosen' in
              (cp :: more, ok)
            else ([], false)
        end
      else ([], match chosen with [] => true | _ => false end)
  end.

Record fin_out := mkFO {
  fo_bans : list N; fo_trims : list (N * N);
  fo_written : list hash;       (* stored at indices last_idx+1 .. *)
  fo_new_max : N;
  fo_legal : bool               (* [chosen] is an outcome the code can produce *)
}.

Definition finalize (required : nat) (peers : list peer_cps) (last_idx : N) (last_cp : hash) (chosen : list hash) : fin_out :=
  let nothing := mkFO [] [] [] last_idx (match chosen with [] => true | _ => false end) in
  if Nat.ltb (length peers) required then nothing else
  let cl := map (fun p => (pc_id p, clean_one last_idx last_cp p)) peers in
  let bans := flat_map (fun x => match snd x with C_ban => [fst x] | _ => [] end) cl in
  let trims := flat_map (fun x => match snd x with C_keep t _ => if 0 <? t then [(fst x, t)] else [] | _ => [] end) cl in
  let kept := flat_map (fun x => match snd x with C_keep _ rest => [(fst x, rest)] | _ => [] end) cl in
  if Nat.ltb (length kept) required then mkFO bans trims [] last_idx (match chosen with [] => true | _ => false end) else
  let sizes := sort_nat (map (fun p => length (snd p)) kept) in
  let length_max := nth (required - 1) sizes 0%nat in
  let '(written, ok) := fin_loop required (length_max - 1) 1 kept chosen in
  mkFO bans trims written (last_idx + lenN written) (ok && Nat.eqb (length written) (length chosen)).
