#!/usr/bin/env python3
"""usage: tools/save_seed6.py <dir with patch.diff demo.diff meta.json result.txt> <name under /verif/seeded> <caught by check(s)> <how it shows up>"""
import json, os, shutil, sys
src, name, caught, how = sys.argv[1], sys.argv[2], sys.argv[3], sys.argv[4]
dst = "/verif/seeded/" + name
os.makedirs(dst, exist_ok=True)
for f in ("patch.diff", "demo.diff"):
    shutil.copy(os.path.join(src, f), os.path.join(dst, f))
meta = json.load(open(os.path.join(src, "meta.json")))
confirm = ""
rp = os.path.join(src, "result.txt")
if os.path.exists(rp):
    for line in open(rp):
        if "demo on original" in line:
            confirm = line.strip()
out = {
    "breaks_property": meta.get("breaks_property") or meta.get("property"),
    "summary": meta.get("summary"),
    "needs_to_manifest": meta.get("needs_to_manifest") or meta.get("needs"),
    "demonstration_test": meta.get("demo_test"),
    "features": meta.get("features") or "",
    "produced_by": "independent sub-agent given only the property text and a scratch worktree",
    "confirmed_in_scratch_worktree": confirm or "pending",
    "ran_against_checks": "tools/try_seed_wt.sh (patch applied to the scratch worktree; VERIF_REPO=<worktree> ./vp check <id>)",
    "caught_by": caught,
    "how_it_shows_up": how,
}
json.dump(out, open(os.path.join(dst, "meta.json"), "w"), indent=1)
print("saved", dst)
