//! C16 (second sentence), storage level: which block get_transaction_with_header pairs a stored transaction with.
//! Every writer of the maps TxHash -> (block NUMBER, ..) and BlockNumber -> block hash (filter_block, add_fetched_tx,
//! add_fetched_header; rollback_to_block as the operation that must write none of them) runs in generated histories on
//! a real RocksDB; after each operation the block reported for every transaction of the pool is compared with
//! Model/TxPairing.v (pstep).  Heights carry few distinct headers, so a header is often stored again, a height is
//! often re-pointed to a sibling and back (the chain flipping between two branches around one height).
use std::collections::{HashMap, HashSet};

use ckb_types::{bytes::Bytes, core::ScriptHashType, packed, prelude::*};

use super::chain::{flat_plan, SynChain};
use super::out::{catch, coq_list, Out, Val};
use super::prng::Rng;
use crate::storage::{HeaderWithExtension, ScriptStatus, ScriptType, SetScriptsCommand, Storage};
use crate::tests::utils::new_storage;

fn script(code: u8) -> packed::Script {
    packed::Script::new_builder().code_hash([code; 32].pack()).hash_type(ScriptHashType::Data.into()).args(Bytes::from(vec![code]).pack()).build()
}

pub(crate) fn run(seed: u64, n: u64, out: &mut Out) {
    let mut rng = Rng::new(seed ^ 0x7078_7078);
    let mut kinds: HashMap<&'static str, u64> = HashMap::new();
    let mut flips = 0u64;
    for case in 0..n {
        let id = format!("px-{}", case);
        if !out.wanted(&id) { continue; }
        let storage: Storage = new_storage("verif-px");
        let chain = SynChain::new(flat_plan(2, 4, 5), 4, 8);
        storage.init_genesis_block(chain.genesis_block());
        let watched = script(1);
        let unwatched = script(2);
        storage.update_filter_scripts(vec![ScriptStatus { script: watched.clone(), script_type: ScriptType::Lock, block_number: 0 }], SetScriptsCommand::All);
        // the pool: transaction i+1; every fourth one pays to a script nobody watches (filter_block does not record it)
        let n_pool = rng.range(3, 8) as usize;
        let mut pool: Vec<(packed::Transaction, packed::Byte32, bool)> = Vec::new();
        for i in 0..n_pool {
            let is_watched = i % 4 != 3;
            let output = packed::CellOutput::new_builder().capacity((1000 + i as u64).pack()).lock(if is_watched { watched.clone() } else { unwatched.clone() }).build();
            let raw = packed::RawTransaction::new_builder().outputs(vec![output].pack()).outputs_data(vec![Bytes::new().pack()].pack()).version((case as u32).pack()).build();
            let tx = packed::Transaction::new_builder().raw(raw).build();
            let h = tx.calc_tx_hash();
            pool.push((tx, h, is_watched));
        }
        let heights = rng.range(1, 4);
        let salts = rng.range(1, 3);
        let mut hid: HashMap<packed::Byte32, u64> = HashMap::new();
        let header_of = |number: u64, salt: u64| -> packed::Header {
            let raw = packed::RawHeader::new_builder().number(number.pack()).timestamp((salt * 1000 + number).pack()).build();
            packed::Header::new_builder().raw(raw).build()
        };
        let mut ops: Vec<String> = Vec::new();
        let mut obs: Vec<Val> = Vec::new();
        let mut log: Vec<String> = Vec::new();
        // ground truth: block hash -> transactions stored with that block; number -> hashes written under it
        let mut stored_with: HashMap<u64, HashSet<usize>> = HashMap::new();
        let mut written: HashMap<u64, Vec<u64>> = HashMap::new();
        let mut problems: Vec<String> = Vec::new();
        let n_ops = rng.range(3, 14);
        for step in 0..n_ops {
            let number = rng.range(1, heights);
            let salt = rng.below(salts);
            let header = header_of(number, salt);
            let hh = header.calc_header_hash();
            let next = 1000 + hid.len() as u64;
            let bh = *hid.entry(hh.clone()).or_insert(next);
            let kind: &'static str;
            match rng.below(10) {
                0 | 1 | 2 => {
                    kind = "filter_block";
                    let mut idx: Vec<usize> = Vec::new();
                    for i in 0..n_pool { if rng.chance(1, 3) { idx.push(i); } }
                    if idx.is_empty() && rng.chance(3, 4) { idx.push(rng.below(n_pool as u64) as usize); }
                    let block = packed::Block::new_builder().header(header.clone()).transactions(idx.iter().map(|i| pool[*i].0.clone()).collect::<Vec<_>>().pack()).build();
                    let st = storage.clone();
                    if catch(move || st.filter_block(block)).is_none() { problems.push(format!("[C10-handler-panic] filter_block panicked at step {}: {}", step, super::last_panic())); }
                    let matched: Vec<usize> = idx.iter().cloned().filter(|i| pool[*i].2).collect();
                    if !matched.is_empty() {
                        written.entry(number).or_default().push(bh);
                        for i in &matched { stored_with.entry(bh).or_default().insert(*i); }
                    }
                    ops.push(format!("PX_filter {} {} {}", bh, number, coq_list(&matched.iter().map(|i| format!("{}", i + 1)).collect::<Vec<_>>())));
                    log.push(format!("filter_block(#{} salt {} = block {}, txs {:?}, matched {:?})", number, salt, bh, idx.iter().map(|i| i + 1).collect::<Vec<_>>(), matched.iter().map(|i| i + 1).collect::<Vec<_>>()));
                }
                3 | 4 | 5 | 6 => {
                    kind = "add_fetched_tx";
                    let i = rng.below(n_pool as u64) as usize;
                    let hwe = HeaderWithExtension { header: header.clone(), extension: None };
                    let st = storage.clone();
                    let tx = pool[i].0.clone();
                    if catch(move || st.add_fetched_tx(&tx, &hwe)).is_none() { problems.push(format!("[C10-handler-panic] add_fetched_tx panicked at step {}: {}", step, super::last_panic())); }
                    written.entry(number).or_default().push(bh);
                    stored_with.entry(bh).or_default().insert(i);
                    ops.push(format!("PX_fetched_tx {} {} {}", bh, number, i + 1));
                    log.push(format!("add_fetched_tx(tx {}, #{} salt {} = block {})", i + 1, number, salt, bh));
                }
                7 | 8 => {
                    kind = "add_fetched_header";
                    let hwe = HeaderWithExtension { header: header.clone(), extension: None };
                    let st = storage.clone();
                    if catch(move || st.add_fetched_header(&hwe)).is_none() { problems.push(format!("[C10-handler-panic] add_fetched_header panicked at step {}: {}", step, super::last_panic())); }
                    written.entry(number).or_default().push(bh);
                    stored_with.entry(bh).or_default();
                    ops.push(format!("PX_fetched_header {} {}", bh, number));
                    log.push(format!("add_fetched_header(#{} salt {} = block {})", number, salt, bh));
                }
                _ => {
                    kind = "rollback_to_block";
                    let st = storage.clone();
                    if catch(move || st.rollback_to_block(number)).is_none() { problems.push(format!("[C10-handler-panic] rollback_to_block panicked at step {}: {}", step, super::last_panic())); }
                    ops.push(format!("PX_rollback {}", number));
                    log.push(format!("rollback_to_block({})", number));
                }
            }
            *kinds.entry(kind).or_insert(0) += 1;
            // a height pointing at a sibling and back again
            if let Some(w) = written.get(&number) { let k = w.len(); if k >= 3 && w[k - 1] == w[k - 3] && w[k - 1] != w[k - 2] && kind != "rollback_to_block" { flips += 1; } }
            // the block reported for every transaction of the pool
            let mut row: Vec<Val> = Vec::new();
            let height_reused = written.values().any(|w| w.iter().any(|x| *x != w[0]));
            for (i, (_, h, _)) in pool.iter().enumerate() {
                let st = storage.clone();
                let hq = h.clone();
                match catch(move || st.get_transaction_with_header(&hq)) {
                    None => { row.push(Val::l(vec![Val::n(999_999)])); problems.push(format!("[C10-handler-panic] get_transaction_with_header panicked after step {}: {}", step, super::last_panic())); }
                    Some(None) => row.push(Val::l(vec![])),
                    Some(Some((tx, header))) => {
                        let rid = hid.get(&header.calc_header_hash()).cloned().unwrap_or(0);
                        row.push(Val::l(vec![Val::n(rid)]));
                        if tx.calc_tx_hash() != *h { problems.push(format!("[C16-wrong-transaction-returned] after step {} another transaction is returned for tx {}", step, i + 1)); }
                        let truthful = stored_with.get(&rid).map(|s| s.contains(&i)).unwrap_or(false);
                        if !truthful {
                            let class = if height_reused { "C16-transaction-paired-with-wrong-block" } else { "C16-pairing-wrong-without-height-reuse" };
                            let p = format!("[{}] after step {} tx {} is reported in block {}, which was never stored with it", class, step, i + 1, rid);
                            if !problems.iter().any(|q| q.starts_with(&format!("[{}]", class))) { problems.push(p); }
                        }
                    }
                }
            }
            obs.push(Val::l(row));
        }
        let model = format!("run_px {} {}", coq_list(&(1..=n_pool).map(|i| format!("{}", i)).collect::<Vec<_>>()), coq_list(&ops.iter().map(|o| format!("({})", o)).collect::<Vec<_>>()));
        let oracle = if problems.is_empty() { Ok(()) } else { Err(problems.join(" ;; ")) };
        out.case(&id, &["px"], &model, &Val::l(obs), oracle, &log.join("; "));
    }
    for (k, v) in kinds { out.stat(&format!("px-{}", k), &format!("{}", v)); }
    out.stat("px-height-flipped-back", &format!("{}", flips));
}
