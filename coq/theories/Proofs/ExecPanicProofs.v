(* C10: the modelled SendLastStateProof handler aborts only in the documented way *)
From Coq Require Import NArith Lia List Bool.
From LC Require Import Matching Difficulty LastStateProof MatchingProofs DifficultyProofs2 LastStateProofProofs.
Import ListNotations.
Open Scope N_scope.
Open Scope bool_scope.

(* what every decoded header satisfies by its wire format (u64 number, u16/u24 epoch fields) and by PoW
   (block difficulty below 2^192), plus: its total difficulty does not overflow *)
Record hdr_ok (h : vhdr) : Prop := {
  ho_num : v_num h <= U64MAX;
  ho_bd : v_bd h <= BD_MAX;
  ho_en : e_num (v_ep h) <= U24MAX; ho_ei : e_idx (v_ep h) <= U16MAX; ho_el : e_len (v_ep h) <= U16MAX
}.

Lemma is_parent_no_panic a b : v_num a < U64MAX -> is_panic (is_parent_of a b) = false.
Proof.
  intros H. unfold is_parent_of, add64, add_chk. destruct (N.leb_spec (v_num a + 1) U64MAX); [reflexivity | lia].
Qed.

(* in a strictly increasing run every header but the last is below the maximum *)
Fixpoint increasing (hs : list vhdr) : Prop :=
  match hs with
  | a :: ((b :: _) as tl) => v_num a < v_num b /\ increasing tl
  | _ => True
  end.

Lemma continuous_no_panic hs : increasing hs -> Forall hdr_ok hs -> is_panic (continuous hs) = false.
Proof.
  induction hs as [|a [|b tl] IH]; intros Hi Hf; [reflexivity | reflexivity|].
  cbn [continuous]. destruct Hi as [Hab Hi]. inversion Hf as [|? ? Ha Hf']; subst. inversion Hf' as [|? ? Hb _]; subst.
  pose proof (is_parent_no_panic a b) as P. destruct (is_parent_of a b) as [ok| |] eqn:E; cbn [bind].
  - destruct ok; [apply IH; assumption | reflexivity].
  - reflexivity.
  - exfalso. assert (v_num a < U64MAX) by (destruct Hb; lia). specialize (P H). discriminate.
Qed.

Lemma unsorted_increasing hs : unsorted (map mh hs) = false -> increasing hs.
Proof.
  induction hs as [|a [|b tl] IH]; intros H; [exact I | exact I|].
  cbn [map unsorted] in H. apply orb_false_iff in H. destruct H as [H1 H2]. cbn [increasing]. split.
  - cbn in H1. apply N.leb_gt in H1. exact H1.
  - apply IH. exact H2.
Qed.

Lemma increasing_firstn n : forall hs, increasing hs -> increasing (firstn n hs).
Proof.
  induction n as [|n IH]; intros hs H; [exact I|]. destruct hs as [|a [|b tl]]; [exact I | destruct n; exact I|].
  destruct H as [H1 H2]. destruct n as [|n]; [exact I|]. cbn [firstn]. cbn [firstn] in IH. split; [exact H1|].
  exact (IH (b :: tl) H2).
Qed.

Lemma increasing_skipn n : forall hs, increasing hs -> increasing (skipn n hs).
Proof.
  induction n as [|n IH]; intros hs H; [exact H|]. destruct hs as [|a [|b tl]]; [exact I | destruct n; exact I|].
  destruct H as [_ H2]. cbn [skipn]. apply IH. exact H2.
Qed.

Lemma Forall_firstn {A} (P : A -> Prop) n l : Forall P l -> Forall P (firstn n l).
Proof. intros H. apply Forall_forall. intros x Hx. rewrite Forall_forall in H. apply H. eapply in_firstn; eauto. Qed.
Lemma Forall_skipn {A} (P : A -> Prop) n l : Forall P l -> Forall P (skipn n l).
Proof. intros H. apply Forall_forall. intros x Hx. rewrite Forall_forall in H. apply H. eapply in_skipn; eauto. Qed.

Lemma bind_panic {A B} (e : res A) (k : A -> res B) site :
  is_panic e = false -> bind e k = Panic site -> exists x, e = Ok x /\ k x = Panic site.
Proof. destruct e; cbn; intros H E; [eauto | discriminate | discriminate]. Qed.

Lemma vtd_ok_td_ok h : is_ok (vtd h) = true -> td_ok (mh h).
Proof. intros H. exact H. Qed.

Lemma increasing_nth hs : forall i a b, increasing hs -> nth_error hs i = Some a -> nth_error hs (S i) = Some b -> v_num a < v_num b.
Proof.
  induction hs as [|x [|y tl] IH]; intros i a b Hi Ha Hb; [destruct i; discriminate | destruct i as [|[|i]]; discriminate|].
  destruct Hi as [Hxy Hi]. destruct i as [|i].
  - cbn in Ha, Hb. inversion Ha; inversion Hb; subst. exact Hxy.
  - cbn [nth_error] in Ha, Hb. exact (IH i a b Hi Ha Hb).
Qed.

Lemma prod_bound h : hdr_ok h -> v_bd h * e_len (v_ep h) <= U256MAX.
Proof.
  intros [_ Hb _ _ Hl]. apply N.le_trans with (U256MAX / 4); [apply small_mul; [exact Hb|] | apply N.div_le_upper_bound; [discriminate | lia]].
  apply N.le_trans with U16MAX; [exact Hl | apply N.leb_le; reflexivity].
Qed.

Theorem execute_panics_only_as_documented
  last_n tau ps rq st ml pe hs mmr rb rg site :
  1 <= last_n -> 0 < tau -> mmr <> 3 ->
  hdr_ok ml -> Forall hdr_ok hs ->
  is_ok (vtd (pr_last rq)) = true ->
  (forall old, ps = Some old -> is_ok (vtd (ps_last old)) = true /\ hdr_ok (ps_last old)) ->
  execute last_n tau (PRequested ps rq) st ml pe hs mmr rb rg = Panic site ->
  site = S_LONG_FORK /\ pr_long_fork rq = true.
Proof.
  intros Hn Htau Hmmr Hml Hhs Hrq Hps H. unfold execute in H.
  destruct (is_ok (vtd ml)) eqn:Vml; cbn [negb] in H; [|discriminate].
  (* same_vheader *)
  assert (SV : is_panic (same_vheader (pr_last rq) ml) = false).
  { unfold same_vheader. destruct (v_xid (pr_last rq) =? v_xid ml); [|reflexivity].
    destruct (vtd (pr_last rq)); try discriminate. destruct (vtd ml); try discriminate. reflexivity. }
  apply bind_panic in H; [|exact SV]. destruct H as (same & _ & H).
  destruct same; cbn [negb] in H.
  2: { destruct pe; [destruct (negb (v_pow_ok ml)); [discriminate|]; destruct (negb (v_root_ok ml)); discriminate | discriminate]. }
  destruct (headers_ok (fun h => is_ok (vtd h)) hs) eqn:HT; cbn [negb] in H; [|discriminate].
  assert (Htd : Forall td_ok (map mh hs)).
  { apply Forall_forall. intros m Hm. apply in_map_iff in Hm. destruct Hm as (h & <- & Hh). exact (headers_ok_all _ _ HT h Hh). }
  (* verify_all does not panic *)
  assert (VA : is_panic (verify_all last_n tau ps rq ml hs mmr) = false).
  { unfold verify_all.
    pose proof (matched_no_panic last_n (pr_start_number rq) (pr_boundary rq) (pr_difficulties rq) (map mh hs) (v_num ml) Hn Htd) as MP.
    destruct (matched _ _ _ _ _ _) as [[[r s] l]| |] eqn:M; [|reflexivity|discriminate].
    apply matched_shape in M. destruct M as [Mtot Msort _ _ _ _]. unfold lenN in Mtot. rewrite map_length in Mtot.
    pose proof (unsorted_increasing _ Msort) as Hinc.
    destruct (negb (headers_ok v_root_ok hs)); [reflexivity|]. destruct (negb (headers_ok v_pow_ok hs)); [reflexivity|].
    assert (TG : is_panic (tau_gate rq tau hs r s l) = false).
    { unfold tau_gate. destruct (pr_skip_tau rq); [reflexivity|]. destruct (N.eqb_spec s 0) as [S0|S0]; cbn [negb]; [reflexivity|].
      destruct (nth_error hs (N.to_nat r)) as [sh|] eqn:N1; [|exfalso; apply nth_error_None in N1; lia].
      destruct (nth_error hs (N.to_nat (r + s + l - 1))) as [eh|] eqn:N2; [|exfalso; apply nth_error_None in N2; lia].
      rewrite Forall_forall in Hhs. pose proof (Hhs sh (nth_error_In _ _ N1)) as Hs1. pose proof (Hhs eh (nth_error_In _ _ N2)) as Hs2.
      pose proof (verify_tau_no_panic (v_ep sh) (v_ct sh) (v_bd sh) (v_ep eh) (v_ct eh) (v_bd eh) tau (prod_bound _ Hs1) (prod_bound _ Hs2)) as VT.
      destruct (verify_tau _ _ _ _ _ _ _); [reflexivity | reflexivity | discriminate]. }
    destruct (tau_gate rq tau hs r s l) as [[c|ft]| |] eqn:TGe; cbn [bind]; try reflexivity; [|discriminate].
    assert (C1 : is_panic (if r =? 0 then Ok true else continuous (firstn (N.to_nat r) hs)) = false).
    { destruct (r =? 0); [reflexivity|]. apply continuous_no_panic; [apply increasing_firstn; exact Hinc | apply Forall_firstn; exact Hhs]. }
    destruct (if r =? 0 then Ok true else continuous (firstn (N.to_nat r) hs)) as [c1| |]; cbn [bind]; try reflexivity; [|discriminate].
    destruct (negb c1); [reflexivity|].
    assert (C2 : is_panic (continuous (skipn (N.to_nat (r + s)) hs)) = false)
      by (apply continuous_no_panic; [apply increasing_skipn; exact Hinc | apply Forall_skipn; exact Hhs]).
    destruct (continuous (skipn (N.to_nat (r + s)) hs)) as [c2| |]; cbn [bind]; try reflexivity; [|discriminate].
    destruct (negb c2); [reflexivity|].
    assert (C3 : is_panic (ends_at_parent hs ml) = false).
    { unfold ends_at_parent. destruct (last_hdr hs) as [p|]; [|reflexivity].
      destruct (N.leb_spec (v_num ml) (v_num p)) as [Hle|Hlt]; [reflexivity|].
      apply is_parent_no_panic. destruct Hml; lia. }
    destruct (ends_at_parent hs ml) as [c3| |]; cbn [bind]; try reflexivity; [|discriminate].
    destruct (negb c3); [reflexivity|]. destruct (negb (v_root_ok ml)); [reflexivity|].
    destruct (N.eqb_spec mmr 3); [contradiction|]. destruct (negb (mmr =? 0)); [reflexivity|].
    assert (TD : is_panic (td_gate ps tau ml s) = false).
    { unfold td_gate. destruct (negb (s =? 0)); [|reflexivity]. destruct ps as [old|]; [|reflexivity].
      destruct (Hps old eq_refl) as [Vo Ho]. destruct (vtd (ps_last old)) as [otd| |]; try discriminate. cbn [bind].
      destruct (vtd ml) as [ntd| |]; try discriminate. cbn [bind].
      assert (R : ranges (v_ep (ps_last old)) (v_ep ml)) by (destruct Ho, Hml; constructor; assumption).
      pose proof (verify_td_no_panic (v_ep (ps_last old)) (v_bd (ps_last old)) otd (v_ep ml) (v_bd ml) ntd tau R (ho_bd _ Ho) (ho_bd _ Hml) Htau) as VT.
      destruct (verify_total_difficulty _ _ _ _ _ _ _); [reflexivity | reflexivity | discriminate]. }
    destruct (td_gate ps tau ml s) as [t| |]; cbn [bind]; try reflexivity; [|discriminate]. destruct (negb t); reflexivity. }
  apply bind_panic in H; [|exact VA]. destruct H as (v & Ev & H).
  destruct v as [code|[[[r s] l] ft]]; [discriminate|].
  destruct ft; [destruct rb; discriminate|].
  (* the shape again, for assemble *)
  assert (AS : is_panic (assemble last_n ps hs r s l) = false).
  { unfold assemble. destruct (l =? last_n); [reflexivity|]. destruct (last_n <? l); [reflexivity|].
    destruct ps as [old|].
    - destruct (if r =? 0 then ps_lasts old else map key_of (firstn (N.to_nat r) hs)); reflexivity.
    - destruct (N.eqb_spec r 0) as [R0|R0]; [reflexivity|]. destruct (s =? 0); [|reflexivity].
      destruct (nth_error hs (N.to_nat (r - 1))) as [a|] eqn:N1; [|reflexivity].
      destruct (nth_error hs (N.to_nat r)) as [b|] eqn:N2; [|reflexivity].
      (* a is followed by b in a strictly increasing list *)
      unfold verify_all in Ev. destruct (matched _ _ _ _ _ _) as [[[r0 s0] l0]| |] eqn:M; try discriminate.
      pose proof (matched_shape _ _ _ _ _ _ _ _ _ M) as [_ Msort _ _ _ _]. pose proof (unsorted_increasing _ Msort) as Hinc.
      assert (Hlt : v_num a < v_num b).
      { apply (increasing_nth hs (N.to_nat (r - 1)) a b Hinc N1). replace (S (N.to_nat (r - 1))) with (N.to_nat r) by lia. exact N2. }
      rewrite Forall_forall in Hhs. pose proof (Hhs b (nth_error_In _ _ N2)) as Hb.
      pose proof (is_parent_no_panic a b) as P. destruct (is_parent_of a b) as [ok| |] eqn:E; cbn [bind].
      + destruct ok; reflexivity.
      + reflexivity.
      + exfalso. assert (Hmax : v_num a < U64MAX) by (destruct Hb; lia). specialize (P Hmax). discriminate. }
  apply bind_panic in H; [|exact AS]. destruct H as (lasts & _ & H).
  destruct lasts as [last_headers|]; [|discriminate].
  destruct (pr_long_fork rq) eqn:LF; [inversion H; split; reflexivity|].
  (* commit *)
  exfalso. unfold commit in H. cbn [ps_last] in H.
  destruct (vtd (pr_last rq)) as [new_td| |]; try discriminate. cbn [bind] in H.
  destruct (st_td st <? new_td).
  - cbn [ps_reorg] in H. destruct (map key_of (firstn (N.to_nat r) hs)) as [|k ks].
    + cbn [bind] in H. discriminate.
    + destruct (find_fork _ _); [destruct (sweep_matched _ _) | ]; cbn [bind] in H; try discriminate. destruct rg; discriminate.
  - cbn [bind] in H. discriminate.
Qed.
