(* C03: the client indexes only the blocks whose filter matched.  Leaving out blocks that do not touch a registered
   script changes nothing: the index of the selected blocks is the abstract index of the WHOLE chain. *)
From Coq Require Import NArith Lia List Bool.
From LC Require Import Store StoreProofs IndexSpec IndexRefinement IndexSpecMeaning.
Import ListNotations.
Open Scope N_scope.
Open Scope bool_scope.

(* a block is skippable after a prefix if, applied to the abstract index of that prefix, it changes no entry *)
Definition untouched (reg : N -> sid -> bool) (E : cmap) (b : block) : Prop := forall k, spec_block reg E b k = E k.

(* a selection of the chain's blocks that leaves out only untouched blocks *)
Inductive selects (reg : N -> sid -> bool) : cmap -> list block -> list block -> Prop :=
| sel_nil E : selects reg E [] []
| sel_keep E b bs sel : selects reg (spec_block reg E b) bs sel -> selects reg E (b :: bs) (b :: sel)
| sel_skip E b bs sel : untouched reg E b -> selects reg E bs sel -> selects reg E (b :: bs) sel.

(* the abstract index depends on the map only pointwise *)
Lemma kill_ext E E' inp : (forall k, E k = E' k) -> forall k, kill E inp k = kill E' inp k.
Proof. intros H k. unfold kill. rewrite H. reflexivity. Qed.

Lemma kills_ext : forall (ins : list (txid * N)) E E', (forall k, E k = E' k) -> forall k, fold_left kill ins E k = fold_left kill ins E' k.
Proof. induction ins as [|inp ins IH]; intros E E' H k; [apply H|]. cbn [fold_left]. apply IH. apply kill_ext. exact H. Qed.

Lemma create_ext reg bn ti t E E' p : (forall k, E k = E' k) -> forall k, create reg bn ti t E p k = create reg bn ti t E' p k.
Proof.
  intros H k. unfold create.
  assert (H1 : forall k, (if reg 0 (o_lock (snd p)) then upd E (0, o_lock (snd p), bn, ti, fst p) (t_id t) else E) k
                       = (if reg 0 (o_lock (snd p)) then upd E' (0, o_lock (snd p), bn, ti, fst p) (t_id t) else E') k).
  { intros k'. destruct (reg 0 (o_lock (snd p))); [unfold upd; rewrite H; reflexivity | apply H]. }
  destruct (o_type (snd p)) as [s|]; [|apply H1]. destruct (reg 1 s); [|apply H1]. unfold upd. rewrite H1. reflexivity.
Qed.

Lemma creates_ext reg bn ti t : forall (outs : list (N * output)) E E', (forall k, E k = E' k) ->
  forall k, fold_left (create reg bn ti t) outs E k = fold_left (create reg bn ti t) outs E' k.
Proof. induction outs as [|p outs IH]; intros E E' H k; [apply H|]. cbn [fold_left]. apply IH. apply create_ext. exact H. Qed.

Lemma spec_tx_ext reg bn E E' p : (forall k, E k = E' k) -> forall k, spec_tx reg bn E p k = spec_tx reg bn E' p k.
Proof. intros H k. unfold spec_tx. apply creates_ext. apply kills_ext. exact H. Qed.

Lemma spec_txs_ext reg bn : forall (l : list (N * tx)) E E', (forall k, E k = E' k) ->
  forall k, fold_left (spec_tx reg bn) l E k = fold_left (spec_tx reg bn) l E' k.
Proof. induction l as [|p l IH]; intros E E' H k; [apply H|]. cbn [fold_left]. apply IH. apply spec_tx_ext. exact H. Qed.

Lemma spec_block_ext reg E E' b : (forall k, E k = E' k) -> forall k, spec_block reg E b k = spec_block reg E' b k.
Proof. intros H k. unfold spec_block. apply spec_txs_ext. exact H. Qed.

Lemma spec_blocks_ext reg : forall bs E E', (forall k, E k = E' k) ->
  forall k, fold_left (spec_block reg) bs E k = fold_left (spec_block reg) bs E' k.
Proof. induction bs as [|b bs IH]; intros E E' H k; [apply H|]. cbn [fold_left]. apply IH. apply spec_block_ext. exact H. Qed.

(* the abstract index of the selection is the abstract index of the whole chain *)
Lemma selects_same_spec reg : forall E bs sel, selects reg E bs sel ->
  forall E', (forall k, E' k = E k) -> forall k, fold_left (spec_block reg) sel E' k = fold_left (spec_block reg) bs E k.
Proof.
  intros E bs sel S. induction S as [E | E b bs sel S IH | E b bs sel U S IH]; intros E' H k.
  - apply H.
  - cbn [fold_left]. apply IH. apply spec_block_ext. exact H.
  - cbn [fold_left]. rewrite (IH E' H k). apply spec_blocks_ext. intros k'. symmetry. apply U.
Qed.

(* a block without an output paying a registered script and without an input naming a live entry is untouched *)
Lemma kills_untouched : forall (ins : list (txid * N)) E,
  (forall inp k, In inp ins -> E k = Some (fst inp) -> k_oi k <> snd inp) -> forall k, fold_left kill ins E k = E k.
Proof.
  induction ins as [|inp ins IH]; intros E H k; [reflexivity|]. cbn [fold_left].
  assert (Hk : forall k', kill E inp k' = E k').
  { intros k'. unfold kill. destruct (E k') as [t0|] eqn:Ek; [|reflexivity].
    destruct (t0 =? fst inp) eqn:Et; [|reflexivity]. apply N.eqb_eq in Et. subst t0.
    destruct (k_oi k' =? snd inp) eqn:Eo; [|reflexivity]. apply N.eqb_eq in Eo. exfalso. exact (H inp k' (or_introl eq_refl) Ek Eo). }
  rewrite (kills_ext ins (kill E inp) E Hk). apply IH. intros inp' k' Hin. apply H. right. exact Hin.
Qed.

Lemma creates_untouched reg bn ti t : forall (outs : list (N * output)) E,
  (forall p, In p outs -> reg 0 (o_lock (snd p)) = false /\ (forall s, o_type (snd p) = Some s -> reg 1 s = false)) ->
  forall k, fold_left (create reg bn ti t) outs E k = E k.
Proof.
  induction outs as [|p outs IH]; intros E H k; [reflexivity|]. cbn [fold_left].
  assert (Hc : forall k', create reg bn ti t E p k' = E k').
  { intros k'. unfold create. destruct (H p (or_introl eq_refl)) as [H0 H1]. rewrite H0.
    destruct (o_type (snd p)) as [s|]; [rewrite (H1 s eq_refl)|]; reflexivity. }
  rewrite (creates_ext reg bn ti t outs _ E Hc). apply IH. intros p' Hin. apply H. right. exact Hin.
Qed.

Theorem untouched_block reg E b :
  (forall t, In t (b_txs b) ->
     (forall inp k, In inp (t_inputs t) -> E k = Some (fst inp) -> k_oi k <> snd inp) /\
     (forall o, In o (t_outputs t) -> reg 0 (o_lock o) = false /\ (forall s, o_type o = Some s -> reg 1 s = false))) ->
  untouched reg E b.
Proof.
  intros H k. unfold spec_block.
  assert (G : forall (l : list (N * tx)) E0, (forall k, E0 k = E k) -> (forall p, In p l -> In (snd p) (b_txs b)) ->
              forall k, fold_left (spec_tx reg (b_number b)) l E0 k = E k).
  { induction l as [|p l IH]; intros E0 H0 Hin k0; [apply H0|]. cbn [fold_left]. apply IH; [|intros q Hq; apply Hin; right; exact Hq].
    intros k1. destruct (H (snd p) (Hin p (or_introl eq_refl))) as [Hi Ho]. unfold spec_tx.
    rewrite creates_untouched.
    - rewrite (kills_ext _ E0 E H0). apply kills_untouched. exact Hi.
    - intros q Hq. destruct q as [j o]. cbn [snd]. apply Ho. apply indexed_in in Hq. destruct Hq as [Hq _]. apply nth_error_In in Hq. exact Hq. }
  apply G; [reflexivity|]. intros p Hp. destruct p as [i t]. apply indexed_in in Hp. destruct Hp as [Hp _]. apply nth_error_In in Hp. exact Hp.
Qed.

(* ---- a selection of a well-formed chain is well-formed ---- *)
Inductive subseq {A} : list A -> list A -> Prop :=
| ss_nil : subseq [] []
| ss_keep a l1 l2 : subseq l1 l2 -> subseq (a :: l1) (a :: l2)
| ss_skip a l1 l2 : subseq l1 l2 -> subseq l1 (a :: l2).

Lemma subseq_in {A} (l1 l2 : list A) : subseq l1 l2 -> forall x, In x l1 -> In x l2.
Proof. intros S. induction S as [|a l1 l2 S IH|a l1 l2 S IH]; intros x Hx; [exact Hx | destruct Hx as [->|Hx]; [left; reflexivity | right; apply IH; exact Hx] | right; apply IH; exact Hx]. Qed.

Lemma subseq_map {A B} (f : A -> B) l1 l2 : subseq l1 l2 -> subseq (map f l1) (map f l2).
Proof. intros S. induction S; cbn [map]; constructor; assumption. Qed.

Lemma subseq_refl {A} (l : list A) : subseq l l.
Proof. induction l; constructor; assumption. Qed.

Lemma subseq_app {A} (a1 a2 b1 b2 : list A) : subseq a1 a2 -> subseq b1 b2 -> subseq (a1 ++ b1) (a2 ++ b2).
Proof. intros S. induction S; intros Sb; cbn [app]; [exact Sb | constructor; auto | constructor; auto]. Qed.

Lemma subseq_nil_l {A} (l : list A) : subseq [] l.
Proof. induction l; constructor; assumption. Qed.

Lemma subseq_NoDup {A} (l1 l2 : list A) : subseq l1 l2 -> NoDup l2 -> NoDup l1.
Proof.
  intros S. induction S as [|a l1 l2 S IH|a l1 l2 S IH]; intros H; [exact H | |].
  - inversion H as [|? ? Hn Hd]; subst. constructor; [intros Hin; apply Hn; exact (subseq_in _ _ S a Hin) | apply IH; exact Hd].
  - inversion H; subst. apply IH. assumption.
Qed.

Lemma selects_subseq reg E bs sel : selects reg E bs sel -> subseq sel bs.
Proof. intros S. induction S; constructor; assumption. Qed.

Lemma subseq_chain_txs sel bs : subseq sel bs -> subseq (chain_txs sel) (chain_txs bs).
Proof.
  intros S. induction S as [|b l1 l2 S IH|b l1 l2 S IH]; cbn [chain_txs flat_map]; [constructor | |].
  - apply subseq_app; [apply subseq_refl | exact IH].
  - change (subseq ([] ++ flat_map block_txs l1) (block_txs b ++ flat_map block_txs l2)). apply subseq_app; [apply subseq_nil_l | exact IH].
Qed.

Lemma well_formed_selection sel bs : subseq sel bs -> well_formed_chain bs -> well_formed_chain sel.
Proof.
  intros S [Hb Ht]. split.
  - apply (subseq_NoDup _ (map b_number bs)); [apply subseq_map; exact S | exact Hb].
  - apply (subseq_NoDup _ (map (fun x => t_id (snd x)) (chain_txs bs))); [apply subseq_map; apply subseq_chain_txs; exact S | exact Ht].
Qed.

(* indexing only the selected blocks yields the abstract cell index of the whole chain *)
Theorem index_of_selection regs bs sel :
  well_formed_chain bs -> selects (reg_of regs) empty_cmap bs sel ->
  forall k, a_get ckey_eqb k (cells (fold_left filter_block sel (fresh_store regs))) = spec_chain (reg_of regs) bs k.
Proof.
  intros Hwf S k. rewrite index_refines_spec by (apply (well_formed_selection sel bs); [eapply selects_subseq; exact S | exact Hwf]).
  unfold spec_chain. apply (selects_same_spec (reg_of regs) empty_cmap bs sel S). reflexivity.
Qed.
