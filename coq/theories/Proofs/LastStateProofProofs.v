(* Lemmas about Model/LastStateProof.v (C01, C12). *)
From Coq Require Import NArith Lia List Bool.
From LC Require Import LastStateProof MatchingProofs.
Import ListNotations.
Open Scope N_scope.
Open Scope bool_scope.
Arguments N.add : simpl never.
Arguments N.sub : simpl never.
Arguments N.eqb : simpl never.
Arguments N.ltb : simpl never.
Arguments N.leb : simpl never.

Lemma headers_ok_all p hs : headers_ok p hs = true -> forall h, In h hs -> p h = true.
Proof.
  unfold headers_ok. induction hs as [|a tl IH]; cbn [find_not]; intros H h Hin; [contradiction|].
  destruct (p a) eqn:Pa; [|discriminate].
  destruct Hin as [->|Hin]; [exact Pa | apply IH; assumption].
Qed.

(* every gate, spelled out *)
Record gates (last_n tau : N) (ps : option prove_state) (rq : prove_request)
             (msg_last : vhdr) (hs : list vhdr) (mmr : N) (r s l : N) (failed_tau : bool) : Prop := {
  g_matched : matched last_n (pr_start_number rq) (pr_boundary rq) (pr_difficulties rq)
                      (map mh hs) (v_num msg_last) = Ok (r, s, l);
  g_roots : forall h, In h hs -> v_root_ok h = true;
  g_pow : forall h, In h hs -> v_pow_ok h = true;
  g_tau : tau_gate rq tau hs r s l = Ok (inr failed_tau);
  g_reorg_continuous : r <> 0 -> continuous (firstn (N.to_nat r) hs) = Ok true;
  g_tail_continuous : continuous (skipn (N.to_nat (r + s)) hs) = Ok true;
  g_ends_at_parent : ends_at_parent hs msg_last = Ok true;
  g_last_root : v_root_ok msg_last = true;
  g_mmr : mmr = 0;
  g_total_difficulty : td_gate ps tau msg_last s = Ok true
}.

Lemma verify_all_gates last_n tau ps rq msg_last hs mmr r s l ft :
  verify_all last_n tau ps rq msg_last hs mmr = Ok (inr (r, s, l, ft)) ->
  gates last_n tau ps rq msg_last hs mmr r s l ft.
Proof.
  unfold verify_all.
  destruct (matched _ _ _ _ _ _) as [[[r0 s0] l0]| |] eqn:M; try discriminate.
  destruct (headers_ok v_root_ok hs) eqn:HR; cbn [negb]; [|discriminate].
  destruct (headers_ok v_pow_ok hs) eqn:HP; cbn [negb]; [|discriminate].
  destruct (tau_gate rq tau hs r0 s0 l0) as [[c|ft0]| |] eqn:TG; cbn [bind]; try discriminate.
  destruct (N.eqb_spec r0 0) as [R0|R0].
  - cbn [bind negb].
    destruct (continuous (skipn _ hs)) as [c2| |] eqn:C2; cbn [bind]; try discriminate.
    destruct c2; cbn [negb]; [|discriminate].
    destruct (ends_at_parent hs msg_last) as [c3| |] eqn:C3; cbn [bind]; try discriminate.
    destruct c3; cbn [negb]; [|discriminate].
    destruct (v_root_ok msg_last) eqn:LR; cbn [negb]; [|discriminate].
    destruct (N.eqb_spec mmr 3); [discriminate|].
    destruct (N.eqb_spec mmr 0) as [M0|]; cbn [negb]; [|discriminate].
    destruct (td_gate ps tau msg_last s0) as [tdok| |] eqn:TD; cbn [bind]; try discriminate.
    destruct tdok; cbn [negb]; [|discriminate].
    intros E; inversion E; subst.
    constructor; try assumption; try reflexivity;
      try (apply headers_ok_all; assumption);
      try (intros Hne; exfalso; apply Hne; reflexivity);
      try (intros _; assumption).
  - destruct (continuous (firstn _ hs)) as [c1| |] eqn:C1; cbn [bind]; try discriminate.
    destruct c1; cbn [negb]; [|discriminate].
    destruct (continuous (skipn _ hs)) as [c2| |] eqn:C2; cbn [bind]; try discriminate.
    destruct c2; cbn [negb]; [|discriminate].
    destruct (ends_at_parent hs msg_last) as [c3| |] eqn:C3; cbn [bind]; try discriminate.
    destruct c3; cbn [negb]; [|discriminate].
    destruct (v_root_ok msg_last) eqn:LR; cbn [negb]; [|discriminate].
    destruct (N.eqb_spec mmr 3); [discriminate|].
    destruct (N.eqb_spec mmr 0) as [M0|]; cbn [negb]; [|discriminate].
    destruct (td_gate ps tau msg_last s0) as [tdok| |] eqn:TD; cbn [bind]; try discriminate.
    destruct tdok; cbn [negb]; [|discriminate].
    intros E; inversion E; subst.
    constructor; try assumption; try reflexivity;
      try (apply headers_ok_all; assumption);
      try (intros Hne; exfalso; apply Hne; reflexivity);
      try (intros _; assumption).
Qed.

(* what execute can return when a request is outstanding *)
Inductive outcome (last_n tau : N) (ps : option prove_state) (rq : prove_request) (st : store)
                  (msg_last : vhdr) (proof_empty : bool) (hs : list vhdr) (mmr : N) : effect -> Prop :=
| O_unchanged code :
    outcome last_n tau ps rq st msg_last proof_empty hs mmr (unchanged code ps (Some rq) st)
| O_new_last_state :
    same_vheader (pr_last rq) msg_last = Ok false -> proof_empty = true ->
    v_pow_ok msg_last = true -> v_root_ok msg_last = true ->
    outcome last_n tau ps rq st msg_last proof_empty hs mmr (mkEff C_OK ps None false true st None)
| O_recheck_tau r s l :
    same_vheader (pr_last rq) msg_last = Ok true ->
    gates last_n tau ps rq msg_last hs mmr r s l true ->
    outcome last_n tau ps rq st msg_last proof_empty hs mmr (mkEff C_RECHECK ps (Some (true, false)) true false st None)
| O_long_fork r s l lasts :
    same_vheader (pr_last rq) msg_last = Ok true ->
    gates last_n tau ps rq msg_last hs mmr r s l false ->
    assemble last_n ps hs r s l = Ok (Some lasts) ->
    commit st (mkPS (pr_last rq) (map key_of (firstn (N.to_nat r) hs)) lasts) = Ok (false, st, None) ->
    outcome last_n tau ps rq st msg_last proof_empty hs mmr (mkEff C_RECHECK ps (Some (false, true)) true false st None)
| O_commit r s l lasts st' rb :
    same_vheader (pr_last rq) msg_last = Ok true ->
    gates last_n tau ps rq msg_last hs mmr r s l false ->
    assemble last_n ps hs r s l = Ok (Some lasts) ->
    pr_long_fork rq = false ->
    commit st (mkPS (pr_last rq) (map key_of (firstn (N.to_nat r) hs)) lasts) = Ok (true, st', rb) ->
    outcome last_n tau ps rq st msg_last proof_empty hs mmr
            (mkEff C_OK (Some (mkPS (pr_last rq) (map key_of (firstn (N.to_nat r) hs)) lasts)) None false false st' rb).

Lemma commit_long_fork_keeps_store st new_ps st' rb :
  commit st new_ps = Ok (false, st', rb) -> st' = st /\ rb = None.
Proof.
  unfold commit. destruct (vtd (ps_last new_ps)) as [ntd| |]; cbn [bind]; try discriminate.
  destruct (st_td st <? ntd).
  - destruct (ps_reorg new_ps) as [|k tl]; [intros E; inversion E|].
    destruct (find_fork _ _) as [to|].
    + destruct (sweep_matched to (st_matched st)) as [kept fk]. intros E; inversion E.
    + intros E; inversion E; subst; auto.
  - intros E; inversion E.
Qed.

Lemma execute_outcome last_n tau ps rq st msg_last proof_empty hs mmr rb rg e :
  execute last_n tau (PRequested ps rq) st msg_last proof_empty hs mmr rb rg = Ok e ->
  outcome last_n tau ps rq st msg_last proof_empty hs mmr e.
Proof.
  unfold execute.
  destruct (is_ok (vtd msg_last)); cbn [negb]; [|intros E; inversion E; constructor].
  destruct (same_vheader (pr_last rq) msg_last) as [same| |] eqn:SV; cbn [bind]; try discriminate.
  destruct same; cbn [negb].
  2: { destruct proof_empty.
       - destruct (v_pow_ok msg_last) eqn:PW; cbn [negb]; [|intros E; inversion E; constructor].
         destruct (v_root_ok msg_last) eqn:RT; cbn [negb]; [|intros E; inversion E; constructor].
         intros E; inversion E. apply O_new_last_state; auto.
       - intros E; inversion E; constructor. }
  destruct (headers_ok (fun h => is_ok (vtd h)) hs); cbn [negb]; [|intros E; inversion E; constructor].
  destruct (verify_all last_n tau ps rq msg_last hs mmr) as [[code|[[[r s] l] ft]]| |] eqn:VA; cbn [bind]; try discriminate.
  - intros E; inversion E; constructor.
  - apply verify_all_gates in VA. destruct ft.
    + destruct rb; intros E; inversion E; [eapply O_recheck_tau; eauto | constructor].
    + destruct (assemble last_n ps hs r s l) as [[lasts|]| |] eqn:AS; cbn [bind]; try discriminate.
      2: { intros E; inversion E; constructor. }
      destruct (pr_long_fork rq) eqn:LF; [discriminate|].
      destruct (commit st _) as [[[committed st'] rbk]| |] eqn:CM; cbn [bind]; try discriminate.
      destruct committed.
      * intros E; inversion E. eapply O_commit; eauto.
      * destruct (commit_long_fork_keeps_store _ _ _ _ CM) as [-> ->].
        destruct rg; intros E; inversion E; [eapply O_long_fork; eauto | constructor].
Qed.

Definition trusted_changed (ps : option prove_state) (st : store) (e : effect) : Prop :=
  ef_prove e <> ps \/ ef_store e <> st.

(* C01 gate: the trusted view changes only through a fully verified answer to the outstanding request *)
Lemma execute_gate last_n tau peer st msg_last proof_empty hs mmr rb rg e :
  execute last_n tau peer st msg_last proof_empty hs mmr rb rg = Ok e ->
  forall ps0, (match peer with PNone => None | PNoRequest p => p | PRequested p _ => p end) = ps0 ->
  trusted_changed ps0 st e ->
  exists ps rq r s l lasts st' rbk,
    peer = PRequested ps rq /\
    same_vheader (pr_last rq) msg_last = Ok true /\
    gates last_n tau ps rq msg_last hs mmr r s l false /\
    assemble last_n ps hs r s l = Ok (Some lasts) /\
    commit st (mkPS (pr_last rq) (map key_of (firstn (N.to_nat r) hs)) lasts) = Ok (true, st', rbk) /\
    e = mkEff C_OK (Some (mkPS (pr_last rq) (map key_of (firstn (N.to_nat r) hs)) lasts)) None false false st' rbk.
Proof.
  intros H ps0 Hps Hch. destruct peer as [|p|p rq].
  - cbn in H. inversion H; subst. destruct Hch as [C|C]; exfalso; apply C; reflexivity.
  - cbn in H. inversion H; subst. destruct Hch as [C|C]; exfalso; apply C; reflexivity.
  - subst ps0. apply execute_outcome in H.
    destruct H as [code| | r s l | r s l lasts | r s l lasts st' rbk Hs Hg Ha Hl Hc];
      try (destruct Hch as [C|C]; exfalso; apply C; reflexivity).
    exists p, rq, r, s, l, lasts, st', rbk.
    split; [reflexivity|]. split; [exact Hs|]. split; [exact Hg|]. split; [exact Ha|]. split; [exact Hc | reflexivity].
Qed.

(* C01 reject frame: a ban leaves everything as it was *)
Lemma execute_reject_frame last_n tau ps rq st msg_last proof_empty hs mmr rb rg e :
  execute last_n tau (PRequested ps rq) st msg_last proof_empty hs mmr rb rg = Ok e ->
  ef_code e <> C_OK -> ef_code e <> C_RECHECK ->
  e = unchanged (ef_code e) ps (Some rq) st.
Proof.
  intros H H1 H2. apply execute_outcome in H.
  destruct H; cbn in *; try reflexivity; try (exfalso; apply H1; reflexivity); try (exfalso; apply H2; reflexivity).
Qed.

(* the stored tip moves only to a strictly heavier header, namely the requested last header *)
Lemma commit_store st new_ps st' rb :
  commit st new_ps = Ok (true, st', rb) ->
  st' = st \/
  (exists ntd, vtd (ps_last new_ps) = Ok ntd /\ st_td st < ntd /\
     st_td st' = ntd /\ st_tip st' = key_of (ps_last new_ps) /\ st_lastn st' = ps_lasts new_ps).
Proof.
  unfold commit. destruct (vtd (ps_last new_ps)) as [ntd| |] eqn:T; cbn [bind]; try discriminate.
  destruct (N.ltb_spec (st_td st) ntd) as [Hlt|Hge].
  - destruct (ps_reorg new_ps) as [|k tl].
    + intros E; inversion E; subst. right. exists ntd. cbn. auto.
    + destruct (find_fork _ _) as [to|]; [|discriminate].
      destruct (sweep_matched to (st_matched st)) as [kept fk].
      intros E; inversion E; subst. right. exists ntd. cbn. auto.
  - intros E; inversion E; subst. left; reflexivity.
Qed.

(* ------------------------------------------------------------------------------------ *)
(* C04: fork detection against the remembered last-N headers *)

(* the fork point is the highest-positioned reorg header the client remembers under the same hash *)
Lemma find_fork_spec l stored n :
  find_fork l stored = Some n ->
  exists h l1 l2, l = l1 ++ (n, h) :: l2 /\ lookup n stored = Some h /\
                  forall n' h', In (n', h') l1 -> lookup n' stored <> Some h'.
Proof.
  induction l as [|[k h] l IH]; intros H; [discriminate|]. cbn [find_fork] in H.
  destruct (lookup k stored) as [h'|] eqn:L.
  - destruct (N.eqb_spec h h') as [->|Hne].
    + inversion H; subst. exists h', [], l. split; [reflexivity|]. split; [exact L|]. intros ? ? [].
    + destruct (IH H) as (h0 & l1 & l2 & E & Lk & Hall). exists h0, ((k, h) :: l1), l2.
      split; [rewrite E; reflexivity|]. split; [exact Lk|].
      intros n' h1 [Hin|Hin]; [inversion Hin; subst; rewrite L; congruence | exact (Hall _ _ Hin)].
  - destruct (IH H) as (h0 & l1 & l2 & E & Lk & Hall). exists h0, ((k, h) :: l1), l2.
    split; [rewrite E; reflexivity|]. split; [exact Lk|].
    intros n' h1 [Hin|Hin]; [inversion Hin; subst; rewrite L; discriminate | exact (Hall _ _ Hin)].
Qed.

Lemma find_fork_none l stored :
  find_fork l stored = None -> forall n h, In (n, h) l -> lookup n stored <> Some h.
Proof.
  induction l as [|[k h] l IH]; intros H n h0 Hin; [contradiction|]. cbn [find_fork] in H.
  destruct Hin as [Hin|Hin].
  - inversion Hin; subst. destruct (lookup n stored) as [h'|]; [|discriminate].
    destruct (N.eqb_spec h0 h'); [discriminate | congruence].
  - destruct (lookup k stored) as [h'|]; [destruct (h =? h'); [discriminate|]|]; exact (IH H _ _ Hin).
Qed.

(* records of pending matched blocks: those starting above the fork point are dropped, the rest kept *)
Lemma sweep_matched_spec to : forall records kept fk,
  sweep_matched to records = (kept, fk) ->
  exists dropped, records = dropped ++ kept /\ (forall s, In s dropped -> to < s) /\
                  match kept with [] => fk = None | s :: _ => fk = Some s /\ s <= to end.
Proof.
  induction records as [|s tl IH]; intros kept fk H.
  - inversion H; subst. exists []. split; [reflexivity|]. split; [intros ? []|reflexivity].
  - cbn [sweep_matched] in H. destruct (N.ltb_spec to s) as [Hlt|Hge].
    + destruct (IH _ _ H) as (d & E & Hd & Hk). exists (s :: d). split; [rewrite E; reflexivity|].
      split; [intros x [<-|Hx]; [exact Hlt | exact (Hd _ Hx)] | exact Hk].
    + inversion H; subst. exists []. split; [reflexivity|]. split; [intros ? []|]. split; [reflexivity | exact Hge].
Qed.

(* one statement of what a fork switch does to the stored tip, last-N headers, pending records and the
   index rollback it orders *)
Lemma commit_fork_switch st new_ps r0 rs st' rb committed :
  ps_reorg new_ps = r0 :: rs ->
  commit st new_ps = Ok (committed, st', rb) ->
  (exists new_td, vtd (ps_last new_ps) = Ok new_td /\
   if st_td st <? new_td then
     match find_fork (rev (r0 :: rs)) (st_lastn st) with
     | Some to =>
         committed = true /\ st_tip st' = key_of (ps_last new_ps) /\ st_lastn st' = ps_lasts new_ps /\
         st_td st' = new_td /\
         (exists dropped, st_matched st = dropped ++ st_matched st' /\ (forall s, In s dropped -> to < s) /\
            match st_matched st' with
            | [] => rb = Some (to + 1)
            | s :: _ => s <= to /\ rb = Some (s + 1)
            end)
     | None => committed = false /\ st' = st /\ rb = None
     end
   else committed = true /\ st' = st /\ rb = None).
Proof.
  intros Hr H. unfold commit in H. destruct (vtd (ps_last new_ps)) as [new_td| |] eqn:V; cbn [bind] in H; try discriminate.
  exists new_td. split; [reflexivity|]. destruct (st_td st <? new_td).
  - rewrite Hr in H. destruct (find_fork _ _) as [to|] eqn:F.
    + destruct (sweep_matched to (st_matched st)) as [kept fk] eqn:S. inversion H; subst; clear H.
      cbn [st_tip st_lastn st_td st_matched]. repeat (split; [reflexivity|]).
      destruct (sweep_matched_spec _ _ _ _ S) as (d & E & Hd & Hk). exists d. split; [exact E|]. split; [exact Hd|].
      destruct kept as [|s k]; [rewrite Hk; reflexivity|]. destruct Hk as [-> Hle]. split; [exact Hle | reflexivity].
    + inversion H; subst. repeat split.
  - inversion H; subst. repeat split.
Qed.

(* the gate added by the repair of the missing tip link: the last returned header is the parent of the proved header *)
Lemma ends_at_parent_spec hs ml :
  ends_at_parent hs ml = Ok true ->
  match last_hdr hs with
  | Some p => v_num p + 1 = v_num ml /\ v_id p = v_parent ml
  | None => hs = []
  end.
Proof.
  unfold ends_at_parent, last_hdr. destruct (rev hs) as [|p tl] eqn:R.
  - intros _. rewrite <- (rev_involutive hs), R. reflexivity.
  - destruct (v_num ml <=? v_num p); [discriminate|].
    unfold is_parent_of, add64, add_chk. destruct (v_num p + 1 <=? U64MAX); cbn [bind]; [|discriminate].
    intros H. inversion H as [H1]. apply andb_true_iff in H1. destruct H1 as [H1 H3]. apply andb_true_iff in H1. destruct H1 as [H1 _].
    apply N.eqb_eq in H1, H3. split; assumption.
Qed.
