(* C13, grouped mode of get_transactions (group_by_transaction): what one call returns.
   The loop consumes a prefix of the scanned entries; the groups, flattened, are exactly the entries of that prefix which
   pass the filters, in scan order; every group is a non-empty run of entries of ONE transaction and neighbouring groups
   belong to different transactions; the loop stops early only with `limit` groups, in front of an entry of another
   transaction; the cursor returned is the key of the last entry consumed. *)
From Coq Require Import NArith PeanoNat Lia List Bool.
From LC Require Import Query.
Import ListNotations.
Open Scope N_scope.
Open Scope bool_scope.

Definition flat (gs : list (N * list tentry)) : list tentry := concat (map snd gs).

Definition last_tx_of (gs : list (N * list tentry)) : option N := match rev gs with (t, _) :: _ => Some t | [] => None end.

(* what the loop does with a passing entry *)
Definition add_entry (gs : list (N * list tentry)) (e : tentry) : list (N * list tentry) :=
  match rev gs with
  | (t0, cells) :: r => if t0 =? te_tx e then rev r ++ [(t0, cells ++ [e])] else gs ++ [(te_tx e, [e])]
  | [] => gs ++ [(te_tx e, [e])]
  end.

Lemma rev_cons_form {A} (l : list A) a r : rev l = a :: r -> l = rev r ++ [a].
Proof. intros H. rewrite <- (rev_involutive l), H. reflexivity. Qed.

Lemma flat_app a b : flat (a ++ b) = flat a ++ flat b.
Proof. unfold flat. rewrite map_app, concat_app. reflexivity. Qed.

Lemma flat_add_entry gs e : flat (add_entry gs e) = flat gs ++ [e].
Proof.
  unfold add_entry. destruct (rev gs) as [|[t0 cells] r] eqn:R.
  - rewrite flat_app. unfold flat at 2. cbn. reflexivity.
  - destruct (t0 =? te_tx e).
    + rewrite (rev_cons_form _ _ _ R), !flat_app. unfold flat at 2 4. cbn. rewrite !app_nil_r, app_assoc. reflexivity.
    + rewrite flat_app. unfold flat at 2. cbn. reflexivity.
Qed.

Lemma last_tx_add_entry gs e : last_tx_of (add_entry gs e) = Some (te_tx e).
Proof.
  unfold add_entry, last_tx_of. destruct (rev gs) as [|[t0 cells] r] eqn:R.
  - rewrite rev_app_distr. reflexivity.
  - destruct (t0 =? te_tx e) eqn:E.
    + rewrite rev_app_distr. cbn. apply N.eqb_eq in E. rewrite E. reflexivity.
    + rewrite rev_app_distr. reflexivity.
Qed.

Lemma length_add_entry gs e :
  length (add_entry gs e) = if match last_tx_of gs with Some t => t =? te_tx e | None => false end then length gs else S (length gs).
Proof.
  unfold add_entry, last_tx_of. destruct (rev gs) as [|[t0 cells] r] eqn:R.
  - rewrite app_length. cbn. lia.
  - destruct (t0 =? te_tx e).
    + rewrite (rev_cons_form _ _ _ R), !app_length. cbn. reflexivity.
    + rewrite app_length. cbn. lia.
Qed.

(* the loop, with add_entry *)
Lemma group_loop_step fs block limit e tl gs lastk :
  group_loop fs block limit (e :: tl) gs lastk =
  if (Nat.eqb (length gs) limit) && negb (match last_tx_of gs with Some t => t =? te_tx e | None => false end)
  then (gs, lastk)
  else if tx_pass fs block e then group_loop fs block limit tl (add_entry gs e) (te_key e)
       else group_loop fs block limit tl gs (te_key e).
Proof.
  cbn [group_loop]. unfold last_tx_of, add_entry.
  destruct (rev gs) as [|[t0 cells] r] eqn:R; cbn [negb andb].
  - destruct (Nat.eqb (length gs) limit && true); [reflexivity|]. destruct (tx_pass fs block e); reflexivity.
  - destruct (Nat.eqb (length gs) limit && negb (t0 =? te_tx e)); [reflexivity|].
    destruct (tx_pass fs block e); [|reflexivity]. destruct (t0 =? te_tx e); reflexivity.
Qed.

(* groups are well formed: non-empty runs of one transaction, neighbours differ *)
Inductive wf_groups : list (N * list tentry) -> Prop :=
| wf_nil : wf_groups []
| wf_one t es : es <> [] -> Forall (fun e => te_tx e = t) es -> wf_groups [(t, es)]
| wf_snoc gs t es t' es' : wf_groups (gs ++ [(t, es)]) -> t <> t' -> es' <> [] -> Forall (fun e => te_tx e = t') es' ->
    wf_groups ((gs ++ [(t, es)]) ++ [(t', es')]).

Lemma wf_last_nonempty gs t es : wf_groups (gs ++ [(t, es)]) -> es <> [] /\ Forall (fun e => te_tx e = t) es.
Proof.
  intros H. inversion H as [|t0 es0 Hne Hall Heq|gs0 t0 es0 t1 es1 Hw Hd Hne Hall Heq].
  - destruct gs; discriminate.
  - destruct gs as [|g gs]; [cbn in Heq; inversion Heq; subst; split; assumption|].
    cbn in Heq. inversion Heq. destruct gs; discriminate.
  - apply app_inj_tail in Heq. destruct Heq as [_ Heq]. inversion Heq; subst. split; assumption.
Qed.

Lemma wf_replace_last gs t es e : wf_groups (gs ++ [(t, es)]) -> te_tx e = t -> wf_groups (gs ++ [(t, es ++ [e])]).
Proof.
  intros H He. inversion H as [|t0 es0 Hne Hall Heq|gs0 t0 es0 t1 es1 Hw Hd Hne Hall Heq].
  - destruct gs; discriminate.
  - destruct gs as [|g gs].
    + cbn in Heq. inversion Heq; subst. cbn. apply wf_one; [intros Hx; apply app_eq_nil in Hx; destruct Hx as [_ Hx]; discriminate|].
      apply Forall_app. split; [exact Hall | constructor; [reflexivity | constructor]].
    + cbn in Heq. inversion Heq. destruct gs; discriminate.
  - apply app_inj_tail in Heq. destruct Heq as [Hg Heq]. inversion Heq; subst. apply wf_snoc; [exact Hw | exact Hd | intros Hx; apply app_eq_nil in Hx; destruct Hx as [_ Hx]; discriminate |].
    apply Forall_app. split; [exact Hall | constructor; [reflexivity | constructor]].
Qed.

Lemma wf_add_entry gs e : wf_groups gs -> wf_groups (add_entry gs e).
Proof.
  intros H. unfold add_entry. destruct (rev gs) as [|[t0 cells] r] eqn:R.
  - assert (gs = []) by (rewrite <- (rev_involutive gs), R; reflexivity). subst. cbn. apply wf_one; [discriminate | constructor; [reflexivity | constructor]].
  - pose proof (rev_cons_form _ _ _ R) as Hg. destruct (N.eqb_spec t0 (te_tx e)) as [E|E].
    + rewrite Hg in H. apply wf_replace_last; [exact H | symmetry; exact E].
    + rewrite Hg. apply wf_snoc; [rewrite <- Hg; exact H | exact E | discriminate | constructor; [reflexivity | constructor]].
Qed.

(* ---- the loop ---- *)
Theorem group_loop_spec fs block limit : forall es gs lastk gs' lk,
  group_loop fs block limit es gs lastk = (gs', lk) ->
  exists taken rest,
    es = taken ++ rest /\
    flat gs' = flat gs ++ filter (tx_pass fs block) taken /\
    (wf_groups gs -> wf_groups gs') /\
    (length gs <= limit -> length gs' <= limit)%nat /\
    (rest = [] \/ (length gs' = limit /\ exists e r, rest = e :: r /\ last_tx_of gs' <> Some (te_tx e))) /\
    lk = match rev taken with e :: _ => te_key e | [] => lastk end.
Proof.
  induction es as [|e tl IH]; intros gs lastk gs' lk H.
  - cbn [group_loop] in H. inversion H; subst. exists [], []. repeat split; auto. cbn. rewrite app_nil_r. reflexivity.
  - rewrite group_loop_step in H.
    destruct (Nat.eqb (length gs) limit && negb (match last_tx_of gs with Some t => t =? te_tx e | None => false end)) eqn:Stop.
    + inversion H; subst. exists [], (e :: tl). repeat split; auto.
      * cbn. rewrite app_nil_r. reflexivity.
      * right. apply andb_true_iff in Stop. destruct Stop as [S1 S2]. apply Nat.eqb_eq in S1. split; [exact S1|].
        exists e, tl. split; [reflexivity|]. intros Hl. rewrite Hl, N.eqb_refl in S2. discriminate.
    + destruct (tx_pass fs block e) eqn:P.
      * destruct (IH _ _ _ _ H) as (taken & rest & Hes & Hflat & Hwf & Hlen & Hstop & Hlk).
        exists (e :: taken), rest. split; [cbn; rewrite Hes; reflexivity|]. split.
        { cbn [filter]. rewrite P, Hflat, flat_add_entry, <- app_assoc. reflexivity. }
        split; [intros W; apply Hwf; apply wf_add_entry; exact W|]. split.
        { intros L. apply Hlen. rewrite length_add_entry.
          destruct (match last_tx_of gs with Some t => t =? te_tx e | None => false end) eqn:Same; [exact L|].
          rewrite andb_false_iff in Stop. destruct Stop as [S|S]; [apply Nat.eqb_neq in S; lia | cbn in S; discriminate]. }
        split; [exact Hstop|].
        rewrite Hlk. cbn [rev]. destruct (rev taken) as [|x xs] eqn:R; [reflexivity | reflexivity].
      * destruct (IH _ _ _ _ H) as (taken & rest & Hes & Hflat & Hwf & Hlen & Hstop & Hlk).
        exists (e :: taken), rest. split; [cbn; rewrite Hes; reflexivity|]. split.
        { cbn [filter]. rewrite P. exact Hflat. }
        split; [exact Hwf|]. split; [exact Hlen|]. split; [exact Hstop|].
        rewrite Hlk. cbn [rev]. destruct (rev taken) as [|x xs] eqn:R; reflexivity.
Qed.
