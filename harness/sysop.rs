//! Event histories of the whole light-client protocol over several peers (C11, C12, C05):
//! connect / disconnect / timer ticks / last-state announcements / proofs, honest and deviating.
//! Correspondence with Model/System.v; property oracles computed here from the generated chains.
use std::collections::HashMap;
use std::rc::Rc;

use ckb_chain_spec::consensus::Consensus;
use ckb_network::PeerIndex;
use ckb_types::{
    core::HeaderView,
    packed,
    prelude::*,
    utilities::merkle_mountain_range::VerifiableHeader,
    U256,
};

use super::c01::{mutate_response, Resp};
use super::chain::{flat_plan, legal_plan, plan_blocks, SynChain, T0};
use super::client::*;
use super::out::{catch, coq_list, Out, Val};
use super::prng::Rng;
use super::prover;
use crate::protocols::light_client::constant::REFRESH_PEERS_TOKEN;
use crate::protocols::PeerState;

fn kind_of(st: &PeerState) -> u64 {
    let s = format!("{}", st);
    let name = s.trim_start_matches("PeerState::").split(|c: char| !c.is_alphanumeric()).next().unwrap_or("").to_string();
    match name.as_str() {
        "Initialized" => 0,
        "RequestFirstLastState" => 1,
        "OnlyHasLastState" => 2,
        "RequestFirstLastStateProof" => 3,
        "Ready" => 4,
        "RequestNewLastState" => 5,
        "RequestNewLastStateProof" => 6,
        _ => 99,
    }
}

fn obs_peer(p: PeerIndex, st: &PeerState) -> Val {
    let ls = Val::opt(st.get_last_state().map(|l| Val::l(vec![Val::n(xid(l.as_ref())), Val::n(l.update_ts())])));
    let ps = Val::opt(st.get_prove_state().map(|p| Val::l(vec![Val::n(xid(p.get_last_header())), obs_keys(p.get_reorg_last_headers()), obs_keys(p.get_last_headers())])));
    let rq = Val::opt(st.get_prove_request().map(|r| {
        let start: u64 = r.get_content().start_number().unpack();
        Val::l(vec![Val::n(xid(r.get_last_header())), Val::n(start), Val::b(r.if_skip_check_tau()), Val::b(r.if_long_fork_detected())])
    }));
    Val::l(vec![Val::n(p.value()), Val::n(kind_of(st)), ls, ps, rq])
}

fn obs_system(c: &Client) -> (Val, Val) {
    let mut ids = c.peers.get_peers_index();
    ids.sort_by_key(|p| p.value());
    let peers = Val::l(ids.iter().filter_map(|p| c.state(*p).map(|st| obs_peer(*p, &st))).collect());
    (peers, obs_store(c))
}

fn obs_actions(o: &Outcome) -> Val {
    let mut keys: Vec<(u64, u64, u64)> = Vec::new();
    for (p, m) in &o.sent_to {
        match m.to_enum() {
            packed::LightClientMessageUnion::GetLastState(_) => keys.push((1, p.value() as u64, 0)),
            packed::LightClientMessageUnion::GetLastStateProof(_) => keys.push((2, p.value() as u64, 0)),
            _ => {}
        }
    }
    for (p, code) in &o.bans { keys.push((3, p.value() as u64, *code)); }
    for p in &o.disconnects { keys.push((4, p.value() as u64, 0)); }
    keys.sort();
    Val::l(keys.into_iter().map(|(a, b, c)| Val::l(vec![Val::n(a), Val::n(b), Val::n(c)])).collect())
}

fn contents_term(o: &Outcome) -> String {
    let mut v = Vec::new();
    for (p, m) in &o.sent_to {
        if let packed::LightClientMessageUnion::GetLastStateProof(r) = m.to_enum() {
            let start: u64 = r.start_number().unpack();
            let b: U256 = r.difficulty_boundary().unpack();
            let ds: Vec<String> = r.difficulties().into_iter().map(|d| { let d: U256 = d.unpack(); format!("{:#x}", d) }).collect();
            v.push(format!("({}, mkCt {} {:#x} {})", p.value(), start, b, coq_list(&ds)));
        }
    }
    coq_list(&v)
}

/// a child of `parent_no` on `chain` whose chain root claims an inflated total difficulty but is
/// properly committed by the extension (so patched_is_valid holds)
fn forged_child(chain: &SynChain, child_no: u64, inflate: &U256) -> packed::VerifiableHeader {
    let honest = chain.packed_vheader(child_no);
    let td: U256 = honest.parent_chain_root().total_difficulty().unpack();
    let root = honest.parent_chain_root().as_builder().total_difficulty((td + inflate).pack()).build();
    let ext: packed::Bytes = root.calc_mmr_hash().as_bytes().pack();
    let extra_hash = ckb_types::core::ExtraHashView::new(packed::Byte32::zero(), Some(ext.calc_raw_data_hash())).extra_hash();
    let raw = honest.header().raw().as_builder().extra_hash(extra_hash).build();
    let header = honest.header().as_builder().raw(raw).build();
    honest.as_builder().header(header).extension(Pack::pack(&Some(ext))).parent_chain_root(root).build()
}

/// the genuine child of `child_no - 1` with nothing changed but its NUMBER (raised by k): still names the proven header as its parent,
/// still commits to the genuine chain root - but it is not the next block, and nothing short of a proof may make it the tip
fn child_number_raised(chain: &SynChain, child_no: u64, k: u64) -> packed::VerifiableHeader {
    let honest = chain.packed_vheader(child_no);
    let raw = honest.header().raw().as_builder().number((child_no + k).pack()).build();
    let header = honest.header().as_builder().raw(raw).build();
    honest.as_builder().header(header).build()
}

struct PeerSim {
    id: PeerIndex,
    chain: usize,     // index into chains
    height: u64,      // what this peer considers its tip
    connected: bool,
    honest: bool,
}

struct Tracker {
    // independent bookkeeping for the C11/C12 oracles
    announced: HashMap<u64, Vec<(usize, u64)>>, // peer -> (chain, height) announced so far
}

#[allow(clippy::too_many_arguments)]
fn history(out: &mut Out, rng: &mut Rng, consensus: &Consensus, idx: u64, honest_only: bool, competing: bool, deep: bool) {
    intern_reset(true);
    let guard = ckb_systemtime::faketime();
    let last_n = if deep { *rng.pick(&[1u64, 2, 3]) } else { *rng.pick(&[1u64, 2, 3, 5, 10]) };
    // lagging: two honest peers on one chain, the lower one proven first; the higher one is proven, then moves the store on through
    // the child fast path; only then the lower one proves a header between the last committed proof and the stored tip
    let lagging = idx % 8 == 1 && !competing && !deep;
    // lagging fork: peer 2 is proven two blocks below the tip peer 1 brings, then switches to a heavier branch forking inside the
    // remembered window; its request starts at its own earlier proof, so the honest answer's reorg section begins BELOW the
    // remembered window while the fork point lies inside it
    let lagfork = idx % 8 == 5 && !competing && !deep && !honest_only;
    let last_n = if lagfork { *rng.pick(&[3u64, 5, 10]) } else { last_n };
    // young chain: the peers' first proofs end below last-N, so the remembered window is shorter than last-N while the chain grows
    let young = idx % 8 == 7 && !competing && !deep;
    let last_n = if young { *rng.pick(&[5u64, 10]) } else { last_n };
    let n_peers = if competing || deep || lagging || lagfork { 2 } else { rng.range(1, 3) as usize };
    let epochs = rng.range(4, 20) as usize;
    let pbits = *rng.pick(&[6u32, 12, 24]);
    let plan = if rng.chance(2, 3) { legal_plan(rng, epochs, 2, 8, pbits) } else { flat_plan(epochs, rng.range(3, 9), rng.range(1, 30)) };
    let total = plan_blocks(&plan).min(160);
    if total < 12 { return; }
    let act = *rng.pick(&[0u64, 0, 1, 2]);
    let main = SynChain::new_with_activation(plan, total, 1, act);
    let lag_top = (total / 2).max(10);
    let fork_at = if deep { rng.range(1, (total / 3).max(2)) } else if lagfork { lag_top - 3 } else { rng.range(1, total - 4) };
    // deep: the first peer is proven well above the fork point, the second one brings a heavier branch that shares
    // none of the remembered last-N headers (the documented long-fork stop after a second, from-genesis proof)
    let deep_height = (fork_at + last_n + rng.range(2, 6)).min(total - 2);
    let fork_extra = if deep { (deep_height - fork_at) + rng.range(2, 12) } else if lagfork { rng.range(6, 12) } else { rng.range(2, (total - fork_at).min(40)) };
    let fork = main.fork(fork_at, fork_extra, 99, None);
    let chains = vec![Rc::new(main), Rc::new(fork)];
    let mut c = Client::new(&chains[0], consensus, last_n, n_peers as u32);
    let store0 = store_term(&c);
    let mut sims: Vec<PeerSim> = (0..n_peers).map(|k| {
        let on_fork = if lagging || lagfork { false } else if competing || deep { k == 1 } else { !honest_only && rng.chance(1, 4) };
        let ch = if on_fork { 1 } else { 0 };
        let tip = chains[ch].tip();
        let h0 = if deep { if k == 0 { deep_height } else { tip } } else if competing { fork_at } else { rng.range(3, tip.min(3 + tip / 2)) };
        let h0 = if lagging { let top = (chains[0].tip() / 2).max(8); if k == 0 { top } else { top - 2 } } else { h0 };
        let h0 = if lagfork { if k == 0 { lag_top } else { lag_top - 2 } } else { h0 };
        let h0 = if young { rng.range(2, 4) } else { h0 };
        PeerSim { id: PeerIndex::new(k + 1), chain: ch, height: h0, connected: false, honest: honest_only || competing || lagging || lagfork || young || rng.chance(2, 3) }
    }).collect();
    let mut now = T0 + 10_000;
    let steps = rng.range(6, 30);
    let mut events: Vec<String> = Vec::new();
    let mut obs: Vec<Val> = Vec::new();
    let mut problems: Vec<String> = Vec::new();
    let mut kinds: HashMap<&'static str, u64> = HashMap::new();
    let mut stopped = false;
    let tau = 2u64;
    // what each peer announced (chain, height), for the convergence oracle
    let mut announced: Vec<Option<(usize, u64)>> = vec![None; n_peers];
    let mut proof_req_at: Vec<Option<u64>> = vec![None; n_peers];
    let mut prev_td = c.storage.get_last_state().0;
    let mut prev_tip = c.storage.get_last_state().1.calc_header_hash();

    let mut script: std::collections::VecDeque<(usize, u64, u64)> = if lagging {
        vec![(1, 0, 0), (1, 4, 0), (1, 101, 0), (1, 101, 0), (0, 0, 0), (0, 4, 0), (0, 100, 0), (0, 100, 0), (0, 4, 1), (0, 4, 1), (1, 4, 3), (1, 2, 0), (1, 101, 0), (1, 101, 0)].into()
    } else if young {
        // one honest peer: proven at 2..4, then the chain grows by 2, 3, 1 (child fast path), 2 with a proof each time
        vec![(0, 0, 0), (0, 4, 0), (0, 100, 0), (0, 100, 0), (0, 4, 2), (0, 2, 0), (0, 100, 0), (0, 100, 0), (0, 4, 777), (0, 4, 3), (0, 2, 0), (0, 100, 0), (0, 100, 0),
             (0, 4, 1), (0, 2, 0), (0, 4, 2), (0, 2, 0), (0, 100, 0), (0, 100, 0)].into()
    } else if lagfork {
        vec![(1, 0, 0), (1, 4, 0), (1, 101, 0), (1, 101, 0), (0, 0, 0), (0, 4, 0), (0, 100, 0), (0, 100, 0), (1, 200, 0), (1, 4, 0), (1, 2, 0), (1, 101, 0), (1, 101, 0)].into()
    } else { Default::default() };
    let total_steps = steps + script.len() as u64 + if honest_only { 30 } else { 0 };
    for step in 0..total_steps {
        if stopped { break; }
        let closing = step >= steps;
        now += if closing || !script.is_empty() { 500 } else if honest_only { rng.range(50, 1_200) } else { match rng.below(10) { 0 => 20_000, 1 if !honest_only => 61_000, 2 => 8_100, 3 => 31_000, 4 => 45_000, _ => rng.range(50, 4_000) } };
        guard.set_faketime(now);
        let mut k = rng.below(n_peers as u64) as usize;
        let forced = script.pop_front();
        if let Some((fk, _, _)) = forced { k = fk; }
        if closing {
            if let Some(j) = (0..n_peers).find(|j| sims[*j].connected && c.state(sims[*j].id).map(|s| s.get_last_state().is_none()).unwrap_or(false)) { k = j; }
        }
        let pid = sims[k].id;
        // C04: pretend filter syncing has caught up with the stored tip, so that a fork switch must visibly rewind it
        let (_, tip_before) = c.storage.get_last_state();
        let tip_before_number: u64 = tip_before.raw().number().unpack();
        let tip_before_hash = tip_before.calc_header_hash();
        c.storage.update_min_filtered_block_number(tip_before_number);
        let lastn_before = c.storage.get_last_n_headers();
        let store_before_event = obs_store(&c).to_coq();
        let before_state = c.state(pid);
        let before_all: Vec<Option<PeerState>> = sims.iter().map(|sm| c.state(sm.id)).collect();
        let mut actor = k;
        let before_prove = obs_prove(&before_state).to_coq();
        // choose an event
        let choice = if let Some((_, fc, _)) = forced { fc } else if closing && sims[k].connected && c.state(pid).map(|s| s.get_last_state().is_none()).unwrap_or(false) { 4 } else if closing {
            // drain: answer every outstanding request, tick in between
            if let Some(j) = (0..n_peers).find(|j| sims[*j].connected && c.state(sims[*j].id).map(|s| s.get_prove_request().is_some()).unwrap_or(false)) { 100 + j as u64 }
            else if (0..n_peers).all(|j| !sims[j].connected || c.state(sims[j].id).map(|s| match (s.get_prove_state(), s.get_last_state()) { (Some(ps), Some(ls)) => ps.is_same_as(ls.as_ref()), _ => false }).unwrap_or(true)) { break }
            else { 3 }
        } else if honest_only && (0..n_peers).any(|j| sims[j].connected && c.state(sims[j].id).map(|s| s.get_prove_request().is_some()).unwrap_or(false)) && rng.chance(3, 4) {
            100 + (0..n_peers).find(|j| sims[*j].connected && c.state(sims[*j].id).map(|s| s.get_prove_request().is_some()).unwrap_or(false)).unwrap() as u64
        } else if !sims[k].connected { 0 } else {
            let r = rng.below(12);
            // proofs mostly when a request is outstanding
            if r >= 8 && c.state(pid).map(|s| s.get_prove_request().is_none()).unwrap_or(true) && !rng.chance(1, 8) { rng.range(2, 7) } else { r }
        };
        if choice == 200 {
            // the peer's node reorganised to the other branch (nothing reaches the client yet)
            sims[k].chain = 1;
            sims[k].height = chains[1].tip();
            continue;
        }
        let (term, o, name): (String, Outcome, &'static str) = match choice {
            0 => {
                sims[k].connected = true;
                let o = c.connect(pid);
                (format!("EvConnect {}", pid.value()), o, "connect")
            }
            1 if !honest_only => {
                sims[k].connected = false;
                announced[k] = None;
                let o = c.disconnect(pid);
                (format!("EvDisconnect {}", pid.value()), o, "disconnect")
            }
            8 if !closing && rng.chance(1, 6) => {
                let before = obs_store(&c).to_coq();
                c.restart(last_n, n_peers as u32);
                if obs_store(&c).to_coq() != before {
                    problems.push(format!("[C12-restart-differs] step {}: tip / total difficulty / last-N differ after a restart", step));
                }
                for sim in sims.iter_mut() { sim.connected = false; }
                for a in announced.iter_mut() { *a = None; }
                let o = Outcome { panicked: false, ban: None, disconnected: false, sent: vec![], sent_to: vec![], bans: vec![], disconnects: vec![] };
                ("EvRestart".to_string(), o, "restart")
            }
            2 | 3 => {
                let o = c.tick(REFRESH_PEERS_TOKEN, pid);
                (format!("EvTick {}", contents_term(&o)), o, "tick")
            }
            4 | 5 | 6 | 7 => {
                // announce a last state
                let ch = chains[sims[k].chain].clone();
                let first_announce = c.state(pid).map(|s| s.get_last_state().is_none()).unwrap_or(true);
                // (scripted strata: grow 777 = the peer announces the genuine child of its proven header with the NUMBER raised)
                let raised = matches!(forced, Some((_, _, 777)));
                let grow = if raised { 0 } else if let Some((_, _, fg)) = forced { fg } else if closing || deep || (competing && first_announce) { 0 } else if competing { 1 } else { match rng.below(5) { 0 => 0, 1 | 2 => 1, 3 => rng.range(2, last_n + 2), _ => rng.range(2, 30) } };
                sims[k].height = (sims[k].height + grow).min(ch.tip());
                let mut what = "announce";
                let proven_no = c.state(pid).and_then(|s| s.get_prove_state().map(|p| p.get_last_header().header().number()));
                let msg_vh: packed::VerifiableHeader = if raised && proven_no.map(|pn| pn < ch.tip()).unwrap_or(false) {
                    what = "announce-child-number-raised";
                    child_number_raised(&ch, proven_no.unwrap() + 1, rng.range(1, 9))
                } else if sims[k].honest || rng.chance(2, 3) {
                    ch.packed_vheader(sims[k].height)
                } else {
                    match rng.below(6) {
                        0 => { what = "announce-stale"; ch.packed_vheader(rng.range(1, sims[k].height)) }
                        1 => { what = "announce-other-chain"; let o = &chains[1 - sims[k].chain]; o.packed_vheader(rng.range(1, o.tip())) }
                        2 | 3 | 4 => {
                            // a forged child of the header this peer has PROVEN (child fast path)
                            let proven = c.state(pid).and_then(|s| s.get_prove_state().map(|p| p.get_last_header().header().number()));
                            match proven {
                                Some(pn) if pn < ch.tip() && ch.on_chain(pn, &c.state(pid).unwrap().get_prove_state().unwrap().get_last_header().header().hash()) => {
                                    if rng.chance(1, 2) { what = "announce-child-number-raised"; child_number_raised(&ch, pn + 1, rng.range(1, 9)) } else {
                                    what = "announce-forged-child";
                                    forged_child(&ch, pn + 1, &(U256::one() << (rng.range(1, 200) as u32))) }
                                }
                                _ => { what = "announce-stale"; ch.packed_vheader(rng.range(1, sims[k].height)) }
                            }
                        }
                        _ => { what = "announce-bad-root"; let h = ch.packed_vheader(sims[k].height); let root = h.parent_chain_root().as_builder().end_number(12345u64.pack()).build(); h.as_builder().parent_chain_root(root).build() }
                    }
                };
                if what == "announce" { announced[k] = Some((sims[k].chain, sims[k].height)); }
                let vh: VerifiableHeader = msg_vh.clone().into();
                let fresh = now.saturating_sub(vh.header().timestamp()) <= 24 * 60 * 60 * 1000;
                let t = vh_term(&vh, &c.consensus, c.mmr_activated_epoch);
                let content = packed::SendLastState::new_builder().last_header(msg_vh).build();
                let msg = packed::LightClientMessage::new_builder().set(content).build();
                let o = c.recv(pid, &msg);
                (format!("EvLastState {} {} {} {}", pid.value(), t, fresh, contents_term(&o)), o, what)
            }
            _ => {
                // a proof: honest answer to the outstanding request, a mutation of it, or unsolicited
                let j = if choice >= 100 { (choice - 100) as usize } else { k };
                actor = j;
                let pj = sims[j].id;
                let ch = chains[sims[j].chain].clone();
                let st = c.state(pj);
                let req = st.as_ref().and_then(|s| s.get_prove_request()).map(|r| r.get_content().clone());
                let mut what = "proof-honest";
                let resp: Option<Resp> = match &req {
                    Some(r) => prover::plan_response(&ch, r).map(|plan| {
                        let numbers = plan.numbers();
                        Resp { last: ch.packed_vheader(plan.last), headers: numbers.iter().map(|x| ch.packed_vheader(*x)).collect(), proof: ch.proof(plan.last, &numbers).into_iter().collect() }
                    }),
                    None => None,
                };
                let resp = match resp {
                    // the server's tip moved while the request was under way: it answers with its new last state and no proof
                    // (the client then asks again: a second request whose timer starts now)
                    Some(_) if !closing && !honest_only && sims[j].height < ch.tip() && rng.chance(1, 5) => {
                        what = "proof-new-last-state";
                        sims[j].height = (sims[j].height + rng.range(1, 3)).min(ch.tip());
                        Resp { last: ch.packed_vheader(sims[j].height), headers: Vec::new(), proof: Vec::new() }
                    }
                    Some(r) if sims[j].honest || closing || rng.chance(1, 2) => r,
                    Some(r) => { let (m, w) = mutate_response(rng, &r, &ch, &chains[1 - sims[j].chain]); what = w; m }
                    None => {
                        what = "proof-unsolicited";
                        let last = rng.range(2, ch.tip());
                        let nums: Vec<u64> = (last.saturating_sub(last_n).max(1)..last).collect();
                        Resp { last: ch.packed_vheader(last), headers: nums.iter().map(|x| ch.packed_vheader(*x)).collect(), proof: ch.proof(last, &nums).into_iter().collect() }
                    }
                };
                let last_vh: VerifiableHeader = resp.last.clone().into();
                let vhs: Vec<VerifiableHeader> = resp.headers.iter().map(|h| h.clone().into()).collect();
                let proof = packed::HeaderDigestVec::new_builder().set(resp.proof.clone()).build();
                let mmr = mmr_oracle(&last_vh, &proof, &vhs);
                let t_last = vh_term(&last_vh, &c.consensus, c.mmr_activated_epoch);
                let t_hs = coq_list(&vhs.iter().map(|h| vh_term(h, &c.consensus, c.mmr_activated_epoch)).collect::<Vec<_>>());
                let o = c.recv(pj, &resp.message());
                (format!("EvProof {} {} {} {} {} {}", pj.value(), t_last, resp.proof.is_empty(), t_hs, mmr, contents_term(&o)), o, what)
            }
        };
        *kinds.entry(name).or_insert(0) += 1;
        events.push(format!("({}, {})", now, term));
        if o.panicked {
            obs.push(Val::l(vec![Val::n(3)]));
            let why = super::last_panic();
            // the one deliberate stop: a second, from-genesis proof confirmed a fork deeper than last-N
            if !why.contains("long fork detected") {
                problems.push(format!("[C10-handler-panic] step {} ({}) panicked: {}", step, name, why));
            }
            // C04: the documented long-fork stop (and any other abort) must leave tip, total difficulty, last-N and records untouched
            if obs_store(&c).to_coq() != store_before_event {
                problems.push(format!("[C04-abort-after-store-touched] step {} ({}): the handler aborted after it had already replaced the stored tip / last-N headers", step, name));
            }
            stopped = true;
            continue;
        }
        let (peers_v, store_v) = obs_system(&c);
        obs.push(Val::l(vec![Val::n(0), obs_actions(&o), peers_v, store_v]));

        // ---- property oracles (independent of the model) ----
        let after_state = c.state(pid);
        // C11: a last-state update never discards an existing proof
        if name.starts_with("announce") && before_state.as_ref().and_then(|s| s.get_prove_state()).is_some()
            && after_state.as_ref().map(|s| s.get_prove_state().is_none()).unwrap_or(false) {
            problems.push(format!("[C11-last-state-drops-proof] step {}: a last-state update discarded the peer's proof", step));
        }
        // C11: a proof is accepted only while a request for that last state is outstanding
        if name.starts_with("proof") || name.contains("header") || name.contains("proof-item") {
            for sim in sims.iter() {
                let st = c.state(sim.id);
                if sim.id == pid { continue; }
                let _ = st;
            }
        }
        // C11: the message timeout runs from the request that is outstanding: a peer that was sent a proof request less than
        // MESSAGE_TIMEOUT ago and whose last state is younger than that is not timed out by a tick
        for (j, sim) in sims.iter().enumerate() {
            if o.sent_to.iter().any(|(p, m)| *p == sim.id && matches!(m.to_enum(), packed::LightClientMessageUnion::GetLastStateProof(_))) { proof_req_at[j] = Some(now); }
        }
        if name == "tick" {
            for (j, sim) in sims.iter().enumerate() {
                if !o.disconnects.contains(&sim.id) { continue; }
                let fresh_req = proof_req_at[j].map(|t| now - t <= 60_000).unwrap_or(false);
                let fresh_ls = before_all[j].as_ref().and_then(|s| s.get_last_state().map(|l| now - l.update_ts() <= 60_000)).unwrap_or(false);
                if fresh_req && fresh_ls {
                    problems.push(format!("[C11-premature-timeout] step {}: peer {} was disconnected by the tick although its proof request was sent {} ms ago and its last state is younger than the message timeout",
                        step, sim.id.value(), now - proof_req_at[j].unwrap()));
                }
            }
        }
        // C11: disconnected peers leave no state
        if name == "disconnect" && c.state(pid).is_some() {
            problems.push(format!("[C11-remove-leaves-state] step {}: peer state survives disconnect", step));
        }
        // C12: the stored total difficulty never decreases; the tip is the last header of some peer's prove state
        let (td, tip) = c.storage.get_last_state();
        if td < prev_td { problems.push(format!("[C12-tip-not-heavier] step {}: stored total difficulty decreased", step)); }
        let tip_hash = tip.calc_header_hash();
        if td == prev_td && tip_hash != prev_tip {
            problems.push(format!("[C12-tip-not-heavier] step {} ({}): the stored tip changed although the total difficulty did not increase", step, name));
        }
        prev_tip = tip_hash.clone();
        if td != prev_td {
            let proven_somewhere = c.peers.get_all_prove_states().iter().any(|(_, ps)| ps.get_last_header().header().hash() == tip_hash);
            if !proven_somewhere { problems.push(format!("[C12-tip-not-proven] step {}: stored tip is not the proven header of any peer", step)); }
            // truthful difficulty and ancestor window, judged against the generated chains
            let home = chains.iter().find(|ch| ch.number_of(&tip_hash).is_some());
            match home {
                None => problems.push(format!("[C12-child-forged] step {} ({}): stored tip is a header of no generated chain (claimed total difficulty {:#x})", step, name, td)),
                Some(ch) => {
                    let n = ch.number_of(&tip_hash).unwrap();
                    if ch.tds[n as usize] != td { problems.push(format!("[C12-difficulty-not-truthful] step {}: stored total difficulty {:#x} but the chain has {:#x}", step, td, ch.tds[n as usize])); }
                    let lastn = c.storage.get_last_n_headers();
                    // (on a chain younger than last-N the code keeps a window with repeated entries, e.g. [1,2,3,0,1,2,3,4,5,6] for tip #7:
                    // the rebased request makes the new headers overlap the old window; every entry is an ancestor, which is all C12 asks)
                    for (num, h) in &lastn {
                        if !(num < &n && ch.on_chain(*num, h)) { problems.push(format!("[C12-lastn-not-ancestors] step {}: remembered header #{} is not an ancestor of the stored tip #{}", step, num, n)); break; }
                    }
                }
            }
        }
        prev_td = td;
        // C04: when the stored tip moves to a branch that does not contain the previous tip, everything above the
        // fork point has to be rolled back (visible here as filter progress rewound to the fork point or below)
        if tip_hash != tip_before_hash {
            if let Some(ch) = chains.iter().find(|ch| ch.number_of(&tip_hash).is_some()) {
                if !ch.on_chain(tip_before_number, &tip_before_hash) && tip_before_number > fork_at {
                    let mf = c.storage.get_min_filtered_block_number();
                    if mf > fork_at {
                        // which of the client's own paths moved the tip: the child fast path (no request at all), a request
                        // whose start was rebased onto a remembered last-N header, or one that starts at this peer's own earlier proof
                        let before_state = &before_all[actor];
                        let rq = before_state.as_ref().and_then(|s| s.get_prove_request()).map(|r| (r.get_content().start_number().unpack(), r.get_content().start_hash()));
                        let site = match &rq {
                            None if name.starts_with("announce") => "child-fast-path",
                            Some((sn, sh)) if *sn < tip_before_number && lastn_before.iter().any(|(n, h)| n == sn && h == sh) => "rebased-start",
                            Some((_, sh)) if sh != &tip_before_hash && before_state.as_ref().and_then(|s| s.get_prove_state()).map(|p| &p.get_last_header().header().hash() == sh).unwrap_or(false) => "peer-start",
                            Some((_, sh)) if sh != &tip_before_hash => "stale-start",
                            _ => "other",
                        };
                        let start: Option<u64> = rq.map(|x| x.0);
                        problems.push(format!("[C04-fork-switch-without-rollback-{}] step {} ({}): stored tip moved from #{} to #{} of the other branch (fork point #{}), but filter progress stays at {} (request start {:?}, last_n {})", site, step, name, tip_before_number, ch.number_of(&tip_hash).unwrap(), fork_at, mf, start, last_n));
                    }
                }
            }
        }
        // C05 (honest histories): nobody is banned or disconnected
        if honest_only && (!o.bans.is_empty() || !o.disconnects.is_empty()) {
            let code = o.bans.first().map(|b| b.1).unwrap_or(0);
            // 434 on a chain that is tau-legal by construction: the estimated total-difficulty limit rejects a legal history (the C14 finding)
            let class = if code == 400 { "C05-honest-rejected-no-sample-in-sampled-gap" } else if code == 434 { "C05-honest-rejected-legal-history-by-difficulty-limit" } else { "C05-honest-banned" };
            problems.push(format!("[{}] step {} ({}): bans {:?} disconnects {:?}", class, step, name, o.bans, o.disconnects));
        }
        let _ = before_prove;
    }
    // C05 convergence: after the closing rounds the tip is the heaviest announced one
    if honest_only && !stopped {
        let best = announced.iter().flatten().map(|(ch, h)| chains[*ch].tds[*h as usize].clone()).max();
        let (td, _) = c.storage.get_last_state();
        if let Some(b) = best {
            if td < b && !problems.iter().any(|p| p.contains("C05-honest")) {
                problems.push(format!("[C05-not-converged] stored total difficulty {:#x} below the heaviest announced {:#x} after the closing rounds", td, b));
            }
        }
    }
    let model = format!("(run_history {} {} {} {})", last_n, tau, store0, coq_list(&events));
    let impl_v = Val::l(obs);
    let oracle = if problems.is_empty() { Ok(()) } else { Err(problems.join(" || ")) };
    let mut kv: Vec<String> = kinds.iter().map(|(k, v)| format!("{}={}", k, v)).collect();
    kv.sort();
    let descr = format!("history of {} events over {} peers (last_n {}, main chain {} blocks, fork at {} +{}), events: {}", events.len(), n_peers, last_n, total, fork_at, fork_extra, kv.join(","));
    let tag = if deep { "deep-fork" } else if young { "young-chain" } else if lagfork { "lagging-fork" } else if competing { "competing-children" } else if honest_only { "honest" } else { "mixed" };
    out.case(&format!("history-{}", idx), &["history", tag], &model, &impl_v, oracle, &descr);
    intern_reset(false);
}

/// the bytes that carry tip, total difficulty and last-N across a restart
fn codec_cases(rng: &mut Rng, n: u64, out: &mut Out) {
    use crate::storage::{Key, LAST_STATE_KEY};
    use rocksdb::ops::Get;
    let storage = crate::tests::utils::new_storage("verif-codec");
    let chain = SynChain::new(flat_plan(3, 5, 7), 12, 5);
    storage.init_genesis_block(chain.genesis_block());
    for i in 0..n {
        let bits = *rng.pick(&[0u32, 1, 8, 64, 200, 256]);
        let td = rng.u256_bits(bits);
        let header = chain.headers[rng.range(0, 11) as usize].clone();
        let k = rng.range(0, 6) as usize;
        let lastn: Vec<HeaderView> = (0..k).map(|j| {
            let raw = header.data().raw().as_builder().number((if rng.chance(1, 4) { rng.next() } else { rng.range(0, 500) } + j as u64).pack()).build();
            header.data().as_builder().raw(raw).build().into_view()
        }).collect();
        storage.update_last_state(&td, &header.data(), &lastn);
        let raw_ls = storage.db.get(Key::Meta(LAST_STATE_KEY).into_vec()).unwrap().map(|v| v.to_vec()).unwrap_or_default();
        let raw_ln = storage.db.get(Key::Meta("LAST_N_HEADERS").into_vec()).unwrap().map(|v| v.to_vec()).unwrap_or_default();
        let (td2, h2) = storage.get_last_state();
        let ln2 = storage.get_last_n_headers();
        let bytes = |b: &[u8]| Val::l(b.iter().map(|x| Val::n(*x)).collect());
        let v = Val::l(vec![
            bytes(&raw_ls), bytes(&raw_ln),
            Val::l(vec![Val::n(format!("{:#x}", td2)), bytes(h2.as_slice())]),
            Val::l(ln2.iter().map(|(n, h)| Val::l(vec![Val::n(n), bytes(h.as_slice())])).collect()),
        ]);
        let blist = |b: &[u8]| coq_list(&b.iter().map(|x| format!("{}", x)).collect::<Vec<_>>());
        let model = format!("(run_codec {:#x} {} {})", td, blist(header.data().as_slice()),
            coq_list(&lastn.iter().map(|h| format!("({}, {})", h.number(), blist(h.hash().as_slice()))).collect::<Vec<_>>()));
        let same = td2 == td && h2.as_slice() == header.data().as_slice()
            && ln2.len() == lastn.len() && ln2.iter().zip(lastn.iter()).all(|(a, b)| a.0 == b.number() && a.1 == b.hash());
        let oracle = if same { Ok(()) } else { Err("[C12-restart-differs] the stored tip / total difficulty / last-N do not read back as written".to_string()) };
        out.case(&format!("codec-{}", i), &["codec"], &model, &v, oracle, &format!("update_last_state(td={:#x}, header #{}, {} last-N headers) then raw read", td, header.number(), k));
    }
}

pub(crate) fn run(seed: u64, n: u64, out: &mut Out) {
    let mut rng = Rng::new(seed);
    let consensus = dummy_consensus();
    codec_cases(&mut rng, (n / 4).max(8), out);
    for i in 0..n {
        let deep = i % 8 == 6;
        history(out, &mut rng, &consensus, i, i % 2 == 0, i % 5 == 3 && !deep, deep);
    }
}
