(* C11 — Per-peer sync state machine follows its diagram for every event order.
   Model: Model/System.v.  The four PeerState transition functions are the only way the model
   moves a connected peer (besides re-initialisation on connect), so the diagram is a statement
   about them; the per-event theorems cover what each handler may do to the proof. *)
From Coq Require Import NArith List.
From LC Require Import System LastStateProofProofs SystemProofs.
Import ListNotations.
Open Scope N_scope.

(* every transition function moves along an edge of the documented diagram (SystemProofs.edge) *)
Theorem C11_diagram :
  forall s s',
    (exists now, t_request_last_state s now = Some s') \/
    (exists ls, t_receive_last_state s ls = Some s') \/
    (exists rq now, t_request_proof s rq now = Some s') \/
    (exists ps, t_receive_proof s ps = Some s') ->
    edge s s'.
Proof.
  intros s s' [[now H]|[[ls H]|[[rq [now H]]|[ps H]]]].
  - eapply t_request_last_state_edge; eauto.
  - eapply t_receive_last_state_edge; eauto.
  - eapply t_request_proof_edge; eauto.
  - eapply t_receive_proof_edge; eauto.
Qed.
Print Assumptions C11_diagram.

(* a proof is accepted only while a proof request for that same last state is outstanding; the only
   other way this handler gives the peer a proof is a copy of an identical, already proven header *)
Theorem C11_proof_needs_request :
  forall sy now tau p ml pe hs mmr cts sy' acts s s',
    on_proof sy now tau p ml pe hs mmr cts = Ok (sy', acts) ->
    find_peer p (peers sy) = Some s -> find_peer p (peers sy') = Some s' ->
    get_ps s' <> get_ps s ->
    (exists rq r sc l lasts,
        get_rq s = Some rq /\ same_vheader (pr_last rq) ml = Ok true /\
        gates (last_n_cfg sy) tau (get_ps s) rq ml hs mmr r sc l false /\
        get_ps s' = Some (mkPS (pr_last rq) (map key_of (firstn (N.to_nat r) hs)) lasts))
    \/ (exists ps others, find_proved ml others = Some ps /\ get_ps s' = Some ps).
Proof. exact on_proof_needs_request. Qed.
Print Assumptions C11_proof_needs_request.

(* a last-state update never discards an existing proof *)
Theorem C11_last_state_keeps_proof :
  forall sy now p h fresh cts sy' acts s ps,
    on_last_state sy now p h fresh cts = Ok (sy', acts) ->
    find_peer p (peers sy) = Some s -> get_ps s = Some ps ->
    exists s' ps', find_peer p (peers sy') = Some s' /\ get_ps s' = Some ps'.
Proof. exact on_last_state_keeps_proof. Qed.
Print Assumptions C11_last_state_keeps_proof.

(* an unanswered request or an unchanged last state older than the message timeout puts the peer
   into the disconnect set of the next refresh *)
Theorem C11_timeout_disconnects :
  forall sy now cts p s,
    In (p, s) (peers sy) -> timed_out s now = true ->
    In (A_disconnect p) (snd (on_tick sy now cts)).
Proof. exact tick_disconnects_timeouts. Qed.
Print Assumptions C11_timeout_disconnects.

(* what "timed out" means *)
Theorem C11_timed_out_spec :
  forall s now,
    timed_out s now = true <->
    (exists w, when_sent s = Some w /\ w + MESSAGE_TIMEOUT < now) \/
    (exists ls, get_ls s = Some ls /\ ls_ts ls + MESSAGE_TIMEOUT < now).
Proof.
  intros s now. unfold timed_out. split.
  - destruct (when_sent s) as [w|].
    + destruct (N.ltb_spec (w + MESSAGE_TIMEOUT) now) as [Hw|Hw]; [intros _; left; eauto|].
      destruct (get_ls s) as [ls|]; [|discriminate]. intros H. right. exists ls. split; [reflexivity | apply N.ltb_lt; exact H].
    + destruct (get_ls s) as [ls|]; [|discriminate]. intros H. right. exists ls. split; [reflexivity | apply N.ltb_lt; exact H].
  - intros [[w [W L]]|[ls [G L]]].
    + rewrite W. rewrite (proj2 (N.ltb_lt _ _) L). reflexivity.
    + rewrite G. destruct (when_sent s) as [w|]; [destruct (_ <? now); [reflexivity|]|]; apply N.ltb_lt; exact L.
Qed.
Print Assumptions C11_timed_out_spec.

(* a disconnected peer leaves no state behind and nothing else changes *)
Theorem C11_remove_clean :
  forall sy now tau p sy' acts,
    NoDup (keys (peers sy)) ->
    step sy now tau (EvDisconnect p) = Ok (sy', acts) ->
    find_peer p (peers sy') = None /\ acts = [] /\ sstore sy' = sstore sy /\
    forall q, q <> p -> find_peer q (peers sy') = find_peer q (peers sy).
Proof. exact disconnect_removes. Qed.
Print Assumptions C11_remove_clean.
