(* C05 — Honest peers are never rejected and the client converges to the heaviest tip.
   What "honest" means is fixed by Model/HonestProver.v (the RFC 44 server rules); the client's
   verdict on an honest answer is [honest_verdict] = Matching.matched applied to the plan.

   Full statement:  forall chains and well-formed requests, honest_verdict ... = Ok _.
   It is FALSE of the code (C05_honest_rejected_refuted); proved: the regime where at most last-N
   blocks are missing (C05_complete_small_gap).  The sampled regime is decided per run by the
   correspondence check with the oracle "honest answers are accepted" outside the known class;
   difficulty completeness is C14_complete_tau / C14_complete_total_partial; liveness
   ("after finitely many exchanges") is measured on generated honest histories, not proved. *)
From Coq Require Import NArith List.
From LC Require Import HonestProver HonestProverProofs.
Import ListNotations.
Open Scope N_scope.

Theorem C05_complete_small_gap :
  forall c last_n start last boundary ds,
    start < last -> last - start <= last_n -> last <= U64MAX ->
    honest_verdict c true last_n start last boundary ds = Ok (0, 0, last - start).
Proof. exact honest_small_gap_on_chain. Qed.
Print Assumptions C05_complete_small_gap.

(* the honest answer [block 2] to (start 1, last 3, last-N 1, one sample inside block 2) is rejected *)
Theorem C05_honest_rejected_refuted :
  exists c last_n start last boundary ds,
    last_n < last - start /\
    plan_response c true last_n start last boundary ds = mkPlan [] [] [2] /\
    honest_verdict c true last_n start last boundary ds = Err E_MALFORMED.
Proof.
  exists wit_chain, 1, 1, 3, 30, [25]. split; [reflexivity|].
  split; [exact honest_witness_plan | exact honest_rejected_witness].
Qed.
Print Assumptions C05_honest_rejected_refuted.

Theorem C05_sampled_nonvacuous :
  honest_verdict [10; 10; 10; 10; 10; 10; 10; 10] true 2 1 7 50 [25; 38] = Ok (0, 2, 3).
Proof. exact honest_sampled_accepted. Qed.
Print Assumptions C05_sampled_nonvacuous.
