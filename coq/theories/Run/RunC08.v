From LC Require Export Val.
