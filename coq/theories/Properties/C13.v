(* C13 — Cell and transaction queries are exact views of the index.
   Model: Model/Query.v, byte level: keys are the bytes Key::into_vec builds, the store is the list of
   entries in RocksDB (bytewise) order, "matching" = the stored key starts with the search prefix.

   Proved for both orders, for cells and for (ungrouped) transactions alike (the theorems are generic in the
   entry type and the filter): following last_cursor yields exactly the stored entries whose key starts with
   the search prefix and which pass the filters, once each, in iteration order.  The grouped page-boundary rule
   and the cursor = Some [] corner are decided by the correspondence check only (C13 is claimed partial there). *)
From Coq Require Import NArith List Bool Sorted.
From LC Require Import Query QueryProofs QueryOrderProofs.
Import ListNotations.
Open Scope N_scope.

(* following last_cursor page by page with any limit >= 1 yields every matching entry that passes the
   filters exactly once, in key order, and terminates (the fuel |db|+1 suffices) *)
Theorem C13_pages_exact_cells :
  forall tag raw al other f limit (db : list centry),
    sorted_db ce_key db -> (1 <= limit)%nat ->
    pages ce_key (cell_pass other f) tag raw al limit db (S (length db)) None
    = filter (cell_pass other f) (scan ce_key tag raw al true None db).
Proof. intros. apply pages_exact; assumption. Qed.
Print Assumptions C13_pages_exact_cells.

Theorem C13_pages_exact_txs :
  forall tag raw al fs block limit (db : list tentry),
    sorted_db te_key db -> (1 <= limit)%nat ->
    pages te_key (tx_pass fs block) tag raw al limit db (S (length db)) None
    = filter (tx_pass fs block) (scan te_key tag raw al true None db).
Proof. intros. apply pages_exact; assumption. Qed.
Print Assumptions C13_pages_exact_txs.

(* the generic page is what get_cells / get_transactions compute *)
Theorem C13_page_is_get_cells :
  forall tag raw al other f limit cursor (db : list centry),
    get_page ce_key (cell_pass other f) tag raw al limit db cursor = get_cells tag raw al other f true limit cursor db.
Proof. reflexivity. Qed.
Print Assumptions C13_page_is_get_cells.

Theorem C13_page_is_get_txs :
  forall tag raw al fs block limit cursor (db : list tentry),
    get_page te_key (tx_pass fs block) tag raw al limit db cursor = get_txs tag raw al fs block true limit cursor db.
Proof. reflexivity. Qed.
Print Assumptions C13_page_is_get_txs.

(* each filter removes exactly the entries outside it: a returned cell passes all five filters
   (bounds as implemented) and belongs to the scan *)
Theorem C13_filters_exact :
  forall tag raw al other f asc limit cursor db page lk e,
    get_cells tag raw al other f asc limit cursor db = (page, lk) ->
    In e page -> cell_pass other f e = true /\ In e (scan ce_key tag raw al asc cursor db).
Proof. exact get_cells_sound. Qed.
Print Assumptions C13_filters_exact.

(* get_cells_capacity is the capacity sum of exactly the cells get_cells returns for the same key *)
Theorem C13_capacity_is_sum :
  forall tag raw al other f db,
    get_cells_capacity tag raw al other f db =
    fold_right N.add 0 (map ce_cap (fst (get_cells tag raw al other f true
         (length (scan ce_key tag raw al true None db)) None db))).
Proof. exact capacity_is_sum. Qed.
Print Assumptions C13_capacity_is_sum.

(* ---- both orders ---- *)

(* one RPC call in the generic form is get_cells / get_transactions in the given order *)
Theorem C13_page_is_get_cells_any_order :
  forall tag raw al other f limit cursor asc (db : list centry),
    get_page_o ce_key (cell_pass other f) tag raw al limit db asc cursor = get_cells tag raw al other f asc limit cursor db.
Proof. reflexivity. Qed.
Print Assumptions C13_page_is_get_cells_any_order.

Theorem C13_page_is_get_txs_any_order :
  forall tag raw al fs block limit cursor asc (db : list tentry),
    get_page_o te_key (tx_pass fs block) tag raw al limit db asc cursor = get_txs tag raw al fs block asc limit cursor db.
Proof. reflexivity. Qed.
Print Assumptions C13_page_is_get_txs_any_order.

(* ascending or descending, any limit >= 1: the concatenated pages are exactly the stored entries whose key starts
   with the search prefix and which pass the filters - none missing, none twice, none foreign - in key order
   (ascending) or reverse key order (descending).  For descending order the iterator starts at
   prefix ++ 0xff * (65535 - args_len); the hypothesis says no stored key with the prefix lies above that start key
   (keys are strings of bytes no longer than it: script args shorter than 65519 bytes). *)
Theorem C13_pages_are_the_matching_cells :
  forall tag raw al other f limit asc (db : list centry),
    sorted_db ce_key db -> (1 <= limit)%nat ->
    (asc = false -> forall e, In e db -> starts_with (ce_key e) (tag :: raw) = true ->
        bytes_ok (ce_key e) /\ (length (ce_key e) <= length (tag :: raw) + (MAX_PREFIX - al))%nat) ->
    pages_o ce_key (cell_pass other f) tag raw al limit db asc (S (length db)) None
    = filter (cell_pass other f) (iter asc (filter (fun e => starts_with (ce_key e) (tag :: raw)) db)).
Proof. intros. apply pages_are_the_matching_entries; assumption. Qed.
Print Assumptions C13_pages_are_the_matching_cells.

Theorem C13_pages_are_the_matching_txs :
  forall tag raw al fs block limit asc (db : list tentry),
    sorted_db te_key db -> (1 <= limit)%nat ->
    (asc = false -> forall e, In e db -> starts_with (te_key e) (tag :: raw) = true ->
        bytes_ok (te_key e) /\ (length (te_key e) <= length (tag :: raw) + (MAX_PREFIX - al))%nat) ->
    pages_o te_key (tx_pass fs block) tag raw al limit db asc (S (length db)) None
    = filter (tx_pass fs block) (iter asc (filter (fun e => starts_with (te_key e) (tag :: raw)) db)).
Proof. intros. apply pages_are_the_matching_entries; assumption. Qed.
Print Assumptions C13_pages_are_the_matching_txs.

(* non-vacuity, descending: a store with a foreign entry on either side, limit 2, two pages in reverse key order *)
Example C13_example_pages_desc :
  let e k := mkCE [32; 7; k] k [] None 0 10 in
  let x := mkCE [32; 6; 9] 9 [] None 0 10 in
  let y := mkCE [32; 8; 0] 0 [] None 0 10 in
  pages_o ce_key (cell_pass true (mkCF None None None None None)) 32 [7] 0 2 [x; e 1; e 2; e 5; y] false 6 None = [e 5; e 2; e 1].
Proof. vm_compute. reflexivity. Qed.

(* non-vacuity: a sorted three-entry store, limit 1, three pages *)
Example C13_example_pages :
  let e k := mkCE [32; 7; k] k [] None 0 10 in
  pages ce_key (cell_pass true (mkCF None None None None None)) 32 [7] 0 1 [e 1; e 2; e 5] 4 None = [e 1; e 2; e 5].
Proof. vm_compute. reflexivity. Qed.
