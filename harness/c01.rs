//! C01: SendLastStateProof handling.  Part A: check_if_response_is_matched called directly on
//! arbitrary header shapes.  Part B: the whole handler driven through `received` on synthetic
//! chains with an honest prover and a grid of response mutations.
use std::rc::Rc;

use ckb_chain_spec::consensus::Consensus;
use ckb_network::PeerIndex;
use ckb_types::{
    core::HeaderView,
    packed,
    prelude::*,
    utilities::{compact_to_difficulty, difficulty_to_compact, merkle_mountain_range::VerifiableHeader},
    U256,
};

use super::chain::{flat_plan, legal_plan, plan_blocks, SynChain, T0};
use super::client::*;
use super::out::{catch, coq_list, Out, Val};
use super::prng::Rng;
use super::prover;
use crate::protocols::light_client::constant::REFRESH_PEERS_TOKEN;
use crate::protocols::light_client::verif_exports::check_if_response_is_matched;
use crate::protocols::PeerState;

// ---------------------------------------------------------------------------------------
// Part A
// ---------------------------------------------------------------------------------------

#[derive(Clone, Debug)]
struct MH {
    num: u64,
    ptd: U256,
    compact: u32,
}

impl MH {
    fn bd(&self) -> U256 {
        compact_to_difficulty(self.compact)
    }
    fn td(&self) -> Option<U256> {
        self.ptd.checked_add(&self.bd())
    }
    fn vh(&self) -> VerifiableHeader {
        let raw = packed::RawHeader::new_builder().number(self.num.pack()).compact_target(self.compact.pack()).build();
        let header = packed::Header::new_builder().raw(raw).build().into_view();
        let root = packed::HeaderDigest::new_builder().total_difficulty(self.ptd.pack()).build();
        VerifiableHeader::new(header, Default::default(), None, root)
    }
    fn term(&self) -> String {
        format!("({}, {:#x}, {:#x})", self.num, self.ptd, self.bd())
    }
}

fn matched_case(out: &mut Out, id: &str, tags: &[&str], last_n: u64, start: u64, boundary: &U256, ds: &[U256], hs: &[MH], last_number: u64) {
    let req = packed::GetLastStateProof::new_builder()
        .start_number(start.pack())
        .last_n_blocks(last_n.pack())
        .difficulty_boundary(boundary.pack())
        .difficulties(ds.iter().map(|d| d.pack()).pack())
        .build();
    let vhs: Vec<VerifiableHeader> = hs.iter().map(|h| h.vh()).collect();
    let last = MH { num: last_number, ptd: U256::zero(), compact: difficulty_to_compact(U256::one()) }.vh();
    let r = catch(|| check_if_response_is_matched(last_n as usize, &req, &vhs, &last));
    let v = match &r {
        None => Val::l(vec![Val::n(3)]),
        Some(Ok((a, b, c))) => Val::l(vec![Val::n(0), Val::n(a), Val::n(b), Val::n(c)]),
        Some(Err(st)) => Val::l(vec![Val::n(1), Val::n(st.code() as u16)]),
    };
    let model = format!(
        "(run_matched {} {} {:#x} {} {} {})",
        last_n, start, boundary,
        coq_list(&ds.iter().map(|d| format!("{:#x}", d)).collect::<Vec<_>>()),
        coq_list(&hs.iter().map(|h| h.term()).collect::<Vec<_>>()),
        last_number
    );
    // independent oracle: an accepted response has exactly the requested shape
    let oracle = match &r {
        // total difficulties that overflow are rejected by the handlers before this function is called
        None if hs.iter().any(|h| h.td().is_none()) => Ok(()),
        None => {
            let class = if hs.iter().any(|h| h.td().is_none()) { "C10-total-difficulty-overflow" }
                else if hs.iter().any(|h| h.num == u64::MAX) { "C10-matched-number-overflow" }
                else { "C10-matched-boundary-underflow" };
            Err(format!("[{}] check_if_response_is_matched panicked", class))
        }
        Some(Err(_)) => Ok(()),
        Some(Ok((r, s, l))) => {
            let (r, s, l) = (*r, *s, *l);
            let mut p: Vec<String> = Vec::new();
            if r + s + l != hs.len() { p.push("sections do not add up".into()); }
            if hs.windows(2).any(|w| w[0].num >= w[1].num) { p.push("numbers not strictly increasing".into()); }
            if r != hs.iter().filter(|h| h.num < start).count() { p.push("reorg section is not the headers below start".into()); }
            if r > 0 {
                if !(r as u64 == last_n || hs[0].num == 1) { p.push("reorg section has neither last-N headers nor starts at 1".into()); }
                if hs[r - 1].num + 1 != start { p.push("reorg section does not end at start-1".into()); }
            }
            if s == 0 {
                if l > 0 && !(hs[r].num == start && hs[hs.len() - 1].num.checked_add(1) == Some(last_number)) { p.push("no samples but last-N section is not [start, last)".into()); }
            } else if r + s < hs.len() {
                if (l as u64) < last_n { p.push("samples present but fewer than last-N trailing headers".into()); }
                let fl = &hs[r + s];
                let fl_td = fl.td().unwrap_or_else(U256::max_value);
                for h in &hs[r..r + s] {
                    let td = h.td().unwrap_or_else(U256::max_value);
                    if !ds.iter().any(|d| &h.ptd < d && d <= &td) { p.push(format!("sampled header #{} covers no requested difficulty", h.num)); break; }
                }
                // requested difficulties below the last-N section must be covered (up to the first uncovered
                // one the code stops at: the request is sorted for every request the client builds)
                let sorted = ds.windows(2).all(|w| w[0] <= w[1]);
                if sorted {
                    for d in ds.iter().filter(|d| **d < fl_td) {
                        let covered = hs[r..r + s].iter().any(|h| &h.ptd < d && d <= &h.td().unwrap_or_else(U256::max_value));
                        if !covered && d <= &fl.ptd { p.push(format!("requested difficulty {:#x} below the last-N section is not covered", d)); break; }
                    }
                }
            } else { p.push("samples but no last-N section".into()); }
            if p.is_empty() { Ok(()) } else { Err(format!("[C01-shape] accepted: {}", p.join("; "))) }
        }
    };
    let descr = format!("check_if_response_is_matched(last_n={}, start={}, boundary={:#x}, difficulties={:?}, headers={:?}, last={})",
        last_n, start, boundary, ds.iter().map(|d| format!("{:#x}", d)).collect::<Vec<_>>(),
        hs.iter().map(|h| (h.num, format!("{:#x}", h.ptd), format!("{:#x}", h.bd()))).collect::<Vec<_>>(), last_number);
    out.case(id, tags, &model, &v, oracle, &descr);
}

fn part_a(rng: &mut Rng, n: u64, out: &mut Out) {
    let c1 = difficulty_to_compact(U256::one());
    // corpus: the two reproduced panics
    {
        let hs: Vec<MH> = (1..=7).map(|i| MH { num: i, ptd: U256::from(i), compact: c1 }).collect();
        matched_case(out, "corpus-757", &["corpus", "matched"], 2, 5, &U256::zero(), &[], &hs, 9);
        let hs = vec![MH { num: 5, ptd: U256::from(5u64), compact: c1 }, MH { num: u64::MAX, ptd: U256::from(6u64), compact: c1 }];
        matched_case(out, "corpus-772", &["corpus", "matched"], 10, 5, &U256::zero(), &[], &hs, 9);
        let hs = vec![MH { num: 5, ptd: U256::max_value(), compact: c1 }, MH { num: 6, ptd: U256::from(6u64), compact: c1 }, MH { num: 7, ptd: U256::from(7u64), compact: c1 }];
        matched_case(out, "corpus-td-overflow", &["corpus", "matched"], 1, 5, &U256::from(3u64), &[], &hs, 8);
    }
    for i in 0..n {
        let last_n = *rng.pick(&[1u64, 2, 3, 5]);
        let start = rng.range(0, 30);
        let gap = match rng.below(4) { 0 => rng.range(1, last_n), 1 => last_n + rng.range(0, 2), _ => rng.range(last_n + 1, last_n + 25) };
        let last_number = start + gap;
        // ground-truth difficulties of blocks 0..last_number
        let unit = rng.chance(1, 3);
        let compacts: Vec<u32> = (0..=last_number).map(|_| if unit { c1 } else { difficulty_to_compact(U256::from(rng.range(1, 40))) }).collect();
        let mut tds: Vec<U256> = Vec::new();
        let mut acc = U256::zero();
        for c in &compacts { acc = acc + compact_to_difficulty(*c); tds.push(acc.clone()); }
        let hdr = |num: u64| -> MH { MH { num, ptd: if num == 0 { U256::zero() } else { tds[num as usize - 1].clone() }, compact: compacts[num as usize] } };
        // request
        let (boundary, ds, sampled, last_sec): (U256, Vec<U256>, Vec<u64>, Vec<u64>) = if gap <= last_n {
            (tds[start as usize].clone(), vec![], vec![], (start..last_number).collect())
        } else {
            let b = rng.range(start + 1, last_number - 1).min(last_number - last_n).max(start + 1);
            let b = if rng.chance(1, 3) { last_number - last_n } else { b };
            let boundary = tds[b as usize].clone() - rng.range(0, 1);
            let lo = &tds[start as usize];
            let mut ds: Vec<U256> = Vec::new();
            let k = rng.range(1, 6);
            for _ in 0..k {
                let span = &boundary - lo;
                if span.is_zero() { break; }
                ds.push(lo + (rng.u256_bits(200) % &span) + 1u32);
            }
            // difficulties exactly on block boundaries: td(x), td(x)+1, td(x)-1
            for _ in 0..rng.range(0, 3) {
                let x = rng.range(start, last_number - 1) as usize;
                match rng.below(3) { 0 => ds.push(tds[x].clone()), 1 => ds.push(&tds[x] + 1u32), _ => ds.push(&tds[x] - 1u32) }
            }
            // ... and exactly the total difficulty of the block in front of the last-N section (the last place a sample can sit)
            if rng.chance(1, 3) {
                if let Some(x) = (start..last_number).find(|x| tds[*x as usize] >= boundary) { if x > start + 1 { ds.push(tds[x as usize - 1].clone()); } }
            }
            ds.sort(); ds.dedup();
            let ds: Vec<U256> = ds.into_iter().filter(|d| d < &boundary && d > lo).collect();
            let b_block = (start..last_number).find(|x| tds[*x as usize] >= boundary).unwrap_or(last_number - last_n).min(last_number - last_n);
            let mut sampled: Vec<u64> = Vec::new();
            if b_block > 0 {
                for d in ds.iter().take_while(|d| **d <= tds[b_block as usize - 1]) {
                    if let Some(x) = (start..b_block).find(|x| &tds[*x as usize] >= d) { if sampled.last() != Some(&x) { sampled.push(x); } }
                }
            }
            (boundary, ds, sampled, (b_block..last_number).collect())
        };
        let with_reorg = start > 0 && rng.chance(1, 3);
        let reorg: Vec<u64> = if with_reorg { (start.saturating_sub(last_n).max(1)..start).collect() } else { vec![] };
        let mut hs: Vec<MH> = reorg.iter().chain(sampled.iter()).chain(last_sec.iter()).map(|x| hdr(*x)).collect();
        let shape = if gap <= last_n { "small-gap" } else { "sampled" };
        matched_case(out, &format!("matched-{}-honest", i), &["matched", "honest", shape], last_n, start, &boundary, &ds, &hs, last_number);
        // mutations
        for m in 0..3 {
            let mut hs2 = hs.clone();
            let mut ds2 = ds.clone();
            let mut b2 = boundary.clone();
            let mut start2 = start;
            let mut last2 = last_number;
            let what = match rng.below(16) {
                0 if !hs2.is_empty() => { let k = rng.below(hs2.len() as u64) as usize; hs2.remove(k); "drop" }
                1 if !hs2.is_empty() => { let k = rng.below(hs2.len() as u64) as usize; let h = hs2[k].clone(); hs2.insert(k, h); "duplicate" }
                2 if hs2.len() > 1 => { let k = rng.below(hs2.len() as u64 - 1) as usize; hs2.swap(k, k + 1); "swap" }
                3 if !hs2.is_empty() => { let k = rng.below(hs2.len() as u64) as usize; hs2[k].num = match rng.below(4) { 0 => hs2[k].num + 1, 1 => hs2[k].num.saturating_sub(1), 2 => u64::MAX, _ => rng.range(0, 60) }; "number" }
                4 if !hs2.is_empty() => { let k = rng.below(hs2.len() as u64) as usize; hs2[k].ptd = match rng.below(4) { 0 => &hs2[k].ptd + 1u32, 1 => hs2[k].ptd.saturating_sub(&U256::one()), 2 => U256::max_value(), _ => rng.u256_bits(12) }; "parent-td" }
                5 if !hs2.is_empty() => { let k = rng.below(hs2.len() as u64) as usize; hs2[k].compact = difficulty_to_compact(U256::from(rng.range(1, 100))); "compact" }
                6 => { b2 = match rng.below(4) { 0 => U256::zero(), 1 => &b2 + 1u32, 2 => b2.saturating_sub(&U256::from(rng.range(1, 30))), _ => U256::max_value() }; "boundary" }
                7 => { if !ds2.is_empty() && rng.chance(1, 2) { let k = rng.below(ds2.len() as u64) as usize; ds2.remove(k); } else { ds2.push(rng.u256_bits(12)); if rng.chance(2, 3) { ds2.sort(); } } "difficulties" }
                8 => { start2 = if rng.chance(1, 2) { start + 1 } else { start.saturating_sub(1) }; "start" }
                9 => { last2 = if rng.chance(1, 2) { last_number + 1 } else { last_number - 1 }; "last-number" }
                10 => { if let Some(x) = hs2.last().map(|h| h.num + 1) { if (x as usize) < tds.len() { hs2.push(hdr(x)); } } "append" }
                11 => { hs2.clear(); "empty" }
                12 if start > 1 => { let first = start.saturating_sub(rng.range(1, last_n + 2)).max(rng.range(0, 1)); let mut v: Vec<MH> = (first..start).map(|x| hdr(x)).collect(); v.extend(hs2.iter().filter(|h| h.num >= start).cloned()); hs2 = v; "reorg-section" }
                14 | 15 if !sampled.is_empty() => { hs2.remove(reorg.len() + sampled.len() - 1); "drop-last-sample" }
                13 if !sampled.is_empty() => {
                    // replace a sampled header by its child or its parent
                    let k = reorg.len() + rng.below(sampled.len() as u64) as usize;
                    let x = hs2[k].num;
                    let y = if rng.chance(1, 2) { x + 1 } else { x.saturating_sub(1) };
                    if (y as usize) < tds.len() { hs2[k] = hdr(y); }
                    "sample-neighbour"
                }
                _ => { if let Some(k) = (0..hs2.len()).find(|k| hs2[*k].num >= start) { let extra = hs2[k].num; if extra > 0 { hs2.insert(k, hdr(extra - 1)); } } "extra-before" }
            };
            matched_case(out, &format!("matched-{}-m{}", i, m), &["matched", "mutated", what], last_n, start2, &b2, &ds2, &hs2, last2);
        }
        hs.clear();
    }
}

// ---------------------------------------------------------------------------------------
// Part B
// ---------------------------------------------------------------------------------------

pub(crate) struct Scn {
    pub chain: Rc<SynChain>,
    pub last_n: u64,
    pub first: Option<u64>, // height proven in a first exchange
    pub tip: u64,           // height announced afterwards
}

/// Bring a fresh client to the point where a proof request for `tip` is outstanding.
pub(crate) fn setup(scn: &Scn, consensus: &Consensus, peer: PeerIndex) -> Result<(Client, packed::GetLastStateProof), String> {
    let chain = &*scn.chain;
    let mut c = Client::new(chain, consensus, scn.last_n, 1);
    c.connect(peer);
    let mut req = None;
    if let Some(h1) = scn.first {
        let o = c.recv(peer, &prover::last_state_message(chain, h1));
        let r = find_request(&o).ok_or("no first request")?;
        let resp = prover::respond(chain, &r).ok_or("prover failed (first)")?;
        let msg = packed::LightClientMessage::new_builder().set(resp).build();
        let o = c.recv(peer, &msg);
        if o.ban.is_some() || o.panicked { return Err(format!("first honest proof rejected: {:?} panicked={}", o.ban, o.panicked)); }
        if let Some(r2) = find_request(&o) {
            // tau recheck round
            let resp = prover::respond(chain, &r2).ok_or("prover failed (recheck)")?;
            let msg = packed::LightClientMessage::new_builder().set(resp).build();
            let o = c.recv(peer, &msg);
            if o.ban.is_some() || o.panicked { return Err("first honest proof rejected at recheck".into()); }
        }
        let o = c.recv(peer, &prover::last_state_message(chain, scn.tip));
        if o.ban.is_some() { return Err("second last state rejected".into()); }
        let o = c.tick(REFRESH_PEERS_TOKEN, peer);
        req = find_request(&o);
    } else {
        let o = c.recv(peer, &prover::last_state_message(chain, scn.tip));
        if o.ban.is_some() { return Err("last state rejected".into()); }
        req = find_request(&o);
    }
    match req {
        Some(r) => Ok((c, r)),
        None => Err("no request outstanding".into()),
    }
}

pub(crate) struct Resp {
    pub last: packed::VerifiableHeader,
    pub headers: Vec<packed::VerifiableHeader>,
    pub proof: Vec<packed::HeaderDigest>,
}

impl Resp {
    pub(crate) fn message(&self) -> packed::LightClientMessage {
        let content = packed::SendLastStateProof::new_builder()
            .last_header(self.last.clone())
            .headers(packed::VerifiableHeaderVec::new_builder().set(self.headers.clone()).build())
            .proof(packed::HeaderDigestVec::new_builder().set(self.proof.clone()).build())
            .build();
        packed::LightClientMessage::new_builder().set(content).build()
    }
}

fn with_raw(vh: &packed::VerifiableHeader, f: impl FnOnce(packed::RawHeaderBuilder) -> packed::RawHeaderBuilder) -> packed::VerifiableHeader {
    let raw = f(vh.header().raw().as_builder()).build();
    vh.clone().as_builder().header(vh.header().as_builder().raw(raw).build()).build()
}

fn forge(rng: &mut Rng, vh: &packed::VerifiableHeader) -> (packed::VerifiableHeader, &'static str) {
    match rng.below(11) {
        0 => { let n: u64 = vh.header().raw().number().unpack(); (with_raw(vh, |b| b.number((n + 1).pack())), "field-number") }
        1 => { let c: u32 = vh.header().raw().compact_target().unpack(); (with_raw(vh, |b| b.compact_target((c ^ 1).pack())), "field-compact-target") }
        2 => { let e: u64 = vh.header().raw().epoch().unpack(); (with_raw(vh, |b| b.epoch((e + (1 << 24)).pack())), "field-epoch") }
        3 => { let mut h = [0u8; 32]; h.copy_from_slice(vh.header().raw().parent_hash().as_slice()); h[3] ^= 0x40; (with_raw(vh, |b| b.parent_hash(h.pack())), "field-parent-hash") }
        4 => { let t: u64 = vh.header().raw().timestamp().unpack(); (with_raw(vh, |b| b.timestamp((t + 1).pack())), "field-timestamp") }
        5 => { let hd = vh.header().as_builder().nonce(12345u128.pack()).build(); (vh.clone().as_builder().header(hd).build(), "field-nonce") }
        6 => {
            let ext: Option<packed::Bytes> = vh.extension().to_opt();
            let ext2 = match ext { Some(b) => { let mut v = b.raw_data().to_vec(); if v.is_empty() { v.push(1) } else { v[0] ^= 1 }; Some(v.pack()) } None => Some(vec![7u8; 32].pack()) };
            (vh.clone().as_builder().extension(Pack::pack(&ext2)).build(), "field-extension")
        }
        7 => { let td: U256 = vh.parent_chain_root().total_difficulty().unpack(); let root = vh.parent_chain_root().as_builder().total_difficulty((td + 1u32).pack()).build(); (vh.clone().as_builder().parent_chain_root(root).build(), "field-root-total-difficulty") }
        8 => { let n: u64 = vh.parent_chain_root().end_number().unpack(); let root = vh.parent_chain_root().as_builder().end_number((n + 1).pack()).build(); (vh.clone().as_builder().parent_chain_root(root).build(), "field-root-end-number") }
        9 => { let mut h = [0u8; 32]; h[0] = 9; (vh.clone().as_builder().uncles_hash(h.pack()).build(), "field-uncles-hash") }
        _ => { let mut h = [0u8; 32]; h.copy_from_slice(vh.header().raw().extra_hash().as_slice()); h[0] ^= 1; (with_raw(vh, |b| b.extra_hash(h.pack())), "field-extra-hash") }
    }
}

pub(crate) fn mutate_response(rng: &mut Rng, base: &Resp, chain: &SynChain, fork: &SynChain) -> (Resp, &'static str) {
    let mut r = Resp { last: base.last.clone(), headers: base.headers.clone(), proof: base.proof.clone() };
    let nh = r.headers.len() as u64;
    let what: &'static str = match rng.below(18) {
        16 | 17 => {
            // the requested last header, but with the chain root of the OTHER branch, and that branch's headers with a proof
            // that is consistent with this root: only the last header's own commitment to its chain root tells them apart
            let last_n: u64 = r.last.header().raw().number().unpack();
            let numbers: Vec<u64> = r.headers.iter().map(|h| h.header().raw().number().unpack()).collect();
            // (only where the last header commits to its chain root at all: before MMR activation nothing authenticates it)
            if chain.has_root(last_n) && last_n < fork.len() && numbers.iter().all(|n| *n < last_n) && numbers.iter().any(|n| fork.headers[*n as usize].hash() != chain.headers[*n as usize].hash()) {
                let other_root = fork.packed_vheader(last_n).parent_chain_root();
                r.last = r.last.clone().as_builder().parent_chain_root(other_root).build();
                r.headers = numbers.iter().map(|n| fork.packed_vheader(*n)).collect();
                // the headers next to the tip stay the genuine ones (they must chain up to the requested last header); all
                // headers further down come from the other branch, under a chain root forged to commit to exactly this mix
                let keep_from = numbers.iter().rev().zip((0..last_n).rev()).take_while(|(a, b)| **a == *b).map(|(a, _)| *a).last().unwrap_or(last_n);
                let from_other = |i: u64| i < keep_from && i < fork.len() && fork.headers[i as usize].hash() != chain.headers[i as usize].hash();
                if numbers.iter().any(|n| from_other(*n)) {
                    let (root, proof) = chain.hybrid_root_and_proof(fork, last_n, &from_other, &numbers);
                    r.last = r.last.clone().as_builder().parent_chain_root(root).build();
                    r.headers = numbers.iter().map(|n| if from_other(*n) { fork.packed_vheader(*n) } else { chain.packed_vheader(*n) }).collect();
                    r.proof = proof;
                    "other-branch-under-uncommitted-chain-root"
                } else {
                    r.proof = fork.proof(last_n, &numbers).into_iter().collect();
                    "other-branch-under-uncommitted-chain-root"
                }
            } else { r.headers.clear(); "no-headers" }
        }
        0 if nh > 0 => { let k = rng.below(nh) as usize; r.headers.remove(k); "drop-header" }
        1 if nh > 0 => { let k = rng.below(nh) as usize; let h = r.headers[k].clone(); r.headers.insert(k, h); "duplicate-header" }
        2 if nh > 1 => { let k = rng.below(nh - 1) as usize; r.headers.swap(k, k + 1); "swap-headers" }
        3 | 4 | 5 if nh > 0 => { let k = rng.below(nh) as usize; let (h, w) = forge(rng, &r.headers[k]); r.headers[k] = h; w }
        6 if nh > 0 => {
            let k = rng.below(nh) as usize;
            let n: u64 = r.headers[k].header().raw().number().unpack();
            if n < fork.len() && fork.headers[n as usize].hash() != chain.headers[n as usize].hash() { r.headers[k] = fork.packed_vheader(n); "replace-by-fork-header" } else { r.headers.remove(k); "drop-header" }
        }
        7 if !r.proof.is_empty() => { let k = rng.below(r.proof.len() as u64) as usize; r.proof.remove(k); "drop-proof-item" }
        8 if !r.proof.is_empty() => { let k = rng.below(r.proof.len() as u64) as usize; let p = r.proof[k].clone(); r.proof.insert(k, p); "duplicate-proof-item" }
        9 if !r.proof.is_empty() => {
            let k = rng.below(r.proof.len() as u64) as usize;
            let td: U256 = r.proof[k].total_difficulty().unpack();
            r.proof[k] = r.proof[k].clone().as_builder().total_difficulty((td + 1u32).pack()).build(); "alter-proof-item"
        }
        10 => { let (h, _) = forge(rng, &r.last); r.last = h; "alter-last-header" }
        11 => { let n: u64 = r.last.header().raw().number().unpack(); let other = if n > 1 { n - 1 } else { n }; r.last = chain.packed_vheader(other); if rng.chance(1, 2) { r.proof.clear(); } "other-last-header" }
        12 => { r.headers.clear(); "no-headers" }
        13 => { let n: u64 = r.last.header().raw().number().unpack(); r.headers.push(chain.packed_vheader(n)); "append-last-itself" }
        14 if nh > 0 => {
            // remove the first header of the trailing section or prepend one more before it
            let first: u64 = r.headers[0].header().raw().number().unpack();
            if first > 1 && rng.chance(1, 2) { r.headers.insert(0, chain.packed_vheader(first - 1)); "prepend-header" } else { r.headers.remove(0); "drop-first-header" }
        }
        _ => { r.proof.push(packed::HeaderDigest::default()); "append-proof-item" }
    };
    // a careful forger re-proves the tampered header set: the MMR proof then verifies for exactly the returned (genuine)
    // headers, and only the structural checks (matching, continuity, counts) can tell the answer from an honest one
    let what = match what {
        "drop-header" | "drop-first-header" | "prepend-header" | "swap-headers" if rng.chance(2, 3) => {
            let last_n: u64 = r.last.header().raw().number().unpack();
            let numbers: Vec<u64> = r.headers.iter().map(|h| h.header().raw().number().unpack()).collect();
            let genuine = numbers.iter().zip(r.headers.iter()).all(|(n, h)| *n < last_n && chain.headers[*n as usize].hash() == h.header().calc_header_hash());
            if genuine && numbers.windows(2).all(|w| w[0] < w[1]) && chain.has_root(last_n) {
                r.proof = chain.proof(last_n, &numbers).into_iter().collect();
                match what { "drop-header" => "drop-header-reproved", "drop-first-header" => "drop-first-header-reproved", "prepend-header" => "prepend-header-reproved", _ => what }
            } else { what }
        }
        w => w,
    };
    (r, what)
}

/// a subset of the honest answer's (genuine) headers with an MMR proof rebuilt for exactly that subset
fn mutate_reproved(rng: &mut Rng, base: &Resp, chain: &SynChain) -> Option<(Resp, &'static str)> {
    let last_n: u64 = base.last.header().raw().number().unpack();
    if !chain.has_root(last_n) || base.headers.len() < 2 { return None; }
    let mut r = Resp { last: base.last.clone(), headers: base.headers.clone(), proof: base.proof.clone() };
    let nh = r.headers.len();
    let what = match rng.below(5) {
        0 => { r.headers.remove(nh - 1); "drop-last-header-reproved" }
        1 => { let k = rng.below(nh as u64) as usize; r.headers.remove(k); "drop-header-reproved" }
        2 => { let k = nh - 1 - rng.below((nh as u64).min(4)) as usize; r.headers.remove(k); "drop-tail-header-reproved" }
        3 if nh > 2 => { let k = rng.below(nh as u64 - 1) as usize; r.headers.remove(k); r.headers.remove(k); "drop-two-headers-reproved" }
        _ => { let keep = rng.range(1, nh as u64 - 1) as usize; r.headers.truncate(keep); "truncate-headers-reproved" }
    };
    let numbers: Vec<u64> = r.headers.iter().map(|h| h.header().raw().number().unpack()).collect();
    r.proof = chain.proof(last_n, &numbers).into_iter().collect();
    Some((r, what))
}

fn state_fingerprint(c: &Client, peer: PeerIndex) -> String {
    let st = c.state(peer);
    let rq = st.as_ref().and_then(|s| s.get_prove_request()).map(|r| format!("{}|{}|{}", xid(r.get_last_header()), r.if_skip_check_tau(), r.if_long_fork_detected()));
    format!("{}#{}#{:?}#{:?}", obs_prove(&st).to_coq(), obs_store(c).to_coq(), last_state_xid(&st), rq)
}

#[allow(clippy::too_many_arguments)]
pub(crate) fn handler_case(out: &mut Out, id: &str, tags: &[&str], c: &mut Client, peer: PeerIndex, resp: &Resp, honest: bool, identical_to_honest: bool, tau: u64, descr: &str) -> bool {
    intern_reset(true);
    let before = c.state(peer);
    let before_fp = state_fingerprint(c, peer);
    let before_trusted = format!("{}#{}", obs_prove(&before).to_coq(), obs_store(c).to_coq());
    let peer_t = peer_term(c, peer);
    let store_t = store_term(c);
    let last_vh: VerifiableHeader = resp.last.clone().into();
    let vhs: Vec<VerifiableHeader> = resp.headers.iter().map(|h| h.clone().into()).collect();
    let proof = packed::HeaderDigestVec::new_builder().set(resp.proof.clone()).build();
    let mmr = mmr_oracle(&last_vh, &proof, &vhs);
    // oracle values for the two request rebuilders
    let last_td = catch(|| last_vh.total_difficulty());
    let (start_td, start_num) = match before.as_ref().and_then(|s| s.get_prove_state()) {
        Some(ps) => (ps.get_last_header().total_difficulty(), ps.get_last_header().header().number()),
        None => { let (td, tip) = c.storage.get_last_state(); (td, tip.into_view().number()) }
    };
    let rebuild = last_td.as_ref().map(|t| !(start_td > *t || start_num >= last_vh.header().number())).unwrap_or(false);
    let rebuild_genesis = last_vh.header().number() > 0;
    let model = format!(
        "(run_execute {} {} {} {} {} {} {} {} {} {})",
        c.lc.last_n_blocks(), tau, peer_t, store_t,
        vh_term(&last_vh, &c.consensus, c.mmr_activated_epoch), resp.proof.is_empty(),
        coq_list(&vhs.iter().map(|h| vh_term(h, &c.consensus, c.mmr_activated_epoch)).collect::<Vec<_>>()),
        mmr, rebuild, rebuild_genesis
    );
    let o = c.recv(peer, &resp.message());
    let after = c.state(peer);
    let after_trusted = format!("{}#{}", obs_prove(&after).to_coq(), obs_store(c).to_coq());
    let last_state_changed = last_state_xid(&before) != last_state_xid(&after);
    let v = if o.panicked { Val::l(vec![Val::n(3)]) } else {
        let code = o.ban.unwrap_or(200);
        let rq = if last_state_changed { Val::l(vec![Val::n(9)]) } else {
            Val::opt(after.as_ref().and_then(|s| s.get_prove_request()).map(|r| Val::l(vec![Val::b(r.if_skip_check_tau()), Val::b(r.if_long_fork_detected())])))
        };
        let sent = if last_state_changed { Val::n(9) } else { Val::b(find_request(&o).is_some()) };
        Val::l(vec![Val::n(code), obs_prove(&after), rq, sent, obs_store(c)])
    };
    let changed = before_trusted != after_trusted;
    // an accepted response ends with a run of headers, each the parent of the next and the last one the parent of the proven
    // header, at least last-N long (or covering everything from the requested start number)
    let discontinuous = {
        let hv: Vec<HeaderView> = vhs.iter().map(|h| h.header().clone()).collect();
        let start_number: u64 = before.as_ref().and_then(|s| s.get_prove_request()).map(|r| r.get_content().start_number().unpack()).unwrap_or(0);
        let ends_ok = hv.last().map(|h| last_vh.header().parent_hash() == h.hash()).unwrap_or(false);
        let mut run = if hv.is_empty() { 0 } else { 1 };
        for w in hv.windows(2).rev() { if w[1].parent_hash() == w[0].hash() && w[1].number() == w[0].number() + 1 { run += 1; } else { break; } }
        let new_headers = hv.iter().filter(|h| h.number() >= start_number).count() as u64;
        !ends_ok || (run as u64) < c.lc.last_n_blocks().min(new_headers)
    };
    let oracle = if o.panicked {
        Err("[C10-handler-panic] SendLastStateProof handler panicked".to_string())
    } else if changed && discontinuous {
        Err(format!("[C01-accepted-discontinuous] an accepted response does not end with last-N headers chained up to the proven header (returned numbers {:?}, proven {})",
            vhs.iter().map(|h| h.header().number()).collect::<Vec<_>>(), last_vh.header().number()))
    } else if o.ban.is_some() && before_fp != state_fingerprint(c, peer) {
        Err("[C01-reject-changed-state] the response was rejected (peer banned) but state changed".to_string())
    } else if changed && !honest && !identical_to_honest {
        Err("[C01-accepted-mutated] trusted state changed on a response that is not the honest answer to the outstanding request".to_string())
    } else if honest && (o.ban.is_some()) {
        let class = if descr.contains("sampled [] ") && !descr.contains("small-gap-regime") && o.ban == Some(400) { "C05-honest-rejected-no-sample-in-sampled-gap" } else { "C05-honest-rejected" };
        Err(format!("[{}] the honest response was rejected with status {}", class, o.ban.unwrap()))
    } else if honest && !changed && find_request(&o).is_none() {
        Err("[C05-honest-ignored] the honest response neither changed the proved state nor triggered a re-check".to_string())
    } else { Ok(()) };
    out.case(id, tags, &model, &v, oracle, descr);
    intern_reset(false);
    changed
}

fn part_b(rng: &mut Rng, n: u64, out: &mut Out) {
    let consensus = dummy_consensus();
    let peer = PeerIndex::new(3);
    let tau = 2u64;
    let mut i = 0u64;
    let mut setup_failures = 0u64;
    while i < n {
        let last_n = *rng.pick(&[1u64, 2, 3, 5, 10]);
        let variable = rng.chance(2, 3);
        let epochs = rng.range(3, 24) as usize;
        let pbits = *rng.pick(&[8u32, 20, 60]);
        let plan = if variable { legal_plan(rng, epochs, 2, 9, pbits) } else { flat_plan(epochs, rng.range(3, 12), rng.range(1, 50)) };
        let total = plan_blocks(&plan);
        if total < 4 { continue; }
        let act = *rng.pick(&[0u64, 0, 1, 2]);
        let chain = Rc::new(SynChain::new_with_activation(plan, total, 1, act));
        let tip = rng.range(2, total - 1);
        let first = if rng.chance(1, 2) { None } else {
            let gap = match rng.below(4) { 0 => rng.range(2, last_n + 1), 1 => last_n + 1, _ => rng.range(2, tip) };
            if gap >= tip { None } else { Some(tip - gap) }
        };
        let fork_at = rng.range(0, tip - 1);
        let fork = chain.fork(fork_at, tip - fork_at + 2, 77, None);
        let scn = Scn { chain: chain.clone(), last_n, first, tip };
        let shape = match first { None => "fresh", Some(f) if tip - f <= last_n => "with-proof-small-gap", _ => "with-proof-sampled" };
        // honest + 3 mutations, each on a freshly prepared client
        for m in 0..4 {
            let (mut c, req) = match setup(&scn, &consensus, peer) {
                Ok(x) => x,
                Err(e) => { setup_failures += 1; out.stat(&format!("setup_failure_{}", i), &e); break; }
            };
            let plan = match prover::plan_response(&chain, &req) { Some(p) => p, None => break };
            let numbers = plan.numbers();
            let base = Resp {
                last: chain.packed_vheader(plan.last),
                headers: numbers.iter().map(|x| chain.packed_vheader(*x)).collect(),
                proof: chain.proof(plan.last, &numbers).into_iter().collect(),
            };
            let descr_base = format!("chain of {} blocks ({} epochs, {} difficulty), last_n={}, previously proven={:?}, announced tip={}, request start={} with {} difficulties{}; honest response = reorg {:?} sampled {:?} last-N {:?}",
                total, epochs, if variable { "variable" } else { "flat" }, last_n, first, tip, Unpack::<u64>::unpack(&req.start_number()), req.difficulties().len(),
                if plan.last - Unpack::<u64>::unpack(&req.start_number()) <= last_n { " (small-gap-regime)" } else { "" }, plan.reorg, plan.sampled, plan.last_n);
            if m == 0 {
                handler_case(out, &format!("handler-{}-honest", i), &["handler", "honest", shape], &mut c, peer, &base, true, true, tau, &descr_base);
            } else {
                let (r, what) = match if m == 3 { mutate_reproved(rng, &base, &chain) } else { None } { Some(x) => x, None => mutate_response(rng, &base, &chain, &fork) };
                // identical up to fields nothing authenticates: the parent chain root of a header that, before
                // MMR activation, does not commit to one (the stored headers are the same either way)
                let same = r.message().as_slice() == base.message().as_slice() || {
                    let strip = |vh: &packed::VerifiableHeader| -> Vec<u8> {
                        let n: u64 = vh.header().raw().number().unpack();
                        if (n as usize) < chain.headers.len() && chain.headers[n as usize].hash() == vh.header().calc_header_hash() && !chain.has_root(n) {
                            vh.clone().as_builder().parent_chain_root(Default::default()).build().as_slice().to_vec()
                        } else { vh.as_slice().to_vec() }
                    };
                    r.headers.len() == base.headers.len()
                        && r.headers.iter().zip(base.headers.iter()).all(|(a, b)| strip(a) == strip(b))
                        && strip(&r.last) == strip(&base.last)
                        && r.proof.len() == base.proof.len()
                        && r.proof.iter().zip(base.proof.iter()).all(|(a, b)| a.as_slice() == b.as_slice())
                };
                handler_case(out, &format!("handler-{}-m{}", i, m), &["handler", "mutated", what, shape], &mut c, peer, &r, false,
                    // a re-proved subset of genuine headers that passes every check IS a verified proof: only the correspondence judges it
                    same || what.ends_with("-reproved"), tau,
                    &format!("{}; mutation: {}", descr_base, what));
            }
        }
        i += 1;
    }
    out.stat("setup_failures", &format!("{}", setup_failures));
}

/// Part C: a real PoW engine.  Chains are mined by nonce search at small difficulties, one block of the serving branch is left
/// unmined; the honest prover over that branch returns it in the reorg, the sampled or the last-N section.  Every other check
/// (shape, chain roots, continuity, MMR proof) passes, so the PoW verdict of that one header is the only failing gate.
fn part_c(rng: &mut Rng, n: u64, out: &mut Out) {
    let mut consensus = dummy_consensus();
    consensus.pow = { use crate::tests::prelude::ChainExt; crate::tests::utils::MockChain::new_with_default_pow("verif-pow").consensus().pow.clone() };
    let engine = consensus.pow_engine();
    let peer = PeerIndex::new(3);
    let tau = 2u64;
    for i in 0..n {
        let last_n = *rng.pick(&[2u64, 3, 5]);
        let plan = flat_plan(12, rng.range(4, 9), rng.range(2, 12));
        let total = plan_blocks(&plan).min(60);
        let e2 = engine.clone();
        super::chain::POW.with(|p| *p.borrow_mut() = Some((Box::new(move |h: &packed::Header| e2.verify(h)), u64::MAX)));
        let main = Rc::new(SynChain::new_with_activation(plan, total, 1, 0));
        let first = rng.range(last_n + 4, total - 12);
        let fork_at = first - rng.range(2, last_n.max(2));   // the fork point is remembered
        // where the unmined block of the serving branch lies: reorg section (0, 1), between, last-N section - or nowhere (control)
        let section = match rng.below(6) { 0 | 1 | 2 => 0, 3 => 1, 4 => 2, _ => 3 };
        // (a reorg section is only sent when the request starts at the proven header: more than last-N blocks ahead)
        let tip = first + if section == 0 { rng.range(last_n + 2, 10) } else { match rng.below(3) { 0 => rng.range(1, last_n), _ => rng.range(last_n + 2, 10) } };
        let bad = match section { 0 => rng.range(fork_at + 1, first - 1), 1 => rng.range(first, tip - 1), 2 => tip - 1, _ => u64::MAX };
        let e3 = engine.clone();
        super::chain::POW.with(|p| *p.borrow_mut() = Some((Box::new(move |h: &packed::Header| e3.verify(h)), bad)));
        let fork = Rc::new(main.fork(fork_at, tip - fork_at + 2, 55, None));
        super::chain::POW.with(|p| *p.borrow_mut() = None);
        // the client proves `first` on the main branch, then the peer announces the other branch
        let mut c = Client::new(&main, &consensus, last_n, 1);
        c.connect(peer);
        let ok = (|| -> Option<packed::GetLastStateProof> {
            let o = c.recv(peer, &prover::last_state_message(&main, first));
            let mut r = find_request(&o)?;
            for _ in 0..2 {
                let resp = prover::respond(&main, &r)?;
                let o = c.recv(peer, &packed::LightClientMessage::new_builder().set(resp).build());
                if o.ban.is_some() || o.panicked { return None; }
                match find_request(&o) { Some(r2) => r = r2, None => break }
            }
            let o = c.recv(peer, &prover::last_state_message(&fork, tip));
            if o.ban.is_some() { return None; }
            let o = c.tick(REFRESH_PEERS_TOKEN, peer);
            find_request(&o)
        })();
        let req = match ok { Some(r) => r, None => { out.stat(&format!("pow_setup_failure_{}", i), "no request for the other branch"); continue; } };
        let plan = match prover::plan_response(&fork, &req) { Some(p) => p, None => continue };
        let numbers = plan.numbers();
        let base = Resp { last: fork.packed_vheader(plan.last), headers: numbers.iter().map(|x| fork.packed_vheader(*x)).collect(), proof: fork.proof(plan.last, &numbers).into_iter().collect() };
        let returned_bad = numbers.contains(&bad);
        let where_ = if !returned_bad { "all-mined" } else if plan.reorg.contains(&bad) { "unmined-in-reorg-section" } else if plan.sampled.contains(&bad) { "unmined-in-sampled-section" } else { "unmined-in-last-n-section" };
        let descr = format!("PoW engine {}: main branch of {} blocks, client proven at #{}, the peer switches to a branch forking at #{} (tip #{}), last_n={}; the honest answer over that branch = reorg {:?} sampled {:?} last-N {:?}; unmined block: {}",
            consensus.pow, total, first, fork_at, tip, last_n, plan.reorg, plan.sampled, plan.last_n, if bad == u64::MAX { "none".to_string() } else { format!("#{}", bad) });
        // every third world: instead of the proof the peer answers with ANOTHER last header and no proof (the server's "my tip moved"
        // answer) - a header whose nonce does not satisfy its target; it must not even become the peer's last state
        if bad != u64::MAX && bad < fork.len() && i % 3 == 1 {
            let other = Resp { last: fork.packed_vheader(bad), headers: Vec::new(), proof: Vec::new() };
            handler_case(out, &format!("pow-{}-newlast", i), &["handler", "pow-engine", "new-last-state-without-pow"], &mut c, peer, &other, false, false, tau,
                &format!("{}; the peer answers the request with the unmined block #{} as its new last state and no proof", descr, bad));
            continue;
        }
        handler_case(out, &format!("pow-{}", i), &["handler", "pow-engine", where_], &mut c, peer, &base, !returned_bad, !returned_bad, tau, &descr);
    }
}

/// Part D: a fork switch (reorg section + sampled section) onto a branch whose epoch difficulties agree with the proven chain at both
/// end points but make an impossible excursion in between (64x / 1000x for one to three epochs): shape, chain roots, PoW, the tau
/// check of the end points, continuity and the MMR proof all pass; only the total-difficulty range check can reject it.
fn part_d(rng: &mut Rng, n: u64, out: &mut Out) {
    use ckb_types::utilities::difficulty_to_compact;
    let consensus = dummy_consensus();
    let peer = PeerIndex::new(3);
    let tau = 2u64;
    for i in 0..n {
        let last_n = *rng.pick(&[2u64, 3, 5]);
        let elen = rng.range(3, 6);
        let d = rng.range(2, 20);
        let plan = flat_plan(14, elen, d);
        let total = plan_blocks(&plan);
        let main = Rc::new(SynChain::new_with_activation(plan.clone(), total, 1, 0));
        let fe = rng.range(2, 4);
        let first = fe * elen + rng.range(0, elen - 1);
        let fork_at = first - rng.range(2, last_n.max(2));
        let excursion = match rng.below(3) { 0 => 1u64, 1 => 64, _ => 1000 };
        let k = rng.range(1, 3);
        let mut plan2 = plan.clone();
        for e in (fe + 1)..(fe + 1 + k) { plan2[e as usize].compact = difficulty_to_compact(U256::from(d * excursion)); }
        let tip_epoch = fe + 1 + k + rng.range(0, 2);
        let tip = (tip_epoch * elen + rng.range(0, elen - 1)).min(total - 2);
        let fork = Rc::new(main.fork(fork_at, tip - fork_at + 2, 56, Some(plan2)));
        let mut c = Client::new(&main, &consensus, last_n, 1);
        c.connect(peer);
        let ok = (|| -> Option<packed::GetLastStateProof> {
            let o = c.recv(peer, &prover::last_state_message(&main, first));
            let mut r = find_request(&o)?;
            for _ in 0..2 {
                let resp = prover::respond(&main, &r)?;
                let o = c.recv(peer, &packed::LightClientMessage::new_builder().set(resp).build());
                if o.ban.is_some() || o.panicked { return None; }
                match find_request(&o) { Some(r2) => r = r2, None => break }
            }
            let o = c.recv(peer, &prover::last_state_message(&fork, tip));
            if o.ban.is_some() { return None; }
            let o = c.tick(REFRESH_PEERS_TOKEN, peer);
            find_request(&o)
        })();
        let req = match ok { Some(r) => r, None => { out.stat(&format!("excursion_setup_failure_{}", i), "no request for the other branch"); continue; } };
        let plan = match prover::plan_response(&fork, &req) { Some(p) => p, None => continue };
        let numbers = plan.numbers();
        let base = Resp { last: fork.packed_vheader(plan.last), headers: numbers.iter().map(|x| fork.packed_vheader(*x)).collect(), proof: fork.proof(plan.last, &numbers).into_iter().collect() };
        let legal = excursion == 1;
        let descr = format!("main branch: {} epochs of {} blocks at difficulty {}; client proven at #{} (epoch {}); the peer switches to a branch forking at #{} whose epochs {}..{} run at {}x the difficulty, tip #{} (epoch {}), last_n={}; its answer = reorg {:?} sampled {:?} last-N {:?}",
            14, elen, d, first, fe, fork_at, fe + 1, fe + k, excursion, tip, tip_epoch, last_n, plan.reorg, plan.sampled, plan.last_n);
        handler_case(out, &format!("excursion-{}", i), &["handler", "difficulty-excursion", if legal { "legal-branch" } else { "impossible-total-difficulty" }, if plan.reorg.is_empty() { "no-reorg-section" } else { "reorg-section" }, if plan.sampled.is_empty() { "no-samples" } else { "sampled" }],
            &mut c, peer, &base, legal, legal, tau, &descr);
    }
}

pub(crate) fn run(seed: u64, n: u64, out: &mut Out) {
    let guard = ckb_systemtime::faketime();
    guard.set_faketime(T0);
    let mut rng = Rng::new(seed);
    part_a(&mut rng, n, out);
    part_b(&mut rng, (n / 4).max(10), out);
    part_c(&mut rng, (n / 10).max(12), out);
    part_d(&mut rng, (n / 10).max(12), out);
}
