//! C06 (and the end-to-end side of C03 / C09): BlockFilters messages through FilterProtocol::received on a
//! whole client, honest and mutated, at every position relative to the finalized / cached check points;
//! matched blocks are then proven and downloaded through the real light-client and sync handlers.
//! Correspondence with Model/Filters.v; "no skipped activity" oracle against the generated chain.
use std::collections::HashMap;
use std::io::Cursor;

use ckb_network::PeerIndex;
use ckb_types::{packed, prelude::*};
use golomb_coded_set::{GCSFilterReader, SipHasher24Builder, M, P};
use rocksdb::{ops::Iterate, IteratorMode};

use super::chain::{flat_plan, T0};
use super::client::dummy_consensus;
use super::out::{coq_list, Out, Val};
use super::prng::Rng;
use super::world::*;
use crate::protocols::GET_BLOCK_FILTERS_TOKEN;
use crate::storage::{extract_raw_data, ScriptStatus, ScriptType, SetScriptsCommand};

pub(crate) struct Interner { map: HashMap<Vec<u8>, u64>, next: u64 }
impl Interner {
    pub(crate) fn new(base: u64) -> Interner { Interner { map: HashMap::new(), next: base } }
    pub(crate) fn id(&mut self, b: &[u8]) -> u64 {
        if let Some(x) = self.map.get(b) { return *x; }
        self.next += 1;
        self.map.insert(b.to_vec(), self.next);
        self.next
    }
}

/// all pending matched records of the store: (start, count, [(hash, proved)])
pub(crate) fn matched_records(net: &Net) -> Vec<(u64, u64, Vec<(packed::Byte32, bool)>)> {
    let mut v = Vec::new();
    for (k, val) in net.storage.db.iterator(IteratorMode::Start) {
        if k[0] == 224 && k[1..].starts_with(b"MATCHED_BLOCKS") && k.len() == 1 + 14 + 8 {
            let start = u64::from_be_bytes(k[15..].try_into().unwrap());
            let count = u64::from_le_bytes(val[0..8].try_into().unwrap());
            let blocks = val[8..].chunks(33).map(|c| (packed::Byte32::from_slice(&c[..32]).unwrap(), c[32] == 1)).collect();
            v.push((start, count, blocks));
        }
    }
    v.sort_by_key(|r| r.0);
    v
}

/// the cell index of one registered script: (block, tx index, output index, tx hash)
pub(crate) fn indexed_cells(net: &Net, script: &packed::Script, is_lock: bool) -> Vec<(u64, u32, u32, packed::Byte32)> {
    let mut pfx = vec![if is_lock { 32u8 } else { 64u8 }];
    pfx.extend_from_slice(&extract_raw_data(script));
    let mut got = Vec::new();
    for (k, v) in net.storage.db.iterator(IteratorMode::Start) {
        if k.len() == pfx.len() + 16 && k.starts_with(&pfx) {
            let n = k.len();
            got.push((u64::from_be_bytes(k[n - 16..n - 8].try_into().unwrap()), u32::from_be_bytes(k[n - 8..n - 4].try_into().unwrap()), u32::from_be_bytes(k[n - 4..].try_into().unwrap()), packed::Byte32::from_slice(&v).unwrap()));
        }
    }
    got.sort_by(|a, b| (a.0, a.1, a.2).cmp(&(b.0, b.1, b.2)));
    got
}

/// answer GetBlocksProof / GetBlocks requests honestly until the client is quiet
pub(crate) fn pump_downloads(net: &mut Net, bc: &BodyChain, first: Vec<(PeerIndex, Sent)>, problems: &mut Vec<String>) {
    let _ = pump_downloads_until(net, bc, first, problems, false);
}

/// as pump_downloads; with `stop_at_record` it stops as soon as one pending record has been completed and returns what is still unanswered
pub(crate) fn pump_downloads_until(net: &mut Net, bc: &BodyChain, first: Vec<(PeerIndex, Sent)>, problems: &mut Vec<String>, stop_at_record: bool) -> Vec<(PeerIndex, Sent)> {
    let records0 = matched_records(net).len();
    let mut queue = first;
    for _ in 0..40 {
        if queue.is_empty() { break; }
        let mut next = Vec::new();
        for (p, s) in queue {
            match s {
                Sent::GetBlocksProof(req) => {
                    if let Some(resp) = serve_blocks_proof(&bc.chain, &req) {
                        let r = net.lc_recv(p, blocks_proof_message(resp));
                        if r.panicked { problems.push("[C10-handler-panic] SendBlocksProof made the handler panic".into()); }
                        next.extend(r.sent);
                    }
                }
                Sent::GetBlocks(hashes) => {
                    for h in hashes {
                        if let Some(n) = bc.chain.number_of(&h) {
                            let r = net.sp_recv(p, send_block_message(bc.chain.block(n)));
                            if r.panicked { problems.push(format!("[C10-handler-panic] SendBlock panicked: {}", super::last_panic())); }
                            next.extend(r.sent);
                            if stop_at_record && matched_records(net).len() < records0 { return next; }
                        }
                    }
                }
                _ => {}
            }
        }
        queue = next;
    }
    Vec::new()
}

pub(crate) fn run(seed: u64, n: u64, out: &mut Out) {
    let guard = ckb_systemtime::faketime();
    guard.set_faketime(T0);
    let mut rng = Rng::new(seed);
    let consensus = dummy_consensus();
    let interval = 10u64;
    let reader = GCSFilterReader::new(SipHasher24Builder::new(0, 0), M, P);
    let mut case_no = 0u64;
    run_download_order(&mut rng, out, &consensus);
    run_pending_in_store_only(&mut rng, out, &consensus);
    run_substituted_body(&mut rng, out, &consensus);
    for world in 0..n {
        let pool: Vec<packed::Script> = (1..=4u8).map(|i| pool_script(7, &[i])).collect();
        let mut gen = TxGen::new(pool.clone(), world * 100_000, 3);
        let len = rng.range(38, 64);
        let bc = BodyChain::new(&mut rng, flat_plan(8, 8, 5), len, 1 + world, &mut gen);
        let fork_at = rng.range(2, len - 6);
        let other = bc.fork(&mut rng, fork_at, 5, 7_000 + world, pool.clone(), 3);
        let max_outbound = rng.range(1, 4) as u32;
        let required = ((max_outbound + 1) / 2) as usize;
        let n_peers = rng.range(required as u64, max_outbound as u64 + 1) as usize;
        let mut net = Net::new(&bc.chain, &consensus, 5, max_outbound, interval);
        let mut hid = Interner::new(1000);
        let mut fid = Interner::new(500_000);
        // registered scripts
        let k = rng.range(1, 3);
        let mut statuses = Vec::new();
        let mut reg: Vec<(usize, bool, u64)> = Vec::new();
        for _ in 0..k {
            let sid = rng.below(4) as usize;
            let is_lock = rng.chance(2, 3);
            if reg.iter().any(|r| r.0 == sid && r.1 == is_lock) { continue; }
            reg.push((sid, is_lock, 0));
            statuses.push(ScriptStatus { script: pool[sid].clone(), script_type: if is_lock { ScriptType::Lock } else { ScriptType::Type }, block_number: 0 });
        }
        net.storage.update_filter_scripts(statuses, SetScriptsCommand::All);
        // finalized check points
        let fin = rng.below(((len - 1) / interval).min(3) + 1);
        if fin > 0 {
            let cps: Vec<packed::Byte32> = (1..=fin).map(|i| bc.fhashes[(i * interval) as usize].clone()).collect();
            net.storage.update_check_points(1, &cps);
            net.storage.update_max_check_point_index(fin as u32);
            net.restart();
        }
        // proven peers
        let tip = bc.tip();
        let ids: Vec<PeerIndex> = (0..n_peers).map(|i| PeerIndex::new(i + 1)).collect();
        let mut all_proven = true;
        for id in &ids { all_proven &= net.prove_peer(*id, &bc.chain, tip); }
        if !all_proven { out.stat("c06-unproven-world", &format!("{}", world)); continue; }
        let stranger = PeerIndex::new(77);
        let unproven = PeerIndex::new(78);
        net.lc_connect(unproven);
        // the latest hashes each peer has delivered (after the finalized check point)
        let fin_number = fin * interval;
        let latest_len = rng.range(0, (tip - fin_number).min(2 * interval + 3));
        let mut peer_hashes: Vec<Vec<packed::Byte32>> = Vec::new();
        for (i, id) in ids.iter().enumerate() {
            let l = if i == 0 || rng.chance(2, 3) { latest_len } else { rng.range(0, latest_len) };
            let mut hs: Vec<packed::Byte32> = (1..=l).map(|j| bc.fhashes[(fin_number + j) as usize].clone()).collect();
            // at most one deviating peer, and only next to at least two honest ones: with equally many votes for two values the
            // winner is the iteration order of a HashMap built afresh in every call (not even the client itself sees one value)
            if i == 1 && n_peers >= 3 && rng.chance(1, 3) && !hs.is_empty() { let j = rng.below(hs.len() as u64) as usize; hs[j] = other.fhashes[(fin_number + 1 + j as u64).min(other.tip()) as usize].clone(); }
            peer_hashes.push(hs.clone());
            net.peers.mock_latest_block_filter_hashes(*id, fin_number, hs);
        }
        // where filter syncing stands
        let m0 = if fin > 0 && rng.chance(1, 2) { rng.range(0, fin_number) } else { rng.range(fin_number, (fin_number + latest_len).min(tip - 1) + 1) };
        net.storage.update_min_filtered_block_number(m0);
        net.peers.update_min_filtered_block_number(m0);
        {
            let (ci, _) = net.peers.get_cached_block_filter_hashes();
            let base = ci as u64 * interval;
            let full: Vec<packed::Byte32> = (1..=interval).filter(|j| base + j <= tip).map(|j| bc.fhashes[(base + j) as usize].clone()).collect();
            let cached = match rng.below(6) { 0 => Vec::new(), 1 => full[..rng.below(full.len() as u64 + 1) as usize].to_vec(), _ => full };
            net.peers.update_cached_block_filter_hashes(cached);
        }
        // scripts stand where filter syncing stands (a caught-up store)
        net.storage.update_block_number(m0);
        for r in reg.iter_mut() { r.2 = m0; }
        if rng.chance(1, 3) {
            // one more script, registered from a block a little above current progress (inside one of the next batches)
            let sid = rng.below(4) as usize;
            let is_lock = rng.chance(2, 3);
            if !reg.iter().any(|r| r.0 == sid && r.1 == is_lock) {
                let from = m0 + rng.range(1, 6);
                net.storage.update_filter_scripts(vec![ScriptStatus { script: pool[sid].clone(), script_type: if is_lock { ScriptType::Lock } else { ScriptType::Type }, block_number: from }], SetScriptsCommand::Partial);
                reg.push((sid, is_lock, from));
            }
        }

        let steps = rng.range(3, 9);
        let delayed_world = world % 4 == 1;
        // a batch whose block hashes were tampered with (substituted, or swapped between two blocks with byte-identical filters) was
        // accepted earlier in this world: what the index misses from then on is the consequence of the listed C06 finding, whichever
        // later step brings it to light (in the delayed-download worlds the downloads come steps later)
        let mut tainted = false;
        let mut held: Vec<(PeerIndex, Sent)> = Vec::new();
        for _step in 0..steps {
            let min_before = net.storage.get_min_filtered_block_number();
            let honest_batch = rng.range(1, interval + 5);
            let mut start = min_before + 1;
            let mut what = "honest";
            let mut peer = ids[rng.below(ids.len() as u64) as usize];
            let base = serve_block_filters(&bc, start, honest_batch);
            let mut filters: Vec<packed::Bytes> = base.filters().into_iter().collect();
            let mut hashes: Vec<packed::Byte32> = base.block_hashes().into_iter().collect();
            // the window after a restart or a fork rollback: records are pending in the store, the in-memory map is still empty
            // (the 3 s timer has not recovered them yet); a late or duplicate answer (start not continuous) is likely then
            let window = rng.chance(1, 5);
            if window { if let Ok(mut g) = net.peers.matched_blocks().write() { g.clear(); } }
            match if window && rng.chance(1, 2) { 2 } else if delayed_world && rng.chance(2, 3) { 99 } else { rng.below(20) } {
                0 if !filters.is_empty() => { what = "tampered-filter"; let j = rng.below(filters.len() as u64) as usize; let mut b = filters[j].raw_data().to_vec(); if b.is_empty() { b.push(1); } else { let k = rng.below(b.len() as u64) as usize; b[k] ^= 1 << rng.below(8); } filters[j] = ckb_types::bytes::Bytes::from(b).pack(); }
                1 if !filters.is_empty() => { what = "foreign-filter"; let j = rng.below(filters.len() as u64) as usize; filters[j] = bc.filters[rng.range(1, tip) as usize].clone(); }
                2 => { what = "shifted-start"; start = match rng.below(3) { 0 => start + 1, 1 => start.saturating_sub(1), _ => rng.range(0, tip + 3) }; }
                3 if !hashes.is_empty() => { what = "count-mismatch"; if rng.chance(1, 2) { hashes.pop(); } else { hashes.push(bc.chain.headers[1].hash()); } }
                4 | 12 | 16 | 17 if !hashes.is_empty() => { what = "substituted-block-hash";
                    // mostly at a position whose block touches a registered script (only those end up in a record)
                    let touching: Vec<usize> = (0..hashes.len()).filter(|j| reg.iter().any(|r| bc.touches(start + *j as u64, &pool[r.0]))).collect();
                    let j = if !touching.is_empty() && rng.chance(3, 4) { *rng.pick(&touching) } else { rng.below(hashes.len() as u64) as usize }; hashes[j] = if rng.chance(1, 2) { bc.chain.headers[rng.range(1, tip) as usize].hash() } else { other.chain.headers[other.tip() as usize].hash() }; }
                5 => { what = "empty"; filters.clear(); hashes.clear(); }
                6 => { what = "unproven-peer"; peer = unproven; }
                7 => { what = "unknown-peer"; peer = stranger; }
                8 if filters.len() >= 2 => { what = "swapped"; let j = rng.below(filters.len() as u64 - 1) as usize; filters.swap(j, j + 1); hashes.swap(j, j + 1); }
                9 => { what = "other-branch"; let b = serve_block_filters(&other, start, honest_batch); filters = b.filters().into_iter().collect(); hashes = b.block_hashes().into_iter().collect(); }
                11 if !hashes.is_empty() && ids.contains(&peer) => {
                    // the peer first ANNOUNCES a header (a last state is only an announcement, nothing proves it), then names it
                    // as the block of every filter of the batch: only the PROVEN header may skip the block proof
                    what = "substituted-by-announced-header";
                    net.lc_recv(peer, super::prover::last_state_message(&other.chain, other.tip()).as_bytes());
                    let h = other.chain.headers[other.tip() as usize].hash();
                    for x in hashes.iter_mut() { *x = h.clone(); }
                }
                10 => { what = "long-batch"; let b = serve_block_filters(&bc, start, 3 * interval); filters = b.filters().into_iter().collect(); hashes = b.block_hashes().into_iter().collect(); }
                13 | 14 => {
                    // more filters than the client has hashes for, the surplus being bytes no GCS reader can decode: only the verified
                    // prefix may ever be looked at
                    what = "long-batch-with-undecodable-tail";
                    let b = serve_block_filters(&bc, start, 3 * interval); filters = b.filters().into_iter().collect(); hashes = b.block_hashes().into_iter().collect();
                    for k in 0..rng.range(1, 3) {
                        let junk: Vec<u8> = match rng.below(3) { 0 => vec![1, 0, 0, 0, 0, 0, 0, 0], 1 => vec![0xff; 5], _ => vec![9, 0, 0, 0, 0, 0, 0, 0, 1, 2] };
                        filters.push(ckb_types::bytes::Bytes::from(junk).pack());
                        hashes.push(bc.chain.headers[((start + k) as usize).min(tip as usize)].hash());
                    }
                }
                _ => {}
            }
            // ---- the model's view of the world before the message ----
            let scripts_before: Vec<(u64, u64)> = net.storage.get_filter_scripts().iter().map(|ss| {
                let sid = pool.iter().position(|s| s == &ss.script).unwrap() as u64;
                (sid * 2 + if ss.script_type == ScriptType::Lock { 0 } else { 1 }, ss.block_number)
            }).collect();
            let peer_term = match net.peers.get_state(&peer) {
                None => "None".to_string(),
                Some(st) => match st.get_prove_state() { None => "(Some None)".into(), Some(ps) => format!("(Some (Some {}))", hid.id(ps.get_last_header().header().hash().as_slice())) },
            };
            let (fin_index, fin_hash) = net.storage.get_last_check_point();
            let (cached_index, cached) = net.peers.get_cached_block_filter_hashes();
            let cached_cp = net.storage.get_check_points(cached_index, 1).first().cloned();
            let latest = net.peers.get_latest_block_filter_hashes(fin_index);
            // the hashes the client trusts after the finalized check point: each one reported by at least `required` proven peers
            // that also agree on everything before it
            let mut quorum_problem: Option<String> = None;
            {
                let mut agreeing: Vec<&Vec<packed::Byte32>> = peer_hashes.iter().collect();
                for (j, h) in latest.iter().enumerate() {
                    agreeing.retain(|v| v.get(j) == Some(h));
                    if agreeing.len() < required { quorum_problem = Some(format!("[C06-latest-hash-without-quorum] the filter hash trusted for block {} is reported by {} proven peer(s), {} required", fin_index as u64 * interval + 1 + j as u64, agreeing.len(), required)); break; }
                }
            }
            // the vote itself against Model/LatestHashes.v: the proven peers' lists as mocked, the implementation's result as the choice
            if _step == 0 {
                let peers_term = coq_list(&peer_hashes.iter().enumerate().map(|(i, v)| format!("({}, {})", i + 1, coq_list(&v.iter().map(|h| format!("{}", hid.id(h.as_slice()))).collect::<Vec<_>>()))).collect::<Vec<_>>());
                let chosen = coq_list(&latest.iter().map(|h| format!("{}", hid.id(h.as_slice()))).collect::<Vec<_>>());
                out.case(&format!("latest-{}", world), &["latest-hashes-vote"], &format!("(run_latest {} {} {})", required, peers_term, chosen),
                    &Val::l(vec![Val::l(latest.iter().map(|h| Val::n(hid.id(h.as_slice()))).collect()), Val::b(true)]), Ok(()),
                    &format!("world {}: {} proven peers with {:?} hashes after the finalized check point, quorum {}: {} hashes trusted", world, peer_hashes.len(), peer_hashes.iter().map(|v| v.len()).collect::<Vec<_>>(), required, latest.len()));
            }
            let db_pending = net.storage.get_earliest_matched_blocks().is_some();
            let mem_empty = net.peers.matched_blocks().read().map(|g| g.is_empty()).unwrap_or(true);
            let records_before = matched_records(&net);
            // calc_filter_hash over the generated chains
            let mut htable: Vec<String> = Vec::new();
            for c in [&bc, &other] {
                for i in 1..=c.tip() as usize {
                    let t = format!("({}, {}, {})", hid.id(c.fhashes[i - 1].as_slice()), fid.id(c.filters[i].as_slice()), hid.id(c.fhashes[i].as_slice()));
                    if !htable.contains(&t) { htable.push(t); }
                }
            }
            // which registered-script ids each filter of the message matches (library call per script)
            let mut contains: Vec<String> = Vec::new();
            for f in &filters {
                let id = fid.id(f.as_slice());
                let mut ss: Vec<String> = Vec::new();
                for (sid, s) in pool.iter().enumerate() {
                    let h = s.calc_script_hash();
                    let mut input = Cursor::new(f.raw_data());
                    // tampered bytes can make the library itself unwind; such a filter never gets as far as matching
                    let hit = super::out::catch(|| reader.match_any(&mut input, &mut std::iter::once(h.as_slice())).unwrap_or(false)).unwrap_or(false);
                    if hit { ss.push(format!("{}", sid * 2)); ss.push(format!("{}", sid * 2 + 1)); }
                }
                let t = format!("({}, {})", id, coq_list(&ss));
                if !contains.contains(&t) { contains.push(t); }
            }
            let world_term = format!("(mkFW {} {} {} {} {} {} {} {} {} {} {} {} {} {})",
                coq_list(&scripts_before.iter().map(|(a, b)| format!("({}, {})", a, b)).collect::<Vec<_>>()),
                peer_term, min_before, db_pending, mem_empty, interval, fin_index, hid.id(fin_hash.as_slice()),
                cached_index, coq_list(&cached.iter().map(|h| format!("{}", hid.id(h.as_slice()))).collect::<Vec<_>>()),
                match &cached_cp { Some(h) => format!("(Some {})", hid.id(h.as_slice())), None => "None".into() },
                coq_list(&latest.iter().map(|h| format!("{}", hid.id(h.as_slice()))).collect::<Vec<_>>()),
                coq_list(&htable), coq_list(&contains));
            let msg_term = format!("(mkMsg {} {} {})", start,
                coq_list(&filters.iter().map(|f| format!("{}", fid.id(f.as_slice()))).collect::<Vec<_>>()),
                coq_list(&hashes.iter().map(|h| format!("{}", hid.id(h.as_slice()))).collect::<Vec<_>>()));
            // ---- deliver ----
            let content = packed::BlockFilters::new_builder().start_number(start.pack()).block_hashes(hashes.clone().pack()).filters(filters.clone().pack()).build();
            let r = net.fp_recv(peer, filters_message(content));
            let mut problems: Vec<String> = Vec::new();
            let ban = r.bans.iter().filter(|(p, _)| *p == peer).map(|(_, c)| *c).next().unwrap_or(0);
            let min_after = net.storage.get_min_filtered_block_number();
            if (what == "substituted-block-hash" || what == "swapped" || what == "substituted-by-announced-header") && min_after > min_before { tainted = true; }
            let scripts_after: Vec<(u64, u64)> = net.storage.get_filter_scripts().iter().map(|ss| {
                let sid = pool.iter().position(|s| s == &ss.script).unwrap() as u64;
                (sid * 2 + if ss.script_type == ScriptType::Lock { 0 } else { 1 }, ss.block_number)
            }).collect();
            let records_after = matched_records(&net);
            let new_record = records_after.iter().find(|r| !records_before.iter().any(|b| b.0 == r.0)).cloned();
            let mem_empty_after = net.peers.matched_blocks().read().map(|g| g.is_empty()).unwrap_or(true);
            let next: Option<u64> = r.sent.iter().filter_map(|(_, s)| if let Sent::GetBlockFilters(n) = s { Some(*n) } else { None }).next();
            let v = if r.panicked { Val::l(vec![Val::n(3)]) } else {
                Val::l(vec![Val::n(0), Val::n(ban), Val::n(min_after),
                    Val::l(scripts_after.iter().map(|(a, b)| Val::l(vec![Val::n(*a), Val::n(*b)])).collect()),
                    Val::opt(new_record.as_ref().map(|(s, c, bl)| Val::l(vec![Val::n(*s), Val::n(*c), Val::l(bl.iter().map(|(h, p)| Val::l(vec![Val::n(hid.id(h.as_slice())), Val::b(*p)])).collect())]))),
                    Val::b(mem_empty_after), Val::opt(next.map(Val::n))])
            };
            if r.panicked { problems.push(format!("[C10-filter-panic] BlockFilters made the handler panic: {}", super::last_panic())); }
            if let Some(q) = quorum_problem { problems.push(q); }
            // a record may be marked "proved" (no block proof asked) only for the header this peer has PROVEN
            if let Some((s0, _, bl)) = &new_record {
                let proven: Option<packed::Byte32> = net.peers.get_state(&peer).and_then(|st| st.get_prove_state().map(|ps| ps.get_last_header().header().hash()));
                for (j, (h, p)) in bl.iter().enumerate() {
                    if *p && Some(h) != proven.as_ref() {
                        problems.push(format!("[C06-unproven-block-marked-proved] [C02-unproven-matched-block-marked-proved] entry {} of the record starting at {} is marked proved although its hash is not the sender's proven header ({})", j, s0, what));
                        break;
                    }
                }
            }
            // ---- oracles (from the generated chain, independent of the model) ----
            // authenticity: progress only over filters that are the chain's own filters at those heights
            if min_after > min_before {
                for h in (min_before + 1)..=min_after {
                    let j = (h - start) as usize;
                    if start != min_before + 1 || j >= filters.len() || h > tip || filters[j].as_slice() != bc.filters[h as usize].as_slice() {
                        problems.push(format!("[C06-unauthentic-filter-accepted] filter progress moved over block {} although the filter sent for it is not the chain's ({}; start {}, {} filters)", h, what, start, filters.len()));
                        break;
                    }
                }
            }
            if min_after < min_before { problems.push(format!("[C06-progress-went-back] min filtered block number {} -> {}", min_before, min_after)); }
            if ban != 0 && what == "honest" { problems.push(format!("[C06-honest-batch-banned] an authentic batch was answered with a ban ({})", ban)); }
            // ---- let the downloads happen (honest answers), then look for skipped activity ----
            let mut follow = r.sent.clone();
            if delayed_world {
                // the answers are held back until two records are pending; then exactly the first record is completed and the
                // index is judged at that moment (get_scripts must not run ahead of the record still waiting)
                held.extend(follow.drain(..));
                if matched_records(&net).len() >= 2 {
                    let rest = pump_downloads_until(&mut net, &bc, std::mem::take(&mut held), &mut problems, true);
                    if let Some(p) = index_problem(&net, &bc, &pool, &reg, if tainted { "substituted-block-hash" } else { "first-of-two-records-completed" }) { problems.push(p); }
                    pump_downloads(&mut net, &bc, rest, &mut problems);
                }
            }
            if rng.chance(1, 6) { follow.clear(); }   // sometimes the answers come later
            pump_downloads(&mut net, &bc, follow, &mut problems);
            if rng.chance(1, 8) {
                // the periodic tick recovers matched blocks from the store
                let t = net.fp_tick(GET_BLOCK_FILTERS_TOKEN);
                pump_downloads(&mut net, &bc, t.sent, &mut problems);
            }
            // after the (honest) proofs: whatever is marked proved in a pending record is a block of the proven chain - a hash the
            // server reported missing stays unproved
            {
                let mem: Vec<(packed::Byte32, bool)> = net.peers.matched_blocks().read().map(|g| g.iter().map(|(h, v)| (h.pack(), v.0)).collect()).unwrap_or_default();
                if let Some((h, _)) = mem.iter().find(|(h, p)| *p && bc.chain.number_of(h).is_none()) {
                    problems.push(format!("[C06-unproven-block-marked-proved] [C02-unproven-matched-block-marked-proved] after the block proofs the matched block {:#x} is marked proved although no proof covers it (it is not on the proven chain: the server reported it missing)", h));
                }
            }
            if what == "substituted-block-hash" && hashes.iter().any(|h| h == &other.chain.headers[other.tip() as usize].hash()) && min_after > min_before {
                // the named block is not on the proven chain, so it can never be proven; the attacker sends its body anyway
                let before: Vec<u64> = net.storage.get_filter_scripts().iter().map(|s| s.block_number).collect();
                let rr = net.sp_recv(peer, send_block_message(other.chain.block(other.tip())));
                if rr.panicked { problems.push(format!("[C10-handler-panic] SendBlock panicked: {}", super::last_panic())); }
                let after: Vec<u64> = net.storage.get_filter_scripts().iter().map(|s| s.block_number).collect();
                if after != before {
                    problems.push(format!("[C06-unproven-block-indexed] [C02-unproven-block-indexed] a SendBlock for a matched hash that was never proven (a block of another branch) was processed: script numbers {:?} -> {:?}", before, after));
                }
            }
            if let Some(p) = index_problem(&net, &bc, &pool, &reg, if tainted { "substituted-block-hash" } else { what }) { problems.push(p); }
            if let Some(p) = table_problem(&net) { problems.push(p); }
            let skipped = problems.iter().any(|p| p.contains("skip"));
            let oracle = if problems.is_empty() { Ok(()) } else { Err(problems.join(" || ")) };
            out.case(&format!("filters-{}", case_no), &["block-filters", what, if start <= fin_index as u64 * interval { "cached-regime" } else { "latest-regime" }],
                &format!("(run_filters {} {})", world_term, msg_term), &v, oracle,
                &format!("world {}: chain {} blocks, {} proven peers (quorum {}), finalized index {}, min filtered {}, BlockFilters(start {}, {} filters, {} hashes) [{}]", world, len, n_peers, required, fin_index, min_before, start, filters.len(), hashes.len(), what));
            case_no += 1;
            if r.panicked || skipped { break; }
        }
    }
}


/// Model/MatchedBlocks.v, invariant [table_inv]: the in-memory download table is empty or mirrors the EARLIEST pending record
/// (the precondition under which SyncProtocol's expect / assert_eq / assert cannot fire)
pub(crate) fn table_problem(net: &Net) -> Option<String> {
    use std::collections::HashSet;
    let mem: HashSet<Vec<u8>> = net.peers.matched_blocks().read().ok()?.keys().map(|h| h.as_bytes().to_vec()).collect();
    if mem.is_empty() { return None; }
    match net.storage.get_earliest_matched_blocks() {
        None => Some(format!("[C10-table-does-not-mirror-earliest-record] the in-memory download table holds {} hashes although no matched-blocks record is pending: the next SendBlock that completes it aborts at expect(\"get matched blocks from storage\")", mem.len())),
        Some((start, _, blocks)) => {
            let rec: HashSet<Vec<u8>> = blocks.iter().map(|b| b.0.as_slice().to_vec()).collect();
            if rec != mem { Some(format!("[C10-table-does-not-mirror-earliest-record] the in-memory download table ({} hashes) is not the image of the earliest pending record (start {}, {} hashes): SyncProtocol's assert_eq / assert on completion can fire", mem.len(), start, rec.len())) } else { None }
        }
    }
}

/// every registered script's index against the chain, up to the number get_scripts reports for it
fn index_problem(net: &Net, bc: &BodyChain, pool: &[packed::Script], reg: &[(usize, bool, u64)], what: &str) -> Option<String> {
    let mut problems: Vec<String> = Vec::new();
    for ss in net.storage.get_filter_scripts() {
                let sid = pool.iter().position(|s| s == &ss.script).unwrap();
                let is_lock = ss.script_type == ScriptType::Lock;
                let from = reg.iter().find(|r| r.0 == sid && r.1 == is_lock).map(|r| r.2).unwrap_or(0);
                let expect = bc.live_cells(&pool[sid], is_lock, from, ss.block_number);
                let got = indexed_cells(&net, &pool[sid], is_lock);
                // cells created above the recorded number may be indexed already (a later block of the same batch); only look up to it
                let got_upto: Vec<_> = got.iter().filter(|c| c.0 <= ss.block_number).cloned().collect();
                // cells created at or before the script's start number may be indexed too (a block of the same batch matched
                // for it): they are fine as long as they are live on the chain
                let live_any = bc.live_cells(&pool[sid], is_lock, 0, ss.block_number);
                let missing: Vec<_> = expect.iter().filter(|c| !got_upto.contains(c)).map(|c| (c.0, c.1, c.2)).collect();
                // (what was indexed from blocks at or before the start number is a bonus nobody was promised: a later spend of it
                // need not have been examined yet)
                let phantom: Vec<_> = got_upto.iter().filter(|c| c.0 > from && !live_any.contains(c)).map(|c| (c.0, c.1, c.2)).collect();
                if !missing.is_empty() || !phantom.is_empty() {
                    // the same observation breaks C03 (index misses activity) and C09 (get_scripts reports a height past a skipped block);
                    // the substituted-hash attack is listed once, under C06
                    let class = if what == "substituted-block-hash" { "C06-substituted-block-hash-skips-activity" } else { "C06-skipped-activity] [C03-index-misses-activity-after-sync] [C09-script-reported-past-skipped-block" };
                    problems.push(format!("[{}] script {} ({}) is reported as filtered up to {} (registered from {}), but its index misses {:?} and has extra {:?} ({})", class, sid + 1, if is_lock { "lock" } else { "type" }, ss.block_number, from, missing, phantom, what));
                    break;
                }
            }
    problems.into_iter().next()
}

/// Download order: the bodies of one pending matched record arrive in any order; SyncProtocol must index them in
/// block-number order.  Every block of the record spends the cell its predecessor created and creates the next one, so any two
/// neighbours indexed the wrong way round leave a phantom cell.  One record straddles block 255 / 256 (where byte-wise and
/// numeric order of the packed little-endian number part), one lies at a random place.
fn run_download_order(rng: &mut Rng, out: &mut Out, consensus: &ckb_chain_spec::consensus::Consensus) {
    use ckb_types::bytes::Bytes;
    for (w, first) in [250u64, rng.range(20, 200), 505].iter().enumerate() {
        let first = *first;
        let count = rng.range(8, 14);
        let len = first + count + 2;
        let script = pool_script(7, &[1]);
        let outside = pool_script(9, &[9]);
        let mut all: HashMap<packed::Byte32, packed::Transaction> = HashMap::new();
        let mut prev: Option<packed::Byte32> = None;
        let mut salt = 0u32;
        let chain = super::chain::SynChain::new_with_bodies(flat_plan(((len / 8) + 2) as usize, 8, 5), len, 40_000 + w as u64, 0, &mut |n| {
            salt += 1;
            let inside = n > first && n <= first + count;
            let inputs: Vec<packed::CellInput> = if inside { prev.iter().map(|h| packed::CellInput::new(packed::OutPoint::new(h.clone(), 0), 0)).collect() } else { Vec::new() };
            let output = packed::CellOutput::new_builder().capacity(100u64.pack()).lock(if inside { script.clone() } else { outside.clone() }).build();
            let raw = packed::RawTransaction::new_builder().version(salt.pack()).inputs(inputs.pack()).outputs(vec![output].pack()).outputs_data(vec![Bytes::new().pack()].pack()).build();
            let tx = packed::Transaction::new_builder().raw(raw).build();
            let h = tx.calc_tx_hash();
            all.insert(h.clone(), tx.clone());
            prev = if inside { Some(h) } else { None };
            vec![tx]
        });
        let mut bc = BodyChain { chain, all, filters: Vec::new(), fhashes: Vec::new() };
        bc.derive_pub();
        let mut net = Net::new(&bc.chain, consensus, 5, 2, 10);
        let peer = PeerIndex::new(1);
        if !net.prove_peer(peer, &bc.chain, bc.tip()) { out.stat("c06-order-unproven", &format!("{}", w)); continue; }
        net.storage.update_filter_scripts(vec![ScriptStatus { script: script.clone(), script_type: ScriptType::Lock, block_number: first }], SetScriptsCommand::All);
        let blocks: Vec<(packed::Byte32, bool)> = ((first + 1)..=(first + count)).map(|n| (bc.chain.headers[n as usize].hash(), true)).collect();
        net.storage.add_matched_blocks_and_update_min_filtered_block_number(first + 1, count, blocks.clone(), first + count);
        {
            let mut guard = net.peers.matched_blocks().write().expect("poisoned");
            net.peers.add_matched_blocks(&mut guard, blocks.clone());
        }
        // deliver in a shuffled order
        let mut order: Vec<u64> = ((first + 1)..=(first + count)).collect();
        for i in (1..order.len()).rev() { let j = rng.below(i as u64 + 1) as usize; order.swap(i, j); }
        let mut problems: Vec<String> = Vec::new();
        for n in &order {
            let r = net.sp_recv(peer, send_block_message(bc.chain.block(*n)));
            if r.panicked { problems.push(format!("[C10-handler-panic] SendBlock panicked: {}", super::last_panic())); break; }
            if !r.bans.is_empty() { problems.push(format!("[C05-honest-block-banned] an authentic SendBlock of a proved matched block was answered with a ban {:?}", r.bans)); }
        }
        let number = net.storage.get_filter_scripts().iter().map(|s| s.block_number).next().unwrap_or(0);
        let expect = bc.live_cells(&script, true, first, first + count);
        let got = indexed_cells(&net, &script, true);
        if number != first + count { problems.push(format!("[C03-index-misses-activity-after-sync] after all {} bodies arrived the script is reported at {} instead of {}", count, number, first + count)); }
        if got != expect {
            problems.push(format!("[C03-index-mismatch-after-sync] the bodies of the record {}..={} arrived in the order {:?}; the index holds {:?}, the chain's live cells of the script are {:?}", first + 1, first + count, order,
                got.iter().map(|c| (c.0, c.1, c.2)).collect::<Vec<_>>(), expect.iter().map(|c| (c.0, c.1, c.2)).collect::<Vec<_>>()));
        }
        if !matched_records(&net).is_empty() { problems.push("[C03-index-misses-activity-after-sync] the pending record is still there after all its bodies arrived".into()); }
        let oracle = if problems.is_empty() { Ok(()) } else { Err(problems.join(" || ")) };
        out.case(&format!("order-{}", w), &["download-order", if first < 256 && first + count >= 256 { "straddles-256" } else if first < 512 && first + count >= 512 { "straddles-512" } else { "plain" }], "(VN 1)", &Val::n(1), oracle,
            &format!("record {}..={} of a spend chain, bodies delivered in the order {:?}", first + 1, first + count, order));
    }
}


/// The answer to GetBlocks carries the PROVEN header of a matched block with another body (the registered script's transaction
/// dropped).  It must not be indexed, must not complete the record and must not raise the script numbers; the authentic block sent
/// afterwards must still be indexed.
fn run_substituted_body(rng: &mut Rng, out: &mut Out, consensus: &ckb_chain_spec::consensus::Consensus) {
    use ckb_types::bytes::Bytes;
    for w in 0..3u64 {
        let first = rng.range(12, 30);
        let len = first + 12;
        let script = pool_script(7, &[2]);
        let outside = pool_script(9, &[8]);
        let mut all: HashMap<packed::Byte32, packed::Transaction> = HashMap::new();
        let mut salt = 0u32;
        let chain = super::chain::SynChain::new_with_bodies(flat_plan(((len / 8) + 2) as usize, 8, 5), len, 43_000 + w, 0, &mut |_n| {
            let mut txs = Vec::new();
            for lock in [outside.clone(), script.clone()] {
                salt += 1;
                let output = packed::CellOutput::new_builder().capacity(100u64.pack()).lock(lock).build();
                let raw = packed::RawTransaction::new_builder().version(salt.pack()).outputs(vec![output].pack()).outputs_data(vec![Bytes::new().pack()].pack()).build();
                let tx = packed::Transaction::new_builder().raw(raw).build();
                all.insert(tx.calc_tx_hash(), tx.clone());
                txs.push(tx);
            }
            txs
        });
        let mut bc = BodyChain { chain, all, filters: Vec::new(), fhashes: Vec::new() };
        bc.derive_pub();
        let mut net = Net::new(&bc.chain, consensus, 5, 1, 10);
        let peer = PeerIndex::new(1);
        if !net.prove_peer(peer, &bc.chain, bc.tip()) { out.stat("c06-substituted-body-unproven", &format!("{}", w)); continue; }
        net.storage.update_filter_scripts(vec![ScriptStatus { script: script.clone(), script_type: ScriptType::Lock, block_number: first }], SetScriptsCommand::All);
        net.peers.update_min_filtered_block_number(first);
        let hs: Vec<packed::Byte32> = (1..=bc.tip()).map(|j| bc.fhashes[j as usize].clone()).collect();
        net.peers.mock_latest_block_filter_hashes(peer, 0, hs);
        let mut problems: Vec<String> = Vec::new();
        let m = serve_block_filters(&bc, first + 1, 3);
        let r1 = net.fp_recv(peer, filters_message(m));
        if r1.panicked || matched_records(&net).len() != 1 { out.stat("c06-substituted-body-no-record", &format!("{}", w)); continue; }
        // the proof request is answered honestly; the first GetBlocks is answered with the substituted body
        let mut queue = r1.sent;
        let mut asked: Vec<packed::Byte32> = Vec::new();
        for _ in 0..4 {
            let mut next = Vec::new();
            for (p, s) in queue {
                match s {
                    Sent::GetBlocksProof(req) => { if let Some(resp) = serve_blocks_proof(&bc.chain, &req) { let r = net.lc_recv(p, blocks_proof_message(resp)); next.extend(r.sent); } }
                    Sent::GetBlocks(hashes) => { asked.extend(hashes); }
                    _ => {}
                }
            }
            queue = next;
            if !asked.is_empty() || queue.is_empty() { break; }
        }
        let target = match asked.iter().filter_map(|h| bc.chain.number_of(h)).min() { Some(n) => n, None => { out.stat("c06-substituted-body-no-download", &format!("{}", w)); continue; } };
        let genuine = bc.chain.block(target);
        let variant = w % 3;
        let kept: Vec<packed::Transaction> = match variant { 0 => vec![bc.chain.bodies[target as usize][0].clone()], 1 => Vec::new(), _ => { let mut t = bc.chain.bodies[target as usize].clone(); t.reverse(); t } };
        let forged = genuine.clone().as_builder().transactions(kept.pack()).build();
        let numbers_before: Vec<u64> = net.storage.get_filter_scripts().iter().map(|s| s.block_number).collect();
        let r2 = net.sp_recv(peer, send_block_message(forged));
        if r2.panicked { problems.push(format!("[C10-handler-panic] SendBlock with a substituted body panicked: {}", super::last_panic())); }
        let numbers_after: Vec<u64> = net.storage.get_filter_scripts().iter().map(|s| s.block_number).collect();
        let still_pending = matched_records(&net).iter().any(|(_, _, blocks)| blocks.iter().any(|(h, _)| bc.chain.number_of(h) == Some(target)));
        if !still_pending || numbers_after != numbers_before {
            problems.push(format!("[C06-substituted-body-accepted] [C02-substituted-body-accepted] the proven header of block {} with another body ({}) was processed: record pending {} script numbers {:?} -> {:?}",
                target, ["the script's transaction dropped", "no transactions", "transactions reversed"][variant as usize], still_pending, numbers_before, numbers_after));
        }
        // now the authentic blocks
        let mut q2: Vec<(PeerIndex, Sent)> = vec![(peer, Sent::GetBlocks(asked.clone()))];
        q2.extend(r2.sent);
        pump_downloads(&mut net, &bc, q2, &mut problems);
        for n in first + 1..=first + 3 {
            let h = bc.chain.bodies[n as usize][1].calc_tx_hash();
            if net.storage.get_transaction_with_header(&h).is_none() {
                problems.push(format!("[C06-script-activity-skipped] block {} pays to the registered script and its transaction is not in the index after the authentic blocks were served (script numbers {:?})", n, net.storage.get_filter_scripts().iter().map(|s| s.block_number).collect::<Vec<_>>()));
                break;
            }
        }
        let oracle = if problems.is_empty() { Ok(()) } else { Err(problems.join(" || ")) };
        out.case(&format!("substituted-body-{}", w), &["substituted-body"], "(VN 1)", &Val::n(1), oracle,
            &format!("batch {}..{} matches; GetBlocks for block {} answered with its proven header and another body (variant {}), then with the authentic blocks", first + 1, first + 3, target, variant));
    }
}

/// A record pending in the store only (restart / rollback window: the download table is empty), then another batch with matches,
/// then the body of one of ITS blocks: the table has to be loaded from the EARLIEST record (Model/MatchedBlocks.v, table_inv), and
/// the body of a block the table does not hold is ignored - not asserted on.
fn run_pending_in_store_only(rng: &mut Rng, out: &mut Out, consensus: &ckb_chain_spec::consensus::Consensus) {
    use ckb_types::bytes::Bytes;
    for w in 0..2u64 {
        let first = rng.range(12, 30);
        let len = first + 12;
        let script = pool_script(7, &[1]);
        let outside = pool_script(9, &[9]);
        let mut all: HashMap<packed::Byte32, packed::Transaction> = HashMap::new();
        let mut salt = 0u32;
        let chain = super::chain::SynChain::new_with_bodies(flat_plan(((len / 8) + 2) as usize, 8, 5), len, 41_000 + w, 0, &mut |n| {
            salt += 1;
            let output = packed::CellOutput::new_builder().capacity(100u64.pack()).lock(if n > first { script.clone() } else { outside.clone() }).build();
            let raw = packed::RawTransaction::new_builder().version(salt.pack()).outputs(vec![output].pack()).outputs_data(vec![Bytes::new().pack()].pack()).build();
            let tx = packed::Transaction::new_builder().raw(raw).build();
            all.insert(tx.calc_tx_hash(), tx.clone());
            vec![tx]
        });
        let mut bc = BodyChain { chain, all, filters: Vec::new(), fhashes: Vec::new() };
        bc.derive_pub();
        let mut net = Net::new(&bc.chain, consensus, 5, 1, 10);
        let peer = PeerIndex::new(1);
        if !net.prove_peer(peer, &bc.chain, bc.tip()) { out.stat("c06-pending-unproven", &format!("{}", w)); continue; }
        net.storage.update_filter_scripts(vec![ScriptStatus { script: script.clone(), script_type: ScriptType::Lock, block_number: first }], SetScriptsCommand::All);
        net.peers.update_min_filtered_block_number(first);
        let hs: Vec<packed::Byte32> = (1..=bc.tip()).map(|j| bc.fhashes[j as usize].clone()).collect();
        net.peers.mock_latest_block_filter_hashes(peer, 0, hs);
        let mut problems: Vec<String> = Vec::new();
        let batch = |net: &mut Net, start: u64, n: u64| { let m = serve_block_filters(&bc, start, n); net.fp_recv(peer, filters_message(m)) };
        let r1 = batch(&mut net, first + 1, 3);
        if r1.panicked || matched_records(&net).len() != 1 { out.stat("c06-pending-no-first-record", &format!("{}", w)); continue; }
        // the window: the table is gone, the record is not
        if let Ok(mut g) = net.peers.matched_blocks().write() { g.clear(); }
        let r2 = batch(&mut net, first + 4, 3);
        if r2.panicked { problems.push(format!("[C10-filter-panic] BlockFilters made the handler panic: {}", super::last_panic())); }
        if let Some(p) = table_problem(&net) { problems.push(p); }
        // the body of a block of the SECOND record
        let r3 = net.sp_recv(peer, send_block_message(bc.chain.block(first + 5)));
        if r3.panicked { problems.push(format!("[C10-handler-panic] SendBlock for a block of a later pending record, while an earlier record is pending in the store only, made the handler panic: {}", super::last_panic())); }
        let oracle = if problems.is_empty() { Ok(()) } else { Err(problems.join(" || ")) };
        out.case(&format!("pending-only-{}", w), &["pending-in-store-only"], "(VN 1)", &Val::n(1), oracle,
            &format!("record {}..{} pending in the store only, then a batch {}..{} with matches, then the body of block {}", first + 1, first + 3, first + 4, first + 6, first + 5));
    }
}
