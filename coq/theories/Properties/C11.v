From LC Require Import System.
Open Scope N_scope.
Theorem C11_placeholder : forall s now, t_request_last_state s now = None -> get_rq s <> None \/ exists w, s = ReqFirstLS w \/ exists ls ps, s = ReqNewLS ls ps w.
Proof. intros s now. destruct s; cbn; try discriminate; intros _.
 - right. exists when. left. reflexivity.
 - left. discriminate.
 - right. exists when. right. eauto.
 - left. discriminate.
Qed.
Print Assumptions C11_placeholder.
