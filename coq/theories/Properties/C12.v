(* C12 — The stored tip only moves to heavier proven headers with truthful difficulty.
   Model: Model/System.v (all events), Model/LastStateProof.v (commit), Model/StoreCodec.v
   (the bytes that survive a restart). *)
From Coq Require Import NArith List.
From LC Require Import System StoreCodec LastStateProofProofs SystemProofs StoreCodecProofs.
Import ListNotations.
Open Scope N_scope.

(* whatever the event, the store stays or its total difficulty strictly increases *)
Theorem C12_strictly_heavier :
  forall sy now tau ev sy' acts,
    step sy now tau ev = Ok (sy', acts) ->
    sstore sy' = sstore sy \/ st_td (sstore sy) < st_td (sstore sy').
Proof. exact step_store_mono. Qed.
Print Assumptions C12_strictly_heavier.

(* ... hence along every history, from any reachable state *)
Theorem C12_history_heavier :
  forall tau evs sy k sy' acts,
    nth_error (run sy tau evs) k = Some (Ok (sy', acts)) ->
    sstore sy' = sstore sy \/ st_td (sstore sy) < st_td (sstore sy').
Proof. exact run_store_mono. Qed.
Print Assumptions C12_history_heavier.

(* the proof route: the new tip is the requested last header, strictly heavier, and its remembered
   last-N are the ones assembled from the verified response (C01_gate gives the verification) *)
Theorem C12_commit_is_requested_header :
  forall st new_ps st' rb,
    commit st new_ps = Ok (true, st', rb) ->
    st' = st \/
    (exists ntd, vtd (ps_last new_ps) = Ok ntd /\ st_td st < ntd /\
       st_td st' = ntd /\ st_tip st' = key_of (ps_last new_ps) /\ st_lastn st' = ps_lasts new_ps).
Proof. exact commit_store. Qed.
Print Assumptions C12_commit_is_requested_header.

(* the child fast path: the store moves only to a PoW-valid, root-committing child of the header this
   peer has proven, whose chain root ends at that parent with exactly the parent's total difficulty;
   the stored difficulty is parent total + the child's own block difficulty *)
Theorem C12_child_difficulty_truthful :
  forall sy now p h fresh cts sy' acts,
    on_last_state sy now p h fresh cts = Ok (sy', acts) ->
    sstore sy' <> sstore sy ->
    exists s ps partd,
      find_peer p (peers sy) = Some s /\ get_ps s = Some ps /\
      is_parent_of (ps_last ps) h = Ok true /\
      vtd (ps_last ps) = Ok partd /\ v_ptd h = partd /\ v_rend h = v_num (ps_last ps) /\
      st_td (sstore sy') = partd + v_bd h /\ st_tip (sstore sy') = key_of h /\
      v_pow_ok h = true /\ v_root_ok h = true.
Proof. exact on_last_state_child_truthful. Qed.
Print Assumptions C12_child_difficulty_truthful.

(* a restart keeps the store (and drops every peer) *)
Theorem C12_restart_keeps_store :
  forall sy now tau, step sy now tau EvRestart = Ok (mkSys [] (sstore sy) (last_n_cfg sy), []).
Proof. reflexivity. Qed.
Print Assumptions C12_restart_keeps_store.

(* ... and the bytes written for tip, total difficulty and last-N decode to what was written *)
Theorem C12_restart_same_last_state :
  forall td header, td < 2 ^ 256 -> dec_last_state (enc_last_state td header) = Some (td, header).
Proof. exact dec_enc_last_state. Qed.
Print Assumptions C12_restart_same_last_state.

Theorem C12_restart_same_last_n :
  forall l, Forall wf_entry l -> dec_last_n (length l) (enc_last_n l) = l.
Proof. exact dec_enc_last_n. Qed.
Print Assumptions C12_restart_same_last_n.
