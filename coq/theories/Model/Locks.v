(* C17: operations as sequences of database writes, part of them made while the global lock
   (Peers.matched_blocks, a RwLock taken for writing by set_scripts, BlockFilters processing, SendBlock
   indexing and the fork rollback) is held.  Two operations running on different threads produce some
   schedule of their writes; mutual exclusion orders the two locked parts, the writes an operation makes after
   releasing the lock can fall anywhere among the other operation's writes.
   Generic in the store [S] and the write [W]. *)
From Coq Require Export List.
Export ListNotations.

Section Locks.
  Variables (S W : Type) (apply : S -> W -> S).

  Definition run (s : S) (ws : list W) : S := fold_left apply ws s.

  Record lop := mkLop { locked : list W; unlocked : list W }.    (* the writes under the lock, then those after releasing it *)
  Definition writes (o : lop) : list W := locked o ++ unlocked o.

  (* order-preserving merges of two write sequences *)
  Inductive merge : list W -> list W -> list W -> Prop :=
  | merge_nil_l l : merge [] l l
  | merge_nil_r l : merge l [] l
  | merge_l a l1 l2 m : merge l1 l2 m -> merge (a :: l1) l2 (a :: m)
  | merge_r b l1 l2 m : merge l1 l2 m -> merge l1 (b :: l2) (b :: m).

  (* the schedules two concurrent operations can produce *)
  Definition schedule (a b : lop) (sched : list W) : Prop :=
    (exists m, merge (unlocked a) (writes b) m /\ sched = locked a ++ m) \/
    (exists m, merge (unlocked b) (writes a) m /\ sched = locked b ++ m).

  Definition commute (u w : W) : Prop := forall s, apply (apply s u) w = apply (apply s w) u.
End Locks.
