From Coq Require Import NArith ZArith Lia List Arith.
From LC Require Import StoreCodec.
Import ListNotations.
Open Scope N_scope.
Ltac Zify.zify_post_hook ::= Z.div_mod_to_equations.

Lemma le_bytes_length n x : length (le_bytes n x) = n.
Proof. revert x; induction n as [|n IH]; intros x; cbn [le_bytes length]; [reflexivity | rewrite IH; reflexivity]. Qed.

Lemma of_le_bytes n : forall x, x < 256 ^ N.of_nat n -> of_le (le_bytes n x) = x.
Proof.
  induction n as [|n IH]; intros x H; cbn [le_bytes of_le].
  - cbn in H. lia.
  - rewrite Nat2N.inj_succ, N.pow_succ_r' in H.
    rewrite IH; [|apply N.div_lt_upper_bound; lia].
    pose proof (N.div_mod x 256 ltac:(lia)). lia.
Qed.

Lemma dec_enc_last_state td header :
  td < 2 ^ 256 -> dec_last_state (enc_last_state td header) = Some (td, header).
Proof.
  intros H. unfold dec_last_state, enc_last_state.
  rewrite app_length, le_bytes_length.
  destruct (Nat.ltb_spec (32 + length header) 32) as [L|_]; [lia|].
  rewrite firstn_app, le_bytes_length, Nat.sub_diag, firstn_O, app_nil_r.
  rewrite firstn_all2 by (rewrite le_bytes_length; lia).
  rewrite skipn_app, le_bytes_length, Nat.sub_diag, skipn_O.
  rewrite skipn_all2 by (rewrite le_bytes_length; lia).
  rewrite of_le_bytes; [reflexivity|]. change (256 ^ N.of_nat 32) with (2 ^ 256). exact H.
Qed.

Definition wf_entry (e : N * list N) : Prop := fst e < 2 ^ 64 /\ length (snd e) = 32%nat.

Lemma dec_last_n_step f (e rest : list N) :
  length e = 40%nat ->
  dec_last_n (S f) (e ++ rest) = (of_le (firstn 8 e), firstn 32 (skipn 8 e)) :: dec_last_n f rest.
Proof.
  intros L. cbn [dec_last_n].
  destruct (e ++ rest) as [|a v] eqn:E.
  - exfalso. apply (f_equal (@length N)) in E. rewrite app_length, L in E. cbn in E. lia.
  - rewrite <- E. f_equal.
    + f_equal.
      * rewrite firstn_app, L. change (8 - 40)%nat with 0%nat. rewrite firstn_O, app_nil_r. reflexivity.
      * rewrite skipn_app, L. change (8 - 40)%nat with 0%nat. rewrite skipn_O.
        rewrite firstn_app, skipn_length, L. change (32 - (40 - 8))%nat with 0%nat.
        rewrite firstn_O, app_nil_r. reflexivity.
    + rewrite skipn_app, L, Nat.sub_diag, skipn_O. rewrite skipn_all2 by lia. reflexivity.
Qed.

Lemma dec_enc_last_n l :
  Forall wf_entry l -> dec_last_n (length l) (enc_last_n l) = l.
Proof.
  induction l as [|[n h] tl IH]; intros H; [reflexivity|].
  inversion H as [|? ? [Hn Hh] Htl]; subst. cbn [fst snd] in *.
  cbn [enc_last_n flat_map length]. fold (enc_last_n tl).
  assert (L8 : length (le_bytes 8 n) = 8%nat) by apply le_bytes_length.
  rewrite dec_last_n_step by (unfold enc_entry; cbn [fst snd]; rewrite app_length, L8, Hh; reflexivity).
  rewrite IH by exact Htl. unfold enc_entry; cbn [fst snd]. f_equal. f_equal.
  - rewrite firstn_app, L8, Nat.sub_diag, firstn_O, app_nil_r. rewrite firstn_all2 by lia.
    apply of_le_bytes. change (256 ^ N.of_nat 8) with (2 ^ 64). exact Hn.
  - rewrite skipn_app, L8, Nat.sub_diag, skipn_O. rewrite skipn_all2 by lia. cbn [app].
    apply firstn_all2. lia.
Qed.
