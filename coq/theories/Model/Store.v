(* Structured model of the script / cell index of src/storage.rs:
   update_filter_scripts, update_block_number, filter_block, rollback_to_block, add_fetched_tx,
   update_min_filtered_block_number, matched-block records.
   Scripts and transactions are identified by numbers (the harness interns script bytes and hashes);
   a key of the cell index is (script type, script, block number, tx index, output index), a key of the
   transaction history additionally carries io type (0 input / 1 output), exactly the fields
   Key::{CellLockScript, CellTypeScript, TxLockScript, TxTypeScript} encode. *)
From LC Require Export U.
From Coq Require Export List Bool.
Export ListNotations.
Open Scope N_scope.
Open Scope bool_scope.

Definition sid := N.     (* script identity (code hash, hash type, args) *)
Definition txid := N.    (* transaction hash *)

Record output := mkOut { o_lock : sid; o_type : option sid }.
Record tx := mkTx { t_id : txid; t_inputs : list (txid * N); t_outputs : list output }.
Record block := mkBlock { b_number : N; b_txs : list tx }.

(* script type: 0 = lock, 1 = type *)
Record script_status := mkSS { ss_script : sid; ss_type : N; ss_number : N }.

Definition ckey : Type := N * sid * N * N * N.           (* stype, script, block, tx index, out index *)
Definition hkey : Type := N * sid * N * N * N * N.       (* ... io index, io type *)

Record store := mkSt {
  scripts : list script_status;
  cells : list (ckey * txid);
  history : list (hkey * txid);
  txs : list (txid * (N * N * tx));          (* TxHash -> (block number, tx index, transaction) *)
  headers : list N;                           (* block numbers with a stored header (BlockNumber keys) *)
  min_filtered : N;
  matched : list N                            (* start numbers of pending matched-block records *)
}.

Definition ckey_eqb (a b : ckey) : bool :=
  let '(a1, a2, a3, a4, a5) := a in let '(b1, b2, b3, b4, b5) := b in
  (a1 =? b1) && (a2 =? b2) && (a3 =? b3) && (a4 =? b4) && (a5 =? b5).
Definition hkey_eqb (a b : hkey) : bool :=
  let '(a1, a2, a3, a4, a5, a6) := a in let '(b1, b2, b3, b4, b5, b6) := b in
  (a1 =? b1) && (a2 =? b2) && (a3 =? b3) && (a4 =? b4) && (a5 =? b5) && (a6 =? b6).

(* association lists with put = overwrite, delete = remove (a RocksDB key space) *)
Section Assoc.
  Context {K V : Type} (eqb : K -> K -> bool).
  Fixpoint a_del (k : K) (l : list (K * V)) : list (K * V) :=
    match l with [] => [] | (k', v) :: tl => if eqb k k' then a_del k tl else (k', v) :: a_del k tl end.
  Definition a_put (k : K) (v : V) (l : list (K * V)) : list (K * V) := (k, v) :: a_del k l.
  Fixpoint a_get (k : K) (l : list (K * V)) : option V :=
    match l with [] => None | (k', v) :: tl => if eqb k k' then Some v else a_get k tl end.
End Assoc.

Definition registered (st : store) (stype : N) (s : sid) : bool :=
  existsb (fun x => (ss_script x =? s) && (ss_type x =? stype)) (scripts st).

(* a WriteBatch: operations applied in order at commit *)
Inductive wop :=
| W_del_cell (k : ckey)
| W_put_cell (k : ckey) (t : txid)
| W_put_hist (k : hkey) (t : txid)
| W_del_hist (k : hkey)
| W_put_tx (t : txid) (v : N * N * tx)
| W_put_header (n : N)
| W_set_script (s : sid) (stype : N) (n : N)
| W_set_min (n : N).

Definition set_script (s : sid) (stype n : N) (l : list script_status) : list script_status :=
  map (fun x => if (ss_script x =? s) && (ss_type x =? stype) then mkSS s stype n else x) l.

Definition apply_op (st : store) (op : wop) : store :=
  match op with
  | W_del_cell k => mkSt (scripts st) (a_del ckey_eqb k (cells st)) (history st) (txs st) (headers st) (min_filtered st) (matched st)
  | W_put_cell k t => mkSt (scripts st) (a_put ckey_eqb k t (cells st)) (history st) (txs st) (headers st) (min_filtered st) (matched st)
  | W_put_hist k t => mkSt (scripts st) (cells st) (a_put hkey_eqb k t (history st)) (txs st) (headers st) (min_filtered st) (matched st)
  | W_del_hist k => mkSt (scripts st) (cells st) (a_del hkey_eqb k (history st)) (txs st) (headers st) (min_filtered st) (matched st)
  | W_put_tx t v => mkSt (scripts st) (cells st) (history st) (a_put N.eqb t v (txs st)) (headers st) (min_filtered st) (matched st)
  | W_put_header n => mkSt (scripts st) (cells st) (history st) (txs st) (if existsb (N.eqb n) (headers st) then headers st else n :: headers st) (min_filtered st) (matched st)
  | W_set_script s ty n => mkSt (set_script s ty n (scripts st)) (cells st) (history st) (txs st) (headers st) (min_filtered st) (matched st)
  | W_set_min n => mkSt (scripts st) (cells st) (history st) (txs st) (headers st) n (matched st)
  end.

Definition commit (st : store) (ops : list wop) : store := fold_left apply_op ops st.

(* ---- filter_block ---- *)

(* the previous transaction of an input: the earlier transactions of this block first (their position in this
   block is authoritative, whatever a fetched or abandoned-branch record says), then the store *)
Definition find_prev (st : store) (bn : N) (local : list (txid * (N * tx))) (prev : txid) : option (N * N * tx) :=
  match a_get N.eqb prev local with
  | Some (ti, t) => Some (bn, ti, t)
  | None => a_get N.eqb prev (txs st)
  end.

Definition input_ops (st : store) (bn ti : N) (t : tx) (local : list (txid * (N * tx))) (ii : N) (inp : txid * N) : list wop :=
  match find_prev st bn local (fst inp) with
  | None => []
  | Some (gbn, gti, ptx) =>
      match nth_error (t_outputs ptx) (N.to_nat (snd inp)) with
      | None => []
      | Some po =>
          (if registered st 0 (o_lock po)
           then [W_del_cell (0, o_lock po, gbn, gti, snd inp); W_put_hist (0, o_lock po, bn, ti, ii, 0) (t_id t); W_put_tx (t_id t) (bn, ti, t)]
           else [])
          ++ match o_type po with
             | Some s => if registered st 1 s
                         then [W_del_cell (1, s, gbn, gti, snd inp); W_put_hist (1, s, bn, ti, ii, 0) (t_id t); W_put_tx (t_id t) (bn, ti, t)]
                         else []
             | None => []
             end
      end
  end.

Definition output_ops (st : store) (bn ti : N) (t : tx) (oi : N) (o : output) : list wop :=
  (if registered st 0 (o_lock o)
   then [W_put_cell (0, o_lock o, bn, ti, oi) (t_id t); W_put_hist (0, o_lock o, bn, ti, oi, 1) (t_id t); W_put_tx (t_id t) (bn, ti, t)]
   else [])
  ++ match o_type o with
     | Some s => if registered st 1 s
                 then [W_put_cell (1, s, bn, ti, oi) (t_id t); W_put_hist (1, s, bn, ti, oi, 1) (t_id t); W_put_tx (t_id t) (bn, ti, t)]
                 else []
     | None => []
     end.

Fixpoint indexed {A} (i : N) (l : list A) : list (N * A) :=
  match l with [] => [] | a :: tl => (i, a) :: indexed (i + 1) tl end.

Definition tx_ops (st : store) (bn ti : N) (t : tx) (local : list (txid * (N * tx))) : list wop :=
  flat_map (fun p => input_ops st bn ti t local (fst p) (snd p)) (indexed 0 (t_inputs t))
  ++ flat_map (fun p => output_ops st bn ti t (fst p) (snd p)) (indexed 0 (t_outputs t)).

Fixpoint block_ops (st : store) (bn : N) (l : list (N * tx)) (local : list (txid * (N * tx))) : list wop :=
  match l with
  | [] => []
  | (ti, t) :: tl => tx_ops st bn ti t local ++ block_ops st bn tl (a_put N.eqb (t_id t) (ti, t) local)
  end.

Definition filter_block (st : store) (b : block) : store :=
  let ops := block_ops st (b_number b) (indexed 0 (b_txs b)) [] in
  commit st (ops ++ match ops with [] => [] | _ => [W_put_header (b_number b)] end).

(* ---- rollback_to_block ---- *)

Definition hkey_le_desc (a b : hkey * txid) : bool :=
  (* descending (block, tx index, io index, io type): the reverse iteration order within one script *)
  let '((_, _, a3, a4, a5, a6), _) := a in let '((_, _, b3, b4, b5, b6), _) := b in
  (b3 <? a3) || ((b3 =? a3) && ((b4 <? a4) || ((b4 =? a4) && ((b5 <? a5) || ((b5 =? a5) && (b6 <=? a6)))))).

Fixpoint insert_desc (x : hkey * txid) (l : list (hkey * txid)) : list (hkey * txid) :=
  match l with [] => [x] | y :: tl => if hkey_le_desc x y then x :: l else y :: insert_desc x tl end.

Definition script_history_desc (st : store) (stype : N) (s : sid) (to : N) : list (hkey * txid) :=
  fold_right insert_desc []
    (filter (fun e => let '((a1, a2, a3, _, _, _), _) := e in (a1 =? stype) && (a2 =? s) && (to <=? a3)) (history st)).

Definition rollback_entry_ops (st : store) (stype : N) (s : sid) (e : hkey * txid) : res (list wop) :=
  let '((_, _, bn, ti, ci, io), t) := e in
  if io =? 0 then
    match a_get N.eqb t (txs st) with
    | None => Panic 906    (* expect("stored transaction history") *)
    | Some (_, _, tr) =>
        match nth_error (t_inputs tr) (N.to_nat ci) with
        | None => Panic 907  (* inputs().get(cell_index).unwrap() *)
        | Some inp =>
            let restore :=
              match a_get N.eqb (fst inp) (txs st) with
              | Some (gbn, gti, _) => [W_put_cell (stype, s, gbn, gti, snd inp) (fst inp)]
              | None => []
              end in
            Ok (restore ++ [W_del_hist (stype, s, bn, ti, ci, 0)])
        end
    end
  else Ok [W_del_cell (stype, s, bn, ti, ci); W_del_hist (stype, s, bn, ti, ci, 1)].

Fixpoint map_res_ops (f : hkey * txid -> res (list wop)) (l : list (hkey * txid)) : res (list wop) :=
  match l with
  | [] => Ok []
  | e :: tl => let* a := f e in let* b := map_res_ops f tl in Ok (a ++ b)
  end.

Fixpoint rollback_scripts (st : store) (to : N) (l : list script_status) : res (list wop) :=
  match l with
  | [] => Ok []
  | ss :: tl =>
      (* every script's history is scanned (repair: entries above the recorded number exist after a crash between
         filter_block and update_block_number); only the recorded number of a script at or above [to] is reset *)
      let* a := map_res_ops (rollback_entry_ops st (ss_type ss) (ss_script ss))
                            (script_history_desc st (ss_type ss) (ss_script ss) to) in
      let* b := rollback_scripts st to tl in
      Ok (a ++ (if to <=? ss_number ss then [W_set_script (ss_script ss) (ss_type ss) to] else []) ++ b)
  end.

Definition rollback_to_block (st : store) (to : N) : res store :=
  let* ops := rollback_scripts st to (scripts st) in
  Ok (commit st (ops ++ if to <=? min_filtered st then [W_set_min (to - 1)] else [])).

(* ---- scripts ---- *)

(* command: 0 = all, 1 = partial, 2 = delete; duplicates in the argument: the last one wins (one batch) *)
Fixpoint upsert_scripts (new : list script_status) (l : list script_status) : list script_status :=
  match new with
  | [] => l
  | ss :: tl =>
      let l' := if registered (mkSt l [] [] [] [] 0 []) (ss_type ss) (ss_script ss)
                then set_script (ss_script ss) (ss_type ss) (ss_number ss) l
                else l ++ [ss] in
      upsert_scripts tl l'
  end.

Definition remove_scripts (del : list script_status) (l : list script_status) : list script_status :=
  filter (fun x => negb (existsb (fun d => (ss_script d =? ss_script x) && (ss_type d =? ss_type x)) del)) l.

Definition min_list (l : list N) : option N :=
  match l with [] => None | a :: tl => Some (fold_right N.min a tl) end.

(* returns the store and whether the genesis block must be re-filtered (done by the caller, who has the block) *)
Definition update_filter_scripts (st : store) (new : list script_status) (cmd : N) : store * bool :=
  let with_scripts s := mkSt s (cells st) (history st) (txs st) (headers st) (min_filtered st) (matched st) in
  let finish (keep : bool) (s : list script_status) (mn : option N) (genesis : bool) : store * bool :=
    (* fix commit: with kept scripts, pending matched blocks are re-synced from the earliest record *)
    let mn' :=
      if keep then
        match min_list (matched st) with
        | Some start =>
            let rewind := start - 1 in
            let current := match mn with Some n => n | None => min_filtered st end in
            if rewind <? current then Some rewind else mn
        | None => mn
        end
      else mn in
    (mkSt s (cells st) (history st) (txs st) (headers st)
          (match mn' with Some n => n | None => min_filtered st end) [], genesis) in
  if cmd =? 0 then
    finish false (upsert_scripts new []) (min_list (map ss_number new)) (existsb (fun x => ss_number x =? 0) new)
  else if cmd =? 1 then
    match new with
    | [] => (st, false)
    | _ =>
        let mscript := min_list (map ss_number new) in
        let mn := match scripts st with
                  | [] => mscript
                  | _ => option_map (fun n => N.min n (min_filtered st)) mscript
                  end in
        finish true (upsert_scripts new (scripts st)) mn (match mscript with Some 0 => true | _ => false end)
    end
  else
    match new with
    | [] => (st, false)
    | _ => finish true (remove_scripts new (scripts st)) None false
    end.

Definition update_block_number (st : store) (n : N) : store :=
  mkSt (map (fun x => if ss_number x <? n then mkSS (ss_script x) (ss_type x) n else x) (scripts st))
       (cells st) (history st) (txs st) (headers st) (min_filtered st) (matched st).

(* add_fetched_tx: the transaction index is u32::MAX *)
Definition add_fetched_tx (st : store) (t : tx) (bn : N) : store :=
  (* fix commit dd74d43: an already stored transaction keeps its (block number, index) *)
  commit st (W_put_header bn :: match a_get N.eqb (t_id t) (txs st) with
                               | Some _ => []
                               | None => [W_put_tx (t_id t) (bn, U32MAX, t)]
                               end).
