(* C07 — Check points are finalized only by quorum agreement and never change afterwards.
   Model: Model/CheckPoints.v.  [required] = ceil(max_outbound / 2) is an input; the value the code
   picks among equally frequent candidates (HashMap order) is an input too ([chosen]) and every theorem
   holds for all of them. *)
From Coq Require Import NArith List Bool.
From LC Require Import CheckPoints CheckPointsProofs.
Import ListNotations.
Open Scope N_scope.

(* every value finalized by a refresh tick — together with all values finalized before it in the same
   tick, i.e. every check point since the previously final one — is reported by at least [required]
   proven peers that also report the previously final value at the final index *)
Theorem C07_quorum :
  forall required peers last_idx last_cp chosen k,
    (k < length (fo_written (finalize required peers last_idx last_cp chosen)))%nat ->
    (required <= length (filter (agrees_from 1 (firstn (S k) (fo_written (finalize required peers last_idx last_cp chosen))))
                                (kept_of last_idx last_cp peers)))%nat.
Proof. exact finalize_quorum. Qed.
Print Assumptions C07_quorum.

(* the peers counted above really carry the previously final value at the final index *)
Theorem C07_kept_agree_with_final :
  forall last_idx last_cp p t rest,
    clean_one last_idx last_cp p = C_keep t rest ->
    pc_start p <= last_idx /\ t = last_idx - pc_start p /\
    nth_error (pc_cps p) (N.to_nat t) = Some last_cp /\ rest = skipn (N.to_nat t) (pc_cps p).
Proof. exact clean_keep_spec. Qed.
Print Assumptions C07_kept_agree_with_final.

(* once final, never rewritten; the final index never decreases: the write starts at last_idx + 1 *)
Theorem C07_immutable :
  forall required peers last_idx last_cp chosen,
    let o := finalize required peers last_idx last_cp chosen in
    fo_new_max o = last_idx + lenN (fo_written o) /\ last_idx <= fo_new_max o.
Proof. exact finalize_monotone. Qed.
Print Assumptions C07_immutable.

(* a proven peer contradicting the final value (or claiming to start after it) is banned whenever
   enough peers are present for finalization to run *)
Theorem C07_contradiction_banned :
  forall required peers last_idx last_cp chosen p,
    (required <= length peers)%nat -> In p peers ->
    (last_idx < pc_start p \/
     exists v, nth_error (pc_cps p) (N.to_nat (last_idx - pc_start p)) = Some v /\ v <> last_cp) ->
    In (pc_id p) (fo_bans (finalize required peers last_idx last_cp chosen)).
Proof.
  intros required peers last_idx last_cp chosen p Hn Hin Hc.
  apply finalize_bans; try assumption. apply clean_ban_spec. exact Hc.
Qed.
Print Assumptions C07_contradiction_banned.

(* a peer's own vector is append-only *)
Theorem C07_peer_vector_append_only :
  forall interval c lp start new c' next,
    add_check_points interval c lp start new = Ok (c', next) ->
    cp_first c' = cp_first c /\ exists ext, cp_list c' = cp_list c ++ ext /\ (length ext <= length new - 1)%nat.
Proof. exact add_check_points_appends. Qed.
Print Assumptions C07_peer_vector_append_only.

(* non-vacuity: capacity 3 (quorum 2), two peers agree on [7; 8], one deviates at the second value *)
Example C07_example :
  let o := finalize 2 [mkPC 1 0 [5; 7; 8]; mkPC 2 0 [5; 7; 8; 9]; mkPC 3 0 [5; 7; 99]] 0 5 [7; 8] in
  fo_written o = [7; 8] /\ fo_new_max o = 2 /\ fo_legal o = true /\ fo_bans o = [].
Proof. vm_compute. repeat split. Qed.
